import GrinVerif.Lemmas.NrdRun
import GrinVerif.Lemmas.NrdChain
import GrinVerif.Lemmas.NrdWalk
/-! Property C13, clause "a no-recent-duplicate kernel is refused if the same excess occurred fewer
than its relative height blocks earlier **on the same fork** … re-evaluated correctly when blocks
are re-applied or rewound during a reorganisation" — for the data structure the node really uses:
the persistent per-excess linked list of chain/src/linked_list.rs (model: `Model/NrdIndex.lean`).

1. representation invariant `Inv`, for every history;
2. refinement: every operation commutes with `abs` (the list read from the head pointer) and the
   specification on per-excess lists; `peek_pos = head? ∘ abs`;
3. fork correctness: rewinding to a fork point and applying the other branch = building the other
   path from scratch = the path search `pathEntries`;
4. rebuild (`verify_kernel_pos_index` / `init_recent_kernel_pos_index`) = the lists cut at the window;
5. error branches characterised; an error of a primitive leaves the store unchanged.

6. the connection with the specification the chain model decides NRD with (`GV.Chain.nrdBad`
   over `UState.nrd`, `Model/Chain.lean`; imported, not restated).

**Finding (not a violation of C13):** "no stray records" is *not* part of the invariant because it
is false for the real code — `pop_pos` on a two-element list deletes the head record and rewrites
the list record to `Single`, leaving the `Tail` record of the surviving element in the store
(`pop_pos_back` likewise leaves the `Head` record).  `stale_record_exists` exhibits it,
`stale_records_unobservable` proves no operation can ever read such a record. -/
namespace GV.Props.C13Nrd
open GV GV.Nrd
variable {ε : Type} [DecidableEq ε]
set_option linter.unusedSectionVars false

/-! ## 1. Representation invariant -/

theorem inv_empty : Inv ({} : KV ε) := sim_empty.inv

/-- every call preserves the invariant (a refused block's batch being dropped) -/
theorem inv_step {kv : KV ε} (h : Inv kv) (op : Op ε) : Inv (step kv op).1 :=
  (step_sim h.sim op).2.inv

/-- **for every history** from the empty store the invariant holds -/
theorem inv_history (ops : List (Op ε)) : Inv (run ({} : KV ε) ops).1 :=
  (run_sim sim_empty ops).2.inv

/-- what the invariant says, per excess: positions strictly decreasing from head to tail; no list
record iff empty; `Single` iff exactly one element; `Multi` pointers name the existing `Head` record
of the first and `Tail` record of the last element (of at least two); and walking the `prev`
pointers from the tail reads the same list backwards. -/
theorem inv_meaning {kv : KV ε} (h : Inv kv) (e : ε) :
    Decr (abs kv e) ∧
    (kv.getList e = none ↔ abs kv e = []) ∧
    (∀ p, kv.getList e = some (.single p) ↔ abs kv e = [p]) ∧
    (∀ hd tl, kv.getList e = some (.multi hd tl) →
      ∃ p q n v, (abs kv e).head? = some p ∧ (abs kv e).getLast? = some q ∧ p.pos = hd ∧ q.pos = tl ∧
        2 ≤ (abs kv e).length ∧ kv.getEntry e hd = some (.head p n) ∧ kv.getEntry e tl = some (.tail q v)) ∧
    (∀ fuel, (abs kv e).length ≤ fuel → absBack kv e fuel = (abs kv e).reverse) := by
  have hr := h.sim e
  exact ⟨hr.1, hr.none_iff, hr.single_iff, fun hd tl hm => hr.multi_pointers hm,
    fun fuel hf => absBack_repr hr fuel hf⟩

/-- neighbouring elements `a`, `b` of a list point at each other: `a`'s record (`Head` or `Middle`)
has `next = b.pos`, `b`'s record (`Tail` or `Middle`) has `prev = a.pos`. -/
theorem inv_neighbours {kv : KV ε} (h : Inv kv) (e : ε) (l1 l2 : List CommitPos) (a b : CommitPos)
    (hl : abs kv e = l1 ++ a :: b :: l2) :
    (∃ en, kv.getEntry e a.pos = some en ∧ en.getPos = a ∧
        ((∃ n, en = .head a n ∧ n = b.pos) ∨ (∃ n v, en = .middle a n v ∧ n = b.pos))) ∧
    (∃ en, kv.getEntry e b.pos = some en ∧ en.getPos = b ∧
        ((∃ v, en = .tail b v ∧ v = a.pos) ∨ (∃ n v, en = .middle b n v ∧ v = a.pos))) := by
  have hr := h.sim e
  rw [hl] at hr
  exact hr.neighbours

/-- the invariant is not vacuous: a three-element list, as linked_list.rs lays it out -/
example :
    let kv := (run ({} : KV Nat) [.push 7 ⟨3, 1⟩, .push 7 ⟨8, 2⟩, .push 7 ⟨11, 4⟩]).1
    kv.getList 7 = some (.multi 11 3) ∧
    kv.getEntry 7 11 = some (.head ⟨11, 4⟩ 8) ∧
    kv.getEntry 7 8 = some (.middle ⟨8, 2⟩ 3 11) ∧
    kv.getEntry 7 3 = some (.tail ⟨3, 1⟩ 8) ∧
    abs kv 7 = [⟨11, 4⟩, ⟨8, 2⟩, ⟨3, 1⟩] ∧ absBack kv 7 3 = [⟨3, 1⟩, ⟨8, 2⟩, ⟨11, 4⟩] := by decide

/-- **stale records exist**: after push 1, push 2, pop the list is `Single` again but the `Tail`
record written for position 1 is still in the store (the real store shows the same, run `ops`). -/
theorem stale_record_exists :
    let kv := (run ({} : KV Nat) [.push 0 ⟨1, 1⟩, .push 0 ⟨2, 2⟩, .pop 0]).1
    kv.getList 0 = some (.single ⟨1, 1⟩) ∧ kv.getEntry 0 1 = some (.tail ⟨1, 1⟩ 2) ∧
    abs kv 0 = [⟨1, 1⟩] := by decide

/-- … and are never observable: two stores representing the same lists (whatever stale records
they hold) answer every history identically and represent the same lists afterwards. -/
theorem stale_records_unobservable {kv1 kv2 : KV ε} (h1 : Inv kv1) (h2 : Inv kv2)
    (heq : ∀ e, abs kv1 e = abs kv2 e) (ops : List (Op ε)) :
    (run kv1 ops).2 = (run kv2 ops).2 ∧ ∀ e, abs (run kv1 ops).1 e = abs (run kv2 ops).1 e := by
  have s1 := h1.sim
  have s2 : Sim kv2 (abs kv1) := by
    have : abs kv1 = abs kv2 := funext heq
    rw [this]; exact h2.sim
  obtain ⟨a1, b1⟩ := run_sim s1 ops
  obtain ⟨a2, b2⟩ := run_sim s2 ops
  exact ⟨a1.trans a2.symm, fun e => (b1.abs e).trans (b2.abs e).symm⟩

/-! ## 2. Refinement -/

/-- `peek_pos` = head of the abstract list -/
theorem peek_refines {kv : KV ε} (h : Inv kv) (e : ε) : peekPos kv e = .ok (abs kv e).head? :=
  peekPos_repr (h.sim e)

/-- `push_pos` under the code's own precondition (new position above the head's): conses -/
theorem push_refines {kv : KV ε} (h : Inv kv) (e : ε) (p : CommitPos)
    (hok : specPushOk (abs kv e) p = true) :
    (pushPos kv e p).res = .ok () ∧ Inv (pushPos kv e p).kv ∧
    abs (pushPos kv e p).kv e = p :: abs kv e ∧
    ∀ e', e' ≠ e → abs (pushPos kv e p).kv e' = abs kv e' := by
  obtain ⟨kv', h1, h2⟩ := pushPos_sim h.sim e p
  simp only [sPush, hok, if_true] at h1 h2
  rw [h1]
  exact ⟨rfl, h2.inv, by rw [h2.abs]; simp, fun e' hne => by rw [h2.abs]; exact upd_other _ _ hne⟩

/-- otherwise `push_pos` answers "pos must be increasing" and the store is unchanged -/
theorem push_refused {kv : KV ε} (h : Inv kv) (e : ε) (p : CommitPos)
    (hok : specPushOk (abs kv e) p = false) : pushPos kv e p = ⟨kv, .error .posNotIncreasing⟩ :=
  pushPos_repr_err p (h.sim e) hok

theorem pop_refines {kv : KV ε} (h : Inv kv) (e : ε) :
    (popPos kv e).res = .ok (abs kv e).head? ∧ Inv (popPos kv e).kv ∧
    abs (popPos kv e).kv e = (abs kv e).tail ∧
    ∀ e', e' ≠ e → abs (popPos kv e).kv e' = abs kv e' := by
  obtain ⟨kv', h1, h2⟩ := popPos_sim h.sim e
  rw [h1]
  exact ⟨rfl, h2.inv, by rw [h2.abs]; simp [sPop], fun e' hne => by rw [h2.abs]; exact upd_other _ _ hne⟩

theorem popBack_refines {kv : KV ε} (h : Inv kv) (e : ε) :
    (popPosBack kv e).res = .ok (abs kv e).getLast? ∧ Inv (popPosBack kv e).kv ∧
    abs (popPosBack kv e).kv e = (abs kv e).dropLast ∧
    ∀ e', e' ≠ e → abs (popPosBack kv e).kv e' = abs kv e' := by
  obtain ⟨kv', h1, h2⟩ := popPosBack_sim h.sim e
  rw [h1]
  exact ⟨rfl, h2.inv, by rw [h2.abs]; simp [sPopBack], fun e' hne => by rw [h2.abs]; exact upd_other _ _ hne⟩

/-- `rewind(commit, rewind_pos)` drops exactly the prefix with `pos > rewind_pos` (strict, as in
the code's `x.pos() > rewind_pos`) -/
theorem rewind_refines {kv : KV ε} (h : Inv kv) (e : ε) (r : Nat) :
    (rewind kv e r).res = .ok () ∧ Inv (rewind kv e r).kv ∧
    abs (rewind kv e r).kv e = (abs kv e).dropWhile (fun p => decide (p.pos > r)) ∧
    ∀ e', e' ≠ e → abs (rewind kv e r).kv e' = abs kv e' := by
  obtain ⟨kv', h1, h2⟩ := rewind_sim h.sim e r
  rw [h1]
  exact ⟨rfl, h2.inv, by rw [h2.abs]; simp [sRewind, specRewind],
    fun e' hne => by rw [h2.abs]; exact upd_other _ _ hne⟩

/-- since the list is strictly decreasing, the part that survives a rewind is the elements with
`pos ≤ rewind_pos` -/
theorem rewind_keeps_exactly {kv : KV ε} (h : Inv kv) (e : ε) (r : Nat) :
    abs (rewind kv e r).kv e = (abs kv e).filter (fun p => decide (p.pos ≤ r)) := by
  rw [(rewind_refines h e r).2.2.1]
  have hd : Decr (abs kv e) := (h.sim e).1
  generalize abs kv e = l at hd
  induction l with
  | nil => rfl
  | cons p t ih =>
    by_cases hp : p.pos > r
    · have hnle : ¬ p.pos ≤ r := by omega
      simp only [List.dropWhile_cons, hp, decide_true, if_true, List.filter_cons, hnle, decide_false]
      exact ih hd.tail
    · have hle : p.pos ≤ r := by omega
      have hfil : t.filter (fun p => decide (p.pos ≤ r)) = t := by
        rw [List.filter_eq_self]
        intro x hx
        have := hd.lt x hx
        simp; omega
      simp [hp, hle, hfil]

/-- a prune loop over `pop_pos_back` drops exactly the suffix with `pos < cutoff` (`prune` itself
is `unimplemented!()` in the code: `prune_panics`) -/
theorem pruneBack_refines {kv : KV ε} (h : Inv kv) (e : ε) (c : Nat) :
    (pruneBack kv e c).res = .ok () ∧ Inv (pruneBack kv e c).kv ∧
    abs (pruneBack kv e c).kv e = ((abs kv e).reverse.dropWhile (fun p => decide (p.pos < c))).reverse ∧
    ∀ e', e' ≠ e → abs (pruneBack kv e c).kv e' = abs kv e' := by
  obtain ⟨kv', h1, h2⟩ := pruneBack_sim h.sim e c
  rw [h1]
  exact ⟨rfl, h2.inv, by rw [h2.abs]; simp [sPruneBack, specPrune],
    fun e' hne => by rw [h2.abs]; exact upd_other _ _ hne⟩

theorem prune_panics (kv : KV ε) (e : ε) (c : Nat) : prune kv e c = ⟨kv, .error .panicUnimplemented⟩ := rfl

theorem clear_refines (kv : KV ε) : (clear kv).res = .ok () ∧ Inv (clear kv).kv ∧ ∀ e, abs (clear kv).kv e = [] :=
  ⟨rfl, inv_empty, fun _ => rfl⟩

/-- **for every history** the index answers exactly what the specification answers, and the lists
read from it are the specification's lists -/
theorem history_refines (ops : List (Op ε)) :
    (run ({} : KV ε) ops).2 = (srun (fun _ => []) ops).2 ∧
    ∀ e, abs (run ({} : KV ε) ops).1 e = (srun (fun _ => []) ops).1 e := by
  obtain ⟨h1, h2⟩ := run_sim (sim_empty (ε := ε)) ops
  exact ⟨h1, h2.abs⟩

/-- a rewind that empties a list, a prune that turns `Multi` into `Single` -/
example :
    let kv := (run ({} : KV Nat) [.push 7 ⟨3, 1⟩, .push 7 ⟨8, 2⟩, .push 7 ⟨11, 4⟩]).1
    abs (rewind kv 7 2).kv 7 = [] ∧ (rewind kv 7 2).kv.getList 7 = none ∧
    abs (rewind kv 7 8).kv 7 = [⟨8, 2⟩, ⟨3, 1⟩] ∧
    abs (pruneBack kv 7 9).kv 7 = [⟨11, 4⟩] ∧ (pruneBack kv 7 9).kv.getList 7 = some (.single ⟨11, 4⟩) ∧
    ansUnit (pushPos kv 7 ⟨11, 9⟩).res = .err .posNotIncreasing := by decide

/-! ## 3. Fork correctness -/

/-- the index built along a path is the path search: for every excess the occurrences in NRD
kernels of the path's blocks, most recent first -/
theorem build_is_path_search (path : List (Blk ε)) (kv : KV ε)
    (hb : applyBlocks ({} : KV ε) path = ⟨kv, .ok ()⟩) :
    Inv kv ∧ ∀ e, abs kv e = pathEntries path e := by
  obtain ⟨kv', h1, h2⟩ := applyBlocks_sim path (sim_empty (ε := ε))
  rw [hb] at h1
  injection h1 with hk hr
  subst hk
  refine ⟨h2.inv, fun e => ?_⟩
  have hs : sApplyBlocks (fun _ => []) path = ⟨(sApplyBlocks (fun _ => []) path).st, .ok ()⟩ := by
    rw [hr]
  rw [h2.abs, sApplyBlocks_ok hs e]; simp

/-- **Fork switch.**  Two paths `pre ++ a` and `pre ++ b` sharing the prefix `pre`.  Starting from
the index built along `pre ++ a`: `Extension::rewind` (rewind_single_block for the blocks of `a`,
newest first) succeeds and leaves exactly the path search of `pre`; applying the blocks of `b` on it
then gives the same answer (accepted, or refused with the same error) and the same lists as
building `pre ++ b` from the empty store — in particular, when accepted, the path search of
`pre ++ b`.  Nothing of `a` is ever seen by `b`. -/
theorem fork_switch (pre a b : List (Blk ε)) (hp : PathOK 0 (pre ++ a)) (kvA : KV ε)
    (hA : applyBlocks ({} : KV ε) (pre ++ a) = ⟨kvA, .ok ()⟩) :
    ∃ kvR, rewindBlocks kvA a.reverse = ⟨kvR, .ok ()⟩ ∧ Inv kvR ∧
      (∀ e, abs kvR e = pathEntries pre e) ∧
      (applyBlocks kvR b).res = (applyBlocks ({} : KV ε) (pre ++ b)).res ∧
      (∀ e, abs (applyBlocks kvR b).kv e = abs (applyBlocks ({} : KV ε) (pre ++ b)).kv e) ∧
      ((applyBlocks kvR b).res = .ok () → ∀ e, abs (applyBlocks kvR b).kv e = pathEntries (pre ++ b) e) := by
  obtain ⟨kv', h1, h2⟩ := applyBlocks_sim (pre ++ a) (sim_empty (ε := ε))
  rw [hA] at h1
  injection h1 with hk hr
  subst hk
  have hs : sApplyBlocks (fun _ => []) (pre ++ a) = ⟨(sApplyBlocks (fun _ => []) (pre ++ a)).st, .ok ()⟩ := by
    rw [hr]
  obtain ⟨SP, hpre, happ⟩ := sApplyBlocks_append_ok hs
  obtain ⟨p1, p2⟩ := hp.append
  have hbel : Below SP (endSize 0 pre) := (below_empty 0).applyBlocks p1 hpre
  have hrew := sRewindBlocks_apply hbel p2 happ
  obtain ⟨kvR, r1, r2⟩ := rewindBlocks_sim a.reverse h2
  rw [hrew] at r2
  have hSP : ∀ e, SP e = pathEntries pre e := fun e => by rw [sApplyBlocks_ok hpre e]; simp
  obtain ⟨kvB, b1, b2⟩ := applyBlocks_sim b r2
  obtain ⟨kvS, s1, s2⟩ := applyBlocks_sim (pre ++ b) (sim_empty (ε := ε))
  have hsame : sApplyBlocks (fun _ => []) (pre ++ b) = sApplyBlocks SP b := by
    rw [sApplyBlocks_append, hpre]
  rw [hsame] at s1 s2
  refine ⟨kvR, r1, r2.inv, fun e => by rw [r2.abs, hSP], ?_, ?_, ?_⟩
  · rw [b1, s1]
  · intro e; rw [b1, s1]; exact (b2.abs e).trans (s2.abs e).symm
  · intro hok e
    rw [b1] at hok ⊢
    have hsb : sApplyBlocks SP b = ⟨(sApplyBlocks SP b).st, .ok ()⟩ := by
      have : (sApplyBlocks SP b).res = .ok () := hok
      rw [← this]
    rw [b2.abs e, sApplyBlocks_ok hsb e, hSP, pathEntries_append]

/-- the decision on one kernel: the index's answer is the specification's answer on the lists it
represents (in particular on the path search of the fork being extended). -/
theorem nrd_decision_refines {kv : KV ε} (h : Inv kv) (k : Kernel ε) (pos : CommitPos) :
    (applyKernelRules kv k pos).res = (sApplyKernelRules (abs kv) k pos).res := by
  obtain ⟨kv', h1, _⟩ := applyKernelRules_sim h.sim k pos
  rw [h1]

/-- … and that answer is exactly the NRD rule: a kernel is refused with `NRDRelativeHeight` iff it
is an NRD kernel and the most recent occurrence of its excess on this fork is fewer than its
relative height blocks below (threshold exact; `-` is the code's `saturating_sub`, and for
`q.height ≤ pos.height` — always the case along a path — `pos.height - q.height < rel` is
`pos.height < q.height + rel`); refused with "pos must be increasing" iff the rule
passes but the position is not above the most recent one (cannot happen for kernel MMR positions);
accepted otherwise. -/
theorem nrd_rule_exact (S : Spec ε) (k : Kernel ε) (pos : CommitPos) :
    ((sApplyKernelRules S k pos).res = .error .nrdRelativeHeight ↔
      ∃ rel q, k.nrd = some rel ∧ (S k.excess).head? = some q ∧ pos.height - q.height < rel) ∧
    ((sApplyKernelRules S k pos).res = .error .posNotIncreasing ↔
      ∃ rel q, k.nrd = some rel ∧ (S k.excess).head? = some q ∧ rel ≤ pos.height - q.height ∧
        pos.pos ≤ q.pos) := by
  unfold sApplyKernelRules sPush
  cases hn : k.nrd with
  | none => simp
  | some rel =>
    cases hl : S k.excess with
    | nil => simp [specNrdOk, specPushOk]
    | cons q t =>
      by_cases h1 : satSub pos.height q.height < rel
      · have h1' : pos.height - q.height < rel := h1
        have h2 : ¬ rel ≤ pos.height - q.height := by omega
        simp [specNrdOk, h1, h1', h2]
      · have h1' : ¬ pos.height - q.height < rel := h1
        have h2 : rel ≤ pos.height - q.height := by omega
        by_cases h3 : q.pos < pos.pos
        · have h3' : ¬ pos.pos ≤ q.pos := by omega
          simp [specNrdOk, specPushOk, h1, h1', h3, h3']
        · have h3' : pos.pos ≤ q.pos := by omega
          simp [specNrdOk, specPushOk, h1, h1', h3, h3']
          exact h2

/-- two forks off a common block: the same excess at the same distance is refused on the fork
where it recurred and accepted on the other (`e = 5`, relative height 3). -/
example :
    let pre : List (Blk Nat) := [⟨1, 0, 1, [(⟨5, some 3⟩, 1)]⟩]
    let a : List (Blk Nat) := [⟨2, 1, 3, [(⟨5, some 1⟩, 2)]⟩, ⟨3, 3, 4, [(⟨6, none⟩, 4)]⟩]
    let b3 : Blk Nat := ⟨2, 1, 3, [(⟨5, some 3⟩, 2)]⟩   -- on `pre`: distance 1 < 3 from height 1
    let b5 : Blk Nat := ⟨4, 1, 3, [(⟨5, some 3⟩, 2)]⟩   -- distance 3 from height 1: accepted …
    let kvA := (applyBlocks ({} : KV Nat) (pre ++ a)).kv
    ansUnit (applyBlocks ({} : KV Nat) (pre ++ a)).res = .unit ∧
    abs kvA 5 = [⟨2, 2⟩, ⟨1, 1⟩] ∧
    -- … although on the fork `a` the excess occurred at height 2 (distance 2 < 3): refused there
    ansUnit (applyBlock kvA b5).res = .err .nrdRelativeHeight ∧
    abs (rewindBlocks kvA a.reverse).kv 5 = [⟨1, 1⟩] ∧
    ansUnit (applyBlock (rewindBlocks kvA a.reverse).kv b3).res = .err .nrdRelativeHeight ∧
    ansUnit (applyBlock (rewindBlocks kvA a.reverse).kv b5).res = .unit ∧
    PathOK 0 (pre ++ a) := by decide

/-! ## 4. Rebuild -/

/-- **Rebuild over a window** (`verify_kernel_pos_index(from_header)`: `clear`, then re-apply every
kernel from `from_header` on).  For a path `old ++ win` on which the index was built block by block:
the rebuild over `win` succeeds, whatever the store held before, and represents, for every excess,
the incrementally built list cut at the kernel MMR size before `win` — which is the path search
of `win`. -/
theorem rebuild_window (old win : List (Blk ε)) (hp : PathOK 0 (old ++ win)) (kv0 kvF : KV ε)
    (hF : applyBlocks ({} : KV ε) (old ++ win) = ⟨kvF, .ok ()⟩) :
    ∃ kvW, verifyKernelPosIndex kv0 win = ⟨kvW, .ok ()⟩ ∧ Inv kvW ∧
      (∀ e, abs kvW e = (abs kvF e).takeWhile (fun p => decide (p.pos > endSize 0 old))) ∧
      (∀ e, abs kvW e = pathEntries win e) := by
  obtain ⟨kv', h1, h2⟩ := applyBlocks_sim (old ++ win) (sim_empty (ε := ε))
  rw [hF] at h1
  injection h1 with hk hr
  subst hk
  have hs : sApplyBlocks (fun _ => []) (old ++ win) =
      ⟨(sApplyBlocks (fun _ => []) (old ++ win)).st, .ok ()⟩ := by rw [hr]
  obtain ⟨SP, hold, hwin⟩ := sApplyBlocks_append_ok hs
  obtain ⟨p1, p2⟩ := hp.append
  have hbel : Below SP (endSize 0 old) := (below_empty 0).applyBlocks p1 hold
  have hcut := sApplyBlocks_cut (p2.above (Nat.le_refl _)) hwin
  rw [cutSpec_below hbel] at hcut
  obtain ⟨kvW, w1, w2⟩ := verifyKernelPosIndex_sim kv0 win
  rw [hcut] at w1 w2
  refine ⟨kvW, w1, w2.inv, fun e => ?_, fun e => ?_⟩
  · rw [w2.abs e, h2.abs e]; rfl
  · rw [w2.abs e]
    have := sApplyBlocks_ok hcut e
    simpa using this

/-- **the header walk** of `verify_kernel_pos_index` (one pass over the kernel MMR from
`prev_size + 1`, the current header advanced lazily with `while current_pos >
current_header.kernel_mmr_size`, each NRD kernel applied at the current header's height) gives every
kernel the height of the block it belongs to: it equals the block-wise rebuild of
`rebuild_window`, for every path with consistent kernel MMR sizes — including blocks without NRD
kernels, over which the header is not advanced until a later NRD kernel needs it. -/
theorem rebuild_header_walk (kv : KV ε) (b : Blk ε) (bs : List (Blk ε)) (c : Nat)
    (hp : PathOK c (b :: bs)) :
    verifyKernelPosIndexWalk kv b.hdr (bs.map Blk.hdr) ((b :: bs).flatMap (·.kernels)) =
      verifyKernelPosIndex kv (b :: bs) :=
  verifyKernelPosIndexWalk_eq kv b bs c hp

/-- three blocks, the middle one without NRD kernel: the walk jumps two headers at position 4 -/
example :
    let bs : List (Blk Nat) := [⟨5, 0, 1, [(⟨5, some 1⟩, 1)]⟩, ⟨6, 1, 3, [(⟨9, none⟩, 2)]⟩, ⟨7, 3, 4, [(⟨5, some 2⟩, 4)]⟩]
    PathOK 0 bs ∧
    abs (verifyKernelPosIndexWalk ({} : KV Nat) (5, 1) [(6, 3), (7, 4)] [(⟨5, some 1⟩, 1), (⟨9, none⟩, 2), (⟨5, some 2⟩, 4)]).kv 5
      = [⟨4, 7⟩, ⟨1, 5⟩] ∧
    advanceHeader (5, 1) [(6, 3), (7, 4)] 4 = some ((7, 4), []) := by decide

/-- `init_recent_kernel_pos_index`: the blocks at or above the cutoff height
`head.height.saturating_sub(window)` of a path whose heights are sorted are a suffix of the path,
so the rebuild is `rebuild_window` for that suffix. -/
theorem init_recent_is_window (kv0 : KV ε) (window headHeight : Nat) (old win : List (Blk ε))
    (hold : ∀ b ∈ old, b.height < satSub headHeight window)
    (hwin : ∀ b ∈ win, satSub headHeight window ≤ b.height) :
    initRecentKernelPosIndex kv0 window headHeight (old ++ win) = verifyKernelPosIndex kv0 win := by
  unfold initRecentKernelPosIndex
  have h1 : old.filter (fun b => decide (satSub headHeight window ≤ b.height)) = [] := by
    rw [List.filter_eq_nil_iff]
    intro b hb
    have := hold b hb
    simp; omega
  have h2 : win.filter (fun b => decide (satSub headHeight window ≤ b.height)) = win := by
    rw [List.filter_eq_self]
    intro b hb
    simpa using hwin b hb
  rw [List.filter_append, h1, h2, List.nil_append]

/-- decisions taken on the windowed index equal those on the full index for every kernel whose
relative height does not reach below the window: if every occurrence cut away is at least `rel`
blocks below `h`, the rule gives the same answer. (`NRDRelativeHeight::MAX` is one week, the
window two.) -/
theorem windowed_decision_agrees (l : List CommitPos) (c h rel : Nat)
    (hfar : ∀ x ∈ l, x.pos ≤ c → x.height + rel ≤ h) :
    specNrdOk (l.takeWhile (fun p => decide (p.pos > c))) h rel = specNrdOk l h rel := by
  cases l with
  | nil => rfl
  | cons p t =>
    by_cases hp : p.pos > c
    · simp [hp, specNrdOk]
    · have := hfar p (by simp) (by omega)
      have hn : ¬ satSub h p.height < rel := by unfold satSub; omega
      simp [hp, specNrdOk, hn]

/-- a rebuild over the last two of three blocks: the list is the incrementally built one cut at
the window -/
example :
    let old : List (Blk Nat) := [⟨1, 0, 1, [(⟨5, some 1⟩, 1)]⟩]
    let win : List (Blk Nat) := [⟨2, 1, 3, [(⟨5, some 1⟩, 2)]⟩, ⟨3, 3, 4, [(⟨5, some 1⟩, 4)]⟩]
    PathOK 0 (old ++ win) ∧
    ansUnit (applyBlocks ({} : KV Nat) (old ++ win)).res = .unit ∧
    abs (applyBlocks ({} : KV Nat) (old ++ win)).kv 5 = [⟨4, 3⟩, ⟨2, 2⟩, ⟨1, 1⟩] ∧
    abs (verifyKernelPosIndex (applyBlocks ({} : KV Nat) (old ++ win)).kv win).kv 5 = [⟨4, 3⟩, ⟨2, 2⟩] ∧
    endSize 0 old = 1 := by decide

/-! ## 5. Error branches (for *every* store, well-formed or not) -/

/-- an error of `push_pos` / `pop_pos` / `pop_pos_back` leaves the store unchanged (the Rust
returns before its first write) -/
theorem push_error_unchanged (kv : KV ε) (e : ε) (p : CommitPos) (err : Err)
    (h : (pushPos kv e p).res = .error err) : (pushPos kv e p).kv = kv := by
  unfold pushPos at h ⊢
  revert h
  cases kv.getList e with
  | none => intro h; simp at h
  | some w =>
    cases w with
    | single cur =>
      by_cases hle : p.pos ≤ cur.pos
      · intro _; simp [hle]
      · intro h; simp [hle] at h
    | multi hd tl =>
      by_cases hle : p.pos ≤ hd
      · intro _; simp [hle]
      · simp only [hle, if_false]
        cases kv.getEntry e hd with
        | none => intro _; rfl
        | some en => cases en <;> intro h <;> first | rfl | simp at h

theorem pop_error_unchanged (kv : KV ε) (e : ε) (err : Err)
    (h : (popPos kv e).res = .error err) : (popPos kv e).kv = kv := by
  unfold popPos at h ⊢
  revert h
  cases kv.getList e with
  | none => intro h; simp at h
  | some w =>
    cases w with
    | single cur => intro h; simp at h
    | multi hd tl =>
      simp only
      cases kv.getEntry e hd with
      | none => intro _; rfl
      | some en =>
        cases en with
        | head cur nx =>
          simp only
          cases kv.getEntry e nx with
          | none => intro _; rfl
          | some en2 => cases en2 <;> intro h <;> first | rfl | simp at h
        | tail _ _ => intro _; rfl
        | middle _ _ _ => intro _; rfl

theorem popBack_error_unchanged (kv : KV ε) (e : ε) (err : Err)
    (h : (popPosBack kv e).res = .error err) : (popPosBack kv e).kv = kv := by
  unfold popPosBack at h ⊢
  revert h
  cases kv.getList e with
  | none => intro h; simp at h
  | some w =>
    cases w with
    | single cur => intro h; simp at h
    | multi hd tl =>
      simp only
      cases kv.getEntry e tl with
      | none => intro _; rfl
      | some en =>
        cases en with
        | tail cur pv =>
          simp only
          cases kv.getEntry e pv with
          | none => intro _; rfl
          | some en2 => cases en2 <;> intro h <;> first | rfl | simp at h
        | head _ _ => intro _; rfl
        | middle _ _ _ => intro _; rfl

/-- "pos must be increasing" iff the list record is `Single` / `Multi` and the new position is not
above the recorded one / the head pointer -/
theorem push_posNotIncreasing_iff (kv : KV ε) (e : ε) (p : CommitPos) :
    (pushPos kv e p).res = .error .posNotIncreasing ↔
      (∃ cur, kv.getList e = some (.single cur) ∧ p.pos ≤ cur.pos) ∨
      (∃ hd tl, kv.getList e = some (.multi hd tl) ∧ p.pos ≤ hd) := by
  unfold pushPos
  split
  · next h => simp [h]
  · next cur h =>
    by_cases hle : p.pos ≤ cur.pos <;> simp [h, hle]
  · next hd tl h =>
    by_cases hle : p.pos ≤ hd
    · simp [h, hle]
    · simp only [hle, if_false, h]
      split <;> simp [hle]

/-- "expected head to be head variant" iff the list record is `Multi`, the position is above the
head pointer and the head pointer does not name a `Head` record -/
theorem push_headNotHead_iff (kv : KV ε) (e : ε) (p : CommitPos) :
    (pushPos kv e p).res = .error .headNotHead ↔
      ∃ hd tl, kv.getList e = some (.multi hd tl) ∧ hd < p.pos ∧
        ∀ c n, kv.getEntry e hd ≠ some (.head c n) := by
  unfold pushPos
  split
  · next h => simp [h]
  · next cur h =>
    by_cases hle : p.pos ≤ cur.pos <;> simp [h, hle]
  · next hd tl h =>
    by_cases hle : p.pos ≤ hd
    · simp only [hle, if_true, h]
      constructor
      · intro hh; simp at hh
      · rintro ⟨hd', tl', heq, hlt, _⟩
        injection heq with heq; injection heq with h1 h2
        omega
    · simp only [hle, if_false, h]
      split
      · next c n hc =>
        constructor
        · intro hh; simp at hh
        · rintro ⟨hd', tl', heq, _, hno⟩
          injection heq with heq; injection heq with h1 h2
          subst h1
          exact absurd hc (hno c n)
      · next hno =>
        constructor
        · intro _
          exact ⟨hd, tl, rfl, by omega, fun c n hc => hno c n hc⟩
        · intro _; rfl

/-- `push_pos` has no other error -/
theorem push_errors_only (kv : KV ε) (e : ε) (p : CommitPos) (err : Err)
    (h : (pushPos kv e p).res = .error err) : err = .posNotIncreasing ∨ err = .headNotHead := by
  unfold pushPos at h
  split at h
  · simp at h
  · split at h <;> simp at h; exact Or.inl h.symm
  · split at h
    · simp at h; exact Or.inl h.symm
    · split at h <;> simp at h; exact Or.inr h.symm

/-- the errors of `pop_pos`, each with its exact condition -/
theorem pop_error_iff (kv : KV ε) (e : ε) (err : Err) :
    (popPos kv e).res = .error err ↔
      ∃ hd tl, kv.getList e = some (.multi hd tl) ∧
        ((err = .headNotHead ∧ ∀ c n, kv.getEntry e hd ≠ some (.head c n)) ∨
         (∃ c n, kv.getEntry e hd = some (.head c n) ∧
            ((err = .nextMissing ∧ kv.getEntry e n = none) ∨
             (err = .nextUnexpected ∧ ∃ c' n', kv.getEntry e n = some (.head c' n'))))) := by
  unfold popPos
  cases hl : kv.getList e with
  | none => simp
  | some w =>
    cases w with
    | single cur => simp
    | multi hd tl =>
      cases hh : kv.getEntry e hd with
      | none => simp [hh, eq_comm]
      | some en =>
        cases en with
        | tail _ _ => simp [hh, eq_comm]
        | middle _ _ _ => simp [hh, eq_comm]
        | head c n =>
          cases hq : kv.getEntry e n with
          | none =>
            simp [hh, hq, eq_comm]
            constructor
            · intro h; exact ⟨c, n, ⟨rfl, rfl⟩, Or.inl ⟨h, hq.symm⟩⟩
            · rintro ⟨c1, n1, ⟨rfl, rfl⟩, h | h⟩
              · exact h.1
              · obtain ⟨_, c', n', h2⟩ := h; rw [hq] at h2; cases h2
          | some en2 =>
            cases en2 with
            | tail _ _ => simp [hh, hq, eq_comm]
            | middle _ _ _ => simp [hh, hq, eq_comm]
            | head c2 n2 =>
              simp [hh, hq, eq_comm]
              constructor
              · intro h; exact ⟨c, n, ⟨rfl, rfl⟩, Or.inr ⟨h, c2, n2, hq⟩⟩
              · rintro ⟨c1, n1, ⟨rfl, rfl⟩, h | h⟩
                · have := h.2; rw [hq] at this; cases this
                · exact h.1

/-- the errors of `pop_pos_back`, each with its exact condition -/
theorem popBack_error_iff (kv : KV ε) (e : ε) (err : Err) :
    (popPosBack kv e).res = .error err ↔
      ∃ tl, (∃ hd, kv.getList e = some (.multi hd tl)) ∧
        ((err = .tailNotTail ∧ ∀ c v, kv.getEntry e tl ≠ some (.tail c v)) ∨
         (∃ c v, kv.getEntry e tl = some (.tail c v) ∧
            ((err = .prevMissing ∧ kv.getEntry e v = none) ∨
             (err = .prevUnexpected ∧ ∃ c' v', kv.getEntry e v = some (.tail c' v'))))) := by
  unfold popPosBack
  cases hl : kv.getList e with
  | none => simp
  | some w =>
    cases w with
    | single cur => simp
    | multi hd tl =>
      cases hh : kv.getEntry e tl with
      | none => simp [hh, eq_comm]
      | some en =>
        cases en with
        | head _ _ => simp [hh, eq_comm]
        | middle _ _ _ => simp [hh, eq_comm]
        | tail c n =>
          cases hq : kv.getEntry e n with
          | none =>
            simp [hh, hq, eq_comm]
            constructor
            · intro h; exact ⟨c, n, ⟨rfl, rfl⟩, Or.inl ⟨h, hq.symm⟩⟩
            · rintro ⟨c1, n1, ⟨rfl, rfl⟩, h | h⟩
              · exact h.1
              · obtain ⟨_, c', n', h2⟩ := h; rw [hq] at h2; cases h2
          | some en2 =>
            cases en2 with
            | head _ _ => simp [hh, hq, eq_comm]
            | middle _ _ _ => simp [hh, hq, eq_comm]
            | tail c2 n2 =>
              simp [hh, hq, eq_comm]
              constructor
              · intro h; exact ⟨c, n, ⟨rfl, rfl⟩, Or.inr ⟨h, c2, n2, hq⟩⟩
              · rintro ⟨c1, n1, ⟨rfl, rfl⟩, h | h⟩
                · have := h.2; rw [hq] at this; cases this
                · exact h.1

/-- on a well-formed store none of the structural errors can occur: `peek_pos`, `pop_pos`,
`pop_pos_back`, `rewind`, the prune loop always succeed, and `push_pos` fails only with "pos must
be increasing", exactly when the position is not above the most recent one. -/
theorem inv_no_structural_errors {kv : KV ε} (h : Inv kv) (e : ε) :
    (∃ r, peekPos kv e = .ok r) ∧ (∃ r, (popPos kv e).res = .ok r) ∧
    (∃ r, (popPosBack kv e).res = .ok r) ∧ (∀ r, (rewind kv e r).res = .ok ()) ∧
    (∀ c, (pruneBack kv e c).res = .ok ()) ∧
    (∀ p, (pushPos kv e p).res = .ok () ∨
      ((pushPos kv e p).res = .error .posNotIncreasing ∧ specPushOk (abs kv e) p = false)) := by
  refine ⟨⟨_, peek_refines h e⟩, ⟨_, (pop_refines h e).1⟩, ⟨_, (popBack_refines h e).1⟩,
    fun r => (rewind_refines h e r).1, fun c => (pruneBack_refines h e c).1, fun p => ?_⟩
  cases hok : specPushOk (abs kv e) p with
  | true => exact Or.inl (push_refines h e p hok).1
  | false => rw [push_refused h e p hok]; exact Or.inr ⟨rfl, rfl⟩

/-- the structural errors are reachable on malformed stores (so the characterisations above are
not vacuous), and `rewind` — a loop with `?` — can then fail *after* having modified the store:
its atomicity is the caller's dropped batch, not its own. -/
example :
    let bad1 : KV Nat := { lists := [(0, .multi 9 4)], entries := [] }
    let bad2 : KV Nat := { lists := [(0, .multi 9 4)],
                           entries := [((0, 9), .head ⟨9, 1⟩ 7), ((0, 7), .middle ⟨7, 1⟩ 5 9)] }
    ansPos (peekPos bad1 0) = .err .headNotHead ∧ ansUnit (pushPos bad1 0 ⟨10, 1⟩).res = .err .headNotHead ∧
    ansPos (popPos bad1 0).res = .err .headNotHead ∧ ansPos (popPosBack bad1 0).res = .err .tailNotTail ∧
    ansUnit (rewind bad2 0 0).res = .err .nextMissing ∧ (rewind bad2 0 0).kv.getEntry 0 9 = none ∧
    bad2.getEntry 0 9 ≠ none ∧ ¬ Inv bad1 := by
  refine ⟨by decide, by decide, by decide, by decide, by decide, by decide, by decide, ?_⟩
  intro h
  have := peek_refines h 0
  have h2 : ansPos (peekPos ({ lists := [(0, .multi 9 4)], entries := [] } : KV Nat) 0) = .err .headNotHead := by
    decide
  rw [this] at h2
  simp [ansPos] at h2

/-! ## 6. The specification used by the chain model (`Model/Chain.lean`) -/

/-- applying a block keeps the chain model's `UState.nrd` (one list for the path, searched by
`find?`) and the index specification in step: same height of the most recent occurrence of every
excess. -/
theorem chain_spec_tracks_index {s : Chain.UState} {S S' : Spec String} {cb : Chain.Blk}
    {ib : Blk String} (h : SameRecent s.nrd S) (hm : Matches cb ib)
    (hok : sApplyBlock S ib = ⟨S', .ok ()⟩) : SameRecent (Chain.effects s cb).nrd S' :=
  h.effects hm hok

/-- … along whole paths, for the chain model's own `replay` -/
theorem replay_tracks_index (p : Chain.Params) (cbs : List Chain.Blk) (ibs : List (Blk String))
    (hm : PathMatches cbs ibs) (s0 s1 : Chain.UState) (S0 S1 : Spec String)
    (h0 : SameRecent s0.nrd S0) (hr : Chain.replay p s0 cbs = .ok s1)
    (hi : sApplyBlocks S0 ibs = ⟨S1, .ok ()⟩) : SameRecent s1.nrd S1 := by
  induction hm generalizing s0 S0 with
  | nil =>
    simp only [Chain.replay] at hr
    simp only [sApplyBlocks] at hi
    injection hr with hr; injection hi with hi
    subst hr; subst hi; exact h0
  | @cons cb ib cbs' ibs' hmb _ ih =>
    obtain ⟨S', g1, g2⟩ := sApplyBlocks_cons_ok hi
    simp only [Chain.replay, Chain.applyBlock] at hr
    cases hc : Chain.stateChecks p s0 cb with
    | some err => simp [hc] at hr
    | none =>
      simp only [hc] at hr
      exact ih _ _ (h0.effects hmb g1) hr g2

/-- **the index takes the chain model's decision.**  State of the chain model `s` and index
specification `S` in step; a block whose NRD excesses are pairwise distinct (enforced before the
index is consulted: `TransactionBody::verify_no_nrd_duplicates`), whose kernel positions lie above
everything recorded (kernel MMR positions grow) and whose height is not below recorded heights:
the index's sequential peek / check / push loop accepts the block iff `Chain.nrdBad s cb = false`. -/
theorem chain_nrdBad_iff_index {s : Chain.UState} {S : Spec String} {cb : Chain.Blk} {ib : Blk String}
    (h : SameRecent s.nrd S) (hm : Matches cb ib)
    (hnd : ((nrdOfChain cb).map (·.1)).Nodup)
    (hpos : ∀ kp ∈ ib.kernels, kp.1.nrd.isSome → ∀ x ∈ S kp.1.excess, x.pos < kp.2)
    (hh : ∀ ex, ∀ x ∈ S ex, x.height ≤ cb.h) :
    (sApplyBlock S ib).res = .ok () ↔ Chain.nrdBad s cb = false := by
  unfold sApplyBlock
  rw [sApplyKernels_ok_iff ib.height ib.kernels S (by rw [hm.kernels]; exact hnd) hpos,
    nrdBad_false_iff, hm.kernels, hm.height]
  have key : ∀ er : String × Nat, specNrdOk (S er.1) cb.h er.2 = true ↔
      (match s.nrd.find? (·.1 == er.1) with
        | some (_, hPrev) => ¬ cb.h < hPrev + er.2
        | none => True) := by
    intro er
    have hsr := h er.1
    cases hl : S er.1 with
    | nil =>
      rw [hl] at hsr
      cases hf : s.nrd.find? (·.1 == er.1) with
      | none => simp [specNrdOk]
      | some a => rw [hf] at hsr; simp at hsr
    | cons q t =>
      rw [hl] at hsr
      have hq := hh er.1 q (by rw [hl]; simp)
      cases hf : s.nrd.find? (·.1 == er.1) with
      | none => rw [hf] at hsr; simp at hsr
      | some a =>
        obtain ⟨a1, a2⟩ := a
        rw [hf] at hsr
        simp only [Option.map_some, List.head?_cons, Option.some.injEq] at hsr
        subst hsr
        by_cases hlt : satSub cb.h q.height < er.2
        · have : cb.h < q.height + er.2 := by unfold satSub at hlt; omega
          simp [specNrdOk, hlt, this]
        · have : ¬ cb.h < q.height + er.2 := by unfold satSub at hlt; omega
          simp [specNrdOk, hlt, this]
  constructor
  · intro hall er her; exact (key er).mp (hall er her)
  · intro hall er her; exact (key er).mpr (hall er her)

/-- the same for the store: the real index, in any state reached by any history in which it
represents the lists `S`, accepts the block iff the chain model's path search does. -/
theorem index_decides_as_chain_spec {kv : KV String} (hI : Inv kv) {s : Chain.UState} {cb : Chain.Blk}
    {ib : Blk String} (h : SameRecent s.nrd (abs kv)) (hm : Matches cb ib)
    (hnd : ((nrdOfChain cb).map (·.1)).Nodup)
    (hpos : ∀ kp ∈ ib.kernels, kp.1.nrd.isSome → ∀ x ∈ abs kv kp.1.excess, x.pos < kp.2)
    (hh : ∀ ex, ∀ x ∈ abs kv ex, x.height ≤ cb.h) :
    (applyBlock kv ib).res = .ok () ↔ Chain.nrdBad s cb = false := by
  obtain ⟨kv', h1, _⟩ := applyBlock_sim ib hI.sim
  rw [h1]
  exact chain_nrdBad_iff_index h hm hnd hpos hh

/-- hypotheses of `chain_nrdBad_iff_index` are satisfiable and both answers occur: the excess
"aa" seen at height 4; a block at height 6 with relative height 3 is refused by both, with
relative height 2 accepted by both. -/
example :
    let s : Chain.UState := { nrd := [("aa", 4)] }
    let S : Spec String := fun e => if e = "aa" then [⟨7, 4⟩] else []
    let cb3 : Chain.Blk := ⟨9, some 8, 6, 1, 4, 0, [], [], [.cb, .nrd 1 3 "aa"], []⟩
    let cb2 : Chain.Blk := ⟨9, some 8, 6, 1, 4, 0, [], [], [.cb, .nrd 1 2 "aa"], []⟩
    let ib3 : Blk String := ⟨6, 8, 11, [(⟨"cc", none⟩, 9), (⟨"aa", some 3⟩, 10)]⟩
    let ib2 : Blk String := ⟨6, 8, 11, [(⟨"cc", none⟩, 9), (⟨"aa", some 2⟩, 10)]⟩
    Chain.nrdBad s cb3 = true ∧ ansUnit (sApplyBlock S ib3).res = .err .nrdRelativeHeight ∧
    Chain.nrdBad s cb2 = false ∧ ansUnit (sApplyBlock S ib2).res = .unit ∧
    nrdOfIdx ib3.kernels = nrdOfChain cb3 ∧ nrdOfIdx ib2.kernels = nrdOfChain cb2 := by decide

end GV.Props.C13Nrd
