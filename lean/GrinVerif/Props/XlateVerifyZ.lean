import GrinVerif.Lemmas.XlateVerifyZ

/-! # Translated Cuckarooz verifier (`Gen/FnsVerify.lean`) = hand-written model (`Model/Pow.lean`)

`GV.Gen.Fns.Cuckarooz_verify` is regenerated from the CURRENT `core/src/pow/cuckarooz.rs`
(`CuckaroozContext::verify`) with release-build semantics (wrapping `2 * n`, `2 * n + 1`, `n - 1`,
`n += 1`; `Vec`s as lists; index conditions and loop exits collected in `Cuckarooz_verify_ok`).  The
hand model `verifyCuckarooz` (= `verifyU cfgCuckarooz`) works on function arrays.  Under
`Cuckarooz_verify_ok = true` (the Rust function returns normally) both give the same verdict, for
every chain type, every parameter set, every proof (FULL statement, no size bound).

Loop-level ties (all universally quantified, by induction):
* `z1_eq` (Lemmas/XlateVerifyZ) first `for` = `uBuild cfgCuckarooz`; invariant `RelZ`: `uvs`, the single
  `head` array and `prev` agree index-wise (`R`), `xoruv = s.x0 ^^^ s.x1`;
* `z2_eq` (Lemmas/XlateVerifyZ) second `for n in 0..2*size` = `uCirc cfgCuckarooz … size` (two translated
  iterations per model iteration);
* `z4_eq`, `z3_eq` (Lemmas/XlateVerify) inner / outer `loop` = `uFind` / `uWalk (uStep cfgCuckarooz …)`.
Points specific to Cuckarooz that the proof goes through: siphash with `xor_all = true`; head slot
`u & mask` for both endpoints with `mask = u64::MAX >> size.leading_zeros()` and `head.len() = 1 + mask`;
test `xoruv != 0` (model `jointXor`); last comparison `n == self.params.proof_size`
(model `useCtxSize`, hypothesis `hP3`).
No disagreement between translation and model was found. -/

namespace GV.Props.XlateVerifyZ
open GV GV.Gen GV.Gen.Fns GV.Pow GV.Lemmas.XlateVerify GV.Lemmas.XlateVerifyZ

theorem proofsize_le (ct : ChainTypes) : proofsize ct ≤ 42 := by
  cases ct <;> decide

/-- Cuckarooz: the translated `verify` and the model agree on accept / reject, for every chain type,
every parameter set, every proof on which the Rust function returns normally. -/
theorem cuckarooz_verify_rel (ct : ChainTypes) (params : CuckooParams) (proof : Proof)
    (P : Pow.Params) (ep : Nat → Nat × Nat)
    (hP1 : P.proofsize = proofsize ct) (hP2 : P.edgeMask = params.edge_mask)
    (hP3 : P.ctxProofSize = params.proof_size)
    (hbk : ∀ u, P.bk u = u &&& shrW (2^64-1) (leadingZeros64 proof.nonces.length))
    (hep : ∀ x, ep x = (let e := siphash_block params.siphash_keys x 21 true
                        (e &&& params.node_mask, (shrW e 32) &&& params.node_mask)))
    (hok : Cuckarooz_verify_ok ct params proof = true) :
    (Cuckarooz_verify ct params proof = some () ∧ verifyCuckarooz P ep proof.nonces = .ok ()) ∨
    (Cuckarooz_verify ct params proof = none ∧ ∃ e, verifyCuckarooz P ep proof.nonces = .error e) := by
  unfold Cuckarooz_verify_ok at hok
  unfold Cuckarooz_verify verifyCuckarooz verifyU
  dsimp only [Proof_proof_size] at hok ⊢
  by_cases hs : proof.nonces.length = proofsize ct
  · have h42 : proof.nonces.length ≤ 42 := by rw [hs]; exact proofsize_le ct
    rw [if_neg (by simpa using hs), Bool.and_eq_true] at hok
    rw [if_neg (by simpa using hs), if_neg (by rw [hP1]; simpa using hs)]
    simp only [Nat.sub_zero, mulW_two proof.nonces.length (by omega)] at hok ⊢
    obtain ⟨hok1, hok2⟩ := hok
    have hinit : RelZ (List.replicate (2 * proof.nonces.length) 0, 0,
        List.replicate (addW 1 (shrW 18446744073709551615 (leadingZeros64 proof.nonces.length)))
          (2 * proof.nonces.length),
        List.replicate (2 * proof.nonces.length) 0) (USt.init cfgCuckarooz proof.nonces.length) :=
      ⟨R_replicate _ _, by show (0 : Nat) = 0 ^^^ 0; decide, R_replicate _ _, R_replicate _ _⟩
    have h1 := z1_eq params proof.nonces _ P ep (by omega) hP2 hbk hep proof.nonces.length 0
      _ _ _ _ _ (by omega) hinit hok1
    rw [List.drop_zero, show lastOf proof.nonces 0 = none from rfl] at h1
    rcases h1 with ⟨e1, e, e2⟩ | ⟨st, s', e1, e2, r1, r2, r3, r4⟩
    · right
      rw [e1, e2]
      exact ⟨rfl, _, rfl⟩
    · rw [e1] at hok2 ⊢
      rw [e2]
      dsimp only at hok2 ⊢
      simp only [cfgCuckarooz, if_true]
      rw [← r2]
      by_cases hx : st.2.1 = 0
      · rw [if_neg (by simpa using hx)] at hok2
        rw [if_neg (by simpa using hx), if_neg (by simpa using hx)]
        rw [Bool.and_eq_true] at hok2
        obtain ⟨hok3, hok4⟩ := hok2
        have hR : R (Cuckarooz_verify_loop2 proof.nonces.length st.1
              (shrW 18446744073709551615 (leadingZeros64 proof.nonces.length)) st.2.2.1
              (List.range' 0 (2 * proof.nonces.length)) st.2.2.2)
            (uCirc cfgCuckarooz P proof.nonces.length s' proof.nonces.length s'.prev) :=
          z2_eq proof.nonces.length st.1 _ st.2.2.1 P s' (by omega) hbk
            r1 r3 proof.nonces.length 0 st.2.2.2 s'.prev (by omega) r4 hok3
        have h3 := z3_eq proof.nonces.length st.1 _ s'.uvs _ r1 hR (2 * proof.nonces.length + 1)
          0 0 0 (by omega) hok4
        rcases h3 with ⟨f1, e, f2⟩ | ⟨n', i', j', f1, f2⟩
        · right
          rw [f1]; simp only [cfgCuckarooz] at f2; rw [f2]
          exact ⟨rfl, _, rfl⟩
        · rw [f1]; simp only [cfgCuckarooz] at f2; rw [f2]
          dsimp only
          by_cases hn : n' = params.proof_size
          · left
            rw [if_pos (by simpa using hn), if_pos (by rw [hP3]; exact hn)]
            exact ⟨rfl, rfl⟩
          · right
            rw [if_neg (by simpa using hn), if_neg (by rw [hP3]; exact hn)]
            exact ⟨rfl, _, rfl⟩
      · right
        rw [if_pos (by simpa using hx), if_pos (by simpa using hx)]
        exact ⟨rfl, _, rfl⟩
  · right
    rw [if_pos (by simpa using hs), if_pos (by rw [hP1]; simpa using hs)]
    exact ⟨rfl, _, rfl⟩

/-- accept form: the translated Cuckarooz verifier returns `Ok(())` iff the model does -/
theorem cuckarooz_verify_eq (ct : ChainTypes) (params : CuckooParams) (proof : Proof)
    (P : Pow.Params) (ep : Nat → Nat × Nat)
    (hP1 : P.proofsize = proofsize ct) (hP2 : P.edgeMask = params.edge_mask)
    (hP3 : P.ctxProofSize = params.proof_size)
    (hbk : ∀ u, P.bk u = u &&& shrW (2^64-1) (leadingZeros64 proof.nonces.length))
    (hep : ∀ x, ep x = (let e := siphash_block params.siphash_keys x 21 true
                        (e &&& params.node_mask, (shrW e 32) &&& params.node_mask)))
    (hok : Cuckarooz_verify_ok ct params proof = true) :
    (Cuckarooz_verify ct params proof = some ()) ↔ (verifyCuckarooz P ep proof.nonces = .ok ()) := by
  rcases cuckarooz_verify_rel ct params proof P ep hP1 hP2 hP3 hbk hep hok with ⟨a, b⟩ | ⟨a, e, b⟩
  · exact ⟨fun _ => b, fun _ => a⟩
  · rw [a, b]; exact ⟨fun h => (by cases h), fun h => (by cases h)⟩

/-- reject form: `Err(_)` iff the model returns an error -/
theorem cuckarooz_verify_eq_none (ct : ChainTypes) (params : CuckooParams) (proof : Proof)
    (P : Pow.Params) (ep : Nat → Nat × Nat)
    (hP1 : P.proofsize = proofsize ct) (hP2 : P.edgeMask = params.edge_mask)
    (hP3 : P.ctxProofSize = params.proof_size)
    (hbk : ∀ u, P.bk u = u &&& shrW (2^64-1) (leadingZeros64 proof.nonces.length))
    (hep : ∀ x, ep x = (let e := siphash_block params.siphash_keys x 21 true
                        (e &&& params.node_mask, (shrW e 32) &&& params.node_mask)))
    (hok : Cuckarooz_verify_ok ct params proof = true) :
    (Cuckarooz_verify ct params proof = none) ↔ (∃ e, verifyCuckarooz P ep proof.nonces = .error e) := by
  rcases cuckarooz_verify_rel ct params proof P ep hP1 hP2 hP3 hbk hep hok with ⟨a, b⟩ | ⟨a, e, b⟩
  · rw [a, b]; exact ⟨fun h => (by cases h), fun ⟨_, h⟩ => (by cases h)⟩
  · exact ⟨fun _ => ⟨e, b⟩, fun _ => a⟩

/-- Non-vacuity: the hypothesis `_ok` is satisfiable (wrong-length proof on Mainnet: `_ok = true`,
result `none`). -/
example : Cuckarooz_verify_ok ChainTypes.Mainnet ⟨42, 0, [0, 0, 0, 0], 0, 0⟩ ⟨29, []⟩ = true ∧
    Cuckarooz_verify ChainTypes.Mainnet ⟨42, 0, [0, 0, 0, 0], 0, 0⟩ ⟨29, []⟩ = none := by
  constructor <;> rfl

/-- Non-vacuity on the ACCEPT side: a genuine 8-cycle (AutomatedTesting proof size 8, 512 edges,
siphash keys `[1,2,3,4]`): the Rust function returns normally and accepts. -/
example : Cuckarooz_verify_ok ChainTypes.AutomatedTesting ⟨8, 512, [1, 2, 3, 4], 511, 511⟩
      ⟨9, [2, 16, 46, 179, 225, 335, 370, 418]⟩ = true ∧
    Cuckarooz_verify ChainTypes.AutomatedTesting ⟨8, 512, [1, 2, 3, 4], 511, 511⟩
      ⟨9, [2, 16, 46, 179, 225, 335, 370, 418]⟩ = some () := by
  decide +kernel

/-- All hypotheses of `cuckarooz_verify_eq` hold together for that input (concrete `P`, `ep`), and the
theorem transfers the verdict: the hand model accepts the 8-cycle. -/
example : verifyCuckarooz ⟨8, 511, 8, fun u => u &&& shrW (2^64-1) (leadingZeros64 8)⟩
    (fun x => (let e := siphash_block [1, 2, 3, 4] x 21 true
               (e &&& 511, (shrW e 32) &&& 511)))
    [2, 16, 46, 179, 225, 335, 370, 418] = .ok () :=
  (cuckarooz_verify_eq ChainTypes.AutomatedTesting ⟨8, 512, [1, 2, 3, 4], 511, 511⟩
    ⟨9, [2, 16, 46, 179, 225, 335, 370, 418]⟩
    ⟨8, 511, 8, fun u => u &&& shrW (2^64-1) (leadingZeros64 8)⟩ _
    rfl rfl rfl (fun _ => rfl) (fun _ => rfl) (by decide +kernel)).1 (by decide +kernel)

/-- … and on the REJECT side with all loops of the first phase run (ascending nonces that are not a
cycle: `xoruv != 0`): the model reports an error. -/
example : ∃ e, verifyCuckarooz ⟨8, 511, 8, fun u => u &&& shrW (2^64-1) (leadingZeros64 8)⟩
    (fun x => (let e := siphash_block [1, 2, 3, 4] x 21 true
               (e &&& 511, (shrW e 32) &&& 511)))
    [0, 1, 2, 3, 4, 5, 6, 7] = .error e :=
  (cuckarooz_verify_eq_none ChainTypes.AutomatedTesting ⟨8, 512, [1, 2, 3, 4], 511, 511⟩
    ⟨9, [0, 1, 2, 3, 4, 5, 6, 7]⟩
    ⟨8, 511, 8, fun u => u &&& shrW (2^64-1) (leadingZeros64 8)⟩ _
    rfl rfl rfl (fun _ => rfl) (fun _ => rfl) (by decide +kernel)).1 (by decide +kernel)

/-- non-vacuity of the loop-level hypotheses (`RelZ`, `R`): the initial state of a 2-nonce run -/
example : RelZ (List.replicate 4 0, 0, List.replicate 4 4, List.replicate 4 0)
    (USt.init cfgCuckarooz 2) :=
  ⟨R_replicate _ _, by show (0 : Nat) = 0 ^^^ 0; decide, R_replicate _ _, R_replicate _ _⟩

end GV.Props.XlateVerifyZ
