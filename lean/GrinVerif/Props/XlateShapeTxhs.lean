import GrinVerif.Gen.PipeShapeTxhs
import GrinVerif.Props.XlateShapeLib
/-! # Obligations about the validation pipelines (Txhs), stated over the REGENERATED shape tables

`Gen/PipeShapeTxhs.lean` is rewritten on every check run from the current Rust source by
tools/gen_pipeshape.py.  For every function:
* `<fn>_order`  — the ORDER of the steps that can end it with an error (`?`-propagated calls, explicit
  `Err`, tail expression), by callee / error variant: a dropped, added, duplicated or moved check breaks it;
* `<fn>_propagated` — no call to a validation function (`XlateShape.watch`) has its result discarded
  (a `?` replaced by `let _ =` / `.ok();` / a bare statement breaks `_order` and this), and the list of all
  discarded calls (side-effecting helpers) is as reviewed;
* `<fn>_early_ok` — the conditions under which it returns `Ok` early, and the checks that come BEFORE the
  first early return (a new early return, or one moved in front of a check, breaks it);
* `<fn>_errors` — the explicit error variants with the innermost condition they sit under, and the variants
  introduced by `map_err` (a check weakened by changing its condition or wrapped in a new guard breaks it;
  `_depth` records the nesting depth of every step).
All are closed by `decide`.  They do not mention arguments or local names (the exact pins in
`Props/XlateShapeTxhsPins.lean` do).  After a REVIEWED change regenerate with
`python3 tools/gen_pipeshape.py --obligations Txhs`; the ties to the hand models are in
`Props/XlateShapeModel.lean`. -/
namespace GV.Props.XlateShapeTxhs
open GV.Gen.PipeShape GV.Props.XlateShape

set_option maxRecDepth 4000

/-! ### `extending (chain/src/txhashset/txhashset.rs)` -/
theorem txhs_extending_order : readOk txhs_extending = true ∧ spine txhs_extending =
    ["head", "header_head", "child", "e", "commit", "sync", "sync", "sync"] := by decide
theorem txhs_extending_propagated : discarded watch txhs_extending = [] ∧ calls txhs_extending = ["discard", "discard", "discard", "discard", "discard", "discard", "discard"] := by decide
theorem txhs_extending_early_ok : earlyOks txhs_extending = [] := by decide
theorem txhs_extending_errors : fails txhs_extending = [("e", "$5 ~ Err(_)")]
    ∧ mapped txhs_extending = [] := by decide
theorem txhs_extending_depth : depths txhs_extending = [0, 0, 0, 1, 2, 2, 2, 2] := by decide
theorem txhs_extending_guard_inputs : guardInputs txhs_extending = ["head", "header_head", "child", "at", "new", "new", "<structlit>", "inner", "rollback", "sizes", "bitmap_accumulator", "0", "1", "2", "bitmap_accumulator"] := by decide

/-! ### `extending_readonly (chain/src/txhashset/txhashset.rs)` -/
theorem txhs_extending_readonly_order : readOk txhs_extending_readonly = true ∧ spine txhs_extending_readonly =
    ["batch", "head", "header_head", "res"] := by decide
theorem txhs_extending_readonly_propagated : discarded watch txhs_extending_readonly = [] ∧ calls txhs_extending_readonly = ["discard", "discard", "discard", "discard"] := by decide
theorem txhs_extending_readonly_early_ok : earlyOks txhs_extending_readonly = [] := by decide
theorem txhs_extending_readonly_errors : fails txhs_extending_readonly = []
    ∧ mapped txhs_extending_readonly = [] := by decide
theorem txhs_extending_readonly_depth : depths txhs_extending_readonly = [0, 0, 0, 0] := by decide
theorem txhs_extending_readonly_guard_inputs : guardInputs txhs_extending_readonly = [] := by decide

/-! ### `header_extending (chain/src/txhashset/txhashset.rs)` -/
theorem txhs_header_extending_order : readOk txhs_header_extending = true ∧ spine txhs_header_extending =
    ["child", "get_block_header", "e", "commit", "sync"] := by decide
theorem txhs_header_extending_propagated : discarded watch txhs_header_extending = [] ∧ calls txhs_header_extending = ["discard", "discard"] := by decide
theorem txhs_header_extending_early_ok : earlyOks txhs_header_extending = [] := by decide
theorem txhs_header_extending_errors : fails txhs_header_extending = [("e", "$4 ~ Err(_)")]
    ∧ mapped txhs_header_extending = [] := by decide
theorem txhs_header_extending_depth : depths txhs_header_extending = [0, 1, 1, 2, 2] := by decide
theorem txhs_header_extending_guard_inputs : guardInputs txhs_header_extending = ["child", "<match>", "at", "new", "inner", "rollback", "size", "size"] := by decide

/-! ### `header_extending_readonly (chain/src/txhashset/txhashset.rs)` -/
theorem txhs_header_extending_readonly_order : readOk txhs_header_extending_readonly = true ∧ spine txhs_header_extending_readonly =
    ["batch", "get_block_header", "res"] := by decide
theorem txhs_header_extending_readonly_propagated : discarded watch txhs_header_extending_readonly = [] ∧ calls txhs_header_extending_readonly = ["discard"] := by decide
theorem txhs_header_extending_readonly_early_ok : earlyOks txhs_header_extending_readonly = [] := by decide
theorem txhs_header_extending_readonly_errors : fails txhs_header_extending_readonly = []
    ∧ mapped txhs_header_extending_readonly = [] := by decide
theorem txhs_header_extending_readonly_depth : depths txhs_header_extending_readonly = [0, 1, 0] := by decide
theorem txhs_header_extending_readonly_guard_inputs : guardInputs txhs_header_extending_readonly = [] := by decide

/-! ### `utxo_view (chain/src/txhashset/txhashset.rs)` -/
theorem txhs_utxo_view_order : readOk txhs_utxo_view = true ∧ spine txhs_utxo_view =
    ["batch", "res"] := by decide
theorem txhs_utxo_view_propagated : discarded watch txhs_utxo_view = [] ∧ calls txhs_utxo_view = [] := by decide
theorem txhs_utxo_view_early_ok : earlyOks txhs_utxo_view = [] := by decide
theorem txhs_utxo_view_errors : fails txhs_utxo_view = []
    ∧ mapped txhs_utxo_view = [] := by decide
theorem txhs_utxo_view_depth : depths txhs_utxo_view = [0, 0] := by decide
theorem txhs_utxo_view_guard_inputs : guardInputs txhs_utxo_view = [] := by decide

/-! ### `rewindable_kernel_view (chain/src/txhashset/txhashset.rs)` -/
theorem txhs_rewindable_kernel_view_order : readOk txhs_rewindable_kernel_view = true ∧ spine txhs_rewindable_kernel_view =
    ["batch", "head_header", "res"] := by decide
theorem txhs_rewindable_kernel_view_propagated : discarded watch txhs_rewindable_kernel_view = [] ∧ calls txhs_rewindable_kernel_view = [] := by decide
theorem txhs_rewindable_kernel_view_early_ok : earlyOks txhs_rewindable_kernel_view = [] := by decide
theorem txhs_rewindable_kernel_view_errors : fails txhs_rewindable_kernel_view = []
    ∧ mapped txhs_rewindable_kernel_view = [] := by decide
theorem txhs_rewindable_kernel_view_depth : depths txhs_rewindable_kernel_view = [0, 0, 0] := by decide
theorem txhs_rewindable_kernel_view_guard_inputs : guardInputs txhs_rewindable_kernel_view = [] := by decide

/-! ### `zip_read (chain/src/txhashset/txhashset.rs)` -/
theorem txhs_zip_read_order : readOk txhs_zip_read = true ∧ spine txhs_zip_read =
    ["remove_dir_all", "copy_dir_to", "create", "create_zip", "open"] := by decide
theorem txhs_zip_read_propagated : discarded watch txhs_zip_read = [] ∧ calls txhs_zip_read = [] := by decide
theorem txhs_zip_read_early_ok : earlyOks txhs_zip_read = [["$5 ~ Ok(_)"]]
    ∧ spineBeforeFirstEarlyOk txhs_zip_read = [] := by decide
theorem txhs_zip_read_errors : fails txhs_zip_read = []
    ∧ mapped txhs_zip_read = [] := by decide
theorem txhs_zip_read_depth : depths txhs_zip_read = [1, 0, 0, 0, 0] := by decide
theorem txhs_zip_read_guard_inputs : guardInputs txhs_zip_read = ["format!", "join", "open", "join"] := by decide

/-! ### `zip_write (chain/src/txhashset/txhashset.rs)` -/
theorem txhs_zip_write_order : readOk txhs_zip_write = true ∧ spine txhs_zip_write =
    ["create_dir_all", "extract_files"] := by decide
theorem txhs_zip_write_propagated : discarded watch txhs_zip_write = [] ∧ calls txhs_zip_write = [] := by decide
theorem txhs_zip_write_early_ok : earlyOks txhs_zip_write = [] := by decide
theorem txhs_zip_write_errors : fails txhs_zip_write = []
    ∧ mapped txhs_zip_write = [] := by decide
theorem txhs_zip_write_depth : depths txhs_zip_write = [0, 0] := by decide
theorem txhs_zip_write_guard_inputs : guardInputs txhs_zip_write = [] := by decide

/-! ### `txhashset_replace (chain/src/txhashset/txhashset.rs)` -/
theorem txhs_txhashset_replace_order : readOk txhs_txhashset_replace = true ∧ spine txhs_txhashset_replace =
    ["TxHashSetErr"] := by decide
theorem txhs_txhashset_replace_propagated : discarded watch txhs_txhashset_replace = [] ∧ calls txhs_txhashset_replace = ["clean_txhashset_folder", "crash_point", "crash_point"] := by decide
theorem txhs_txhashset_replace_early_ok : earlyOks txhs_txhashset_replace = [] := by decide
theorem txhs_txhashset_replace_errors : fails txhs_txhashset_replace = [("TxHashSetErr", "fs::rename($0.join(TXHASHSET_SUBDIR), $1.join(TXHASHSET_SUBDIR)) ~ Err(_)")]
    ∧ mapped txhs_txhashset_replace = [] := by decide
theorem txhs_txhashset_replace_depth : depths txhs_txhashset_replace = [1] := by decide
theorem txhs_txhashset_replace_guard_inputs : guardInputs txhs_txhashset_replace = [] := by decide

end GV.Props.XlateShapeTxhs
