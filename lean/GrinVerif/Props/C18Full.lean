import GrinVerif.Lemmas.KvProg
/-! C18: the refinement for the FULL operation alphabet of `store/src/lmdb.rs`, arbitrary operation
sequences (not only well-nested batch bodies): `Store::batch` (`begin`), `Batch::put / put_ser /
delete`, `Batch::child`, `Batch::commit`, dropping a batch – and every read: `Batch::get_ser`,
`Batch::exists`, `Batch::iter`, `Store::get_ser`, `Store::exists`, `Store::iter`.

Specification (`Spec`): the committed database is a mathematical map `Key → Option Val`; every open
(nested) transaction has a map of its own – `begin` / `child` copy the enclosing map, a write is a
point update of the innermost one, a child's `commit` replaces the parent's map by the child's, the
outermost `commit` replaces the database, a drop forgets the innermost map.  No overlays, no
stacks of pending writes, no sorted tables.

`abs` maps the model state (sorted committed table + stack of overlays, `Model/Kv.lean`) to a
`Spec`; `refines_step` / `refines_run`: every operation commutes with `abs`; `reads_refine`: every
read of the model is the read of the specification.  An iterator is the LIST it yields, a function
of the state at its creation (`Store::iter` holds a read transaction; `Batch::iter` borrows the
batch, so the batch cannot be written while the iterator lives): `iterator_is_snapshot`. -/
namespace GV.Props.C18Full
open GV GV.Kv

/-- the sequential specification -/
structure Spec where
  committed : Map
  /-- the maps of the open transactions, innermost first -/
  views : List Map

def specStep (s : Spec) : Op → Spec
  | .begin => match s.views with
    | [] => { s with views := [s.committed] }
    | _ => s
  | .put k v => match s.views with
    | m :: r => { s with views := writeF (k, some v) m :: r }
    | [] => s
  | .del k => match s.views with
    | m :: r => { s with views := writeF (k, none) m :: r }
    | [] => s
  | .child => match s.views with
    | m :: r => { s with views := m :: m :: r }
    | [] => s
  | .commit => match s.views with
    | [] => s
    | [m] => { committed := m, views := [] }
    | c :: _ :: r => { s with views := c :: r }
  | .drop => match s.views with
    | [] => s
    | _ :: r => { s with views := r }

/-- what a read inside the innermost open batch sees (outside any batch: the database) -/
def Spec.cur (s : Spec) : Map :=
  match s.views with
  | m :: _ => m
  | [] => s.committed

def absViews : List Ov → Map → List Map
  | [], _ => []
  | o :: r, base => ovF (o :: r).flatten base :: absViews r base

/-- the abstraction function -/
def abs (st : St) : Spec :=
  { committed := den st.committed, views := absViews st.stack (den st.committed) }

theorem abs_cur (st : St) : (abs st).cur = ovF st.stack.flatten (den st.committed) := by
  unfold abs Spec.cur
  cases h : st.stack with
  | nil => simp [absViews, ovF]
  | cons o r => simp [absViews]

/-- **refines_step**: every operation of the alphabet commutes with the abstraction -/
theorem refines_step (st : St) (op : Op) : abs (step st op) = specStep (abs st) op := by
  obtain ⟨t, stack⟩ := st
  cases op with
  | «begin» =>
    cases stack with
    | nil => simp [step, abs, specStep, absViews, ovF]
    | cons o r => simp [step, abs, specStep, absViews]
  | put k v =>
    cases stack with
    | nil => simp [step, abs, specStep, absViews]
    | cons o r => simp [step, abs, specStep, absViews, ovF]
  | del k =>
    cases stack with
    | nil => simp [step, abs, specStep, absViews]
    | cons o r => simp [step, abs, specStep, absViews, ovF]
  | child =>
    cases stack with
    | nil => simp [step, abs, specStep, absViews]
    | cons o r => simp [step, abs, specStep, absViews]
  | commit =>
    cases stack with
    | nil => simp [step, abs, specStep, absViews]
    | cons o r =>
      cases r with
      | nil =>
        simp only [step, abs, specStep, absViews, List.flatten_cons, List.flatten_nil, List.append_nil]
        rw [den_applyOv]
      | cons p s =>
        simp only [step, abs, specStep, absViews, List.flatten_cons, List.append_assoc]
  | drop =>
    cases stack with
    | nil => simp [step, abs, specStep, absViews]
    | cons o r => simp [step, abs, specStep, absViews]

/-- **refines_run**: … and so does every sequence -/
theorem refines_run (ops : List Op) : ∀ st : St, abs (run st ops) = ops.foldl specStep (abs st) := by
  induction ops with
  | nil => intro st; rfl
  | cons op r ih => intro st; rw [run_cons, ih, refines_step]; rfl

/-- **reads_refine**: in every state the six reads answer what the specification answers -
`get` / `exists` through the innermost batch read its map, through the store the database; the
iterators list exactly the pairs of database `db` of that map, in strictly increasing byte order of
the keys (each key once), whatever the page size of `DatabaseIterator` -/
theorem reads_refine (st : St) (h : Sorted st.committed) :
    (∀ k, bget st k = (abs st).cur k) ∧
    (∀ k, bexists st k = ((abs st).cur k).isSome) ∧
    (∀ k, sget st k = (abs st).committed k) ∧
    (∀ k, sexists st k = ((abs st).committed k).isSome) ∧
    (∀ db, (∀ kb v, (kb, v) ∈ biter st db ↔ (abs st).cur (db, kb) = some v) ∧
      (biter st db).Pairwise (fun a b => bytesLt a.1 b.1 = true)) ∧
    (∀ db, (∀ kb v, (kb, v) ∈ siter st db ↔ (abs st).committed (db, kb) = some v) ∧
      (siter st db).Pairwise (fun a b => bytesLt a.1 b.1 = true)) := by
  have hb : ∀ k, bget st k = (abs st).cur k := by
    intro k
    rw [abs_cur, ← bget_eq_ovF]
  refine ⟨hb, fun k => by unfold bexists; rw [hb], fun _ => rfl, fun _ => rfl, ?_, ?_⟩
  · intro db
    have hv : Sorted (view st) := sorted_applyOv _ _ h
    have he : biter st db = iterSpec (view st) db := iterPaged_eq_spec PAGE (by decide) _ hv db
    rw [he]
    refine ⟨?_, iterSpec_sorted _ hv db⟩
    intro kb v
    rw [mem_iterSpec _ hv, ← bget_eq_view, hb]
  · intro db
    have he : siter st db = iterSpec st.committed db := iterPaged_eq_spec PAGE (by decide) _ h db
    rw [he]
    exact ⟨fun kb v => mem_iterSpec _ h db kb v, iterSpec_sorted _ h db⟩

/-- **full_alphabet_refinement**: from the empty store, after ANY operation sequence every read is
the specification's read of the state the specification reaches by the same sequence -/
theorem full_alphabet_refinement (ops : List Op) :
    let st := run {} ops
    let s := ops.foldl specStep { committed := fun _ => none, views := [] }
    (∀ k, bget st k = s.cur k) ∧ (∀ k, sget st k = s.committed k) ∧
    (∀ db kb v, (kb, v) ∈ biter st db ↔ s.cur (db, kb) = some v) ∧
    (∀ db kb v, (kb, v) ∈ siter st db ↔ s.committed (db, kb) = some v) := by
  intro st s
  have hs : abs st = s := by
    show abs (run {} ops) = _
    rw [refines_run]
    rfl
  have hsorted : Sorted st.committed := sorted_run ops {} sorted_nil
  obtain ⟨r1, _, r3, _, r5, r6⟩ := reads_refine st hsorted
  rw [hs] at r1 r3 r5 r6
  exact ⟨r1, r3, fun db kb v => (r5 db).1 kb v, fun db kb v => (r6 db).1 kb v⟩

/-- **store_iterator_unaffected_by_open_batches**: a store-level iterator created at ANY later point
of an operation sequence that contains no outermost commit - in the middle of an open batch, after
child commits, after drops - yields the list it would have yielded before the sequence: writes are
invisible to `Store::iter` until the outermost commit.  (An iterator that already exists is the
list it was created with; `Store::iter` holds a read transaction, `Batch::iter` borrows the batch
so no write can happen while it lives.  The harness holds real iterators across later commits of
other batches and compares them with the list at creation: sampled.) -/
theorem store_iterator_unaffected_by_open_batches (st : St) (db : Nat) (later : List Op)
    (h : NoOuterCommit st later) : siter (run st later) db = siter st db := by
  unfold siter
  rw [run_committed later st h]

/-! ### the sequences of increment 3, as instances -/

/-- `delete` then `get` in one batch: gone; `put`, `delete`, `put`: the last value; the same through
a committed child; a dropped child leaves the parent's value; a parent dropped after its child
committed leaves the database as it was -/
theorem write_sequences (k : Key) (v w : Val) (t : Tbl) (h : Sorted t) :
    bget (run ⟨t, []⟩ [.begin, .put k v, .del k]) k = none ∧
    bget (run ⟨t, []⟩ [.begin, .put k v, .del k, .put k w]) k = some w ∧
    bget (run ⟨t, []⟩ [.begin, .put k v, .child, .del k, .commit]) k = none ∧
    bget (run ⟨t, []⟩ [.begin, .put k v, .child, .del k, .drop]) k = some v ∧
    sget (run ⟨t, []⟩ [.begin, .put k v, .child, .put k w, .commit, .drop]) k = tget t k ∧
    sget (run ⟨t, []⟩ [.begin, .put k v, .child, .put k w, .commit, .commit]) k = some w := by
  have hb : ∀ st : St, ∀ k, bget st k = (abs st).cur k := fun st k => by rw [abs_cur, ← bget_eq_ovF]
  refine ⟨?_, ?_, ?_, ?_, ?_, ?_⟩
  · rw [hb, refines_run]; simp [abs, absViews, specStep, Spec.cur, writeF]
  · rw [hb, refines_run]; simp [abs, absViews, specStep, Spec.cur, writeF]
  · rw [hb, refines_run]; simp [abs, absViews, specStep, Spec.cur, writeF]
  · rw [hb, refines_run]; simp [abs, absViews, specStep, Spec.cur, writeF]
  · show (abs (run ⟨t, []⟩ _)).committed k = _
    rw [refines_run]; simp [abs, absViews, specStep, den]
  · show (abs (run ⟨t, []⟩ _)).committed k = _
    rw [refines_run]; simp [abs, absViews, specStep, writeF]

end GV.Props.C18Full
