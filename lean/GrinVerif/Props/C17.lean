import GrinVerif.Gen.Locks
import GrinVerif.Lemmas.ConcDeadlock
import GrinVerif.Lemmas.ConcCommit
import GrinVerif.Lemmas.TxCount
/-! # C17 — concurrent chain use neither deadlocks nor exposes uncommitted state

Property theorems only. Three layers, tied together as follows.

* `table_*`: decided over the lock table **regenerated from /repo/chain/src/chain.rs,
  txhashset/segmenter.rs and txhashset/desegmenter.rs on every run** (`Gen/Locks.lean`, produced by `tools/gen_locks.py`): a change to chain.rs that
  introduces a lock-order inversion, a re-acquisition of a held lock, a commit outside the
  write locks or a callback under a lock makes these obligations fail at the next check.
* `deadlock_free` & co: for the lock transition system of `Model/Conc.lean`, any number of
  threads, arbitrary programs, arbitrary admissible writer-preference policy: if every program
  respects the order, no reachable state is deadlocked, every execution has at most
  (number of events) steps and can only stop with every thread finished.
* `readers_see_committed` & co: for the commit-protocol model (`Conc.Commit`), every observation
  a reader makes is a state of the sequential commit history.

* `count_eq_open` & co: for the open-transaction counter protocol of `store/src/lmdb.rs`
  (`Model/TxCount.lean`: `enter_tx`, `TxCounter::drop`, the resize waiter) — the one piece of the
  `resizing` gate that decides whether a due map resize ever runs: with every counter update one
  critical section the counter always equals the number of open transactions, hence is 0 whenever
  all transactions are closed and the waiting resize is enabled; `lost_decrement_witness` is a
  concrete schedule of the *split* decrement (`load`; `store(c - 1)`, what `TxCounter::drop` would
  be without the `ENV_MAP` lock) after which the counter is 1 for ever and the system is dead.
  The tie of this part to the code is the watchdog run `conc txcount`.

NOT covered (named in the evidence): the translation is text-level; the transition system knows
nothing about thread panics, scheduler fairness (a thread may starve without the system being
deadlocked), the `resizing` spin gate of lmdb.rs, or locks taken outside chain.rs/segmenter.rs;
races *inside* one op between the MMR `sync()`s and the LMDB `commit()` as seen by a reader that
takes no chain lock (`Chain::head()`, `get_block`) are visible in the `Commit` model only as the
fact that such a reader sees the LMDB half of a committed state — nothing is claimed about a
reader that combines a lock-free LMDB read with a later locked MMR read. -/
namespace GV.Props.C17
open GV GV.Conc GV.Gen

/-! ## obligations on the regenerated table -/

/-- Every `pub fn` of `impl Chain` (with its callees inlined) and of `impl Segmenter` acquires
locks in the global order `orph < hidx < segm < deseg < hp < ts < batch < deny`, never acquires a
lock it already holds (in any mode), releases only what it holds and ends holding nothing. -/
theorem table_respects_order : ∀ e ∈ lockTable, respectsOrder e.2 = true := by
  decide +kernel

/-- Every `batch.commit()` in chain.rs happens while the thread holds the batch and write-holds
`header_pmmr` or `txhashset`: publication to LMDB is never concurrent with a guard-holding reader
of the structure being changed. -/
theorem table_commits_under_write_lock :
    ∀ e ∈ lockTable, e.1 ≠ "Desegmenter::check_progress" → commitsUnderWriteLock e.2 = true := by
  decide +kernel

/-- The exception, stated so that it cannot go unnoticed: `Desegmenter::check_progress`
(desegmenter.rs) commits a batch of its own — `save_pibd_head` only — holding neither
`header_pmmr` nor `txhashset` (it has released both read guards before), under the caller's
`pibd_desegmenter.write()` only.  The key it writes (`pibd_head`) is read by no op of the table but
`reset_pibd_head`; it is not part of (head, header head, MMR state) the commit-protocol model
speaks about. -/
theorem desegmenter_check_progress_commits_unlocked :
    (lockTable.lookup "Desegmenter::check_progress").map commitsUnderWriteLock = some false ∧
    (lockTable.lookup "Desegmenter::check_progress").map respectsOrder = some true := by
  decide +kernel

/-- Every op that commits does so while write-holding `txhashset` — the hypothesis under which the
commit-protocol model below speaks about chain.rs / desegmenter.rs (the one exception,
`Desegmenter::check_progress`, commits `pibd_head` only, see above). -/
theorem table_commits_under_ts_write :
    ∀ e ∈ lockTable, e.1 ≠ "Desegmenter::check_progress" → commitsUnderTsWrite e.2 = true := by
  decide +kernel

/-- `Chain::txhashset_write` (installing a zipped state; reachable from the p2p `TxHashSetArchive`
message) takes `header_pmmr.write()`, then `txhashset.write()`, then the batch, and commits the new
head, `output_pos` index and block sums to LMDB while it write-holds `txhashset`; the MMR files are
swapped in under the same guard.  It is an ordinary writer of the commit-protocol model
(`state_install_views_old_or_new`).
History: until the repair `fix: txhashset_write holds the txhashset lock across the commit of the new
head` this theorem read `commitsUnderTsWrite = some false` — the op committed under
`header_pmmr.write()` only and took `txhashset.write()` afterwards; harness mode `zipwin` reproduced
the window on the real code (finding C17-txhashset-write-window: a reader holding `txhashset.read()`
saw the installed head with the genesis MMR state, `get_unspent` of an unspent output answered None)
and stays in the check as a regression probe; `state_install_window_witness` below keeps the
model-level schedule of the old protocol. -/
theorem txhashset_write_commits_under_ts_write :
    (lockTable.lookup "txhashset_write").map commitsUnderTsWrite = some true ∧
    (lockTable.lookup "txhashset_write").map commitsUnderWriteLock = some true ∧
    (lockTable.lookup "txhashset_write").map respectsOrder = some true := by
  decide +kernel

/-- The only callback into foreign code (`self.adapter.block_accepted`) is made with no chain lock
held (so a callback that re-enters the chain, as the pool adapter does, cannot close a cycle
through these locks). -/
theorem table_callbacks_unlocked : ∀ e ∈ lockTable, callbacksUnlocked e.2 = true := by
  decide +kernel

/-- The ops the harness drives concurrently are in the table, and the readers among them either
take a `txhashset` guard or take no lock at all (they read LMDB committed state only) or take
only `header_pmmr.read()`. -/
theorem table_harness_ops_present :
    ∀ n ∈ ["process_block", "process_block_header", "sync_block_headers", "validate_tx", "get_unspent",
           "get_header_by_height", "head", "head_header", "get_block", "set_txhashset_roots", "segmenter",
           "compact", "validate", "Segmenter::kernel_segment", "Segmenter::output_segment"],
      (lockTable.lookup n).isSome = true := by
  decide +kernel

theorem table_lockfree_readers :
    ∀ n ∈ ["head", "head_header", "header_head", "tail", "get_block", "get_block_header", "get_previous_header",
           "get_block_sums", "block_exists", "is_known"],
      (lockTable.lookup n).map isLockFree = some true := by
  decide +kernel

theorem table_state_readers_take_ts :
    ∀ n ∈ ["get_unspent", "get_unspent_output_at", "validate_tx", "validate_inputs", "verify_coinbase_maturity",
           "get_output_pos", "unspent_outputs_by_pmmr_index", "get_last_n_output", "get_last_n_kernel",
           "get_header_for_output", "validate", "set_txhashset_roots", "get_merkle_proof", "txhashset_read",
           "Segmenter::kernel_segment", "Segmenter::bitmap_segment", "Segmenter::output_segment",
           "Segmenter::rangeproof_segment"],
      (lockTable.lookup n).map takesTs = some true := by
  decide +kernel

/-- The state-receiving side is in the table: every `pub fn` of `impl Desegmenter`
(desegmenter.rs) the servers code and the harness run `pibd` call — they lock the chain's
`header_pmmr` / `txhashset` through the `Arc`s handed over by `Chain::desegmenter()` and open batches
on the chain's store; `table_respects_order` above and `chain_ops_deadlock_free` below range over
them like over every op of chain.rs. -/
theorem table_desegmenter_ops_present :
    ∀ n ∈ ["desegmenter", "Desegmenter::check_progress", "Desegmenter::check_update_leaf_set_state",
           "Desegmenter::validate_complete_state", "Desegmenter::apply_next_segments",
           "Desegmenter::next_desired_segments", "Desegmenter::finalize_bitmap",
           "Desegmenter::add_bitmap_segment", "Desegmenter::add_output_segment",
           "Desegmenter::add_rangeproof_segment", "Desegmenter::add_kernel_segment",
           "Desegmenter::apply_output_segments", "Desegmenter::apply_rangeproof_segments",
           "Desegmenter::apply_kernel_segments"],
      (lockTable.lookup n).isSome = true := by
  decide +kernel

/-- Every `Desegmenter::…` entry runs inside the caller's `pibd_desegmenter.write()` guard (first
event `+deseg.W`, last event `-deseg`: how adapters.rs / state_sync.rs call it), and the ones that
install state — `apply_next_segments` (bitmap, outputs, range proofs, kernels), `finalize_bitmap`,
`check_update_leaf_set_state`, `validate_complete_state` — write-lock `header_pmmr` and `txhashset`
(in that order, by `table_respects_order`). -/
theorem table_desegmenter_under_guard :
    (∀ e ∈ lockTable, e.1.startsWith "Desegmenter::" = true →
      e.2.head? = some (.acq .deseg .W) ∧ e.2.getLast? = some (.rel .deseg)) ∧
    (∀ n ∈ ["Desegmenter::apply_next_segments", "Desegmenter::finalize_bitmap",
            "Desegmenter::check_update_leaf_set_state", "Desegmenter::validate_complete_state",
            "Desegmenter::apply_output_segments", "Desegmenter::apply_rangeproof_segments",
            "Desegmenter::apply_kernel_segments"],
      (lockTable.lookup n).map opClass = some "write") := by
  decide +kernel

/-- **Which public ops are single-view** (generated: `views` over the regenerated table, see
`Model/Conc.lean`).  Every op listed here takes at most ONE view of the chain state: one interval
under `header_pmmr` / `txhashset`, or one lock-free LMDB read.  By `table_commits_under_ts_write`
nothing is published while such an interval holds `txhashset`, so everything the op returns is
read from one committed state (`readers_see_committed`, one observation).  The harness applies its
"data read under one view is mutually consistent" oracles to ops of this list only (`conc views`
lines). -/
theorem table_single_view_ops :
    ∀ n ∈ ["get_unspent", "get_unspent_output_at", "validate_inputs", "get_merkle_proof", "get_merkle_proof_for_pos",
           "get_last_n_output", "get_last_n_rangeproof", "get_last_n_kernel", "get_output_pos",
           "unspent_outputs_by_pmmr_index", "get_header_for_output", "get_header_for_kernel_index",
           "get_locator_hashes", "set_txhashset_roots", "head", "tail", "header_head", "head_header", "get_block",
           "get_block_header", "get_previous_header", "get_block_sums", "block_exists",
           "Segmenter::kernel_segment", "Segmenter::bitmap_segment", "Segmenter::output_segment",
           "Segmenter::rangeproof_segment", "process_block_header", "sync_block_headers", "reset_chain_head",
           "reset_chain_head_to_genesis"],
      (lockTable.lookup n).map views = some 1 := by
  decide +kernel

/-- **Which are not**: the complete list of ops that combine two or more views (with the count the
translator sees; branches are emitted one after the other, so alternatives add up).  What such an
op returns may mix several committed states - in commit order (`multi_view_reads_ordered`), nothing
more is claimed: `get_header_by_height` (hash under `header_pmmr.read()`, header by hash from LMDB
afterwards - harmless, headers are immutable by hash), `get_kernel_height`,
`block_height_range_to_pmmr_indices`, `fork_point`, `is_known`, the archive-header look-ups,
`validate_tx` / `verify_coinbase_maturity` (read-lock path then write-lock path), `validate` (head
header read before the locks), `segmenter`, `compact`, `process_block` (header step, body step,
orphans).  Any change of chain.rs that moves an op into or out of this list breaks the theorem. -/
theorem table_multi_view_ops :
    (lockTable.filter (fun e => decide (views e.2 ≥ 2))).map (fun e => (e.1, views e.2)) =
      [("process_block", 16), ("is_known", 2), ("validate_tx", 2), ("verify_coinbase_maturity", 4), ("validate", 2),
       ("txhashset_read", 2), ("segmenter", 6), ("txhashset_archive_header", 5),
       ("txhashset_archive_header_header_only", 3), ("fork_point", 4), ("txhashset_write", 8), ("compact", 8),
       ("block_height_range_to_pmmr_indices", 5), ("get_header_by_height", 2), ("get_kernel_height", 8),
       ("Desegmenter::check_progress", 2), ("Desegmenter::validate_complete_state", 4),
       ("Desegmenter::apply_next_segments", 7), ("Desegmenter::next_desired_segments", 7)] := by
  decide +kernel

/-- the view counter sees what it should -/
example : views [.acq .hp .R, .acq .ts .R, .mark .dbread, .rel .ts, .rel .hp] = 1 := by decide
example : views [.acq .hp .R, .rel .hp, .mark .dbread] = 2 := by decide
example : views [.mark .dbread, .mark .dbread] = 2 := by decide
example : views [.acq .orph .R, .rel .orph] = 0 := by decide

/-- The 58 ops of the pairwise matrix (harness run `matrix`: every unordered pair of them, 1711
pairs, run against each other on one real Chain) are entries of the regenerated table; by
`chain_ops_deadlock_free` (two threads, each running one of them any number of times) the model has
no deadlock for any of these pairs, and the real code returned for every pair. -/
theorem table_matrix_ops_present :
    ∀ n ∈ ["invalidate_header", "reset_chain_head", "reset_prune_lists", "reset_pibd_head",
           "process_block", "is_known", "process_block_header", "sync_block_headers", "is_orphan",
           "orphans_evicted_len", "get_unspent", "get_unspent_output_at", "validate_tx",
           "validate_inputs", "verify_coinbase_maturity", "verify_tx_lock_height", "validate",
           "set_prev_root_only", "set_txhashset_roots", "get_merkle_proof",
           "get_merkle_proof_for_pos", "txhashset_read", "segmenter", "desegmenter",
           "txhashset_archive_header", "txhashset_archive_header_header_only", "fork_point",
           "check_txhashset_needed", "compact", "get_last_n_output", "get_last_n_rangeproof",
           "get_last_n_kernel", "get_output_pos", "unspent_outputs_by_pmmr_index",
           "block_height_range_to_pmmr_indices", "orphans_len", "head", "tail", "header_head",
           "head_header", "get_block", "get_tail", "get_block_header", "get_previous_header",
           "get_block_sums", "get_header_by_height", "get_header_for_output", "get_kernel_height",
           "get_header_for_kernel_index", "get_locator_hashes", "difficulty_iter", "block_exists",
           "Segmenter::kernel_segment", "Segmenter::bitmap_segment", "Segmenter::output_segment",
           "Segmenter::rangeproof_segment", "Desegmenter::next_desired_segments",
           "Desegmenter::check_progress"],
      (lockTable.lookup n).isSome = true := by
  decide +kernel

/-- the table is not empty / not all lock-free (the translator found the locks) -/
example : (lockTable.filter (fun e => !isLockFree e.2)).length ≥ 30 := by decide +kernel

/-- the checker rejects what it should: the classic inversion, re-acquisition, read-after-read,
release of something not held, a guard leaked past the end -/
example : respectsOrder [.acq .ts .W, .acq .hp .W, .rel .hp, .rel .ts] = false := by decide
example : respectsOrder [.acq .ts .W, .acq .ts .W, .rel .ts] = false := by decide
example : respectsOrder [.acq .ts .R, .acq .ts .R, .rel .ts] = false := by decide
example : respectsOrder [.acq .batch .W, .acq .ts .R, .rel .ts, .rel .batch] = false := by decide
example : respectsOrder [.rel .ts] = false := by decide
example : respectsOrder [.acq .ts .R] = false := by decide
example : commitsUnderWriteLock [.acq .hp .R, .acq .batch .W, .mark .commit, .rel .batch, .rel .hp] = false := by decide
example : callbacksUnlocked [.acq .ts .W, .mark .callback, .rel .ts] = false := by decide

/-! ## deadlock freedom of the lock transition system -/
section
variable {L : Type} [DecidableEq L]

/-- **No reachable deadlock.** Any number of threads, arbitrary programs over an arbitrary lock
alphabet with an arbitrary rank function, readers-writer semantics with any admissible
writer-preference policy (`PolicyOK`: a reader is refused only while a writer waits for that
lock): if every program acquires in strictly increasing rank (and is well bracketed), then in every
reachable state either all threads are finished or some thread can move. -/
theorem deadlock_free (rank : L → Nat) (P : Policy L) (hP : PolicyOK P) (progs : List (List (Ev L)))
    (hord : ∀ p ∈ progs, checkFrom rank [] p = true) (s : State L) (hr : Reach P (init progs) s) :
    ¬ Deadlocked P s := by
  intro ⟨hun, hno⟩
  have hinv := inv_reach rank P _ s (inv_init rank progs hord) hr
  obtain ⟨i, hi⟩ := progress rank P hP s hinv hun
  exact hno i hi

/-- An execution can only stop in a state where every thread has run its whole program and holds
no lock. -/
theorem stuck_only_when_finished (rank : L → Nat) (P : Policy L) (hP : PolicyOK P) (progs : List (List (Ev L)))
    (hord : ∀ p ∈ progs, checkFrom rank [] p = true) (s : State L) (hr : Reach P (init progs) s)
    (hstuck : ∀ s', ¬ Step P s s') : ∀ t ∈ s, t.prog = [] ∧ t.held = [] := by
  have hinv := inv_reach rank P _ s (inv_init rank progs hord) hr
  have hfin : ∀ t ∈ s, t.prog = [] := by
    intro t ht
    by_cases h : t.prog = []
    · exact h
    · exfalso
      obtain ⟨i, hi⟩ := progress rank P hP s hinv ⟨t, ht, h⟩
      exact hstuck _ ⟨i, hi, rfl⟩
  intro t ht
  exact ⟨hfin t ht, (held_lt_of_inv rank t (hinv t ht)).1 (hfin t ht)⟩

/-- Every execution is finite: `n` steps from the initial state leave exactly `total − n` events,
so no execution is longer than the total number of events (no livelock inside the lock layer). -/
theorem executions_bounded (P : Policy L) (progs : List (List (Ev L))) (n : Nat) (s : State L)
    (h : RunN P n (init progs) s) : n + remaining s = remaining (init progs) :=
  runN_remaining P h

/-- The modelled locks exclude: in every reachable state a write-held lock is held by nobody else,
in any mode. (Holds for arbitrary programs; without it `deadlock_free` could be vacuous.) -/
theorem mutual_exclusion (P : Policy L) (progs : List (List (Ev L))) (s : State L)
    (hr : Reach P (init progs) s) (i j : Nat) (ti tj : Thread L) (hi : s[i]? = some ti) (hj : s[j]? = some tj)
    (hij : i ≠ j) (l : L) (hl : (l, Mode.W) ∈ ti.held) (m : Mode) : (l, m) ∉ tj.held :=
  excl_reach P _ s (excl_init progs) hr i j ti tj hi hj hij l hl m

end

/-- `deadlock_free` instantiated at the regenerated table: any number of threads, each running any
sequence of ops of chain.rs (as translated), under strict writer preference. -/
theorem chain_ops_deadlock_free (threads : List (List String))
    (hknown : ∀ th ∈ threads, ∀ n ∈ th, (lockTable.lookup n).isSome = true) (s : State Lock)
    (hr : Reach strictWP (init (threads.map (fun th => (th.map (fun n => (lockTable.lookup n).getD [])).flatten))) s) :
    ¬ Deadlocked strictWP s := by
  apply deadlock_free Lock.rank strictWP (fun _ _ _ h => h) _ _ s hr
  intro p hp
  simp only [List.mem_map] at hp
  obtain ⟨th, hth, rfl⟩ := hp
  apply checkFrom_flatten
  intro q hq
  simp only [List.mem_map] at hq
  obtain ⟨n, hn, rfl⟩ := hq
  cases hl : lockTable.lookup n with
  | none => have := hknown th hth n hn; rw [hl] at this; cases this
  | some evs =>
    simp only [Option.getD_some]
    exact table_respects_order (n, evs) (lookup_mem hl)

/-- The executable enabledness test used by the driver (`conc sim`, `conc selftest`) decides the
`Enabled` relation of the transition system under strict writer preference. -/
theorem driver_scheduler_is_model (s : State Lock) (i : Nat) :
    enabledB s i = true ↔ Enabled strictWP s i :=
  enabledB_iff s i

/-- Under strict writer preference a waiting writer is never overtaken: while some thread's next
event is the write acquisition of `l`, no thread's read acquisition of `l` is enabled — the
semantics of `parking_lot::RwLock` once a writer is parked that makes read-after-read by one thread
a deadlock (run `selftest reread` checks it on the real lock objects).  Together with
`executions_bounded` (programs are finite): the readers inside `l` can only leave. -/
theorem waiting_writer_not_overtaken {L : Type} [DecidableEq L] (s : State L) (i : Nat) (l : L)
    (t : Thread L) (hs : s[i]? = some t) (hr : t.prog.head? = some (.acq l .R))
    (hw : ∃ u ∈ s, u.prog.head? = some (.acq l .W)) : ¬ Enabled strictWP s i := by
  intro he
  unfold Enabled at he
  rw [hs] at he
  obtain ⟨prog, held⟩ := t
  cases prog with
  | nil => cases hr
  | cons e rest =>
    simp only [List.head?_cons, Option.some.injEq] at hr
    subst hr
    exact he.2 hw

/-- non-vacuity: a reader arriving while a writer waits for a read-held lock is refused, the holder can
still release -/
example : ¬ Enabled (strictWP (L := Lock))
      [⟨[.rel .ts], [(.ts, .R)]⟩, ⟨[.acq .ts .W, .rel .ts], []⟩, ⟨[.acq .ts .R, .rel .ts], []⟩] 2 ∧
    Enabled (strictWP (L := Lock))
      [⟨[.rel .ts], [(.ts, .R)]⟩, ⟨[.acq .ts .W, .rel .ts], []⟩, ⟨[.acq .ts .R, .rel .ts], []⟩] 0 :=
  ⟨waiting_writer_not_overtaken _ 2 .ts _ rfl rfl ⟨⟨[.acq .ts .W, .rel .ts], []⟩, by simp, rfl⟩, trivial⟩

/-! non-vacuity: the model can deadlock when the discipline is broken -/

/-- two threads taking `hp`/`ts` in opposite orders reach a deadlocked state -/
example : ∃ s, Reach (strictWP (L := Lock))
      (init [[.acq .hp .W, .acq .ts .W, .rel .ts, .rel .hp], [.acq .ts .W, .acq .hp .W, .rel .hp, .rel .ts]]) s
    ∧ Deadlocked strictWP s := deadlock_example_inversion

/-- one thread read-locking `ts` twice with a writer arriving in between deadlocks under writer
preference — why `respectsOrder` rejects read-after-read -/
example : ∃ s, Reach (strictWP (L := Lock))
      (init [[.acq .ts .R, .acq .ts .R, .rel .ts], [.mark .callback, .acq .ts .W, .rel .ts]]) s
    ∧ Deadlocked strictWP s := deadlock_example_reentrant_read

/-- both extreme policies are admissible -/
example : PolicyOK (strictWP (L := Lock)) := fun _ _ _ h => h
example : PolicyOK (fun (_ : State Lock) _ _ => False) := fun _ _ _ h => h.elim

/-- hypotheses of `deadlock_free` are satisfiable by a non-trivial instance -/
example : ∀ p ∈ [[Ev.acq Lock.hp .W, .acq .ts .W, .acq .batch .W, .rel .batch, .rel .ts, .rel .hp],
                 [.acq .hp .R, .acq .ts .R, .rel .ts, .rel .hp], [.acq .ts .R, .rel .ts]],
    checkFrom Lock.rank [] p = true := by decide

/-! ## readers observe committed states only (commit-protocol model) -/
section
open Commit
variable {D M : Type}

/-- Every observation made in any run of the commit-protocol system — by a reader holding
`txhashset.read()` (both the LMDB and the MMR component) or by a lock-free reader (LMDB
component) — is the corresponding component of a state of the **sequential commit history**, namely
the state after exactly the `k` ops that had committed when the observation was made. In particular
no reader sees a writer's private work, the half-published state between the MMR sync and the LMDB
commit, or anything of an aborted op. -/
theorem readers_see_committed (s0 : Shared D M) (s : St D M) (log : List (Nat × Obs D M))
    (h : Run s0 s log) : ∀ k o, (k, o) ∈ log → ∃ c, s.hist.reverse[k]? = some c ∧ obsMatches o c :=
  run_obs_committed s0 s log h

/-- Successive observations are of non-decreasing positions in the commit history (the log is
newest first), and never ahead of the current one. -/
theorem observations_monotone (s0 : Shared D M) (s : St D M) (log : List (Nat × Obs D M))
    (h : Run s0 s log) : log.Pairwise (fun a b => b.1 ≤ a.1) ∧ ∀ e ∈ log, e.1 ≤ s.k :=
  run_log_monotone s0 s log h

/-- **What an op that combines several views gets** (the ops of `table_multi_view_ops`, and any
caller that combines `head()` with a later locked read): each of its views is a state of the
sequential commit history, and they come in commit order - a later view is never of an older state
than an earlier one.  (The log is newest first.) -/
theorem multi_view_reads_ordered (s0 : Shared D M) (s : St D M) (log : List (Nat × Obs D M))
    (h : Run s0 s log) :
    log.Pairwise (fun later earlier => earlier.1 ≤ later.1 ∧
      (∃ c, s.hist.reverse[later.1]? = some c ∧ obsMatches later.2 c) ∧
      (∃ c, s.hist.reverse[earlier.1]? = some c ∧ obsMatches earlier.2 c)) := by
  have hm := (run_log_monotone s0 s log h).1
  have hc := run_obs_committed s0 s log h
  exact hm.imp_of_mem (fun {a b} ha hb hab => ⟨hab, hc a.1 a.2 ha, hc b.1 b.2 hb⟩)

/-- Writers are serial: every committed state was computed from the immediately preceding
committed state (the history records, with each entry, the base its op started from). -/
theorem commits_are_serial (s0 : Shared D M) (s : St D M) (log : List (Nat × Obs D M))
    (h : Run s0 s log) : serialHist s0 s.bases s.hist :=
  run_serial s0 s log h

/-- **A read-only extension leaves no trace.**  From any state in which the txhashset lock is free
and thread `tid` is idle, the op "take the write lock, do ANY list `fs` of private work steps
(rewind to another block, apply a fork, apply a template block, apply kernels …), roll back,
unlock" — `txhashset::extending_readonly` / `header_extending_readonly` as used by
`get_merkle_proof`, `get_locator_hashes`, `set_txhashset_roots`, `validate`, the NRD path of
`validate_tx`, the write-lock path of `verify_coinbase_maturity`, `init_segmenter` — is executable and
ends in a state that agrees with the starting state in EVERY component: shared LMDB and MMR state,
lock, commit count, history, every thread's phase.  (While it runs, `readers_see_committed` applies:
nobody observes the private work.)  The harness drives these ops against the `View` / `HeaderView`
readers. -/
theorem readonly_extension_leaves_no_trace (s : St D M) (tid : Nat) (fs : List (Shared D M → Shared D M))
    (hfree : s.ts = .free) (hidle : s.wr tid = .idle) :
    ∃ s', Silent s s' ∧ s'.sh = s.sh ∧ s'.ts = s.ts ∧ s'.k = s.k ∧ s'.hist = s.hist ∧
      s'.bases = s.bases ∧ ∀ j, s'.wr j = s.wr j := by
  have st := CStep.wlock s tid hfree hidle
  obtain ⟨s2, hs2, hw, hsh, _, hk, hh, hb, hj⟩ :=
    work_chain fs { s with ts := .writer tid, wr := fun j => if j = tid then .working s.sh s.sh else s.wr j }
      tid s.sh s.sh (by simp)
  have ab := CStep.abort s2 tid s.sh (workAll s.sh fs) hw
  refine ⟨_, Silent.step (Silent.head st hs2) ab, hsh, hfree.symm, hk, hh, hb, ?_⟩
  intro j
  by_cases hjt : j = tid
  · subst hjt; simp [hidle]
  · simp only [hjt, if_false]
    rw [hj j hjt]
    simp [hjt]

/-- non-vacuity and contrast (the seeded change C17-F, a lost rollback): the same op with the
rollback skipped (`leakUnlock`: the private MMR work is published when the lock is released, nothing
is committed) leaves the lock free with an MMR state that is in NO state of the commit history — the
next reader under `txhashset.read()` observes it. -/
theorem lost_rollback_exposes_uncommitted :
    (leakUnlock leakExample 3).ts = .free ∧ (leakUnlock leakExample 3).sh.db = 0 ∧
    (leakUnlock leakExample 3).sh.mmr = 9 ∧ (leakUnlock leakExample 3).hist = [⟨0, 0⟩] ∧
    CStep { (leakUnlock leakExample 3) with ts := .readers 1 } (some (.locked 0 9))
          { (leakUnlock leakExample 3) with ts := .readers 1 } ∧
    ∀ c ∈ (leakUnlock leakExample 3).hist, ¬ obsMatches (.locked 0 9) c := by
  have hh : (leakUnlock leakExample 3).hist = [⟨0, 0⟩] := rfl
  refine ⟨rfl, rfl, rfl, hh, CStep.rread _ 1 rfl, ?_⟩
  intro c hc
  rw [hh, List.mem_singleton] at hc
  subst hc
  simp [obsMatches]

/-- **A state install is seen old or new, never mixed.**  In any run of the commit-protocol system in
which exactly one op has committed (the install of state `w` over `s0` — since the repair
`Chain::txhashset_write` is such an op: `txhashset_write_commits_under_ts_write`), every view a
reader takes under `txhashset.read()` is the pair (LMDB part, MMR part) of `s0` or the pair of `w`;
every lock-free LMDB read is the LMDB part of one of the two. -/
theorem state_install_views_old_or_new (s0 w : Shared D M) (s : St D M) (log : List (Nat × Obs D M))
    (h : Run s0 s log) (hh : s.hist = [w, s0]) :
    ∀ k o, (k, o) ∈ log → obsMatches o s0 ∨ obsMatches o w := by
  intro k o hm
  obtain ⟨c, hc, hmatch⟩ := run_obs_committed s0 s log h k o hm
  rw [hh] at hc
  simp only [List.reverse_cons, List.reverse_nil, List.nil_append, List.cons_append] at hc
  match k, hc with
  | 0, hc => simp only [List.getElem?_cons_zero, Option.some.injEq] at hc; subst hc; exact Or.inl hmatch
  | 1, hc => simp only [List.getElem?_cons_succ, List.getElem?_cons_zero, Option.some.injEq] at hc; subst hc; exact Or.inr hmatch
  | (n + 2), hc => simp at hc

/-- non-vacuity: a run with one install `⟨7,7⟩` over `⟨0,0⟩`, a view taken before and one after -/
example : ∃ (s : St Nat Nat) (log : List (Nat × Obs Nat Nat)), Run ⟨0, 0⟩ s log ∧ s.hist = [⟨7, 7⟩, ⟨0, 0⟩] ∧
    log = [(1, .locked 7 7), (0, .lockfree 0), (0, .locked 0 0)] := by
  let s0 : Shared Nat Nat := ⟨0, 0⟩
  have r0 := Run.nil (s0 := s0)
  have r1 := Run.silent r0 (CStep.rlock0 _ rfl)
  have r2 := Run.obs r1 (CStep.rread _ 1 rfl)
  have r3 := Run.silent r2 (CStep.runlock1 _ rfl)
  have r4 := Run.silent r3 (CStep.wlock _ 5 rfl rfl)
  have r5 := Run.silent r4 (CStep.work _ 5 s0 s0 (fun _ => ⟨7, 7⟩) rfl)
  have r6 := Run.silent r5 (CStep.sync _ 5 s0 ⟨7, 7⟩ rfl)
  have r7 := Run.obs r6 (CStep.lfread _)
  have r8 := Run.silent r7 (CStep.commit _ 5 s0 ⟨7, 7⟩ rfl)
  have r9 := Run.silent r8 (CStep.wunlock _ 5 rfl)
  have r10 := Run.silent r9 (CStep.rlock0 _ rfl)
  have r11 := Run.obs r10 (CStep.rread _ 1 rfl)
  exact ⟨_, _, r11, rfl, rfl⟩

/-- **The state-install window of the protocol BEFORE the repair, as a kernel-checked schedule**
(kept as the model-level counterpart of finding C17-txhashset-write-window; harness mode `zipwin`
reproduced it on the real code and now guards against a relapse).
Before the repair `Chain::txhashset_write` committed the LMDB half of the new state without holding
the txhashset lock (`installCommit`) and swapped the MMR half in later (`installSwap`).  Schedule: a reader takes
`txhashset.read()`, the install commits `⟨7, 7⟩` to LMDB, the reader reads: it observes LMDB part 7
with MMR part 0 - a pair that is NO state of the commit history `[⟨7,7⟩, ⟨0,0⟩]`; after the swap (the
reader gone) the shared state is the committed `⟨7, 7⟩`.  With the txhashset write lock held across
both halves the op is an ordinary writer of the model and `state_install_views_old_or_new` excludes this. -/
theorem state_install_window_witness :
    let s1 : St Nat Nat := { (start ⟨0, 0⟩) with ts := .readers 1 }
    let s2 := installCommit s1 ⟨7, 7⟩
    CStep (start ⟨0, 0⟩) none s1 ∧
    CStep s2 (some (.locked 7 0)) s2 ∧
    s2.hist = [⟨7, 7⟩, ⟨0, 0⟩] ∧
    (∀ c ∈ s2.hist, ¬ obsMatches (.locked 7 0) c) ∧
    (installSwap { s2 with ts := .free } ⟨7, 7⟩).sh = ⟨7, 7⟩ := by
  refine ⟨CStep.rlock0 _ rfl, CStep.rread _ 1 rfl, rfl, ?_, rfl⟩
  intro c hc
  have hh : (installCommit ({ (start (⟨0, 0⟩ : Shared Nat Nat)) with ts := .readers 1 }) ⟨7, 7⟩).hist
      = [⟨7, 7⟩, ⟨0, 0⟩] := rfl
  rw [hh] at hc
  simp only [List.mem_cons, List.not_mem_nil, or_false] at hc
  rcases hc with rfl | rfl <;> simp [obsMatches]

/-- **While a node receives its state (PIBD), LMDB reads are still committed state.**  The system
extended with the desegmenter's staging step (`PStep.stage`: `Desegmenter::apply_*_segments` /
`finalize_bitmap` publish the MMR part of their work and drop the batch - no LMDB commit): in ANY
run, the LMDB half of every observation - of a reader under `txhashset.read()` and of a lock-free
reader: head, header head, block and header look-ups, the output_pos index - is the LMDB half of
the state after exactly the ops that had committed; only the MMR half may run ahead of it (next
theorem).  Harness tie: run `pibd` (head stays at genesis and names something stored, header view
consistent, while the MMRs grow). -/
theorem pibd_phase_db_reads_committed (s0 : Shared D M) (s : St D M) (log : List (Nat × Obs D M))
    (h : PRun s0 s log) : ∀ k o, (k, o) ∈ log → ∃ c, s.hist.reverse[k]? = some c ∧ obsDb o = c.db :=
  prun_db_committed s0 s log h

/-- … and the MMR half does run ahead: a kernel-checked run in which a segment is staged (MMR part 5)
and a reader under the read lock then observes LMDB part 0 with MMR part 5 - not a state of the
history `[⟨0,0⟩]`; by design of the state sync (the body head moves only when
`validate_complete_state` commits). -/
theorem pibd_phase_mmr_runs_ahead :
    ∃ (s : St Nat Nat) (log : List (Nat × Obs Nat Nat)), PRun ⟨0, 0⟩ s log ∧
      log = [(0, .locked 0 5)] ∧ s.hist = [⟨0, 0⟩] ∧ ∀ c ∈ s.hist, ¬ obsMatches (.locked 0 5) c := by
  let s0 : Shared Nat Nat := ⟨0, 0⟩
  have r0 := PRun.nil (s0 := s0)
  have r1 := PRun.silent r0 (PStep.base (CStep.wlock _ 2 rfl rfl))
  have r2 := PRun.silent r1 (PStep.base (CStep.work _ 2 s0 s0 (fun x => { x with mmr := 5 }) rfl))
  have r3 := PRun.silent r2 (PStep.stage _ 2 s0 ⟨0, 5⟩ rfl)
  have r4 := PRun.silent r3 (PStep.base (CStep.rlock0 _ rfl))
  have r5 := PRun.obs r4 (PStep.base (CStep.rread _ 1 rfl))
  refine ⟨_, _, r5, rfl, rfl, ?_⟩
  intro c hc
  have hh : c = (⟨0, 0⟩ : Shared Nat Nat) := by
    have : c ∈ [(⟨0, 0⟩ : Shared Nat Nat)] := hc
    simpa using this
  subst hh
  simp [obsMatches]

end

/-! ## the open-transaction counter of the LMDB store (`enter_tx` / `TxCounter` / resize waiter) -/
section
open TxCount

/-- With atomic updates (each `enter_tx` increment and each `TxCounter::drop` decrement is one
critical section under the `ENV_MAP` lock — the code as it is), after ANY valid interleaving of
enters, leaves, resize requests and resizes by any number of threads the counter equals the number
of open transactions (the sum of the per-thread counts); in particular, whenever every thread has
closed everything it opened the counter is back to 0, and a pending resize is then enabled (it does
not wait for ever). -/
theorem count_eq_open (threads : Nat) (acts : List Act) (s : TxCount.St)
    (hat : ∀ a ∈ acts, a.atomic = true) (hrun : runChecked (TxCount.init threads) acts = some s) :
    s.counter = openTotal s ∧
    (quiescent s = true → s.counter = 0) ∧
    (quiescent s = true → s.resizing = true → enabled s .resize = true) := by
  have inv := inv_run acts _ s (inv_init threads) hat hrun
  have hz : quiescent s = true → s.counter = 0 := by
    intro hq
    rw [inv.count]
    exact total_zero_of_quiescent s.ths hq
  refine ⟨inv.count, hz, ?_⟩
  intro hq hr
  simp [enabled, hr, hz hq]

/-- non-vacuity: three threads, nested and overlapping transactions, a resize requested while two
are open; it runs as soon as they have closed -/
example : runChecked (TxCount.init 3)
      [.enter 0, .enter 1, .enter 0, .request, .leave 0, .enter 0, .leave 1, .leave 0, .leave 0, .resize, .enter 2]
    = some { counter := 1, resizing := false, resizes := 1,
             ths := [{}, {}, { opened := 1 }] } := by decide

/-- Nested reads under an outer transaction while a resize is (or becomes) pending.  In any state
reachable by the atomic protocol in which thread `t` holds an outer transaction (depth > 0):
any number `i + j` of consecutive nested operations of `t` — each a complete enter/leave pair: a
point lookup, a nested iterator — with another thread's resize request falling before the first,
between two of them, or after the last, is a valid schedule: every enter is enabled although the
resize is pending, and afterwards the state is exactly the one before with `resizing` set — the
thread is still registered with the same depth (nested read #1 ending does NOT unregister it, so
read #2 passes), the counter is unchanged, and the resize stays disabled until `t` leaves its
outer transaction. -/
theorem nested_reads_keep_registered (threads : Nat) (acts : List Act) (s : TxCount.St) (t i j : Nat)
    (hat : ∀ a ∈ acts, a.atomic = true) (hrun : runChecked (TxCount.init threads) acts = some s)
    (ht : t < threads) (hin : 0 < depth s t) :
    runChecked s (nestedPairs t (i + j)) = some s ∧
    (s.resizing = false →
      runChecked s (nestedPairs t i ++ [.request] ++ nestedPairs t j) = some { s with resizing := true } ∧
      enabled { s with resizing := true } (.enter t) = true ∧
      enabled { s with resizing := true } .resize = false) := by
  have hlen : s.ths.length = threads := by
    rw [length_run acts _ s hrun]; simp [TxCount.init]
  have inv := inv_run acts _ s (inv_init threads) hat hrun
  have hreg : (thOf t s.ths).reg = none := inv.noreg _ (thOf_mem t s.ths (by omega))
  refine ⟨run_nestedPairs s t (by omega) hin hreg (i + j), ?_⟩
  intro hrz
  have hs' : ∀ k, runChecked { s with resizing := true } (nestedPairs t k) = some { s with resizing := true } :=
    run_nestedPairs { s with resizing := true } t (by simpa using (by omega : t < s.ths.length)) hin hreg
  refine ⟨?_, ?_, ?_⟩
  · rw [runChecked_append, runChecked_append, run_nestedPairs s t (by omega) hin hreg i]
    simp only [Option.bind, runChecked, enabled, hrz, Bool.not_false, if_true, TxCount.step]
    exact hs' j
  · simp only [enabled, hlen, Bool.and_eq_true, decide_eq_true_eq, Bool.or_eq_true, Bool.not_eq_true']
    exact ⟨ht, Or.inr hin⟩
  · have hc : s.counter ≠ 0 := by
      rw [inv.count]
      have := opened_le_total t s.ths
      simp only [depth] at hin
      omega
    simp [enabled, hc]

/-- non-vacuity: outer iterator of thread 0, the other thread's resize request between nested read
#1 and #2 of three -/
example : runChecked (TxCount.init 2) ([.enter 0] ++ nestedPairs 0 1 ++ [.request] ++ nestedPairs 0 2 ++ [.leave 0, .resize, .enter 1, .leave 1])
    = some { counter := 0, resizing := false, resizes := 1, ths := [{}, {}] } := by decide

/-- Kernel-checked witness that a decrement made of a separate load and store loses an update
when two of them interleave: two readers enter (counter 2), both load 2, both store 1.  The
schedule is valid (every transition enabled when taken), consists of complete enter/leave pairs
only (afterwards no thread has anything open and no decrement is half done) — yet the counter is
1, not 0.  A resize requested afterwards finds the system dead: `enabled` is false for EVERY
action, so the state can never change again — the resize waits for ever and (the `resizing` flag
staying set) no thread can ever start a transaction again.  The same schedule with atomic
`leave`s ends with counter 0 and the resize runs. -/
theorem lost_decrement_witness :
    runChecked (TxCount.init 2) [.enter 0, .enter 1, .load 0, .load 1, .store 0, .store 1, .request]
      = some stuckState ∧
    quiescent stuckState = true ∧ openTotal stuckState = 0 ∧ stuckState.counter = 1 ∧
    (∀ a, enabled stuckState a = false) ∧
    (∀ acts s', runChecked stuckState acts = some s' → s' = stuckState) ∧
    (∃ s, runChecked (TxCount.init 2) [.enter 0, .enter 1, .leave 0, .leave 1, .request, .resize] = some s ∧
          s.counter = 0 ∧ s.resizes = 1) := by
  refine ⟨by decide, by decide, by decide, rfl, stuckState_dead, ?_,
    ⟨{ counter := 0, resizing := false, resizes := 1, ths := [{}, {}] }, by decide, rfl, rfl⟩⟩
  intro acts s' h
  cases acts with
  | nil => simpa [runChecked] using h.symm
  | cons a r => simp [runChecked, stuckState_dead a] at h

end

end GV.Props.C17
