import GrinVerif.Model.PowSelect
import GrinVerif.Gen.FnsBag
import GrinVerif.Props.XlateCons
/-! # `global::create_pow_context` translated from the current source = `Pow.selectVariant`

`Gen/FnsBag.lean` (tools/rs2lean.py, phase 6): `create_pow_context` returns a boxed trait object; the translation keeps
that type ABSTRACT (`Ctx`) and takes the six constructors (`new_cuckatoo_ctx`, `new_cuckaroo_ctx`, `new_cuckarood_ctx`,
`new_cuckaroom_ctx`, `new_cuckarooz_ctx`, `no_cuckaroo_ctx`) as function-valued parameters.  Instantiating them with
"which variant was asked for" gives the hand model's dispatch table `selectVariant` — so the `edge_bits > 29` test on
the raw `u8`, the chain-type test and the `header_version` arms are those of the code.  The constructors themselves
are tied in `Props/XlateCtx.lean`, the verifiers in `Props/XlateVerify*.lean`. -/
namespace GV.Props.XlateSelect
open GV GV.Gen GV.Pow GV.Props.XlateCons

instance : Inhabited Variant := ⟨.cuckatoo⟩

/-- `consensus::header_version` on the PoW model's chain types -/
theorem header_version_eq_pow (c : Pow.ChainType) (height : Nat) :
    Fns.header_version (ofPow c) height = Pow.headerVersion c height := by
  cases c <;> simp [Fns.header_version, ofPow, Pow.headerVersion, cast16_add]

/-- the code's dispatch, with every constructor replaced by the name of the variant it builds (and arguments recorded) -/
def dispatch (c : Pow.ChainType) (height eb ps ms : Nat) : Option (Variant × Nat × Nat × Nat) :=
  Fns.create_pow_context (ofPow c) height eb ps ms
    (fun e p m => some (.cuckatoo, e, p, m)) (fun e p => some (.cuckaroo, e, p, 0))
    (fun e p => some (.cuckarood, e, p, 0)) (fun e p => some (.cuckaroom, e, p, 0))
    (fun e p => some (.cuckarooz, e, p, 0)) none

/-- **`create_pow_context` = `selectVariant`**, for every chain type, height and `edge_bits`; the constructor receives
`edge_bits` and `proof_size` unchanged (and `max_sols` for Cuckatoo); "no cuckaroo past HardFork4" is the model's `none` -/
theorem create_pow_context_eq (c : Pow.ChainType) (height eb ps ms : Nat) :
    dispatch c height eb ps ms =
      (selectVariant c height eb).map fun v => (v, eb, ps, if v = .cuckatoo then ms else 0) := by
  unfold dispatch Fns.create_pow_context selectVariant
  rw [header_version_eq_pow]
  cases c <;> simp only [ofPow] <;> (try rfl)
  all_goals
    by_cases h : eb > 29
    · simp [h]
    · simp only [h, decide_false, Bool.false_eq_true, if_false]
      generalize headerVersion _ height = v
      match v with
      | 0 => rfl
      | 1 => rfl
      | 2 => rfl
      | 3 => rfl
      | 4 => rfl
      | n + 5 => rfl

theorem create_pow_context_ok {Ctx : Type} [Inhabited Ctx] [DecidableEq Ctx] (ct : Fns.ChainTypes) (height eb ps ms : Nat)
    (a : Nat → Nat → Nat → Option Ctx) (b c d e : Nat → Nat → Option Ctx) (f : Option Ctx) :
    Fns.create_pow_context_ok ct height eb ps ms a b c d e f = true := by
  unfold Fns.create_pow_context_ok
  simp [header_version_ok]

example : dispatch .mainnet 0 29 42 4 = some (.cuckaroo, 29, 42, 0) := by rw [create_pow_context_eq]; decide
example : dispatch .mainnet 0 31 42 4 = some (.cuckatoo, 31, 42, 4) := by rw [create_pow_context_eq]; decide

end GV.Props.XlateSelect
