import GrinVerif.Props.XlateTx
import GrinVerif.Props.XlateCons
/-! # Translated fee / weight functions of `TransactionBody` (`core/src/core/transaction.rs`)

`GV.Gen.Fns.{TransactionBody_fee, _fee_shift, _shifted_fee, _lock_height, _weight, _verify_weight}`,
`Transaction_fee`, `Transaction_shifted_fee` (file `Gen/FnsTx.lean`) are regenerated on every check run from
the CURRENT Rust source.  `KernelFeatures` is the generated inductive (fee = the raw `FeeFields` u64),
`TxKernel` / `TransactionBody` the generated structures restricted to their translatable fields
(`features`; `kernels`).  The iterator chains `.iter().filter_map(..).fold(..)` are `List.filterMap` /
`List.foldl`.  In `weight` the untranslatable `self.inputs.len()` / `self.outputs.len()` are the parameters
`inputs_len` / `outputs_len`; in `verify_weight` `self.weight()` is the parameter `weight` and
`Result<(), Error>` is `Option Unit` (`none` = `Err(Error::TooHeavy)`).

The pool model (`Model/Pool.lean`) carries `fee` and `fee_shift` of a kernel as separate fields and sums
fees without saturation; the closed forms below are stated over the generated kernel type, with the
saturation explicit. -/

namespace GV.Props.XlateTxFee
open GV GV.Gen GV.Xlate GV.Props.XlateTx GV.Props.XlateCons

/-- the fee fields of a fee-carrying kernel (`filter_map` closure of `fee` / `fee_shift`) -/
def feeFieldsOf : Fns.KernelFeatures → Option Nat
  | .Coinbase => none
  | .Plain fee => some fee
  | .HeightLocked fee _ => some fee
  | .NoRecentDuplicate fee _ => some fee

/-- the raw fee fields of the fee-carrying kernels, in order -/
def feeFields (ks : List Fns.TxKernel) : List Nat := ks.filterMap (fun k => feeFieldsOf k.features)

/-- any closure that agrees with `feeFieldsOf` pointwise (the generated `match` does) -/
theorem filterMap_closure (ks : List Fns.TxKernel) (f : Fns.TxKernel → Option Nat)
    (hf : ∀ k, f k = feeFieldsOf k.features) : List.filterMap f ks = feeFields ks := by
  unfold feeFields
  have : f = fun k => feeFieldsOf k.features := funext hf
  rw [this]

/-- saturating left fold = saturated sum -/
theorem fold_sat (l : List Nat) (acc : Nat) (hacc : acc ≤ 2^64 - 1) :
    List.foldl (fun a x => Fns.satAddN 64 a (x % 2^40)) acc l
      = min (acc + (l.map (· % 2^40)).sum) (2^64 - 1) := by
  induction l generalizing acc with
  | nil => simp; omega
  | cons x xs ih =>
    simp only [List.foldl_cons, List.map_cons, List.sum_cons]
    rw [ih _ (by unfold Fns.satAddN; omega)]
    unfold Fns.satAddN
    omega

/-- `TransactionBody::fee()`: the sum of the low 40 bits of the fee fields of all fee-carrying kernels,
saturating at `u64::MAX` — for every kernel list -/
theorem body_fee_eq (ks : List Fns.TxKernel) :
    Fns.TransactionBody_fee ks = min ((feeFields ks).map (· % 2^40)).sum (2^64 - 1) := by
  unfold Fns.TransactionBody_fee
  rw [filterMap_closure ks _ (fun k => by rcases k with ⟨ft⟩; cases ft <;> rfl)]
  have : (fun acc fee_fields => Fns.satAddN 64 acc (Fns.FeeFields_fee fee_fields))
      = (fun a x => Fns.satAddN 64 a (x % 2^40)) := by
    funext a x; rw [fee_eq]
  rw [this, fold_sat _ 0 (by omega)]
  simp

/-- `TransactionBody::fee_shift()`: the maximum of bits 40..43 of the fee fields -/
theorem body_fee_shift_eq (ks : List Fns.TxKernel) :
    Fns.TransactionBody_fee_shift ks = ((feeFields ks).map (· / 2^40 % 16)).foldl max 0 := by
  unfold Fns.TransactionBody_fee_shift
  rw [filterMap_closure ks _ (fun k => by rcases k with ⟨ft⟩; cases ft <;> rfl)]
  have : (fun acc fee_fields => max acc (Fns.FeeFields_fee_shift fee_fields))
      = (fun a x => max a (x / 2^40 % 16)) := by
    funext a x; rw [fee_shift_eq]
  rw [this, List.foldl_map]

theorem foldl_max_le (l : List Nat) (acc b : Nat) (ha : acc ≤ b) (hl : ∀ x ∈ l, x ≤ b) :
    l.foldl max acc ≤ b := by
  induction l generalizing acc with
  | nil => simpa using ha
  | cons x xs ih =>
    simp only [List.foldl_cons]
    exact ih _ (by have := hl x (by simp); omega) (fun y hy => hl y (by simp [hy]))

/-- the fee shift is at most 15 -/
theorem body_fee_shift_le (ks : List Fns.TxKernel) : Fns.TransactionBody_fee_shift ks ≤ 15 := by
  rw [body_fee_shift_eq]
  apply foldl_max_le _ _ _ (by omega)
  intro x hx
  simp only [List.mem_map] at hx
  obtain ⟨y, _, rfl⟩ := hx
  omega

/-- `TransactionBody::shifted_fee() = fee() >> fee_shift()`: the shift amount is `≤ 15`, so the masked
release-mode shift is the exact one -/
theorem body_shifted_fee_eq (ks : List Fns.TxKernel) :
    Fns.TransactionBody_shifted_fee ks = Fns.TransactionBody_fee ks / 2^(Fns.TransactionBody_fee_shift ks) := by
  unfold Fns.TransactionBody_shifted_fee shrW
  have := body_fee_shift_le ks
  rw [Nat.mod_eq_of_lt (by omega)]

/-- the lock height of a height-locked kernel (`filter_map` closure of `lock_height`) -/
def lockOf : Fns.KernelFeatures → Option Nat
  | .HeightLocked _ l => some l
  | _ => none

/-- `TransactionBody::lock_height()`: the maximal lock height of the height-locked kernels, 0 if none -/
theorem body_lock_height_eq (ks : List Fns.TxKernel) :
    Fns.TransactionBody_lock_height ks = ((ks.filterMap (fun k => lockOf k.features)).max?).getD 0 := by
  unfold Fns.TransactionBody_lock_height
  have h : ∀ (f : Fns.TxKernel → Option Nat), (∀ k, f k = lockOf k.features) →
      List.filterMap f ks = ks.filterMap (fun k => lockOf k.features) := by
    intro f hf
    have : f = fun k => lockOf k.features := funext hf
    rw [this]
  rw [h _ (fun k => by rcases k with ⟨ft⟩; cases ft <;> rfl)]

/-- `Transaction::fee` / `shifted_fee` delegate to the body -/
theorem tx_fee_eq (b : Fns.TransactionBody) : Fns.Transaction_fee b = Fns.TransactionBody_fee b.kernels := rfl
theorem tx_shifted_fee_eq (b : Fns.TransactionBody) :
    Fns.Transaction_shifted_fee b = Fns.TransactionBody_shifted_fee b.kernels := rfl

example : Fns.TransactionBody_fee [⟨.Plain (3 * 2^40 + 500)⟩, ⟨.Coinbase⟩, ⟨.HeightLocked 70 9⟩] = 570 := by
  rw [body_fee_eq]; decide
example : Fns.TransactionBody_fee_shift [⟨.Plain (3 * 2^40 + 500)⟩, ⟨.Coinbase⟩, ⟨.HeightLocked 70 9⟩] = 3 := by
  rw [body_fee_shift_eq]; decide
example : Fns.TransactionBody_lock_height [⟨.Plain 5⟩, ⟨.HeightLocked 70 9⟩, ⟨.HeightLocked 1 4⟩] = 9 := by
  rw [body_lock_height_eq]; decide
/-- saturation is reachable only with more than 2^24 kernels; the closed form shows it on a short list of
already-saturated accumulators instead: two kernels cannot saturate -/
example : Fns.TransactionBody_fee [⟨.Plain (2^40 - 1)⟩, ⟨.Plain (2^40 - 1)⟩] = 2^41 - 2 := by
  rw [body_fee_eq]; decide

/-! ## tie to the pool model (`Model/Pool.lean`): unsaturated sum of separately carried fees -/

/-- the fee-carrying kernels as the pool model carries them: `(fee, shift)` with `fee < 2^40`, `shift < 16`
packed into fee fields `shift * 2^40 + fee` -/
def packFee (fee shift : Nat) : Nat := shift * 2^40 + fee

theorem packFee_fee {fee shift : Nat} (hf : fee < 2^40) : packFee fee shift % 2^40 = fee := by
  unfold packFee; omega

theorem packFee_shift {fee shift : Nat} (hf : fee < 2^40) (hs : shift < 16) :
    packFee fee shift / 2^40 % 16 = shift := by
  unfold packFee; omega

theorem feeFields_plain (fs : List (Nat × Nat)) :
    feeFields (fs.map fun p => (⟨.Plain (packFee p.1 p.2)⟩ : Fns.TxKernel)) = fs.map (fun p => packFee p.1 p.2) := by
  unfold feeFields
  induction fs with
  | nil => rfl
  | cons p ps ih => simp [feeFieldsOf] at ih ⊢; exact ih

theorem low_bits_plain (fs : List (Nat × Nat)) (hf : ∀ p ∈ fs, p.1 < 2^40) :
    (fs.map (fun p => packFee p.1 p.2)).map (· % 2^40) = fs.map (·.1) := by
  induction fs with
  | nil => rfl
  | cons p ps ih =>
    rw [List.map_cons, List.map_cons, List.map_cons, ih (fun q hq => hf q (List.mem_cons_of_mem _ hq)),
        packFee_fee (hf p List.mem_cons_self)]

/-- for plain kernels built from `(fee, shift)` pairs the code's `fee()` is the plain sum of the fees as
long as that sum fits a u64 (the pool model's `natSum`) -/
theorem body_fee_plain (fs : List (Nat × Nat)) (hf : ∀ p ∈ fs, p.1 < 2^40)
    (hsum : (fs.map (·.1)).sum < 2^64) :
    Fns.TransactionBody_fee (fs.map fun p => ⟨.Plain (packFee p.1 p.2)⟩) = (fs.map (·.1)).sum := by
  rw [body_fee_eq, feeFields_plain, low_bits_plain fs hf]
  exact Nat.min_eq_left (Nat.le_sub_one_of_lt hsum)

example : Fns.TransactionBody_fee ([(500, 3), (7, 0)].map fun p => ⟨.Plain (packFee p.1 p.2)⟩) = 507 := by
  rw [body_fee_plain] <;> simp

/-! ## `weight`, `verify_weight` -/

/-- `TransactionBody::weight()` = `weight_by_iok(inputs.len(), outputs.len(), kernels.len())` -/
theorem body_weight_eq (ks : List Fns.TxKernel) (i o : Nat) :
    Fns.TransactionBody_weight ks i o = GV.Ser.weightByIok i o ks.length := by
  unfold Fns.TransactionBody_weight; exact body_weight_by_iok_eq i o ks.length

/-- the weight limit `verify_weight` compares against, per `Weighting` (`none` = no limit) -/
def weightLimit (ct : GV.Cons.ChainType) : Fns.Weighting → Option Nat
  | .AsTransaction => some (GV.Ser.maxTxWeight (GV.Cons.maxBlockWeight ct))
  | .AsLimitedTransaction m => some (min (GV.Cons.maxBlockWeight ct) m - 24)
  | .AsBlock => some (GV.Cons.maxBlockWeight ct)
  | .NoLimit => none

/-- `TransactionBody::verify_weight(weighting)`: `Err(TooHeavy)` iff the weight exceeds the limit of the
weighting (tx: block limit minus the coinbase weight 24; limited tx: `min(block limit, m) - 24`, saturating;
block: block limit; `NoLimit`: never) — every chain type, every weight -/
theorem verify_weight_eq (ct : GV.Cons.ChainType) (w : Fns.Weighting) (weight : Nat) :
    Fns.TransactionBody_verify_weight (ofCons ct) w weight =
      match weightLimit ct w with
      | none => some ()
      | some lim => if weight > lim then none else some () := by
  have h24 : addW OUTPUT_WEIGHT KERNEL_WEIGHT = 24 := by decide
  unfold Fns.TransactionBody_verify_weight
  cases w <;>
    simp [weightLimit, h24, max_tx_weight_eq, max_block_weight_eq, satSub]

example : Fns.TransactionBody_verify_weight .Mainnet .AsTransaction 39977 = none
    ∧ Fns.TransactionBody_verify_weight .Mainnet .AsTransaction 39976 = some ()
    ∧ Fns.TransactionBody_verify_weight .Mainnet (.AsLimitedTransaction 100) 77 = none
    ∧ Fns.TransactionBody_verify_weight .Mainnet .NoLimit (2^64 - 1) = some () := by decide

/-! ## `Transaction::weight`, `fee_rate`, `accept_fee` (the abstracted `inputs.len()` / `outputs.len()` of the body
are inherited as the parameters `inputs_len` / `outputs_len`) -/

/-- `Transaction::weight()` delegates to the body -/
theorem tx_weight_eq (b : Fns.TransactionBody) (i o : Nat) :
    Fns.Transaction_weight b i o = GV.Ser.weightByIok i o b.kernels.length := by
  unfold Fns.Transaction_weight; exact body_weight_eq b.kernels i o

/-- `Transaction::fee_rate() = fee() / weight()` (integer division; the pool model's `Tx.feeRate`) -/
theorem tx_fee_rate_eq (b : Fns.TransactionBody) (i o : Nat) :
    Fns.Transaction_fee_rate b i o
      = Fns.TransactionBody_fee b.kernels / GV.Ser.weightByIok i o b.kernels.length := by
  unfold Fns.Transaction_fee_rate; rw [tx_weight_eq]; rfl

/-- `fee_rate` panics (division by zero) exactly when the weight is 0 -/
theorem tx_fee_rate_ok_iff (b : Fns.TransactionBody) (i o : Nat) :
    Fns.Transaction_fee_rate_ok b i o = (GV.Ser.weightByIok i o b.kernels.length != 0) := by
  unfold Fns.Transaction_fee_rate_ok; rw [tx_weight_eq]

/-- … i.e. exactly for the empty transaction (no input, no output, no kernel) -/
theorem weightByIok_eq_zero (i o k : Nat) : GV.Ser.weightByIok i o k = 0 ↔ i = 0 ∧ o = 0 ∧ k = 0 := by
  have hi : INPUT_WEIGHT = 1 := by decide
  have ho : OUTPUT_WEIGHT = 21 := by decide
  have hk : KERNEL_WEIGHT = 3 := by decide
  simp only [GV.Ser.weightByIok, GV.Ser.satAdd, GV.Ser.satMul, U64MAX, hi, ho, hk]
  omega

example : Fns.Transaction_fee_rate_ok ⟨[]⟩ 0 0 = false ∧ Fns.Transaction_fee_rate_ok ⟨[⟨.Plain 7⟩]⟩ 1 1 = true := by
  decide

/-- `Transaction::accept_fee() = weight() * get_accept_fee_base()` (wrapping product) -/
theorem tx_accept_fee_eq (base : Nat) (b : Fns.TransactionBody) (i o : Nat) :
    Fns.Transaction_accept_fee base b i o = mulW (GV.Ser.weightByIok i o b.kernels.length) base := by
  unfold Fns.Transaction_accept_fee; rw [tx_weight_eq]

example : Fns.Transaction_accept_fee 500000 ⟨[⟨.Plain 7⟩]⟩ 2 2 = 23500000 := by decide

end GV.Props.XlateTxFee
