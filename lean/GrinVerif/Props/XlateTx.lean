import GrinVerif.Model.SerTx
import GrinVerif.Model.Pool
import GrinVerif.Gen.FnsTx
import GrinVerif.Lemmas.XlateArith
/-! # Translated weight / fee-field helpers of `core/src/core/transaction.rs` = hand-written models

`GV.Gen.Fns.*` (file `Gen/FnsTx.lean`) is regenerated on every check run from the CURRENT Rust
source by `tools/rs2lean.py`.  `FeeFields(u64)` is a newtype: `self.0` is the parameter `self_0`. -/

namespace GV.Props.XlateTx
open GV GV.Gen GV.Xlate

/-! ## weights -/

/-- `TransactionBody::weight_by_iok` for all u64 counts (saturating arithmetic on both sides) -/
theorem body_weight_by_iok_eq (ni no nk : Nat) :
    Fns.TransactionBody_weight_by_iok ni no nk = GV.Ser.weightByIok ni no nk := by
  simp [Fns.TransactionBody_weight_by_iok, GV.Ser.weightByIok, Fns.satAddN, Fns.satMulN, GV.Ser.satAdd,
    GV.Ser.satMul, U64MAX]

/-- `Transaction::weight_by_iok` delegates to the body's -/
theorem tx_weight_by_iok_eq (ni no nk : Nat) :
    Fns.Transaction_weight_by_iok ni no nk = GV.Ser.weightByIok ni no nk := by
  unfold Fns.Transaction_weight_by_iok; exact body_weight_by_iok_eq ni no nk

/-- the pool model's unsaturated `Tx.weight` is the code's weight whenever it fits a u64 -/
theorem pool_weight_eq (t : GV.Pool.Tx)
    (h : t.ins.length * 1 + t.outs.length * 21 + t.kers.length * 3 < 2^64) :
    Fns.Transaction_weight_by_iok t.ins.length t.outs.length t.kers.length = t.weight := by
  have hi : INPUT_WEIGHT = 1 := by decide
  have ho : OUTPUT_WEIGHT = 21 := by decide
  have hk : KERNEL_WEIGHT = 3 := by decide
  simp only [Fns.Transaction_weight_by_iok, Fns.TransactionBody_weight_by_iok, Fns.satAddN, Fns.satMulN,
    GV.Pool.Tx.weight, hi, ho, hk]
  omega

example : Fns.TransactionBody_weight_by_iok 2 2 1 = 47
    ∧ Fns.TransactionBody_weight_by_iok (2^64 - 1) 5 5 = 2^64 - 1 := by decide

/-! ## `FeeFields` — bit layout `{ future_use: 20, fee_shift: 4, fee: 40 }`

The pool / chain models carry `fee` and `fee_shift` of a kernel as separate fields (the harness
splits the u64); these theorems state that the code's accessors are that split. -/

theorem fee_mask_val : Fns.FeeFields_FEE_MASK = 2^40 - 1 := by decide
theorem fee_shift_mask_val : Fns.FeeFields_FEE_SHIFT_MASK = 2^4 - 1 := by decide

/-- `FeeFields::fee()` = the low 40 bits -/
theorem fee_eq (x : Nat) : Fns.FeeFields_fee x = x % 2^40 := by
  unfold Fns.FeeFields_fee
  rw [fee_mask_val, Nat.and_two_pow_sub_one_eq_mod]

/-- `FeeFields::fee_shift()` = bits 40..43 (the `as u8` truncation is vacuous) -/
theorem fee_shift_eq (x : Nat) : Fns.FeeFields_fee_shift x = x / 2^40 % 16 := by
  unfold Fns.FeeFields_fee_shift
  have hs : shrW x Fns.FeeFields_FEE_BITS = x / 2^40 := by
    unfold shrW Fns.FeeFields_FEE_BITS; rfl
  rw [hs, fee_shift_mask_val, Nat.and_two_pow_sub_one_eq_mod]
  unfold Fns.castN; omega

/-- `FeeFields::is_zero()` / `as_opt()` -/
theorem as_opt_eq (x : Nat) : Fns.FeeFields_as_opt x = if x = 0 then none else some x := by
  unfold Fns.FeeFields_as_opt Fns.FeeFields_is_zero
  by_cases h : x = 0 <;> simp [h]

example : Fns.FeeFields_fee (3 * 2^40 + 500000) = 500000 ∧ Fns.FeeFields_fee_shift (3 * 2^40 + 500000) = 3
    ∧ Fns.FeeFields_as_opt 0 = none := by
  refine ⟨?_, ?_, ?_⟩
  · rw [fee_eq]
  · rw [fee_shift_eq]
  · rw [as_opt_eq]; rfl

end GV.Props.XlateTx
