import GrinVerif.Lemmas.SerTxRt
/-! # C10 — encoding round-trips, canonical form, version-independent hashes

Property theorems about the codec model (`Model/Ser*.lean`), which the correspondence run ties to
`core/src/ser.rs`, `core/src/core/{transaction,block,compact_block,id}.rs`, `core/src/pow/types.rs`
and `chain/src/types.rs` byte for byte.

Shape, per type `X`:
* `X_roundtrip : WF x → dec_X c (enc_X c.ver x ++ rest) = .ok (norm x, rest)` — decoding consumes
  exactly the encoding and returns the value (`norm` = identity except `Inputs` at version ≥ 3);
  quantified over **all** values in `WF`, all protocol versions / flags in `c`, all continuations;
* `X_reencode : enc (norm x) = enc x` — the decoded value re-encodes to the identical bytes;
* refusal theorems for the canonical-form rules;
* hash theorems: the hash-mode bytes do not depend on the protocol version.
`WF` predicates are in `Model/SerSpec.lean`; each has an inhabited `example` below. -/
namespace GV.Props.C10
open GV GV.Ser

/-! ## primitives (the layer every codec is assembled from) -/

/-- `u64` big-endian: read ∘ write = id for every `u64`, with any continuation. -/
theorem u64_roundtrip (n : Nat) (h : n < 2^64) (rest : Bytes) :
    readU64 (writeU64 n ++ rest) = .ok (n, rest) := readU64_write n h rest
theorem u32_roundtrip (n : Nat) (h : n < 2^32) (rest : Bytes) :
    readU32 (writeU32 n ++ rest) = .ok (n, rest) := readU32_write n h rest
theorem u16_roundtrip (n : Nat) (h : n < 2^16) (rest : Bytes) :
    readU16 (writeU16 n ++ rest) = .ok (n, rest) := readU16_write n h rest
/-- `i64` two's complement big-endian, every `i64`. -/
theorem i64_roundtrip (z : Int) (h1 : -(2^63) ≤ z) (h2 : z < 2^63) (rest : Bytes) :
    readI64 (writeI64 z ++ rest) = .ok (z, rest) := readI64_write z h1 h2 rest
/-- length-prefixed byte strings up to the 100 000 byte cap round-trip … -/
theorem bytes_roundtrip (xs : Bytes) (hcap : xs.length ≤ MAX_FIXED_READ) (rest : Bytes) :
    readBytesLenPrefix (writeBytes xs ++ rest) = .ok (xs, rest) := readBytesLenPrefix_write xs hcap rest
/-- … and a longer length prefix is refused without reading further. -/
theorem bytes_cap (len : Nat) (h64 : len < 2^64) (h : len > MAX_FIXED_READ) (r : Bytes) :
    readBytesLenPrefix (writeU64 len ++ r) = .error .tooLarge := readBytesLenPrefix_tooLarge len h64 h r
/-- `read_multi`: if every item round-trips, so does the vector (count ≤ 1 000 000). -/
theorem multi_roundtrip {α : Type} (p : Parser α) (w : α → Bytes) (l : List α)
    (hcap : l.length ≤ MAX_MULTI_COUNT)
    (hrt : ∀ x ∈ l, ∀ rest, p (w x ++ rest) = .ok (x, rest)) (rest : Bytes) :
    readMulti p l.length (writeMulti w l ++ rest) = .ok (l, rest) := readMulti_write p w l hcap hrt rest
/-- `read_multi` never returns fewer or more items than the count field says. -/
theorem multi_count_exact {α : Type} {p : Parser α} {n : Nat} {bs : Bytes} {l : List α} {r : Bytes}
    (h : readMulti p n bs = .ok (l, r)) : l.length = n := readMulti_ok_length h
theorem multi_cap {α : Type} (p : Parser α) (n : Nat) (h : n > MAX_MULTI_COUNT) (bs : Bytes) :
    readMulti p n bs = .error .tooLarge := readMulti_tooLarge p n h bs
/-- `verify_sorted_and_unique` accepts exactly the strictly increasing key lists. -/
theorem sorted_unique_iff (ks : List Nat) :
    verifySortedUnique ks = .ok () ↔ ks.Pairwise (· < ·) := verifySortedUnique_iff ks

/-! ## KernelFeatures / TxKernel -/

/-- All four kernel variants, all field values, both wire formats (v1 fixed 17 bytes for protocol
version ≤ 1, v2 variable for ≥ 2). -/
theorem kernelFeatures_roundtrip (c : Cfg) (f : KernelFeatures) (h : f.WF c.nrd) (rest : Bytes) :
    decKernelFeatures c (encKernelFeatures c.ver .full f ++ rest) = .ok (f, rest) :=
  decKernelFeatures_enc c f h rest

example : (KernelFeatures.noRecentDuplicate (2^64 - 1) 10080).WF true := by decide
example : (KernelFeatures.heightLocked 0 (2^64 - 1)).WF false := by decide

theorem txKernel_roundtrip (c : Cfg) (k : TxKernel) (h : k.WF c.nrd) (rest : Bytes) :
    decTxKernel c (encTxKernel c.ver .full k ++ rest) = .ok (k, rest) := decTxKernel_enc c k h rest

example : ({ features := .plain 7, excess := List.replicate 33 9, excessSig := List.replicate 64 1 } : TxKernel).WF false := by
  decide

/-- Unknown kernel feature tags are refused in both formats. -/
theorem kernelFeatures_unknown_tag (c : Cfg) (t : Nat) (ht : 4 ≤ t) (r : Bytes) :
    decKernelFeatures c (t :: r) = .error .corrupted := by
  unfold decKernelFeatures
  match t, ht with
  | t+4, _ => split <;> simp [decKernelFeaturesV1, decKernelFeaturesV2, readU8]

/-- NRD kernels are refused while the NRD feature flag is off (both formats). -/
theorem kernelFeatures_nrd_disabled (c : Cfg) (hn : c.nrd = false) (r : Bytes) :
    decKernelFeatures c (3 :: r) = .error .corrupted := by
  unfold decKernelFeatures
  split <;> simp [decKernelFeaturesV1, decKernelFeaturesV2, readU8, hn]

/-- v1 plain kernel: the 8 reserved bytes after the fee must all be zero. -/
theorem kernelFeaturesV1_plain_reserved (nrd : Bool) (fee : Nat) (hfee : fee < 2^64)
    (pre : Bytes) (b : Nat) (post : Bytes)
    (hpre : ∀ x ∈ pre, x = 0) (hlen : pre.length < 8) (hb : b ≠ 0) :
    decKernelFeaturesV1 nrd (0 :: (writeU64 fee ++ (pre ++ b :: post))) = .error .corrupted := by
  simp [decKernelFeaturesV1, readU8, readU64_write _ hfee, readEmpty_nonzero 8 pre b post hpre hlen hb]

/-- v1 coinbase kernel: all 16 bytes after the tag (unused fee and feature data) must be zero. -/
theorem kernelFeaturesV1_coinbase_reserved (nrd : Bool) (pre : Bytes) (b : Nat) (post : Bytes)
    (hpre : ∀ x ∈ pre, x = 0) (hlen : pre.length < 16) (hb : b ≠ 0) :
    decKernelFeaturesV1 nrd (1 :: (pre ++ b :: post)) = .error .corrupted := by
  simp [decKernelFeaturesV1, readU8, readEmpty_nonzero 16 pre b post hpre hlen hb]

/-- v1 NRD kernel: the 6 bytes in front of the u16 relative height must be zero. -/
theorem kernelFeaturesV1_nrd_reserved (fee : Nat) (hfee : fee < 2^64)
    (pre : Bytes) (b : Nat) (post : Bytes)
    (hpre : ∀ x ∈ pre, x = 0) (hlen : pre.length < 6) (hb : b ≠ 0) :
    decKernelFeaturesV1 true (3 :: (writeU64 fee ++ (pre ++ b :: post))) = .error .corrupted := by
  simp [decKernelFeaturesV1, readU8, readU64_write _ hfee, readEmpty_nonzero 6 pre b post hpre hlen hb]

/-- NRD relative height outside `1 ..= WEEK_HEIGHT` is refused. -/
theorem nrdHeight_range (rel : Nat) (hlt : rel < 2^16) (h : rel = 0 ∨ rel > NRD_MAX) (rest : Bytes) :
    decNrdHeight (writeU16 rel ++ rest) = .error .corrupted := decNrdHeight_range rel hlt h rest

/-- The bytes a kernel is hashed from do not depend on the protocol version of the writer:
hash mode always uses the v1 layout. -/
theorem txKernel_hashBytes_version_free (v : Nat) (k : TxKernel) :
    encTxKernel v .hash k = encTxKernel 1 .full k := by
  simp [encTxKernel, encKernelFeatures]

/-- Kernel identity hash is independent of the protocol version used to store / transmit it:
decode at any version, hash — same bytes into the hasher as for the original. -/
theorem txKernel_hash_version_independent (c : Cfg) (k : TxKernel) (h : k.WF c.nrd) (rest : Bytes) :
    (decTxKernel c (encTxKernel c.ver .full k ++ rest)).map (fun p => p.1.hashBytes) = .ok k.hashBytes := by
  rw [txKernel_roundtrip c k h rest]; rfl

/-! ## OutputFeatures / Input / CommitWrapper / OutputIdentifier / RangeProof / Output -/

theorem outputFeatures_roundtrip (f : OutputFeatures) (rest : Bytes) :
    decOutputFeatures (encOutputFeatures f ++ rest) = .ok (f, rest) := decOutputFeatures_enc f rest

/-- Unknown output feature tags are refused. -/
theorem outputFeatures_unknown_tag (t : Nat) (ht : 2 ≤ t) (r : Bytes) :
    decOutputFeatures (t :: r) = .error .corrupted := by
  match t, ht with
  | t+2, _ => simp [decOutputFeatures, readU8]

theorem input_roundtrip (i : Input) (h : i.WF) (rest : Bytes) :
    decInput (encInput i ++ rest) = .ok (i, rest) := decInput_enc i h rest

theorem commitWrapper_roundtrip (cm : Bytes) (h : cm.length = COMMIT_SIZE) (rest : Bytes) :
    decCommitWrapper (encCommitWrapper cm ++ rest) = .ok (cm, rest) := decCommitWrapper_enc cm h rest

theorem outputId_roundtrip (o : OutputId) (h : o.WF) (rest : Bytes) :
    decOutputId (encOutputId o ++ rest) = .ok (o, rest) := decOutputId_enc o h rest

/-- Range proofs with `plen = MAX_PROOF_SIZE` (all that a decoder returns or `bullet_proof`
creates) round-trip. -/
theorem rangeProof_roundtrip (p : RangeProof) (h : p.WF) (rest : Bytes) :
    decRangeProof (encRangeProof p ++ rest) = .ok (p, rest) := decRangeProof_enc p h rest

example : ({ plen := 675, proof := List.replicate 675 5 } : RangeProof).WF :=
  ⟨rfl, List.length_replicate⟩

theorem output_roundtrip (o : Output) (h : o.WF) (rest : Bytes) :
    decOutput (encOutput o ++ rest) = .ok (o, rest) := decOutput_enc o h rest

/-- The identity hash of an output is the hash of its identifier; neither encoder has a version
parameter, so decode-then-hash feeds the hasher the same bytes under every version. -/
theorem output_hash_version_independent (o : Output) (h : o.WF) (rest : Bytes) :
    (decOutput (encOutput o ++ rest)).map (fun p => p.1.hashBytes) = .ok o.hashBytes := by
  rw [output_roundtrip o h rest]; rfl

end GV.Props.C10
