import GrinVerif.Lemmas.SerCanonHdr
/-! # C10 — encoding round-trips, canonical form, version-independent hashes

Property theorems about the codec model (`Model/Ser*.lean`), which the correspondence run ties to
`core/src/ser.rs`, `core/src/core/{transaction,block,compact_block,id}.rs`, `core/src/pow/types.rs`
and `chain/src/types.rs` byte for byte.

Shape, per type `X`:
* `X_roundtrip : WF x → dec_X c (enc_X c.ver x ++ rest) = .ok (norm x, rest)` — decoding consumes
  exactly the encoding and returns the value (`norm` = identity except `Inputs` at version ≥ 3);
  quantified over **all** values in `WF`, all protocol versions / flags in `c`, all continuations;
* `X_reencode : enc (norm x) = enc x` — the decoded value re-encodes to the identical bytes;
* refusal theorems for the canonical-form rules;
* hash theorems: the hash-mode bytes do not depend on the protocol version.
`WF` predicates are in `Model/SerSpec.lean`; each has an inhabited `example` below. -/
namespace GV.Props.C10
open GV GV.Ser

/-! ## primitives (the layer every codec is assembled from) -/

/-- `u64` big-endian: read ∘ write = id for every `u64`, with any continuation. -/
theorem u64_roundtrip (n : Nat) (h : n < 2^64) (rest : Bytes) :
    readU64 (writeU64 n ++ rest) = .ok (n, rest) := readU64_write n h rest
theorem u32_roundtrip (n : Nat) (h : n < 2^32) (rest : Bytes) :
    readU32 (writeU32 n ++ rest) = .ok (n, rest) := readU32_write n h rest
theorem u16_roundtrip (n : Nat) (h : n < 2^16) (rest : Bytes) :
    readU16 (writeU16 n ++ rest) = .ok (n, rest) := readU16_write n h rest
/-- `i64` two's complement big-endian, every `i64`. -/
theorem i64_roundtrip (z : Int) (h1 : -(2^63) ≤ z) (h2 : z < 2^63) (rest : Bytes) :
    readI64 (writeI64 z ++ rest) = .ok (z, rest) := readI64_write z h1 h2 rest
/-- length-prefixed byte strings up to the 100 000 byte cap round-trip … -/
theorem bytes_roundtrip (xs : Bytes) (hcap : xs.length ≤ MAX_FIXED_READ) (rest : Bytes) :
    readBytesLenPrefix (writeBytes xs ++ rest) = .ok (xs, rest) := readBytesLenPrefix_write xs hcap rest
/-- … and a longer length prefix is refused without reading further. -/
theorem bytes_cap (len : Nat) (h64 : len < 2^64) (h : len > MAX_FIXED_READ) (r : Bytes) :
    readBytesLenPrefix (writeU64 len ++ r) = .error .tooLarge := readBytesLenPrefix_tooLarge len h64 h r
/-- `read_multi`: if every item round-trips, so does the vector (count ≤ 1 000 000). -/
theorem multi_roundtrip {α : Type} (p : Parser α) (w : α → Bytes) (l : List α)
    (hcap : l.length ≤ MAX_MULTI_COUNT)
    (hrt : ∀ x ∈ l, ∀ rest, p (w x ++ rest) = .ok (x, rest)) (rest : Bytes) :
    readMulti p l.length (writeMulti w l ++ rest) = .ok (l, rest) := readMulti_write p w l hcap hrt rest
/-- `read_multi` never returns fewer or more items than the count field says. -/
theorem multi_count_exact {α : Type} {p : Parser α} {n : Nat} {bs : Bytes} {l : List α} {r : Bytes}
    (h : readMulti p n bs = .ok (l, r)) : l.length = n := readMulti_ok_length h
theorem multi_cap {α : Type} (p : Parser α) (n : Nat) (h : n > MAX_MULTI_COUNT) (bs : Bytes) :
    readMulti p n bs = .error .tooLarge := readMulti_tooLarge p n h bs
/-- `verify_sorted_and_unique` accepts exactly the strictly increasing key lists. -/
theorem sorted_unique_iff (ks : List Nat) :
    verifySortedUnique ks = .ok () ↔ ks.Pairwise (· < ·) := verifySortedUnique_iff ks

/-! ## KernelFeatures / TxKernel -/

/-- All four kernel variants, all field values, both wire formats (v1 fixed 17 bytes for protocol
version ≤ 1, v2 variable for ≥ 2). -/
theorem kernelFeatures_roundtrip (c : Cfg) (f : KernelFeatures) (h : f.WF c.nrd) (rest : Bytes) :
    decKernelFeatures c (encKernelFeatures c.ver .full f ++ rest) = .ok (f, rest) :=
  decKernelFeatures_enc c f h rest

example : (KernelFeatures.noRecentDuplicate (2^64 - 1) 10080).WF true := by decide
example : (KernelFeatures.heightLocked 0 (2^64 - 1)).WF false := by decide

theorem txKernel_roundtrip (c : Cfg) (k : TxKernel) (h : k.WF c.nrd) (rest : Bytes) :
    decTxKernel c (encTxKernel c.ver .full k ++ rest) = .ok (k, rest) := decTxKernel_enc c k h rest

example : ({ features := .plain 7, excess := List.replicate 33 9, excessSig := List.replicate 64 1 } : TxKernel).WF false := by
  decide

/-- Unknown kernel feature tags are refused in both formats. -/
theorem kernelFeatures_unknown_tag (c : Cfg) (t : Nat) (ht : 4 ≤ t) (r : Bytes) :
    decKernelFeatures c (t :: r) = .error .corrupted := by
  unfold decKernelFeatures
  match t, ht with
  | t+4, _ => split <;> simp [decKernelFeaturesV1, decKernelFeaturesV2, readU8]

/-- NRD kernels are refused while the NRD feature flag is off (both formats). -/
theorem kernelFeatures_nrd_disabled (c : Cfg) (hn : c.nrd = false) (r : Bytes) :
    decKernelFeatures c (3 :: r) = .error .corrupted := by
  unfold decKernelFeatures
  split <;> simp [decKernelFeaturesV1, decKernelFeaturesV2, readU8, hn]

/-- v1 plain kernel: the 8 reserved bytes after the fee must all be zero. -/
theorem kernelFeaturesV1_plain_reserved (nrd : Bool) (fee : Nat) (hfee : fee < 2^64)
    (pre : Bytes) (b : Nat) (post : Bytes)
    (hpre : ∀ x ∈ pre, x = 0) (hlen : pre.length < 8) (hb : b ≠ 0) :
    decKernelFeaturesV1 nrd (0 :: (writeU64 fee ++ (pre ++ b :: post))) = .error .corrupted := by
  simp [decKernelFeaturesV1, readU8, readU64_write _ hfee, readEmpty_nonzero 8 pre b post hpre hlen hb]

/-- v1 coinbase kernel: all 16 bytes after the tag (unused fee and feature data) must be zero. -/
theorem kernelFeaturesV1_coinbase_reserved (nrd : Bool) (pre : Bytes) (b : Nat) (post : Bytes)
    (hpre : ∀ x ∈ pre, x = 0) (hlen : pre.length < 16) (hb : b ≠ 0) :
    decKernelFeaturesV1 nrd (1 :: (pre ++ b :: post)) = .error .corrupted := by
  simp [decKernelFeaturesV1, readU8, readEmpty_nonzero 16 pre b post hpre hlen hb]

/-- v1 NRD kernel: the 6 bytes in front of the u16 relative height must be zero. -/
theorem kernelFeaturesV1_nrd_reserved (fee : Nat) (hfee : fee < 2^64)
    (pre : Bytes) (b : Nat) (post : Bytes)
    (hpre : ∀ x ∈ pre, x = 0) (hlen : pre.length < 6) (hb : b ≠ 0) :
    decKernelFeaturesV1 true (3 :: (writeU64 fee ++ (pre ++ b :: post))) = .error .corrupted := by
  simp [decKernelFeaturesV1, readU8, readU64_write _ hfee, readEmpty_nonzero 6 pre b post hpre hlen hb]

/-- NRD relative height outside `1 ..= WEEK_HEIGHT` is refused. -/
theorem nrdHeight_range (rel : Nat) (hlt : rel < 2^16) (h : rel = 0 ∨ rel > NRD_MAX) (rest : Bytes) :
    decNrdHeight (writeU16 rel ++ rest) = .error .corrupted := decNrdHeight_range rel hlt h rest

/-- The bytes a kernel is hashed from do not depend on the protocol version of the writer:
hash mode always uses the v1 layout. -/
theorem txKernel_hashBytes_version_free (v : Nat) (k : TxKernel) :
    encTxKernel v .hash k = encTxKernel 1 .full k := by
  simp [encTxKernel, encKernelFeatures]

/-- Kernel identity hash is independent of the protocol version used to store / transmit it:
decode at any version, hash — same bytes into the hasher as for the original. -/
theorem txKernel_hash_version_independent (c : Cfg) (k : TxKernel) (h : k.WF c.nrd) (rest : Bytes) :
    (decTxKernel c (encTxKernel c.ver .full k ++ rest)).map (fun p => p.1.hashBytes) = .ok k.hashBytes := by
  rw [txKernel_roundtrip c k h rest]; rfl

/-! ## OutputFeatures / Input / CommitWrapper / OutputIdentifier / RangeProof / Output -/

theorem outputFeatures_roundtrip (f : OutputFeatures) (rest : Bytes) :
    decOutputFeatures (encOutputFeatures f ++ rest) = .ok (f, rest) := decOutputFeatures_enc f rest

/-- Unknown output feature tags are refused. -/
theorem outputFeatures_unknown_tag (t : Nat) (ht : 2 ≤ t) (r : Bytes) :
    decOutputFeatures (t :: r) = .error .corrupted := by
  match t, ht with
  | t+2, _ => simp [decOutputFeatures, readU8]

theorem input_roundtrip (i : Input) (h : i.WF) (rest : Bytes) :
    decInput (encInput i ++ rest) = .ok (i, rest) := decInput_enc i h rest

theorem commitWrapper_roundtrip (cm : Bytes) (h : cm.length = COMMIT_SIZE) (rest : Bytes) :
    decCommitWrapper (encCommitWrapper cm ++ rest) = .ok (cm, rest) := decCommitWrapper_enc cm h rest

theorem outputId_roundtrip (o : OutputId) (h : o.WF) (rest : Bytes) :
    decOutputId (encOutputId o ++ rest) = .ok (o, rest) := decOutputId_enc o h rest

/-- Range proofs with `plen = MAX_PROOF_SIZE` (all that a decoder returns or `bullet_proof`
creates) round-trip. -/
theorem rangeProof_roundtrip (p : RangeProof) (h : p.WF) (rest : Bytes) :
    decRangeProof (encRangeProof p ++ rest) = .ok (p, rest) := decRangeProof_enc p h rest

example : ({ plen := 675, proof := List.replicate 675 5 } : RangeProof).WF :=
  ⟨rfl, List.length_replicate⟩

theorem output_roundtrip (o : Output) (h : o.WF) (rest : Bytes) :
    decOutput (encOutput o ++ rest) = .ok (o, rest) := decOutput_enc o h rest

/-- The identity hash of an output is the hash of its identifier; neither encoder has a version
parameter, so decode-then-hash feeds the hasher the same bytes under every version. -/
theorem output_hash_version_independent (o : Output) (h : o.WF) (rest : Bytes) :
    (decOutput (encOutput o ++ rest)).map (fun p => p.1.hashBytes) = .ok o.hashBytes := by
  rw [output_roundtrip o h rest]; rfl

/-- What the code does with a range-proof length field below 675 (recorded as a theorem about the
model because the property as worded wants a refusal): the decoder reads `len` bytes, zero-pads to
the full array and reports `plen = 675`, so the value re-encodes to 8 + 675 bytes, not to the
8 + `len` bytes that were read. The correspondence harness reproduces this on the real decoder
(`#KNOWN-PROBE rangeproof-length-normalised`). -/
theorem rangeProof_short_length_accepted (p : Bytes) (hlen : p.length < MAX_PROOF_SIZE) (rest : Bytes) :
    decRangeProof (writeU64 p.length ++ (p ++ rest))
      = .ok ({ plen := MAX_PROOF_SIZE, proof := p ++ List.replicate (MAX_PROOF_SIZE - p.length) 0 }, rest) := by
  have h64 : p.length < 2^64 := by unfold MAX_PROOF_SIZE at hlen; omega
  have hmin : min p.length MAX_PROOF_SIZE = p.length := Nat.min_eq_left (by omega)
  have hcap : p.length ≤ MAX_FIXED_READ := by unfold MAX_PROOF_SIZE at hlen; unfold MAX_FIXED_READ; omega
  have hrf := readFixed_write p p.length rfl hcap rest
  simp only [writeFixed] at hrf
  rw [decRangeProof, readU64_write _ h64, andThen_ok, hmin, hrf, andThen_ok]

/-! ## Inputs / TransactionBody / Transaction -/

/-- `Inputs` in both encodings under every version: features-and-commit for protocol version ≤ 2,
commit-only for ≥ 3 (a features-and-commit list is written as its commitments re-sorted by
commitment hash, and that — `norm` — is what comes back). `henc` excludes only the case the writer
itself refuses (`CommitOnly` with entries at version ≤ 2: `UnsupportedProtocolVersion`). -/
theorem inputs_roundtrip (key : Bytes → Nat) (ver : Nat) (ins : Inputs) (bs : Bytes)
    (henc : encInputs key ver .full ins = .ok bs) (hwf : ins.WF key ver)
    (hcap : ins.len ≤ MAX_MULTI_COUNT) (rest : Bytes) :
    decInputs ver ins.len (bs ++ rest) = .ok (ins.norm key ver, rest) :=
  decInputs_enc key ver ins bs henc hwf hcap rest

theorem inputs_reencode (key : Bytes → Nat) (ver : Nat) (ins : Inputs) (hwf : ins.WF key ver) :
    encInputs key ver .full (ins.norm key ver) = encInputs key ver .full ins :=
  encInputs_norm key ver ins hwf

/-- `norm` only ever drops the features: the commitments are the same set (a permutation). -/
theorem inputs_norm_same_commitments (key : Bytes → Nat) (ver : Nat) (ins : Inputs) :
    ((ins.norm key ver).commits).Perm ins.commits := by
  unfold Inputs.norm
  split
  · split <;> simp [Inputs.commits]
  · cases ins with
    | commitOnly l => simp [Inputs.toCommits, Inputs.commits]
    | featuresAndCommit l => simpa [Inputs.toCommits, Inputs.commits] using sortByKey_perm _ _

/-- A commit-only input list cannot be written at protocol version ≤ 2 (the writer refuses rather
than invent features). -/
theorem inputs_commitOnly_v2_unsupported (key : Bytes → Nat) (ver : Nat) (hv : ver ≤ 2) (x : Bytes) (l : List Bytes) :
    encInputs key ver .full (.commitOnly (x :: l)) = .error .unsupportedVersion := by
  simp [encInputs, Inputs.len, hv]

theorem txBody_roundtrip (c : Cfg) (b : TxBody) (bs : Bytes)
    (henc : encTxBody c.key c.ver .full b = .ok bs) (hwf : b.WF c) (rest : Bytes) :
    decTxBody c (bs ++ rest) = .ok (b.norm c, rest) := decTxBody_enc c b bs henc hwf rest

/-- The EMPTY body — no inputs (`Inputs::default()` = `CommitOnly([])`), no outputs, no kernels — is
well-formed under every configuration (every protocol version, any weight limit), is written as the
three zero counts and nothing else, and reads back (as `FeaturesAndCommit([])` at version ≤ 2: `norm`). -/
theorem txBody_empty_roundtrip (c : Cfg) (rest : Bytes) :
    ({ inputs := .commitOnly [], outputs := [], kernels := [] } : TxBody).WF c
    ∧ encTxBody c.key c.ver .full { inputs := .commitOnly [], outputs := [], kernels := [] } = .ok (List.replicate 24 0)
    ∧ decTxBody c (List.replicate 24 0 ++ rest)
        = .ok (({ inputs := .commitOnly [], outputs := [], kernels := [] } : TxBody).norm c, rest) := by
  have hwf : ({ inputs := .commitOnly [], outputs := [], kernels := [] } : TxBody).WF c := by
    refine ⟨?_, fun _ h => (List.not_mem_nil h).elim, List.Pairwise.nil, fun _ h => (List.not_mem_nil h).elim,
      List.Pairwise.nil, Nat.zero_le _, Nat.zero_le _, Nat.zero_le _, Nat.zero_le _⟩
    simp only [Inputs.WF]
    split
    · trivial
    · exact ⟨fun _ h => (List.not_mem_nil h).elim, List.Pairwise.nil⟩
  have henc : encTxBody c.key c.ver .full { inputs := .commitOnly [], outputs := [], kernels := [] }
      = .ok (List.replicate 24 0) := by
    simp [encTxBody, encInputs, Inputs.len, writeMulti]
    decide
  exact ⟨hwf, henc, decTxBody_enc c _ _ henc hwf rest⟩

theorem txBody_reencode (c : Cfg) (b : TxBody) (hwf : b.WF c) :
    encTxBody c.key c.ver .full (b.norm c) = encTxBody c.key c.ver .full b := encTxBody_norm c b hwf

/-- Canonical form of bodies, for **every** input byte string: whatever `TransactionBody::read`
accepts has inputs, outputs and kernels each strictly increasing by hash (unsorted or duplicate
entries are refused, never re-sorted or de-duplicated) and weighs at most `max_block_weight`. -/
theorem txBody_accepts_only_sorted_unique {c : Cfg} {bs : Bytes} {b : TxBody} {r : Bytes}
    (h : decTxBody c bs = .ok (b, r)) :
    (b.inputs.keys c.key).Pairwise (· < ·)
    ∧ (b.outputs.map fun o => c.key o.hashBytes).Pairwise (· < ·)
    ∧ (b.kernels.map fun k => c.key k.hashBytes).Pairwise (· < ·)
    ∧ b.weight ≤ c.maxWeight := decTxBody_accepts h

/-- Counts over the block weight are refused before any entry is read. -/
theorem txBody_counts_over_weight (c : Cfg) (ni no nk : Nat) (h1 : ni < 2^64) (h2 : no < 2^64) (h3 : nk < 2^64)
    (hw : weightByIok ni no nk > c.maxWeight) (r : Bytes) :
    decTxBody c (writeU64 ni ++ (writeU64 no ++ (writeU64 nk ++ r))) = .error .tooLarge :=
  decTxBody_overweight c ni no nk h1 h2 h3 hw r

theorem transaction_roundtrip (c : Cfg) (t : Transaction) (bs : Bytes)
    (henc : encTransaction c.key c.ver .full t = .ok bs) (hwf : t.WF c) (rest : Bytes) :
    decTransaction c (bs ++ rest) = .ok (t.norm c, rest) := decTransaction_enc c t bs henc hwf rest

theorem transaction_reencode (c : Cfg) (t : Transaction) (hwf : t.WF c) :
    encTransaction c.key c.ver .full (t.norm c) = encTransaction c.key c.ver .full t :=
  encTransaction_norm c t hwf

/-- a well-formed body with one input, one output and one kernel at protocol version 3
(key = big-endian value of the first two hashed bytes; inhabited `WF`) -/
example : ({ inputs := .featuresAndCommit [{ features := .coinbase, commit := List.replicate 33 1 }],
             outputs := [{ id := { features := .plain, commit := List.replicate 33 2 },
                           proof := { plen := 675, proof := List.replicate 675 3 } }],
             kernels := [{ features := .heightLocked 5 9, excess := List.replicate 33 4,
                           excessSig := List.replicate 64 5 }] } : TxBody).WF
    { ver := 3, nrd := false, maxWeight := 40000, proofSize := 42, key := fun b => ofBE (b.take 2) } := by
  refine ⟨⟨?_, ?_⟩, ?_, ?_, ?_, ?_, ?_, ?_, ?_, ?_⟩
  · intro i hi; simp only [List.mem_singleton] at hi; subst hi; exact List.length_replicate
  · exact List.pairwise_singleton _ _
  · intro o ho; simp only [List.mem_singleton] at ho; subst ho
    exact ⟨List.length_replicate, rfl, List.length_replicate⟩
  · exact List.pairwise_singleton _ _
  · intro k hk; simp only [List.mem_singleton] at hk; subst hk
    exact ⟨by decide, List.length_replicate, List.length_replicate⟩
  · exact List.pairwise_singleton _ _
  · decide
  · decide
  · decide
  · decide

/-! ## Proof / ProofOfWork / BlockHeader -/

/-- Packed proof nonces: every `edge_bits` 1..63, every proof size whose packed length is 8..100 000
bytes, all nonces below `2^edge_bits` — `pack_bits` then `read_number` gives the nonces back,
bit-exactly, and the padding check passes. -/
theorem proof_roundtrip (c : Cfg) (p : Proof) (h : p.WF c.proofSize) (rest : Bytes) :
    decProof c (encProof c.proofSize .full p ++ rest) = .ok (p, rest) := decProof_enc c p h rest

/-- the bridge used by `proof_roundtrip`: the packed bytes are the little-endian bytes of
`Σ nonceᵢ · 2^(i · edge_bits)` -/
theorem proof_packing_is_little_endian_sum (w P : Nat) (hw : w ≤ 63) (ns : List Nat) (hlen : ns.length = P)
    (h : ∀ n ∈ ns, n < 2^w) :
    packBits w ns (packLen P w) = leBytes (packLen P w) (packNat w ns) := packBits_eq w P hw ns hlen h

example : ({ edgeBits := 31, nonces := List.replicate 42 (2^31 - 1) } : Proof).WF 42 := by
  refine ⟨by decide, by decide, List.length_replicate, ?_, by decide, by decide⟩
  intro n hn; rw [List.eq_of_mem_replicate hn]; decide

/-- `edge_bits ∈ {0} ∪ [64, 255]` is refused. -/
theorem proof_edge_bits_range (c : Cfg) (eb : Nat) (h : eb = 0 ∨ eb > 63) (r : Bytes) :
    decProof c (eb :: r) = .error .corrupted := decProof_edgeBits c eb h r

/-- Non-zero padding bits are refused: any packed byte string (of the right length) whose value has
a bit set at or above `proofsize · edge_bits`. -/
theorem proof_padding_bits (c : Cfg) (eb : Nat) (bits rest : Bytes) (h1 : 1 ≤ eb) (h63 : eb ≤ 63)
    (hlen : bits.length = packLen c.proofSize eb) (h8 : 8 ≤ packLen c.proofSize eb)
    (hcap : packLen c.proofSize eb ≤ MAX_FIXED_READ) (hall : AllBytes bits)
    (hpad : 2^(c.proofSize * eb) ≤ ofLE bits) :
    decProof c (eb :: (bits ++ rest)) = .error .corrupted :=
  decProof_padding c eb bits rest h1 h63 hlen h8 hcap hall hpad

theorem proofOfWork_roundtrip (c : Cfg) (p : ProofOfWork) (h : p.WF c.proofSize) (rest : Bytes) :
    decProofOfWork c (encProofOfWork c.proofSize .full p ++ rest) = .ok (p, rest) :=
  decProofOfWork_enc c p h (decProof_enc c p.proof h.2.2.2) rest

/-- All header field values (u16 version, u64 height and MMR sizes, every timestamp chrono can turn
into a date, every proof of work in `Proof.WF`), every protocol version. -/
theorem blockHeader_roundtrip (c : Cfg) (h : BlockHeader) (hwf : h.WF c.proofSize) (rest : Bytes) :
    decBlockHeader c (encBlockHeader c.proofSize .full h ++ rest) = .ok (h, rest) :=
  decBlockHeader_enc c h hwf (decProof_enc c h.pow.proof hwf.2.2.2.2.2.2.2.2.2.2.2.2.2.2.2) rest

/-- A timestamp outside `NaiveDate::MIN ..= NaiveDate::MAX` is refused (everything else valid). -/
theorem blockHeader_timestamp_range (c : Cfg) (h : BlockHeader)
    (hv : h.version < 2^16) (hh : h.height < 2^64)
    (hi1 : -(2^63 : Int) ≤ h.timestamp) (hi2 : h.timestamp < (2^63 : Int))
    (hbad : h.timestamp > TS_MAX ∨ h.timestamp < TS_MIN)
    (l1 : h.prevHash.length = HASH_SIZE) (l2 : h.prevRoot.length = HASH_SIZE)
    (l3 : h.outputRoot.length = HASH_SIZE) (l4 : h.rangeProofRoot.length = HASH_SIZE)
    (l5 : h.kernelRoot.length = HASH_SIZE) (l6 : h.totalKernelOffset.length = BLIND_SIZE)
    (ho : h.outputMmrSize < 2^64) (hk : h.kernelMmrSize < 2^64)
    (hpow : h.pow.WF c.proofSize) (rest : Bytes) :
    decBlockHeader c (encBlockHeader c.proofSize .full h ++ rest) = .error .corrupted :=
  decBlockHeader_timestamp_range c h hv hh hi1 hi2 hbad l1 l2 l3 l4 l5 l6 ho hk hpow
    (decProof_enc c h.pow.proof hpow.2.2.2) rest

/-- The header hash is computed from the packed nonces alone (hash mode skips the pre-PoW fields,
difficulty, scaling, nonce and the `edge_bits` byte): no protocol version enters. -/
theorem blockHeader_hashBytes_eq (proofSize : Nat) (h : BlockHeader) :
    h.hashBytes proofSize = h.pow.proof.packNonces proofSize := by
  simp [BlockHeader.hashBytes, encBlockHeader, encProofOfWork, encProof]

theorem blockHeader_hash_version_independent (c : Cfg) (h : BlockHeader) (hwf : h.WF c.proofSize) (rest : Bytes) :
    (decBlockHeader c (encBlockHeader c.proofSize .full h ++ rest)).map (fun p => p.1.hashBytes c.proofSize)
      = .ok (h.hashBytes c.proofSize) := by
  rw [blockHeader_roundtrip c h hwf rest]; rfl

/-! ## Block / CompactBlock / ShortId / Tip -/

theorem block_roundtrip (c : Cfg) (b : Block) (bs : Bytes)
    (henc : encBlock c.key c.proofSize c.ver .full b = .ok bs) (hwf : b.WF c) (rest : Bytes) :
    decBlock c (bs ++ rest) = .ok (b.norm c, rest) :=
  decBlock_enc c b bs henc hwf (decProof_enc c b.header.pow.proof hwf.1.2.2.2.2.2.2.2.2.2.2.2.2.2.2.2) rest

theorem block_reencode (c : Cfg) (b : Block) (hwf : b.WF c) :
    encBlock c.key c.proofSize c.ver .full (b.norm c) = encBlock c.key c.proofSize c.ver .full b :=
  encBlock_norm c b hwf

/-- A block's hash is its header's hash: the body (and with it the inputs' encoding) never reaches
the hasher, whatever the writer's protocol version. -/
theorem block_hashBytes_version_free (key : Bytes → Nat) (proofSize v : Nat) (b : Block) :
    encBlock key proofSize v .hash b = .ok (b.hashBytes proofSize) := by
  simp [encBlock, Block.hashBytes, BlockHeader.hashBytes]

theorem block_hash_version_independent (c : Cfg) (b : Block) (bs : Bytes)
    (henc : encBlock c.key c.proofSize c.ver .full b = .ok bs) (hwf : b.WF c) (rest : Bytes) :
    (decBlock c (bs ++ rest)).map (fun p => p.1.hashBytes c.proofSize) = .ok (b.hashBytes c.proofSize) := by
  rw [block_roundtrip c b bs henc hwf rest]; rfl

theorem shortId_roundtrip (s : Bytes) (h : s.length = SHORT_ID_SIZE) (rest : Bytes) :
    decShortId (encShortId s ++ rest) = .ok (s, rest) := decShortId_enc s h rest

theorem compactBlock_roundtrip (c : Cfg) (b : CompactBlock) (hwf : b.WF c) (rest : Bytes) :
    decCompactBlock c (encCompactBlock c.proofSize c.ver .full b ++ rest) = .ok (b, rest) :=
  decCompactBlock_enc c b hwf (decProof_enc c b.header.pow.proof hwf.1.2.2.2.2.2.2.2.2.2.2.2.2.2.2.2) rest

/-- Compact block bodies: whatever is accepted has outputs, kernels and short ids strictly sorted. -/
theorem compactBody_accepts_only_sorted_unique {c : Cfg} {bs : Bytes} {b : CompactBlockBody} {r : Bytes}
    (h : decCompactBody c bs = .ok (b, r)) :
    (b.outFull.map fun o => c.key o.hashBytes).Pairwise (· < ·)
    ∧ (b.kernFull.map fun k => c.key k.hashBytes).Pairwise (· < ·)
    ∧ (b.kernIds.map fun s => c.key (encShortId s)).Pairwise (· < ·) := decCompactBody_accepts h

theorem tip_roundtrip (t : Tip) (hwf : t.WF) (rest : Bytes) : decTip (encTip t ++ rest) = .ok (t, rest) :=
  decTip_enc t hwf rest

example : ({ height := 2^64 - 1, lastBlockH := List.replicate 32 255, prevBlockH := List.replicate 32 0,
             totalDifficulty := 0 } : Tip).WF :=
  ⟨by decide, List.length_replicate, List.length_replicate, by decide⟩

/-! ## Canonical form, decoder side: accepted ⇒ *is* the encoding

For **every** byte string `bs` of real bytes (`AllBytes`: each `< 256`): if the decoder accepts, the
bytes it consumed are exactly the encoding of the value it returned (and that value is in `WF`).
So no two different byte strings decode to the same value, nothing is normalised, and every
single-byte / single-field perturbation of a valid encoding either is refused or decodes to a
*different* value. Proved for kernel features (both formats), kernels, output features, inputs,
output identifiers, proofs, proofs of work, block headers and tips. -/

theorem kernelFeatures_accepts_only_canonical {c : Cfg} {bs : Bytes} {f : KernelFeatures} {r : Bytes}
    (hb : AllBytes bs) (h : decKernelFeatures c bs = .ok (f, r)) :
    bs = encKernelFeatures c.ver .full f ++ r ∧ f.WF c.nrd := decKernelFeatures_inv hb h

theorem txKernel_accepts_only_canonical {c : Cfg} {bs : Bytes} {k : TxKernel} {r : Bytes}
    (hb : AllBytes bs) (h : decTxKernel c bs = .ok (k, r)) :
    bs = encTxKernel c.ver .full k ++ r ∧ k.WF c.nrd := decTxKernel_inv hb h

theorem input_accepts_only_canonical {bs : Bytes} {i : Input} {r : Bytes} (h : decInput bs = .ok (i, r)) :
    bs = encInput i ++ r ∧ i.WF := decInput_inv h

theorem outputId_accepts_only_canonical {bs : Bytes} {o : OutputId} {r : Bytes} (h : decOutputId bs = .ok (o, r)) :
    bs = encOutputId o ++ r ∧ o.WF := decOutputId_inv h

/-- Packed proofs: an accepted byte string re-packs to itself (all padding bits were zero, every
nonce is below `2^edge_bits`). -/
theorem proof_accepts_only_canonical {c : Cfg} {bs : Bytes} {p : Proof} {r : Bytes} (hb : AllBytes bs)
    (h : decProof c bs = .ok (p, r)) : bs = encProof c.proofSize .full p ++ r ∧ p.WF c.proofSize :=
  decProof_inv hb h

theorem blockHeader_accepts_only_canonical {c : Cfg} {bs : Bytes} {hd : BlockHeader} {r : Bytes}
    (hb : AllBytes bs) (h : decBlockHeader c bs = .ok (hd, r)) :
    bs = encBlockHeader c.proofSize .full hd ++ r ∧ hd.WF c.proofSize := decBlockHeader_inv hb h

theorem tip_accepts_only_canonical {bs : Bytes} {t : Tip} {r : Bytes} (hb : AllBytes bs)
    (h : decTip bs = .ok (t, r)) : bs = encTip t ++ r ∧ t.WF := decTip_inv hb h

/-- The exception, exactly delimited: a range proof is canonical as soon as its length field says
675 — the only way `RangeProof::read` normalises is through that field. -/
theorem rangeProof_len675_canonical {rest' : Bytes} {p : RangeProof} {r : Bytes}
    (h : decRangeProof (writeU64 MAX_PROOF_SIZE ++ rest') = .ok (p, r)) :
    writeU64 MAX_PROOF_SIZE ++ rest' = encRangeProof p ++ r ∧ p.WF := by
  have h64 : MAX_PROOF_SIZE < 2^64 := by unfold MAX_PROOF_SIZE; omega
  rw [decRangeProof, readU64_write _ h64, andThen_ok, Nat.min_self] at h
  obtain ⟨x, r1, h1, h2⟩ := andThen_inv h
  obtain ⟨e1, l1⟩ := readFixed_ok h1
  simp only [Except.ok.injEq, Prod.mk.injEq] at h2
  obtain ⟨rfl, rfl⟩ := h2
  subst e1
  have hsub : MAX_PROOF_SIZE - x.length = 0 := by omega
  have htake : List.take MAX_PROOF_SIZE x = x := by rw [← l1]; exact List.take_length
  rw [hsub, List.replicate_zero, List.append_nil]
  refine ⟨?_, rfl, l1⟩
  simp only [encRangeProof, writeBytes, htake, l1, List.append_assoc]

end GV.Props.C10
