import GrinVerif.Props.XlateShapeTxhsFacts
import GrinVerif.Gen.SyncOrder
import GrinVerif.Model.CrashRecov
/-! C09 — "a refused or rolled-back unit of work performs no durable step", discharged from the source.

The crash models list durable steps only for units of work that SUCCEED: `fallbackS`
(`Model/CrashRecov.lean`) emits no write for the candidate head whose validation fails inside
`txhashset::extending` (only for the following `extending(rewind to the previous header)`, which
returns `Ok`); a refused input (`pipe::process_block` returning `Err`) contributes no step to a
scenario; `Chain::validate`, `txhashset_read` and the other read-only extensions have no crash point.
Until now that was an ASSUMPTION about `txhashset::extending` / `header_extending` (checked only where a
crash run happened to log the labels of a failing unit). The translator's decided shape facts
(`Props/XlateShapeTxhsFacts.lean`, regenerated from chain/src/txhashset/txhashset.rs on every run) say:
the child batch `commit()` and every backend `sync()` of the two wrappers sit ONLY under
`result ~ Ok(_)` and `!rollback`; `Err` and rollback discard every backend; the read-only wrappers make
nothing durable. `unitSteps` is the model's rule; the theorems below state it on the models and pair it
with those facts, so a `sync()` moved onto the error path breaks `wrappers_follow_the_unit_rule`. -/
namespace GV.Props.C09Discard
open GV GV.Crash GV.Gen GV.Gen.PipeShape GV.Props.XlateShape GV.Props.XlateShapeTxhsFacts

/-- the durable steps a unit of work run through an extension wrapper performs -/
def unitSteps {α : Type} (ok rollback : Bool) (steps : List α) : List α :=
  if ok && !rollback then steps else []

theorem unitSteps_err {α : Type} (r : Bool) (steps : List α) : unitSteps false r steps = [] := by
  simp [unitSteps]

theorem unitSteps_rollback {α : Type} (ok : Bool) (steps : List α) : unitSteps ok true steps = [] := by
  simp [unitSteps]

/-- **The source follows the rule** (decided, current source): in `extending` the durable calls are one
child commit and three syncs, all under `Ok ∧ ¬rollback`, in the order `Gen/SyncOrder.lean` reads;
in `header_extending` one commit and one sync under the same guard; the read-only wrappers have none -/
theorem wrappers_follow_the_unit_rule :
    commitsOnlyUnder ["$5 ~ Ok(_)", "!($6)"] txhs_extending = true ∧
    (durable txhs_extending).map (·.name) = ["commit", "sync", "sync", "sync"] ∧
    SyncOrder.extendingCommit = [20, 21, 22, 23] ∧
    commitsOnlyUnder ["$4 ~ Ok(_)", "!($5)"] txhs_header_extending = true ∧
    (durable txhs_header_extending).map (·.name) = ["commit", "sync"] ∧
    SyncOrder.headerExtendingCommit = [20, 24] ∧
    durable txhs_extending_readonly = [] ∧ durable txhs_header_extending_readonly = [] :=
  ⟨extending_never_commits_on_err_or_rollback.2.2.1, extending_never_commits_on_err_or_rollback.2.2.2, by decide,
   header_extending_never_commits_on_err_or_rollback.2.2.1, header_extending_never_commits_on_err_or_rollback.2.2.2,
   by decide, readonly_never_commit.1, readonly_never_commit.2.2.1⟩

/-- one iteration of `setup_head`'s loop whose candidate does NOT validate: the failed validation unit
writes nothing, the rewind-to-the-parent unit (which succeeds) writes its syncs — this is `fallbackS` -/
theorem fallbackS_failed_candidate_writes_nothing (bcf : Nat → Bool) (tbl : List BlkInfo) (fuel : Nat)
    (d : Durable) (h : Nat) (path : List BlkInfo)
    (hp : pathOf tbl (tbl.length + 1) h [] = some path) (hl : ¬ path.length ≤ 1)
    (hv : validAt bcf d [] path = false) :
    (fallbackS bcf tbl (fuel + 1) d h).1 =
      unitSteps false false (syncIns path []) ++
      unitSteps true false (syncIns path.dropLast (spentLeaves (unspentOf path.dropLast) path.getLast!)) ++
      (fallbackS bcf tbl fuel
        (runIns d (syncIns path.dropLast (spentLeaves (unspentOf path.dropLast) path.getLast!)))
        ((path.dropLast.getLast?.map (·.id)).getD 0)).1 := by
  rw [fallbackS]
  simp [hp, hl, hv, unitSteps]

/-- … and whose candidate validates: exactly the syncs of that one successful unit -/
theorem fallbackS_valid_candidate_writes (bcf : Nat → Bool) (tbl : List BlkInfo) (fuel : Nat)
    (d : Durable) (h : Nat) (path : List BlkInfo)
    (hp : pathOf tbl (tbl.length + 1) h [] = some path) (hl : ¬ path.length ≤ 1)
    (hv : validAt bcf d [] path = true) :
    (fallbackS bcf tbl (fuel + 1) d h).1 = unitSteps true false (syncIns path []) := by
  rw [fallbackS]
  simp [hp, hl, hv, unitSteps]

/-- a refused or rolled-back input leaves the durable state alone at every crash point -/
theorem refused_input_no_durable_step (t : Target) (d : Durable) (steps : List Crash.Step) (ok rollback : Bool)
    (h : (ok && !rollback) = false) (k : Nat) :
    crashAfter t d (unitSteps ok rollback steps) k = d := by
  simp [unitSteps, h, crashAfter]

example : unitSteps true false blockSteps = blockSteps := rfl
example : unitSteps true true blockSteps = [] := rfl

end GV.Props.C09Discard
