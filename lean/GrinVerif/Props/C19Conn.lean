import GrinVerif.Props.C19
import GrinVerif.Lemmas.CodecWriter
import GrinVerif.Lemmas.CodecConnLoop
/-! # C19, connection level — the writer, the handler in the reader loop, the handshake on the wire

Model: `Model/CodecConn.lean` (on top of `Model/Codec.lean`); constants, the `try_break!` table, the
arms of `match consumed`, the order of the steps of `accept` / `initiate` and the version fields of
`Hand` / `Shake` regenerated from the sources into `Gen/CodecConn.lean`.

* `write_ops_are_the_frame`, `write_pieces_fit` — the `write_all` calls of `write_message` (frame in one
  call, attachment file in pieces as `file.read` returns them) concatenate to exactly
  `header ++ body ++ attachment` for every script of short reads; every piece is non-empty and at
  most the 8000-byte scratch buffer;
* `written_sequence_read_back` — **the first sentence of C19 from the sender's side**: for every list
  of well-formed messages handed to the writer thread, every script of short file reads, and every
  further fragmentation of what it writes, the reader loop of the other end delivers exactly the
  expected typed messages (composition with `framing_faithful`);
* `writer_thread_in_order` — without write timeouts the writer thread puts the frames of the queued
  messages on the wire in queue order, nothing else; `retry_after_partial_write_desyncs` — what the
  code does after a write timeout in the middle of a frame (outside "within the I/O timeouts"): the
  message is written again from its first byte and the receiver loses the stream;
* `channel_keeps_order_below_cap`, `channel_full_drops` — `ConnHandle::send`;
* `sent_tracker_exact` — the sender's tracker: bytes = bytes on the wire, count = messages;
* `conn_loop_is_view_of_run`, `conn_loop_is_view_of_runT` — **the reader thread with the handler in the loop refines the framing
  loop** (untimed and over a stream with a clock): what the handler is handed, what it queues, the attachment files written and the reason the
  loop is left are `connView` of the message sequence `run` produces — unknown messages never reach
  the handler, attachment bytes go to the file and nowhere else, nothing after a leaving result is
  handed over; `handler_sees_exactly_what_was_sent` composes it with `framing_faithful`;
* `handler_result_classes` — which handler results leave the loop (from the regenerated
  `try_break!` table);
* `handshake_both_ends_agree` — **both ends settle on the same version, the lower one**;
  `accept_refusal_says_nothing`, `accept_check_order`, `accept_records_own_address`,
  `addrs_ring_holds_last`, `deny_list_semantics`, `accept_steps_as_modelled`. -/
namespace GV.Props.C19Conn
open GV GV.Ser GV.Dec GV.Msg GV.Codec GV.Gen.Msg GV.Gen.CodecConn GV.Props.C19

variable {B H : Type}

/-! ## `write_message` -/

/-- **the `write_all`s of one `write_message` are the frame**: header ++ body ++ attachment, for every
way `file.read` cuts the attachment -/
theorem write_ops_are_the_frame (net : NetCfg) (rs : List Nat) (m : OutMsg) :
    (writeOps net rs m).flatten = writeMessage net m.t m.body (m.att.getD []) :=
  writeOps_flatten net rs m

/-- every attachment piece is non-empty and fits the scratch buffer of `write_message` -/
theorem write_pieces_fit (rs : List Nat) (att : Bytes) :
    ∀ p ∈ attWrites WRITE_ATTACHMENT_BUF att.length rs att, 1 ≤ p.length ∧ p.length ≤ WRITE_ATTACHMENT_BUF :=
  attWrites_pieces _ WRITE_ATTACHMENT_BUF_pos _ _ _

/-- the loop with a 3-byte buffer on a 7-byte file: pieces of 3, 3, 1; when the first `read` returns a
single byte: 1, 3, 3.  (`write_message` uses `WRITE_ATTACHMENT_BUF` = 8000.) -/
example : attWrites 3 7 [] [1, 2, 3, 4, 5, 6, 7] = [[1, 2, 3], [4, 5, 6], [7]] ∧
    attWrites 3 7 [1] [1, 2, 3, 4, 5, 6, 7] = [[1], [2, 3, 4], [5, 6, 7]] ∧ WRITE_ATTACHMENT_BUF = 8000 := by
  decide

/-- the `Msg` of a specification message is written as the bytes the specification says -/
theorem out_of_encodes (net : NetCfg) (rs : List Nat) (m : Sent B H) :
    (writeOps net rs (outOf m)).flatten = encodeSent net m := by
  rw [writeOps_flatten]
  cases m <;> rfl

/-- **what one peer writes the other reads**: the messages `msgs` handed to the writer thread (each
written by `write_message`, attachment files read with any pattern `sc m` of short reads), the
resulting writes cut further in any way by the transport (`frags`): the reader loop delivers exactly
the expected sequence, then finds the stream at its end with the codec idle -/
theorem written_sequence_read_back (env : Env B H) (attach : Message B H → Option Nat) (hat : AttachOK attach)
    (msgs : List (Sent B H)) (hwf : ∀ m ∈ msgs, SentWF env attach m) (sc : Sent B H → List Nat)
    (frags : List Bytes)
    (hfr : frags.flatten = (msgs.map fun m => writeOps env.net (sc m) (outOf m)).flatten.flatten) (extra : Nat) :
    let r := run env fragOps attach ((msgs.map expected).flatten.length + (extra + 1)) idle frags
    r.1 = (msgs.map expected).flatten ∧ r.2.1 = .err .conn ∧ r.2.2.1 = idle ∧ r.2.2.2.flatten = [] := by
  have henc : ∀ ms : List (Sent B H),
      (ms.map fun m => writeOps env.net (sc m) (outOf m)).flatten.flatten = (ms.map (encodeSent env.net)).flatten := by
    intro ms
    induction ms with
    | nil => rfl
    | cons m ms ih =>
      simp only [List.map_cons, List.flatten_cons, List.flatten_append]
      rw [out_of_encodes, ih]
  exact framing_faithful env attach hat msgs hwf frags (hfr.trans (henc msgs)) extra

/-- in particular the writes themselves, uncut, are such a fragmentation -/
example (env : Env B H) (msgs : List (Sent B H)) (sc : Sent B H → List Nat) :
    ((msgs.map fun m => writeOps env.net (sc m) (outOf m)).flatten).flatten =
      (msgs.map fun m => writeOps env.net (sc m) (outOf m)).flatten.flatten := rfl

/-! ## the writer thread and the send channel -/

/-- **without write timeouts the writer thread writes the queued messages in order, each exactly once** -/
theorem writer_thread_in_order (net : NetCfg) : ∀ (ms : List OutMsg) (f : Nat), ms.length ≤ f →
    writerLoop net f ms [] = (ms.map (writeOps net [])).flatten := by
  intro ms
  induction ms with
  | nil => intro f _; cases f <;> rfl
  | cons m ms ih =>
    intro f hf
    cases f with
    | zero => simp at hf
    | succ f =>
      simp only [writerLoop, List.headD_nil, List.tail_nil, List.map_cons, List.flatten_cons]
      rw [ih f (by simpa using hf)]

/-- what the code does when a write times out after part of a frame went out (`retry_send`): the
frame is written again from its first byte.  The receiver reads the 5 bytes already sent as the start
of a frame header, completes it with the first 6 bytes of the second copy and refuses the resulting
"header" (an announced length of about 2^56): the message is lost and the stream with it.  (A
`write_all` times out only after `BODY_IO_TIMEOUT` = 60 s without progress: outside "within the I/O
timeouts".) -/
theorem retry_after_partial_write_desyncs :
    let m : OutMsg := { t := 3, body := [1, 2], att := none }
    let wire := writerLoop netAutomatedTesting 5 [m] [some 5]
    wire = [[73, 43, 3, 0, 0], [73, 43, 3, 0, 0, 0, 0, 0, 0, 0, 2, 1, 2]] ∧
    (run exEnv fragOps (fun _ => none) 3 idle wire).1 = [] ∧
    (run exEnv fragOps (fun _ => none) 3 idle wire).2.1 = .err (.ser .tooLarge) := by
  refine ⟨by decide, ?_, ?_⟩ <;> decide

/-- `ConnHandle::send` below the capacity of the channel: the message is queued last -/
theorem channel_keeps_order_below_cap (q : List OutMsg) (m : OutMsg) (h : q.length < SEND_CHANNEL_CAP) :
    chanSend q m = q ++ [m] := by
  unfold chanSend
  rw [if_neg (by omega)]

/-- … and a message offered to a full channel is dropped (the caller is told `Ok(())`) -/
theorem channel_full_drops (q : List OutMsg) (m : OutMsg) (h : SEND_CHANNEL_CAP ≤ q.length) :
    chanSend q m = q := by
  unfold chanSend
  rw [if_pos h]

/-- **the sender's tracker is exact**: one counted entry per message, its bytes plus the quiet
attachment pieces are the bytes put on the wire -/
theorem sent_tracker_exact (net : NetCfg) (rs : List Nat) (m : OutMsg) :
    trackedCount (sentEntries net rs m) = 1 ∧
    trackedBytes (sentEntries net rs m) = (writeMessage net m.t m.body (m.att.getD [])).length := by
  have hfl := writeOps_flatten net rs m
  unfold sentEntries
  unfold writeOps at hfl ⊢
  simp only
  constructor
  · simp [trackedCount, List.filter_map, Function.comp_def]
  · rw [← hfl]
    simp only [trackedBytes, List.map_cons, List.sum_cons, List.map_map, List.flatten_cons, List.length_append,
      List.length_flatten]
    congr 2

/-- the `RateCounter` keeps every entry reported behind a counted one (within the minute) … -/
theorem rate_counter_keeps_after_counted (b : Nat) (es : List (Nat × Bool)) :
    rcOf ((b, false) :: es) = (b, false) :: es := by
  have h : ∀ (es acc : List (Nat × Bool)), es.foldl rcPush ((b, false) :: acc) = (b, false) :: acc ++ es := by
    intro es
    induction es with
    | nil => intro acc; simp
    | cons e es ih =>
      intro acc
      rw [List.foldl_cons]
      have : rcPush ((b, false) :: acc) e = (b, false) :: (acc ++ [e]) := by
        simp [rcPush]
      rw [this, ih]; simp
  simpa [rcOf, rcPush, List.dropWhile] using h es []

/-- … and DROPS a quiet entry that is the oldest one: the bytes of a first header batch with more to
come (or of an attachment chunk whose message has expired) do not show in `bytes_per_min` -/
example : rcOf [(8290, true), (270, false), (16, false)] = [(270, false), (16, false)] := by decide

/-! ## the reader thread with the handler in the loop -/

/-- **the reader thread refines the framing loop**: with a handler that asks for attachments only
after decoded bodies (`AttachOK`), and as long as `expect_attachment`'s assertion does not fire, the
view of the connection — messages handed to the handler, responses queued, attachment files written,
reason for leaving — is `connView` of the message sequence the framing loop `run` produces from the
same codec and socket, and the loop is left for the codec's reason when `connView` names none -/
theorem conn_loop_is_view_of_run {σ : Type} (env : Env B H) (ops : SockOps σ) (handler : Message B H → Consumed)
    (hat : AttachOK (attachOf handler)) (fuel : Nat) (c : Codec H) (s : σ) (file : Option Bytes)
    (hna : (run env ops (attachOf handler) fuel c s).2.1 ≠ .panic .assertion) :
    let o := connLoop (read env ops) false handler fuel c s file
    let v := connView handler file (run env ops (attachOf handler) fuel c s).1
    o.view.handed = v.handed ∧ o.view.sent = v.sent ∧ o.view.files = v.files ∧
    o.view.stop = (match v.stop with
      | some w => some w
      | none => some (.codec (run env ops (attachOf handler) fuel c s).2.1)) :=
  connLoop_view env ops handler hat fuel c s file hna

/-- **the same over a stream with a clock** (`readT` / `runT`: every byte carries its arrival gap, reads
use the per-state timeout): a read that times out is retried by the reader thread and by the framing
loop alike (`try_break!` ⇒ `None` ⇒ `continue`), hands nothing to the handler and changes nothing in
the view; with `fragmentation_with_idle_gaps_faithful` this extends the handler-level statement to
every schedule of pauses within the I/O timeouts -/
theorem conn_loop_is_view_of_runT (env : Env B H) (handler : Message B H → Consumed)
    (hat : AttachOK (attachOf handler)) (fuel : Nat) (c : Codec H) (s : TStream) (file : Option Bytes)
    (hna : (runT env (attachOf handler) fuel c s).2.1 ≠ .panic .assertion) :
    let o := connLoop (readT env) true handler fuel c s file
    let v := connView handler file (runT env (attachOf handler) fuel c s).1
    o.view.handed = v.handed ∧ o.view.sent = v.sent ∧ o.view.files = v.files ∧
    o.view.stop = (match v.stop with
      | some w => some w
      | none => some (.codec (runT env (attachOf handler) fuel c s).2.1)) :=
  connLoopT_view env handler hat fuel c s file hna

/-- what the view is for a handler that never leaves: unknown messages are dropped, attachment
updates arrive without their bytes, nothing else changes -/
theorem view_of_quiet_handler (handler : Message B H → Consumed)
    (hq : ∀ m, handler m = .none ∨ (∃ r, handler m = .response r) ∨ handler m = .err true)
    (ms : List (Message B H)) (hnoatt : ∀ m ∈ ms, ∀ a b c, m ≠ .attachment a b c) (file : Option Bytes) :
    (connView handler file ms).handed = ms.filter (fun m => match m with | .unknown _ => false | _ => true) ∧
    (connView handler file ms).stop = none ∧ (connView handler file ms).files = [] :=
  connView_quiet handler hq ms hnoatt file

/-- **the handler sees exactly what was sent** (messages without attachments, handler that answers or
stays silent): for every well-formed list, every fragmentation, the handler of the reader thread is
handed exactly the expected messages minus the unknown ones, in order, and the thread is still
reading (it left only because the model's stream ended) -/
theorem handler_sees_exactly_what_was_sent (env : Env B H) (handler : Message B H → Consumed)
    (hq : ∀ m, handler m = .none ∨ (∃ r, handler m = .response r) ∨ handler m = .err true)
    (msgs : List (Sent B H)) (hwf : ∀ m ∈ msgs, SentWF env (attachOf handler) m)
    (hnoarch : ∀ m ∈ msgs, ∀ t v raw att, m ≠ .archive t v raw att)
    (frags : List Bytes) (hfr : frags.flatten = (msgs.map (encodeSent env.net)).flatten) (extra : Nat) :
    let o := connLoop (read env fragOps) false handler ((msgs.map expected).flatten.length + (extra + 1)) idle frags none
    o.view.handed = (msgs.map expected).flatten.filter (fun m => match m with | .unknown _ => false | _ => true) ∧
    o.view.stop = some (.codec (.err .conn)) ∧ o.view.files = [] :=
  handler_sees_sent env handler hq msgs hwf hnoarch frags hfr extra

/-- which handler results leave the loop, from the regenerated `try_break!` table: `Store`, `Chain`,
`Internal`, `NoDandelionRelay` are tolerated, everything else (`BadMessage`, `Send`, `Timeout`,
`PeerException`, `Banned`, `Serialization` …) is not -/
theorem handler_result_classes :
    toleratedErrors = ["Store", "Chain", "Internal", "NoDandelionRelay"] ∧
    toleratedIoKinds = ["TimedOut", "WouldBlock"] ∧
    (∀ n ∈ ["BadMessage", "Send", "Timeout", "PeerException", "Banned", "Serialization", "UnexpectedMessage",
            "ConnectionClose", "PeerWithSelf", "MsgLen"], errTolerated n = false) ∧
    consumedArms = [("Response", "send"), ("Attachment", "expectAttachment"), ("Disconnect", "leave"), ("None", "nothing")] := by
  refine ⟨rfl, rfl, ?_, rfl⟩
  decide

/-- a handler error that is not tolerated ends the stream with the offending message handed over and
NOTHING after it; a tolerated one changes nothing -/
theorem handler_error_ends_stream (handler : Message B H → Consumed) (m : Message B H) (ms : List (Message B H))
    (file : Option Bytes) (hm : ∀ t, m ≠ .unknown t) (ha : ∀ a b c, m ≠ .attachment a b c) :
    (handler m = .err false → (connView handler file (m :: ms)).handed = [m] ∧
        (connView handler file (m :: ms)).stop = some .handlerErr) ∧
    (handler m = .disconnect → (connView handler file (m :: ms)).handed = [m] ∧
        (connView handler file (m :: ms)).stop = some .disconnect) ∧
    (handler m = .err true → (connView handler file (m :: ms)).handed = m :: (connView handler file ms).handed) :=
  connView_handler_err handler m ms file hm ha

/-! ## the handshake on the wire -/

/-- **both ends settle on the same protocol version, the lower of the two**: node `a` dials node `b`
(same genesis, `b` does not take the nonce for one of its own, nobody is denied): `b` accepts with
`min`, answers with the `Shake` announcing ITS OWN version, and `a`, reading that `Shake`, arrives at
the same value -/
theorem handshake_both_ends_agree (net : NetCfg) (a b : Node) (nonce : Nat) (sa ra : PeerAddr)
    (nonces : List Nat) (addrs : List SockAddr) (peer : Option SockAddr) (adv pa : SockAddr)
    (hg : a.genesis = b.genesis) (hn : nonce ∉ nonces)
    (hdb : isDenied b.deny b.allow (resolvePeerAddr adv.port peer adv) = false)
    (hda : isDenied a.deny a.allow pa = false) :
    ∃ ib ia, (acceptFull net b nonces addrs peer adv (mkHand a nonce sa ra)).res = .ok ib ∧
      (acceptFull net b nonces addrs peer adv (mkHand a nonce sa ra)).wrote =
        some (writeMessage net T_Shake (encShake (mkShake b)) []) ∧
      initiateFull a pa (mkShake b) = .ok ia ∧
      ib.version = min a.version b.version ∧ ia.version = min a.version b.version := by
  have hc : nonces.contains nonce = false := by
    cases h : nonces.contains nonce with
    | false => rfl
    | true => exact absurd (by simpa using h) hn
  refine ⟨{ capabilities := a.capabilities, userAgent := a.userAgent, addr := resolvePeerAddr adv.port peer adv,
            version := negotiate b.version a.version, totalDifficulty := a.totalDifficulty, inbound := true },
          { capabilities := b.capabilities, userAgent := b.userAgent, addr := pa,
            version := negotiate a.version b.version, totalDifficulty := b.totalDifficulty, inbound := false },
          ?_, ?_, ?_, ?_, ?_⟩
  · simp only [acceptFull, mkHand, hg, ne_eq, not_true_eq_false, if_false, hc, hdb, Bool.false_eq_true]
  · simp only [acceptFull, mkHand, hg, ne_eq, not_true_eq_false, if_false, hc, hdb, Bool.false_eq_true]
  · simp only [initiateFull, mkShake, hg, ne_eq, not_true_eq_false, if_false, hda, Bool.false_eq_true]
  · simp only [negotiate]; omega
  · simp only [negotiate]

/-- **capability words are parsed by truncation, totally**: a `Hand` / `Shake` whose capability word has
bits outside the defined flags (what a newer peer sends) decodes like the same message with those bits
cleared — it is never refused for them -/
theorem caps_truncation_total (word : Nat) :
    capsTruncate word = word &&& CAPABILITIES_ALL ∧ capsTruncate word ≤ CAPABILITIES_ALL ∧
    capsTruncate (capsTruncate word) = capsTruncate word := by
  refine ⟨rfl, Nat.and_le_right, ?_⟩
  simp only [capsTruncate, Nat.and_assoc, Nat.and_self]

/-- … and the handshake does not look at them: for EVERY announced version and EVERY capability word
(`h.capabilities` is whatever `capsTruncate` left of it) a `Hand` with our genesis that does not carry
one of our nonces, from an address that is not denied, is accepted with `min(ours, theirs)` and
answered with the `Shake`; likewise a `Shake` on the initiating side -/
theorem newer_peer_accepted (net : NetCfg) (n : Node) (nonces : List Nat) (addrs : List SockAddr)
    (peer : Option SockAddr) (adv pa : SockAddr) (h : Hand) (s : Shake)
    (hg : h.genesis = n.genesis) (hn : h.nonce ∉ nonces) (hsg : s.genesis = n.genesis)
    (hd : isDenied n.deny n.allow (resolvePeerAddr adv.port peer adv) = false)
    (hda : isDenied n.deny n.allow pa = false) :
    (∃ i, (acceptFull net n nonces addrs peer adv h).res = .ok i ∧ i.version = min n.version h.version ∧
        i.capabilities = h.capabilities) ∧
    (acceptFull net n nonces addrs peer adv h).wrote = some (writeMessage net T_Shake (encShake (mkShake n)) []) ∧
    (∃ i, initiateFull n pa s = .ok i ∧ i.version = min n.version s.version ∧ i.capabilities = s.capabilities) := by
  have hc : nonces.contains h.nonce = false := by
    cases hh : nonces.contains h.nonce with
    | false => rfl
    | true => exact absurd (by simpa using hh) hn
  refine ⟨⟨{ capabilities := h.capabilities, userAgent := h.userAgent, addr := resolvePeerAddr adv.port peer adv,
             version := min n.version h.version, totalDifficulty := h.totalDifficulty, inbound := true }, ?_, rfl, rfl⟩, ?_,
          ⟨{ capabilities := s.capabilities, userAgent := s.userAgent, addr := pa,
             version := min n.version s.version, totalDifficulty := s.totalDifficulty, inbound := false }, ?_, rfl, rfl⟩⟩
  · simp only [acceptFull, hg, ne_eq, not_true_eq_false, if_false, hc, hd, Bool.false_eq_true, negotiate]
  · simp only [acceptFull, hg, ne_eq, not_true_eq_false, if_false, hc, hd, Bool.false_eq_true]
  · simp only [initiateFull, hsg, ne_eq, not_true_eq_false, if_false, hda, Bool.false_eq_true, negotiate]

/-- the hypotheses are satisfiable: a node at version 1000 and one at version 2 settle on 2; the
acceptor files the dialler under the ip of the socket and the advertised port -/
example :
    let a : Node := { genesis := [7], version := 1000, capabilities := 15, totalDifficulty := 5, userAgent := [65], deny := none, allow := none }
    let b : Node := { genesis := [7], version := 2, capabilities := 3, totalDifficulty := 9, userAgent := [66], deny := none, allow := none }
    (acceptFull netAutomatedTesting b [11] [] (some ⟨[127, 0, 0, 1], 40000⟩) ⟨[10, 0, 0, 1], 3414⟩
        (mkHand a 12 (.v4 [10, 0, 0, 1] 3414) (.v4 [127, 0, 0, 1] 3414))).res =
      .ok { capabilities := 15, userAgent := [65], addr := ⟨[127, 0, 0, 1], 3414⟩, version := 2, totalDifficulty := 5, inbound := true } ∧
    initiateFull a ⟨[127, 0, 0, 1], 3414⟩ (mkShake b) =
      .ok { capabilities := 3, userAgent := [66], addr := ⟨[127, 0, 0, 1], 3414⟩, version := 2, totalDifficulty := 9, inbound := false } :=
  ⟨rfl, rfl⟩

/-- **a refused connection is told nothing**: `accept` writes a frame (the `Shake`) iff it accepts -/
theorem accept_refusal_says_nothing (net : NetCfg) (n : Node) (nonces : List Nat) (addrs : List SockAddr)
    (peer : Option SockAddr) (adv : SockAddr) (h : Hand) :
    ((acceptFull net n nonces addrs peer adv h).wrote = none ↔
      ∃ e, (acceptFull net n nonces addrs peer adv h).res = .error e) ∧
    (∀ w, (acceptFull net n nonces addrs peer adv h).wrote = some w →
      w = writeMessage net T_Shake (encShake (mkShake n)) []) := by
  unfold acceptFull
  simp only
  split
  · exact ⟨⟨fun _ => ⟨_, rfl⟩, fun _ => rfl⟩, fun w hw => by cases hw⟩
  · split
    · exact ⟨⟨fun _ => ⟨_, rfl⟩, fun _ => rfl⟩, fun w hw => by cases hw⟩
    · split
      · exact ⟨⟨fun _ => ⟨_, rfl⟩, fun _ => rfl⟩, fun w hw => by cases hw⟩
      · exact ⟨⟨(fun hw => by cases hw), (fun h => by obtain ⟨e, he⟩ := h; cases he)⟩, (fun w hw => by cases hw; rfl)⟩

/-- **order of the refusal checks** (`acceptSteps`): a different genesis is reported whatever the
nonce and the lists say; then an own nonce (`PeerWithSelf`) whatever the lists say; the deny / allow
lists come last -/
theorem accept_check_order (net : NetCfg) (n : Node) (nonces : List Nat) (addrs : List SockAddr)
    (peer : Option SockAddr) (adv : SockAddr) (h : Hand) :
    (h.genesis ≠ n.genesis → (acceptFull net n nonces addrs peer adv h).res = .error .genesisMismatch ∧
        (acceptFull net n nonces addrs peer adv h).addrs = addrs) ∧
    (h.genesis = n.genesis → h.nonce ∈ nonces →
        (acceptFull net n nonces addrs peer adv h).res = .error .peerWithSelf) ∧
    (h.genesis = n.genesis → h.nonce ∉ nonces → isDenied n.deny n.allow (resolvePeerAddr adv.port peer adv) = true →
        (acceptFull net n nonces addrs peer adv h).res = .error .connectionClose) := by
  refine ⟨fun hg => ?_, fun hg hn => ?_, fun hg hn hd => ?_⟩
  · simp only [acceptFull, hg, ne_eq, not_false_eq_true, if_true, and_self]
  · have hc : nonces.contains h.nonce = true := by simpa using hn
    simp only [acceptFull, hg, ne_eq, not_true_eq_false, if_false, hc, if_true]
  · have hc : nonces.contains h.nonce = false := by
      cases hh : nonces.contains h.nonce with
      | false => rfl
      | true => exact absurd (by simpa using hh) hn
    simp only [acceptFull, hg, ne_eq, not_true_eq_false, if_false, hc, hd, if_true, Bool.false_eq_true]

/-- the steps the generator found in `Handshake::accept` / `initiate` are the ones the model takes, in
this order, and `Hand` / `Shake` announce the node's own version -/
theorem accept_steps_as_modelled :
    acceptSteps = ["read", "genesis", "nonce", "negotiate", "denied", "shake"] ∧
    initiateSteps = ["nonce", "hand", "read", "genesis", "negotiate", "denied"] ∧
    shakeVersionField = "self.protocol_version" ∧ handVersionField = "self.protocol_version" ∧
    ADDRS_CAP_SRC = ADDRS_CAP := by
  decide

/-- a detected self connection records the address it came from: the ip of the socket's peer with
the port the `Hand` advertises -/
theorem accept_records_own_address (net : NetCfg) (n : Node) (nonces : List Nat) (addrs : List SockAddr)
    (p adv : SockAddr) (h : Hand) (hg : h.genesis = n.genesis) (hn : h.nonce ∈ nonces) :
    (acceptFull net n nonces addrs (some p) adv h).addrs = pushAddr addrs { ip := p.ip, port := adv.port } := by
  have hc : nonces.contains h.nonce = true := by simpa using hn
  simp only [acceptFull, hg, ne_eq, not_true_eq_false, if_false, hc, if_true, resolvePeerAddr]

/-- **the ring of own addresses holds the last `min(n, ADDRS_CAP − 1)`** addresses recorded (it pops
when `len >= ADDRS_CAP`: 9 are kept, not 10), in particular always the latest one -/
theorem addrs_ring_holds_last (as : List SockAddr) :
    as.foldl pushAddr [] = as.drop (as.length - (ADDRS_CAP - 1)) ∧
    (∀ older a, a ∈ (older ++ [a]).foldl pushAddr []) := by
  have h0 := foldl_pushAddr as [] (by simp)
  refine ⟨by simpa using h0, fun older a => ?_⟩
  have h1 := foldl_pushAddr (older ++ [a]) [] (by simp)
  rw [h1]
  simp only [List.nil_append]
  have hc := ADDRS_CAP_ge
  have hle : (older ++ [a]).length - (ADDRS_CAP - 1) ≤ older.length := by
    rw [List.length_append, List.length_singleton]; omega
  rw [List.drop_append_of_le_length hle]
  exact List.mem_append_right _ (by simp)

example : ((List.range 12).map fun i => (⟨[127, 0, 0, 1], 5000 + i⟩ : SockAddr)).foldl pushAddr [] =
    ((List.range 12).map fun i => (⟨[127, 0, 0, 1], 5000 + i⟩ : SockAddr)).drop 3 := by decide

/-- `Peer::is_denied`: the deny list wins over the allow list; with an allow list everything not on
it is denied; without lists nobody is -/
theorem deny_list_semantics (d a : List SockAddr) (x : SockAddr) :
    isDenied none none x = false ∧
    (addrsContain d x = true → ∀ al, isDenied (some d) al x = true) ∧
    (isDenied none (some a) x = !addrsContain a x) ∧
    (addrsContain d x = false → isDenied (some d) none x = false) := by
  refine ⟨rfl, fun h al => ?_, rfl, fun h => ?_⟩
  · simp only [isDenied, h, if_true]
  · simp only [isDenied, h, Bool.false_eq_true, if_false]

/-- `PeerAddr` equality: on loopback the port matters, elsewhere only the ip -/
example : addrEq ⟨[127, 0, 0, 1], 4100⟩ ⟨[127, 0, 0, 1], 4101⟩ = false ∧
    addrEq ⟨[10, 0, 0, 1], 4100⟩ ⟨[10, 0, 0, 1], 4101⟩ = true ∧
    addrEq ⟨[127, 0, 0, 1], 4100⟩ ⟨[127, 0, 0, 1], 4100⟩ = true := by decide

end GV.Props.C19Conn
