import GrinVerif.Lemmas.SerSegCanon
/-! # C10, second part — MMR segments, bitmap segments, handshake and sync messages

Property theorems about `Model/SerSeg.lean` and `Model/SerMsg.lean`, which the correspondence run
(`ser seg`, `ser bitmap`, `ser msg`) ties byte for byte to `core/src/core/pmmr/segment.rs`,
`chain/src/txhashset/bitmap_accumulator.rs`, `p2p/src/msg.rs` and `p2p/src/types.rs`.

Per type `X`: `X_roundtrip : WF x → dec (enc x ++ rest) = .ok (norm x, rest)` (all values in `WF`,
every continuation; `norm` is the identity except for `PeerAddr` and what contains it — stated where);
refusal theorems for the canonical-form rules; "accepted ⇒ canonical" where the code has that
property; and, where it has **not**, a theorem that says exactly what the code does plus a
kernel-checked concrete witness (`…_witness`), each reproduced on the real decoder by the harness
(`#KNOWN-PROBE C10 …`). -/
namespace GV.Props.C10Msg
open GV GV.Ser GV.SerSeg GV.SerMsg

/-! ## SegmentIdentifier, SegmentProof -/

theorem segId_roundtrip (s : SegId) (h : s.WF) (rest : Bytes) :
    decSegId (encSegId s ++ rest) = .ok (s, rest) := decSegId_enc s h rest

theorem segId_accepts_only_canonical {bs : Bytes} {s : SegId} {r : Bytes} (hb : AllBytes bs)
    (h : decSegId bs = .ok (s, r)) : bs = encSegId s ++ r ∧ s.WF := decSegId_inv hb h

example : ({ height := 255, idx := 2^64 - 1 } : SegId).WF := by decide

/-- up to `MAX_SEGMENT_READ_ITEMS` hashes of 32 bytes -/
theorem segProof_roundtrip (hs : List Bytes) (h : HashesWF hs) (rest : Bytes) :
    decSegProof (encSegProof hs ++ rest) = .ok (hs, rest) := decSegProof_enc hs h rest

theorem segProof_count_cap (n : Nat) (h64 : n < 2^64) (h : n > MAX_SEGMENT_READ_ITEMS) (rest : Bytes) :
    decSegProof (writeU64 n ++ rest) = .error .tooLarge := decSegProof_tooLarge n h64 h rest

theorem segProof_accepts_only_canonical {bs : Bytes} {hs : List Bytes} {r : Bytes} (hb : AllBytes bs)
    (h : decSegProof bs = .ok (hs, r)) : bs = encSegProof hs ++ r ∧ HashesWF hs := decSegProof_inv hb h

example : HashesWF [List.replicate 32 7, List.replicate 32 0] := by
  refine ⟨?_, by decide⟩
  intro h hh
  simp only [List.mem_cons, List.not_mem_nil, or_false] at hh
  rcases hh with rfl | rfl <;> rfl

/-! ## Segment<T> -/

/-- the position rule in plain words: `PosOK 0` = strictly increasing and every `1 + pos` a `u64` -/
theorem segment_positions_rule (ps : List Nat) :
    PosOK 0 ps ↔ ps.Pairwise (· < ·) ∧ ∀ p ∈ ps, p + 1 < 2^64 := posOK_zero_iff ps

/-- … and on the wire: strictly increasing 1-based values, the first above 0 -/
theorem segment_wire_positions_rule (ws : List Nat) : WireOK 0 ws ↔ (0 :: ws).Pairwise (· < ·) :=
  wireOK_zero_iff ws

/-- `Segment<T>` for any leaf type whose own codec round-trips: identifier, pruned-subtree hashes with
strictly increasing positions, leaves with strictly increasing positions, proof. -/
theorem segment_roundtrip {α : Type} (p : Parser α) (w : α → Bytes) (s : Segment α) (h : s.WF)
    (hrt : ∀ x ∈ s.leafData, ∀ rest, p (w x ++ rest) = .ok (x, rest)) (rest : Bytes) :
    decSegment p (encSegment w s ++ rest) = .ok (s, rest) := decSegment_enc p w s h hrt rest

/-- output segments (`Segment<OutputIdentifier>`) -/
theorem outputSegment_roundtrip (s : Segment OutputId) (h : s.WF) (hl : ∀ o ∈ s.leafData, o.WF) (rest : Bytes) :
    decSegment decOutputId (encSegment encOutputId s ++ rest) = .ok (s, rest) :=
  decSegment_enc _ _ s h (fun x hx r => decOutputId_enc x (hl x hx) r) rest

/-- range-proof segments (`Segment<RangeProof>`, proofs with `plen = 675`) -/
theorem rangeProofSegment_roundtrip (s : Segment RangeProof) (h : s.WF) (hl : ∀ o ∈ s.leafData, o.WF) (rest : Bytes) :
    decSegment decRangeProof (encSegment encRangeProof s ++ rest) = .ok (s, rest) :=
  decSegment_enc _ _ s h (fun x hx r => decRangeProof_enc x (hl x hx) r) rest

/-- kernel segments (`Segment<TxKernel>`) under every protocol version (v1 fixed-size and v2
variable-size kernel features) and NRD flag setting -/
theorem kernelSegment_roundtrip (c : Cfg) (s : Segment TxKernel) (h : s.WF) (hl : ∀ k ∈ s.leafData, k.WF c.nrd)
    (rest : Bytes) :
    decSegment (decTxKernel c) (encSegment (encTxKernel c.ver .full) s ++ rest) = .ok (s, rest) :=
  decSegment_enc _ _ s h (fun x hx r => decTxKernel_enc c x (hl x hx) r) rest

example : ({ id := { height := 11, idx := 3 }, hashPos := [0, 6], hashes := [List.replicate 32 1, List.replicate 32 2],
             leafPos := [7, 8, 2^64 - 2],
             leafData := [⟨.plain, List.replicate 33 9⟩, ⟨.coinbase, List.replicate 33 8⟩, ⟨.plain, List.replicate 33 7⟩],
             proof := [List.replicate 32 5] } : Segment OutputId).WF := by
  refine ⟨by decide, rfl, by decide, ⟨?_, by decide⟩, rfl, by decide, by decide, ⟨?_, by decide⟩⟩
  · intro h hh
    simp only [List.mem_cons, List.not_mem_nil, or_false] at hh
    rcases hh with rfl | rfl <;> rfl
  · intro h hh
    simp only [List.mem_cons, List.not_mem_nil, or_false] at hh
    subst hh; rfl

/-- Hash positions that are not strictly increasing (or a first position of 0 on the wire) are refused
with `SortError` — not re-sorted, not de-duplicated. -/
theorem segment_hash_positions_not_increasing_refused {α : Type} (p : Parser α) (id : SegId) (hid : id.WF)
    (ws : List Nat) (hc : ws.length ≤ MAX_SEGMENT_READ_ITEMS) (hb : ∀ w ∈ ws, w < 2^64)
    (h : ¬ (0 :: ws).Pairwise (· < ·)) (rest : Bytes) :
    decSegment p (encSegId id ++ (writeU64 ws.length ++ (writeMulti writeU64 ws ++ rest))) = .error .sort :=
  decSegment_hashPos_unsorted p id hid ws hc hb (fun hw => h ((wireOK_zero_iff ws).mp hw)) rest

/-- The same for leaf positions (after a well-formed hash part). -/
theorem segment_leaf_positions_not_increasing_refused {α : Type} (p : Parser α) (id : SegId) (hid : id.WF)
    (hp : List Nat) (hs : List Bytes) (hl : hp.length = hs.length) (hpo : PosOK 0 hp) (hh : HashesWF hs)
    (ws : List Nat) (hc : ws.length ≤ MAX_SEGMENT_READ_ITEMS) (hb : ∀ w ∈ ws, w < 2^64)
    (h : ¬ (0 :: ws).Pairwise (· < ·)) (rest : Bytes) :
    decSegment p (encSegId id ++ (writeU64 hs.length ++ (writeMulti encPos hp ++ (writeMulti writeFixed hs
      ++ (writeU64 ws.length ++ (writeMulti writeU64 ws ++ rest)))))) = .error .sort :=
  decSegment_leafPos_unsorted p id hid hp hs hl hpo hh ws hc hb (fun hw => h ((wireOK_zero_iff ws).mp hw)) rest

example : ¬ (0 :: [5, 5, 9]).Pairwise (· < ·) := by decide
example : ¬ (0 :: [0, 3]).Pairwise (· < ·) := by decide

/-- Counts over `MAX_SEGMENT_READ_ITEMS` are refused before any item is read. -/
theorem segment_hash_count_cap {α : Type} (p : Parser α) (id : SegId) (hid : id.WF) (n : Nat)
    (h64 : n < 2^64) (h : n > MAX_SEGMENT_READ_ITEMS) (rest : Bytes) :
    decSegment p (encSegId id ++ (writeU64 n ++ rest)) = .error .tooLarge :=
  decSegment_hashCount_tooLarge p id hid n h64 h rest

theorem segment_leaf_count_cap {α : Type} (p : Parser α) (id : SegId) (hid : id.WF)
    (hp : List Nat) (hs : List Bytes) (hl : hp.length = hs.length) (hpo : PosOK 0 hp) (hh : HashesWF hs)
    (n : Nat) (h64 : n < 2^64) (h : n > MAX_SEGMENT_READ_ITEMS) (rest : Bytes) :
    decSegment p (encSegId id ++ (writeU64 hs.length ++ (writeMulti encPos hp ++ (writeMulti writeFixed hs
      ++ (writeU64 n ++ rest))))) = .error .tooLarge :=
  decSegment_leafCount_tooLarge p id hid hp hs hl hpo hh n h64 h rest

/-- Canonical form, for **every** byte string: if the leaf reader only accepts canonical encodings then
whatever `Segment<T>::read` accepts is byte for byte the encoding of the returned segment, whose
positions are strictly increasing and whose counts are the list lengths. -/
theorem segment_accepts_only_canonical {α : Type} {p : Parser α} {w : α → Bytes} {P : α → Prop}
    (hp : ∀ bs x r, AllBytes bs → p bs = .ok (x, r) → bs = w x ++ r ∧ P x)
    {bs : Bytes} {s : Segment α} {r : Bytes} (hb : AllBytes bs) (h : decSegment p bs = .ok (s, r)) :
    bs = encSegment w s ++ r ∧ s.WF ∧ ∀ x ∈ s.leafData, P x := decSegment_inv hp hb h

theorem outputSegment_accepts_only_canonical {bs : Bytes} {s : Segment OutputId} {r : Bytes} (hb : AllBytes bs)
    (h : decSegment decOutputId bs = .ok (s, r)) :
    bs = encSegment encOutputId s ++ r ∧ s.WF ∧ ∀ o ∈ s.leafData, o.WF :=
  decSegment_inv (fun _ _ _ _ hd => decOutputId_inv hd) hb h

theorem kernelSegment_accepts_only_canonical {c : Cfg} {bs : Bytes} {s : Segment TxKernel} {r : Bytes}
    (hb : AllBytes bs) (h : decSegment (decTxKernel c) bs = .ok (s, r)) :
    bs = encSegment (encTxKernel c.ver .full) s ++ r ∧ s.WF ∧ ∀ k ∈ s.leafData, k.WF c.nrd :=
  decSegment_inv (fun _ _ _ hb' hd => decTxKernel_inv hb' hd) hb h

/-! ## BitmapBlock: three modes and the threshold rule -/

/-- every block of up to 64 chunks round-trips, whichever of the three modes the threshold rule picks -/
theorem bitmapBlock_roundtrip (b : BitmapBlock) (h : b.WF) (rest : Bytes) :
    decBitmapBlock (encBitmapBlock b ++ rest) = .ok (b, rest) := decBitmapBlock_enc b h rest

example : ({ nChunks := 1, v := 5 } : BitmapBlock).WF :=
  ⟨by decide, Nat.lt_of_lt_of_le (by decide : 5 < 2^3) (Nat.pow_le_pow_right (by omega) (by decide))⟩

/-- the threshold rule of the writer: positive indices iff fewer than 4096 bits are set, else negative
indices iff fewer than 4096 are clear, else raw bytes -/
theorem bitmapBlock_mode_rule (b : BitmapBlock) :
    ((encBitmapBlock b).drop 1).head? =
      some (if (setPositions b.nbits b.v).length < BLOCK_THRESHOLD then MODE_POSITIVE
            else if b.nbits - (setPositions b.nbits b.v).length < BLOCK_THRESHOLD then MODE_NEGATIVE
            else MODE_RAW) := by
  unfold encBitmapBlock
  simp only [writeU8, List.cons_append, List.nil_append, List.drop_succ_cons, List.drop_zero]
  split
  · rfl
  · split <;> rfl

theorem bitmapBlock_unknown_mode (n m : Nat) (hn : n ≤ BLOCK_NCHUNKS) (hm : 3 ≤ m) (r : Bytes) :
    decBitmapBlock (n :: m :: r) = .error .corrupted := decBitmapBlock_unknownMode n m hn hm r

theorem bitmapBlock_too_many_chunks (n : Nat) (h : n > BLOCK_NCHUNKS) (r : Bytes) :
    decBitmapBlock (n :: r) = .error .tooLarge := decBitmapBlock_tooManyChunks n h r

theorem bitmapBlock_index_out_of_range (n m : Nat) (hn : n ≤ BLOCK_NCHUNKS) (hm : m = 1 ∨ m = 2)
    (ps : List Nat) (hl : ps.length < 2^16) (h16 : ∀ p ∈ ps, p < 2^16)
    (h : ∃ p ∈ ps, p ≥ n * CHUNK_BITS) (rest : Bytes) :
    decBitmapBlock (n :: m :: (writeU16 ps.length ++ (writeMulti writeU16 ps ++ rest))) = .error .corrupted :=
  decBitmapBlock_indexOutOfRange n m hn hm ps hl h16 h rest

/-- What the reader does **not** refuse (the property as worded wants a refusal; the code normalises):
a positive index list decodes to the block with exactly those bits set, in whatever order the indices
come, with or without repetitions, and however many there are — so a block has many accepted
encodings besides the one the writer produces. -/
theorem bitmapBlock_positive_any_order (n : Nat) (hn : n ≤ BLOCK_NCHUNKS) (ps : List Nat)
    (hl : ps.length < 2^16) (hp : ∀ p ∈ ps, p < n * CHUNK_BITS) (rest : Bytes) :
    decBitmapBlock (n :: 1 :: (writeU16 ps.length ++ (writeMulti writeU16 ps ++ rest)))
      = .ok ({ nChunks := n, v := orBits (n * CHUNK_BITS) ps }, rest) := by
  have hnc : ¬ n > BLOCK_NCHUNKS := by omega
  have hnb : n * CHUNK_BITS ≤ 65536 := by unfold CHUNK_BITS; unfold BLOCK_NCHUNKS at hn; omega
  simp only [decBitmapBlock, readU8, andThen_ok, hnc, ↓reduceIte, MODE_RAW, MODE_POSITIVE,
    show ¬ (1 = 0) by omega]
  rw [readU16_write _ hl, andThen_ok, readBitPositions_write _ hnb ps hp, andThen_ok]

/-- witness: indices 5, 3 (descending) are accepted; the writer would have written 3, 5 -/
theorem bitmapBlock_unsorted_indices_accepted_witness :
    decBitmapBlock [1, 1, 0, 2, 0, 5, 0, 3] = .ok ({ nChunks := 1, v := 2^1018 + 2^1020 }, [])
    ∧ encBitmapBlock { nChunks := 1, v := 2^1018 + 2^1020 } = [1, 1, 0, 2, 0, 3, 0, 5] := by
  constructor <;> decide +kernel

/-- witness: a repeated index is accepted; the writer would have written it once -/
theorem bitmapBlock_repeated_index_accepted_witness :
    decBitmapBlock [1, 1, 0, 2, 0, 3, 0, 3] = .ok ({ nChunks := 1, v := 2^1020 }, [])
    ∧ encBitmapBlock { nChunks := 1, v := 2^1020 } = [1, 1, 0, 1, 0, 3] := by
  constructor <;> decide +kernel

/-- witness: the raw mode is accepted for a block the threshold rule writes with positive indices
(an all-zero chunk: 130 bytes in, 4 bytes out) -/
theorem bitmapBlock_raw_against_threshold_accepted_witness :
    decBitmapBlock (1 :: 0 :: List.replicate 128 0) = .ok ({ nChunks := 1, v := 0 }, [])
    ∧ encBitmapBlock { nChunks := 1, v := 0 } = [1, 1, 0, 0] := by
  constructor <;> decide +kernel

/-! ## BitmapSegment -/

theorem bitmapSegment_roundtrip (s : BitmapSegment) (h : s.WF) (rest : Bytes) :
    decBitmapSegment (encBitmapSegment s ++ rest) = .ok (s, rest) := decBitmapSegment_enc s h rest

example : ({ id := { height := 7, idx := 2 },
             blocks := [{ nChunks := 64, v := 1 }, { nChunks := 3, v := 0 }],
             proof := [] } : BitmapSegment).WF := by
  refine ⟨by decide, ⟨67, by decide +kernel⟩, ?_, ⟨by simp, by decide⟩⟩
  intro b hb
  simp only [List.mem_cons, List.not_mem_nil, or_false] at hb
  rcases hb with rfl | rfl
  · exact ⟨by decide, Nat.one_lt_two_pow (by decide)⟩
  · exact ⟨by decide, Nat.pow_pos (by omega)⟩

theorem bitmapSegment_zero_blocks (id : SegId) (hid : id.WF) (rest : Bytes) :
    decBitmapSegment (encSegId id ++ (writeU16 0 ++ rest)) = .error .corrupted :=
  decBitmapSegment_zeroBlocks id hid rest

theorem bitmapSegment_height_cap (id : SegId) (hid : id.WF) (hh : id.height > MAX_BITMAP_SEGMENT_HEIGHT)
    (nb : Nat) (hnb : nb < 2^16) (hnz : nb ≠ 0) (rest : Bytes) :
    decBitmapSegment (encSegId id ++ (writeU16 nb ++ rest)) = .error .tooLarge :=
  decBitmapSegment_height id hid hh nb hnb hnz rest

/-- more blocks than `ceil(2^height / 64)`: refused before a block is read -/
theorem bitmapSegment_block_count_vs_identifier (id : SegId) (hid : id.WF)
    (hh : id.height ≤ MAX_BITMAP_SEGMENT_HEIGHT) (nb : Nat) (hnb : nb < 2^16)
    (hover : nb > (2^id.height + BLOCK_NCHUNKS - 1) / BLOCK_NCHUNKS) (rest : Bytes) :
    decBitmapSegment (encSegId id ++ (writeU16 nb ++ rest)) = .error .tooLarge :=
  decBitmapSegment_tooManyBlocks id hid hh nb hnb hover rest

/-- block / chunk counts inconsistent with each other or with the identifier: the reader's answer is
`validate_blocks`' answer on the blocks it read … -/
theorem bitmapSegment_inconsistent_blocks_refused (id : SegId) (hid : id.WF) (blocks : List BitmapBlock)
    (hb : ∀ b ∈ blocks, b.WF) (hh : id.height ≤ MAX_BITMAP_SEGMENT_HEIGHT)
    (hnz : blocks.length ≠ 0) (hmax : blocks.length ≤ (2^id.height + BLOCK_NCHUNKS - 1) / BLOCK_NCHUNKS)
    (off : Nat) (hoff : leafOffset id = .ok off)
    (e : SerErr) (he : validateBlocks id blocks = .error e) (rest : Bytes) :
    decBitmapSegment (encSegId id ++ (writeU16 blocks.length ++ (writeMulti encBitmapBlock blocks ++ rest)))
      = .error e :=
  decBitmapSegment_invalidBlocks id hid blocks hb hh hnz hmax off hoff e he rest

/-- … which is an error when the index of the last leaf would reach 2^63 (no MMR position exists
from there on) … -/
theorem bitmapSegment_leaf_index_limit (id : SegId) (blocks : List BitmapBlock) (off n : Nat)
    (hoff : leafOffset id = .ok off) (hn : nChunksOf blocks = .ok n) (h : off + (n - 1) ≥ 2^63) :
    validateBlocks id blocks = .error .tooLarge := validateBlocks_leafIndexLimit id blocks off n hoff hn h

/-- … when a block other than the last is not full … -/
theorem bitmapSegment_short_inner_block (pre : List BitmapBlock) (b : BitmapBlock) (post : List BitmapBlock)
    (hpre : ∀ x ∈ pre, x.nChunks = BLOCK_NCHUNKS) (hb : b.nChunks ≠ BLOCK_NCHUNKS) (hpost : post ≠ []) :
    nChunksOf (pre ++ b :: post) = .error .corrupted := nChunksOf_shortBlock pre b post hpre hb hpost

/-- … or the last block is empty. -/
theorem bitmapSegment_empty_last_block (pre : List BitmapBlock) (b : BitmapBlock) (hb : b.nChunks = 0) :
    nChunksOf (pre ++ [b]) = .error .corrupted := nChunksOf_emptyLast pre b hb

/-! ## MsgHeader -/

theorem msgHeader_roundtrip (c : NetCfg) (t len : Nat) (hk : isKnownType t = true) (h64 : len < 2^64)
    (hl : len ≤ maxLen c t) (rest : Bytes) :
    decMsgHeader c (encMsgHeader c t len ++ rest) = .ok (.known t len, rest) :=
  decMsgHeader_known c t len hk h64 hl rest

example : isKnownType GV.Gen.Msg.T_KernelSegment = true := by decide

theorem msgHeader_unknown_type (c : NetCfg) (t len : Nat) (hk : isKnownType t = false) (h64 : len < 2^64)
    (hl : len ≤ maxLen c t) (rest : Bytes) :
    decMsgHeader c (encMsgHeader c t len ++ rest) = .ok (.unknown len t, rest) :=
  decMsgHeader_unknown c t len hk h64 hl rest

example : isKnownType 29 = false := by decide

theorem msgHeader_length_limit (c : NetCfg) (t len : Nat) (h64 : len < 2^64) (hl : len > maxLen c t) (rest : Bytes) :
    decMsgHeader c (encMsgHeader c t len ++ rest) = .error .tooLarge := decMsgHeader_tooLarge c t len h64 hl rest

theorem msgHeader_wrong_magic (c : NetCfg) (b0 b1 : Nat) (h : b0 ≠ c.magic.1 ∨ b1 ≠ c.magic.2) (r : Bytes) :
    decMsgHeader c (b0 :: b1 :: r) = .error .unexpectedData := by
  by_cases h0 : b0 = c.magic.1
  · subst h0
    exact decMsgHeader_magic2 c b1 (by rcases h with h | h; exact absurd rfl h; exact h) r
  · exact decMsgHeader_magic1 c b0 h0 (b1 :: r)

/-! ## PeerAddr -/

/-- Both address families. `norm` is **not** the identity: an IPv4-mapped V6 address
(`::ffff:a.b.c.d`, for which `Ipv6Addr::to_ipv4_mapped()` is `Some`) comes back as the V4 address,
and flow info / scope id of a V6 socket address are not carried. -/
theorem peerAddr_roundtrip (a : PeerAddr) (h : a.WF) (rest : Bytes) :
    decPeerAddr (encPeerAddr a ++ rest) = .ok (a.norm, rest) := decPeerAddr_enc a h rest

/-- V4 addresses, and V6 addresses that are not IPv4-mapped (flow info and scope id 0), come back
unchanged -/
theorem peerAddr_norm_id_v4 (ip : Bytes) (port : Nat) : (PeerAddr.v4 ip port).norm = .v4 ip port := rfl

theorem peerAddr_norm_id_v6 (segs : List Nat) (port : Nat) (h : toIpv4 segs = none) :
    (PeerAddr.v6 segs port 0 0).norm = .v6 segs port 0 0 := by
  simp [PeerAddr.norm, v6Result, h]

/-- `norm` changes the address itself only for the IPv4-mapped block `::ffff:0:0/96` -/
theorem peerAddr_norm_changes_only_mapped (segs : List Nat) (port fl sc : Nat) (ip : Bytes)
    (h : (PeerAddr.v6 segs port fl sc).norm = .v4 ip port) : ∃ ab cd, segs = [0, 0, 0, 0, 0, 0xffff, ab, cd] := by
  simp only [PeerAddr.norm, v6Result] at h
  split at h
  · rename_i ip' hip; exact toIpv4_some hip
  · simp at h

example : (PeerAddr.v6 [0x2001, 0xdb8, 0, 0, 0, 0, 0, 1] 3414 0 0).WF ∧ toIpv4 [0x2001, 0xdb8, 0, 0, 0, 0, 0, 1] = none := by
  decide

/-- regression of the repaired case (DESIGN §9 item 6): `[::1]:3414`, `[::]:3414` and `[::10.0.0.1]:1`
(IPv4-compatible, not IPv4-mapped) round-trip as themselves -/
theorem peerAddr_v6_compatible_roundtrip (rest : Bytes) :
    decPeerAddr (encPeerAddr (.v6 [0, 0, 0, 0, 0, 0, 0, 1] 3414 0 0) ++ rest) = .ok (.v6 [0, 0, 0, 0, 0, 0, 0, 1] 3414 0 0, rest)
    ∧ decPeerAddr (encPeerAddr (.v6 [0, 0, 0, 0, 0, 0, 0, 0] 3414 0 0) ++ rest) = .ok (.v6 [0, 0, 0, 0, 0, 0, 0, 0] 3414 0 0, rest)
    ∧ decPeerAddr (encPeerAddr (.v6 [0, 0, 0, 0, 0, 0, 0x0a00, 1] 1 0 0) ++ rest) = .ok (.v6 [0, 0, 0, 0, 0, 0, 0x0a00, 1] 1 0 0, rest) :=
  ⟨decPeerAddr_enc _ (by decide) rest, decPeerAddr_enc _ (by decide) rest, decPeerAddr_enc _ (by decide) rest⟩

/-- witness of the remaining normalisation: `[::ffff:192.168.0.1]:13414` is written as 19 bytes, read
back as `192.168.0.1:13414`, and that re-encodes to 7 different bytes -/
theorem peerAddr_v6_mapped_reads_as_v4_witness :
    (PeerAddr.v6 [0, 0, 0, 0, 0, 0xffff, 0xc0a8, 1] 13414 0 0).WF
    ∧ decPeerAddr (encPeerAddr (.v6 [0, 0, 0, 0, 0, 0xffff, 0xc0a8, 1] 13414 0 0)) = .ok (.v4 [192, 168, 0, 1] 13414, [])
    ∧ encPeerAddr (.v4 [192, 168, 0, 1] 13414) ≠ encPeerAddr (.v6 [0, 0, 0, 0, 0, 0xffff, 0xc0a8, 1] 13414 0 0) := by
  refine ⟨by decide, ?_, by decide⟩
  have := decPeerAddr_enc (.v6 [0, 0, 0, 0, 0, 0xffff, 0xc0a8, 1] 13414 0 0) (by decide) []
  simpa [PeerAddr.norm, v6Result, toIpv4] using this

/-- An address family tag other than 0 (V4) and 1 (V6) is refused. -/
theorem peeraddr_unknown_tag_refused (t : Nat) (ht : 2 ≤ t) (r : Bytes) :
    decPeerAddr (t :: r) = .error .corrupted := decPeerAddr_unknownTag t ht r

/-! ## Hand, Shake, GetPeerAddrs, Capabilities -/

/-- `norm` = the two addresses normalised as in `peerAddr_roundtrip`; every other field unchanged -/
theorem hand_roundtrip (h : Hand) (hwf : h.WF) (rest : Bytes) :
    decHand (encHand h ++ rest) = .ok (h.norm, rest) := decHand_enc h hwf rest

example : ({ version := 1000, capabilities := 0x5f, nonce := 2^64 - 1, genesis := List.replicate 32 4,
             totalDifficulty := 10, senderAddr := .v4 [127, 0, 0, 1] 3414,
             receiverAddr := .v6 [0x2001, 0xdb8, 0, 0, 0, 0, 0, 1] 13414 0 0,
             userAgent := [77, 87, 47, 71, 114, 105, 110, 0xc3, 0xaf] } : Hand).WF := by
  refine ⟨by decide, by decide, by decide, rfl, by decide, by decide, by decide, by decide, by decide⟩

theorem shake_roundtrip (s : Shake) (hwf : s.WF) (rest : Bytes) :
    decShake (encShake s ++ rest) = .ok (s, rest) := decShake_enc s hwf rest

theorem getPeerAddrs_roundtrip (c : Nat) (h : CapsWF c) (rest : Bytes) :
    decGetPeerAddrs (encGetPeerAddrs c ++ rest) = .ok (c, rest) := decGetPeerAddrs_enc c h rest

example : CapsWF 0x7f := by decide

/-- Unknown capability bits are not refused: every `u32` is accepted and masked with the defined flags. -/
theorem capabilities_unknown_bits_dropped (c : Nat) (h : c < 2^32) (rest : Bytes) :
    decGetPeerAddrs (writeU32 c ++ rest) = .ok (capsTruncate c, rest) := decGetPeerAddrs_any c h rest

/-- witness: capability word `0x80` (no defined flag) is accepted as "no capabilities" -/
theorem capabilities_unknown_bit_accepted_witness :
    decGetPeerAddrs [0, 0, 0, 0x80] = .ok (0, []) ∧ encGetPeerAddrs 0 = [0, 0, 0, 0] := by
  constructor <;> decide

/-- a user agent / error message that is not UTF-8 is refused -/
theorem string_invalid_utf8_refused (s : Bytes) (hl : s.length ≤ MAX_FIXED_READ) (h : validUtf8 s = false)
    (rest : Bytes) : decString (writeBytes s ++ rest) = .error .corrupted := decString_invalid s hl h rest

example : validUtf8 [0xed, 0xa0, 0x80] = false := by decide

/-! ## Ping / Pong, PeerAddrs, PeerError, Locator, Headers, BanReason, TxHashSet*, SegmentRequest -/

theorem pingPong_roundtrip (p : PingPong) (h : p.WF) (rest : Bytes) :
    decPingPong (encPingPong p ++ rest) = .ok (p, rest) := decPingPong_enc p h rest

theorem pingPong_accepts_only_canonical {bs : Bytes} {p : PingPong} {r : Bytes} (hb : AllBytes bs)
    (h : decPingPong bs = .ok (p, r)) : bs = encPingPong p ++ r ∧ p.WF := decPingPong_inv hb h

/-- up to `MAX_PEER_ADDRS` addresses; each normalised as in `peerAddr_roundtrip` -/
theorem peerAddrs_roundtrip (ps : List PeerAddr) (h : PeerAddrsWF ps) (rest : Bytes) :
    decPeerAddrs (encPeerAddrs ps ++ rest) = .ok (ps.map PeerAddr.norm, rest) := decPeerAddrs_enc ps h rest

theorem peerAddrs_count_cap (n : Nat) (h32 : n < 2^32) (h : n > GV.Gen.MAX_PEER_ADDRS) (rest : Bytes) :
    decPeerAddrs (writeU32 n ++ rest) = .error .tooLarge := decPeerAddrs_tooLarge n h32 h rest

theorem peerError_roundtrip (e : PeerError) (h : e.WF) (rest : Bytes) :
    decPeerError (encPeerError e ++ rest) = .ok (e, rest) := decPeerError_enc e h rest

/-- up to `MAX_LOCATORS` hashes -/
theorem locator_roundtrip (hs : List Bytes) (h : LocatorWF hs) (rest : Bytes) :
    decLocator (encLocator hs ++ rest) = .ok (hs, rest) := decLocator_enc hs h rest

theorem locator_count_cap (n : Nat) (h : n > GV.Gen.MAX_LOCATORS % 256) (r : Bytes) :
    decLocator (n :: r) = .error .tooLarge := decLocator_tooLarge n h r

/-- The writer does not check the count it truncates to a byte: 256 hashes are written with count 0
and read back as an empty locator (all hash bytes left unread). -/
theorem locator_256_hashes_read_as_empty (hs : List Bytes) (h : hs.length = 256) (rest : Bytes) :
    decLocator (encLocator hs ++ rest) = .ok ([], writeMulti writeFixed hs ++ rest) :=
  locator_256_reads_empty hs h rest

/-- `Headers` (writer only): `u16` count then the headers, for fewer than 65536 headers … -/
theorem headers_encoding {α : Type} (hw : α → Bytes) (hs : List α) (h : hs.length < 65536) :
    encHeaders hw hs = writeU16 hs.length ++ writeMulti hw hs := encHeaders_small hw hs h

/-- … while 65536 headers are announced as 0. -/
theorem headers_count_wraps {α : Type} (hw : α → Bytes) (hs : List α) (h : hs.length = 65536) :
    encHeaders hw hs = writeU16 0 ++ writeMulti hw hs := encHeaders_65536 hw hs h

/-- all eight `ReasonForBan` discriminants -/
theorem banReason_roundtrip (r : Nat) (h : BanReasonWF r) (rest : Bytes) :
    decBanReason (encBanReason r ++ rest) = .ok (r, rest) := decBanReason_enc r h rest

theorem banReason_unknown_refused (u : Nat) (h32 : u < 2^32) (h : 8 ≤ u) (rest : Bytes) :
    decBanReason (writeU32 u ++ rest) = .error .corrupted := decBanReason_unknown u h32 h rest

/-- A body shorter than four bytes — the empty body included — is **accepted** as `ReasonForBan::None`
(the failed `read_i32` is replaced by 0) and re-encodes as `00000000`. -/
theorem banReason_short_read_accepted (bs : Bytes) (h : bs.length < 4) :
    decBanReason bs = .ok (0, []) ∧ encBanReason 0 ≠ bs := by
  refine ⟨decBanReason_short bs h, ?_⟩
  intro e
  rw [← e] at h
  simp [encBanReason, writeU32] at h

theorem txHashSetRequest_roundtrip (t : TxHashSetRequest) (h : t.WF) (rest : Bytes) :
    decTxHashSetRequest (encTxHashSetRequest t ++ rest) = .ok (t, rest) := decTxHashSetRequest_enc t h rest

theorem txHashSetArchive_roundtrip (t : TxHashSetArchive) (h : t.WF) (rest : Bytes) :
    decTxHashSetArchive (encTxHashSetArchive t ++ rest) = .ok (t, rest) := decTxHashSetArchive_enc t h rest

theorem segmentRequest_roundtrip (s : SegmentRequest) (h : s.WF) (rest : Bytes) :
    decSegmentRequest (encSegmentRequest s ++ rest) = .ok (s, rest) := decSegmentRequest_enc s h rest

theorem segmentRequest_accepts_only_canonical {bs : Bytes} {s : SegmentRequest} {r : Bytes} (hb : AllBytes bs)
    (h : decSegmentRequest bs = .ok (s, r)) : bs = encSegmentRequest s ++ r ∧ s.WF := decSegmentRequest_inv hb h

/-! ## body weight limit (first part of C10, boundary made explicit) -/

/-- The weight pre-check of `TransactionBody::read` is a strict `>`: a well-formed body whose weight
(inputs·1 + outputs·21 + kernels·3) is **exactly** `max_block_weight` decodes from its own encoding,
and counts whose weight is one more are refused before anything else is read. -/
theorem body_weight_limit_boundary (c : Cfg) :
    (∀ (b : TxBody) (bs : Bytes), encTxBody c.key c.ver .full b = .ok bs → b.WF c → b.weight = c.maxWeight →
        ∀ rest, decTxBody c (bs ++ rest) = .ok (b.norm c, rest))
    ∧ (∀ ni no nk : Nat, ni < 2^64 → no < 2^64 → nk < 2^64 → weightByIok ni no nk = c.maxWeight + 1 →
        ∀ r, decTxBody c (writeU64 ni ++ (writeU64 no ++ (writeU64 nk ++ r))) = .error .tooLarge) :=
  ⟨fun b bs henc hwf _ rest => decTxBody_enc c b bs henc hwf rest,
   fun ni no nk h1 h2 h3 hw r => decTxBody_overweight c ni no nk h1 h2 h3 (by omega) r⟩

/-- the boundary compositions the harness uses: AutomatedTesting 250 and Mainnet 40000 -/
example : weightByIok 1 10 13 = GV.Gen.TESTING_MAX_BLOCK_WEIGHT ∧ weightByIok 2 10 13 = GV.Gen.TESTING_MAX_BLOCK_WEIGHT + 1
    ∧ weightByIok 19 1902 13 = GV.Gen.MAX_BLOCK_WEIGHT ∧ weightByIok 20 1902 13 = GV.Gen.MAX_BLOCK_WEIGHT + 1 := by decide

/-! ## segment responses -/

theorem kernelSegmentResponse_roundtrip (c : Cfg) (s : SegmentResponse TxKernel) (h : s.WF)
    (hl : ∀ k ∈ s.segment.leafData, k.WF c.nrd) (rest : Bytes) :
    decSegmentResponse (decTxKernel c) (encSegmentResponse (encTxKernel c.ver .full) s ++ rest) = .ok (s, rest) :=
  decSegmentResponse_enc _ _ s h (fun x hx r => decTxKernel_enc c x (hl x hx) r) rest

theorem rangeProofSegmentResponse_roundtrip (s : SegmentResponse RangeProof) (h : s.WF)
    (hl : ∀ p ∈ s.segment.leafData, p.WF) (rest : Bytes) :
    decSegmentResponse decRangeProof (encSegmentResponse encRangeProof s ++ rest) = .ok (s, rest) :=
  decSegmentResponse_enc _ _ s h (fun x hx r => decRangeProof_enc x (hl x hx) r) rest

theorem outputSegmentResponse_roundtrip (s : OutputSegmentResponse) (h : s.WF) (rest : Bytes) :
    decOutputSegmentResponse (encOutputSegmentResponse s ++ rest) = .ok (s, rest) :=
  decOutputSegmentResponse_enc s h rest

theorem outputBitmapSegmentResponse_roundtrip (s : OutputBitmapSegmentResponse) (h : s.WF) (rest : Bytes) :
    decOutputBitmapSegmentResponse (encOutputBitmapSegmentResponse s ++ rest) = .ok (s, rest) :=
  decOutputBitmapSegmentResponse_enc s h rest

/-! ## the EMPTY and the SINGLETON instances, stated on their own

None of the round-trip theorems above has a hypothesis that excludes an empty list (`HashesWF []`,
`PosOK 0 []`, `StringWF []`, `LocatorWF []`, `PeerAddrsWF []` all hold). The corners of the size
space are nevertheless where a decoder goes wrong first (a reader that refuses a count of 0), so each
is a theorem of its own here, together with the bytes the empty instance is written as. The harness
generates every one of them deliberately (`#STAT empties …`). -/

/-- A Merkle proof of ZERO hashes — what `SegmentProof::generate` produces when the whole MMR fits into
the one segment (idx 0, `n_leaves ≤ 2^height`) and what `Segment::validate` accepts there — is
written as eight zero bytes and read back as the empty proof. -/
theorem segProof_empty_roundtrip (rest : Bytes) :
    encSegProof [] = [0, 0, 0, 0, 0, 0, 0, 0] ∧ decSegProof (encSegProof [] ++ rest) = .ok ([], rest) :=
  ⟨by decide, decSegProof_enc [] hashesWF_nil rest⟩

/-- a proof of exactly one hash -/
theorem segProof_singleton_roundtrip (h : Bytes) (hl : h.length = HASH_SIZE) (rest : Bytes) :
    decSegProof (encSegProof [h] ++ rest) = .ok ([h], rest) :=
  decSegProof_enc [h] (hashesWF_singleton h hl) rest

example : (List.replicate 32 7 : Bytes).length = HASH_SIZE := by decide

/-- The whole MMR in one segment: no pruned-subtree hashes, `k ≥ 0` leaves, an EMPTY proof. Nothing
is asked of the proof, and nothing of the hash part. -/
theorem segment_whole_mmr_roundtrip {α : Type} (p : Parser α) (w : α → Bytes) (id : SegId) (hid : id.WF)
    (lp : List Nat) (ld : List α) (hl : lp.length = ld.length) (hpo : PosOK 0 lp)
    (hc : ld.length ≤ MAX_SEGMENT_READ_ITEMS)
    (hrt : ∀ x ∈ ld, ∀ rest, p (w x ++ rest) = .ok (x, rest)) (rest : Bytes) :
    decSegment p (encSegment w { id := id, hashPos := [], hashes := [], leafPos := lp, leafData := ld, proof := [] } ++ rest)
      = .ok ({ id := id, hashPos := [], hashes := [], leafPos := lp, leafData := ld, proof := [] }, rest) :=
  decSegment_enc p w _ ⟨hid, rfl, posOK_nil, hashesWF_nil, hl, hpo, hc, hashesWF_nil⟩ hrt rest

/-- one output leaf at position 0 of a one-leaf MMR, identifier (0, 0): the smallest honest segment -/
example : decSegment decOutputId (encSegment encOutputId
      ({ id := { height := 0, idx := 0 }, hashPos := [], hashes := [], leafPos := [0],
         leafData := [⟨.plain, List.replicate 33 9⟩], proof := [] } : Segment OutputId))
    = .ok ({ id := { height := 0, idx := 0 }, hashPos := [], hashes := [], leafPos := [0],
             leafData := [⟨.plain, List.replicate 33 9⟩], proof := [] }, []) := by
  have h := segment_whole_mmr_roundtrip decOutputId encOutputId { height := 0, idx := 0 } (by decide) [0]
    [(⟨.plain, List.replicate 33 9⟩ : OutputId)] rfl
    ((posOK_zero_iff [0]).mpr ⟨List.pairwise_singleton _ _, by
      intro q hq; simp only [List.mem_singleton] at hq; subst hq; decide⟩)
    (by simp only [List.length_singleton]; decide)
    (fun x hx r => decOutputId_enc x (by
      simp only [List.mem_singleton] at hx; subst hx; exact List.length_replicate) r) []
  simpa using h

/-- A fully pruned segment: `k ≥ 0` pruned-subtree hashes, NO leaves, an empty proof. -/
theorem segment_fully_pruned_roundtrip {α : Type} (p : Parser α) (w : α → Bytes) (id : SegId) (hid : id.WF)
    (hp : List Nat) (hs : List Bytes) (hl : hp.length = hs.length) (hpo : PosOK 0 hp) (hh : HashesWF hs)
    (rest : Bytes) :
    decSegment p (encSegment w { id := id, hashPos := hp, hashes := hs, leafPos := [], leafData := [], proof := [] } ++ rest)
      = .ok ({ id := id, hashPos := hp, hashes := hs, leafPos := [], leafData := [], proof := [] }, rest) :=
  decSegment_enc p w _ ⟨hid, hl, hpo, hh, rfl, posOK_nil, Nat.zero_le _, hashesWF_nil⟩
    (fun _ h => (List.not_mem_nil h).elim) rest

/-- The segment with nothing in it at all, whatever the leaf codec … -/
theorem segment_empty_roundtrip {α : Type} (p : Parser α) (w : α → Bytes) (id : SegId) (hid : id.WF) (rest : Bytes) :
    decSegment p (encSegment w { id := id, hashPos := [], hashes := [], leafPos := [], leafData := [], proof := [] } ++ rest)
      = .ok ({ id := id, hashPos := [], hashes := [], leafPos := [], leafData := [], proof := [] }, rest) :=
  segment_fully_pruned_roundtrip p w id hid [] [] rfl posOK_nil hashesWF_nil rest

/-- … which for the identifier (0, 0) is 33 zero bytes on the wire -/
example : encSegment encOutputId
    ({ id := { height := 0, idx := 0 }, hashPos := [], hashes := [], leafPos := [], leafData := [], proof := [] } : Segment OutputId)
      = List.replicate 33 0 := by decide

/-- A bitmap segment of exactly ONE block of ONE chunk with an EMPTY proof (up to 1024 outputs: the
whole bitmap MMR is the one leaf; identifier height 0, any index whose leaf has an MMR position). -/
theorem bitmapSegment_single_chunk_empty_proof_roundtrip (idx : Nat) (hidx : idx < 2^63)
    (b : BitmapBlock) (hb : b.WF) (h1 : b.nChunks = 1) (rest : Bytes) :
    decBitmapSegment (encBitmapSegment { id := { height := 0, idx := idx }, blocks := [b], proof := [] } ++ rest)
      = .ok ({ id := { height := 0, idx := idx }, blocks := [b], proof := [] }, rest) := by
  apply decBitmapSegment_enc
  refine ⟨⟨by simp only; decide, by simp only; omega⟩, ⟨1, ?_⟩, ?_, hashesWF_nil⟩
  · have h1' : ¬ (18446744073709551616 ≤ idx) := by omega
    have h2 : ¬ (9223372036854775808 ≤ idx) := by omega
    simp [validateBlocks, leafOffset, nChunksOf, maxChunks, MAX_BITMAP_SEGMENT_HEIGHT, h1, h1', h2]
  · intro x hx
    simp only [List.mem_singleton] at hx
    subst hx
    exact hb

/-- the all-zero single chunk is such a block -/
example : ({ nChunks := 1, v := 0 } : BitmapBlock).WF ∧ ({ nChunks := 1, v := 0 } : BitmapBlock).nChunks = 1 :=
  ⟨⟨by decide, Nat.pow_pos (by omega)⟩, rfl⟩

/-- `Locator` with no hashes: one zero byte -/
theorem locator_empty_roundtrip (rest : Bytes) :
    encLocator [] = [0] ∧ decLocator (encLocator [] ++ rest) = .ok ([], rest) :=
  ⟨by decide, decLocator_enc [] ⟨Nat.zero_le _, fun _ h => (List.not_mem_nil h).elim⟩ rest⟩

/-- `PeerAddrs` with no addresses: four zero bytes -/
theorem peerAddrs_empty_roundtrip (rest : Bytes) :
    encPeerAddrs [] = [0, 0, 0, 0] ∧ decPeerAddrs (encPeerAddrs [] ++ rest) = .ok ([], rest) :=
  ⟨by decide, decPeerAddrs_enc [] ⟨Nat.zero_le _, fun _ h => (List.not_mem_nil h).elim⟩ rest⟩

/-- `Headers` with no headers: two zero bytes (writer only) -/
theorem headers_empty_encoding {α : Type} (hw : α → Bytes) : encHeaders hw [] = [0, 0] := by
  rw [encHeaders_small hw [] (by simp only [List.length_nil]; decide)]
  simp only [List.length_nil, writeMulti, List.map_nil, List.flatten_nil, List.append_nil]
  decide

/-- `Hand` with an EMPTY user agent: still well-formed, round-trips like any other -/
theorem hand_empty_user_agent_roundtrip (h : Hand) (hwf : h.WF) (rest : Bytes) :
    ({ h with userAgent := [] } : Hand).WF ∧
    decHand (encHand { h with userAgent := [] } ++ rest) = .ok (({ h with userAgent := [] } : Hand).norm, rest) := by
  have hw : ({ h with userAgent := [] } : Hand).WF := by
    obtain ⟨a, b, c, d, e, f, g, _⟩ := hwf
    exact ⟨a, b, c, d, e, f, g, stringWF_nil⟩
  exact ⟨hw, decHand_enc _ hw rest⟩

/-- `Shake` with an EMPTY user agent -/
theorem shake_empty_user_agent_roundtrip (s : Shake) (hwf : s.WF) (rest : Bytes) :
    decShake (encShake { s with userAgent := [] } ++ rest) = .ok ({ s with userAgent := [] }, rest) := by
  obtain ⟨a, b, c, d, _⟩ := hwf
  exact decShake_enc { s with userAgent := [] } ⟨a, b, c, d, stringWF_nil⟩ rest

/-- `PeerError` with an EMPTY message -/
theorem peerError_empty_message_roundtrip (code : Nat) (h : code < 2^32) (rest : Bytes) :
    decPeerError (encPeerError { code := code, message := [] } ++ rest) = .ok ({ code := code, message := [] }, rest) :=
  decPeerError_enc _ ⟨h, stringWF_nil⟩ rest

/-- … and at the other end: a string of the greatest length one read may have (100 000 bytes)
round-trips (one byte more is refused: `bytes_cap` in `Props/C10.lean`) -/
theorem string_max_length_roundtrip (s : Bytes) (hl : s.length = MAX_FIXED_READ) (hu : validUtf8 s = true)
    (rest : Bytes) : decString (writeBytes s ++ rest) = .ok (s, rest) :=
  decString_write s ⟨Nat.le_of_eq hl, hu⟩ rest

end GV.Props.C10Msg
