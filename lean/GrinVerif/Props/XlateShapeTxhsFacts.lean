import GrinVerif.Gen.PipeShapeTxhs
import GrinVerif.Props.XlateShapeLib
/-! # The commit / discard decision of the txhashset extension wrappers, as decided facts about the CURRENT source

`Gen/PipeShapeTxhs.lean` is regenerated on every run from `chain/src/txhashset/txhashset.rs`.  The facts below say, for
`extending` and `header_extending`: the closure's result is held in ONE local and the extension's rollback flag
(`force_rollback()` sets it) in ONE local; the child batch `commit()`, every backend `sync()` and every write of a new
size / bitmap accumulator into the handles happen ONLY under `result ~ Ok(_)` and `!rollback`; an `Err` result and a set
rollback flag each `discard()` every backend (3 trees resp. the header MMR).  The read-only wrappers never commit or sync
and discard unconditionally.  A commit moved out of the guard, a dropped discard, a `sync()` on the error path break a
theorem here (and the pins in `Props/XlateShapeTxhsPins.lean`). -/
namespace GV.Props.XlateShapeTxhsFacts
open GV.Gen.PipeShape GV.Props.XlateShape

set_option maxRecDepth 4000

/-- `txhashset::extending`: the closure's result is local `$5`, the rollback flag `$6` is read from the extension after
the closure ran; the child batch commit, the three syncs and the four writes into the handles happen only under
`$5 ~ Ok(_)` and `!($6)`: **an `Err` result or `force_rollback` never commits** -/
theorem extending_never_commits_on_err_or_rollback :
    resultLocal txhs_extending = ["$5"] ∧ rollbackLocal txhs_extending = [(["$6"], "= $14.extension.rollback")] ∧
    commitsOnlyUnder ["$5 ~ Ok(_)", "!($6)"] txhs_extending = true ∧
    (durable txhs_extending).map (·.name) = ["commit", "sync", "sync", "sync"] := by decide

/-- … and both the `Err` path and the rollback path discard the three trees; the header MMR is always discarded -/
theorem extending_discards :
    discardsUnder ["$5 ~ Err(_)"] txhs_extending = 3 ∧ discardsUnder ["$5 ~ Ok(_)", "$6"] txhs_extending = 3 ∧
    unconditionalDiscards txhs_extending = 1 := by decide

/-- `txhashset::header_extending`: the same decision for the header MMR -/
theorem header_extending_never_commits_on_err_or_rollback :
    resultLocal txhs_header_extending = ["$4"] ∧ rollbackLocal txhs_header_extending = [(["$5"], "= $11.rollback")] ∧
    commitsOnlyUnder ["$4 ~ Ok(_)", "!($5)"] txhs_header_extending = true ∧
    (durable txhs_header_extending).map (·.name) = ["commit", "sync"] := by decide
theorem header_extending_discards :
    discardsUnder ["$4 ~ Err(_)"] txhs_header_extending = 1 ∧ discardsUnder ["$4 ~ Ok(_)", "$5"] txhs_header_extending = 1 := by
  decide

/-- the read-only wrappers never make anything durable and always discard what the closure did -/
theorem readonly_never_commit :
    durable txhs_extending_readonly = [] ∧ unconditionalDiscards txhs_extending_readonly = 4 ∧
    durable txhs_header_extending_readonly = [] ∧ unconditionalDiscards txhs_header_extending_readonly = 1 ∧
    durable txhs_utxo_view = [] ∧ durable txhs_rewindable_kernel_view = [] := by decide

/-- non-vacuity of the predicate: a table whose commit sits outside the `!rollback` guard is refused -/
example : commitsOnlyUnder ["$1 ~ Ok(_)", "!($2)"]
    { name := "x", parseError := none, lets := [],
      steps := [⟨.check, "commit", "$3.commit()", "", ["$1 ~ Ok(_)"]⟩] } = false := by decide

end GV.Props.XlateShapeTxhsFacts
