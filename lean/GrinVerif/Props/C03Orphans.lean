import GrinVerif.Model.ChainOrphans
import GrinVerif.Model.Chain
/-! C03, the bounded orphan pool (`Model/ChainOrphans.lean` = `OrphanBlockPool::add` /
`remove_by_height`, chain/src/chain.rs). The arrival-order theorems of `Props/C03` are about the
unbounded pool of `Model/Chain.lean` (`addOrphan`); the hypothesis under which they speak about the
node - "at most MAX_ORPHAN_SIZE blocks wait at once" - is discharged here for the pool as coded:

* `add_within_capacity` / `add_is_addOrphan`: while the pool holds at most `maxSize` blocks after
  the insertion, `add` evicts nothing and its content is the unbounded pool's (`addOrphan`);
* `evictLoop_sub` / `add_keeps_only_old_or_new`: beyond the capacity the pool only loses blocks,
  it never invents or duplicates one;
* concrete evictions (kernel-checked): the whole group of the greatest height goes first - the
  block just added included when it is the highest - and the loop goes on to the next height while
  `maxSize` or more are left (`<`, not `≤`: one insertion beyond the capacity can remove more than
  one height). -/

namespace GV.Props.C03Orphans
open GV GV.Chain

/-- the content of the pool after an insertion when nothing is evicted -/
def inserted (P : OPool) (id h : Nat) : List (Nat × Nat) :=
  if P.orphans.any (·.1 == id) then P.orphans else P.orphans ++ [(id, h)]

/-- within the capacity `add` evicts nothing -/
theorem add_within_capacity (maxSize : Nat) (P : OPool) (id h : Nat)
    (hc : (inserted P id h).length ≤ maxSize) :
    (P.add maxSize id h).orphans = inserted P id h ∧ (P.add maxSize id h).evicted = P.evicted := by
  unfold OPool.add inserted at *
  simp only
  rw [if_neg (by omega)]
  exact ⟨rfl, rfl⟩

/-- a pool with room left takes a new block and loses none -/
theorem add_new_with_room (maxSize : Nat) (P : OPool) (id h : Nat)
    (hr : P.orphans.length < maxSize) (hn : P.orphans.any (·.1 == id) = false) :
    (P.add maxSize id h).orphans = P.orphans ++ [(id, h)] := by
  have hi : inserted P id h = P.orphans ++ [(id, h)] := by simp [inserted, hn]
  have := add_within_capacity maxSize P id h (by rw [hi]; simp; omega)
  rw [this.1, hi]

/-- within the capacity the ids in the pool evolve exactly like the unbounded orphan list of
`Model/Chain.lean` (`addOrphan`: append unless already there) -/
theorem add_is_addOrphan (maxSize : Nat) (P : OPool) (n : Node) (b : Blk)
    (hn : n.orphans = P.orphans.map (·.1))
    (hc : (inserted P b.id b.h).length ≤ maxSize) :
    (addOrphan n b).orphans = ((P.add maxSize b.id b.h).orphans).map (·.1) := by
  rw [(add_within_capacity maxSize P b.id b.h hc).1]
  unfold addOrphan inserted
  simp only
  have hcont : n.orphans.contains b.id = P.orphans.any (·.1 == b.id) := by
    rw [hn]
    induction P.orphans with
    | nil => rfl
    | cons o os ih =>
      simp only [List.map_cons, List.contains_cons, List.any_cons, ih]
      congr 1
      exact Bool.beq_comm
  rw [hcont]
  cases P.orphans.any (·.1 == b.id) <;> simp [hn]

/-- the eviction loop only removes -/
theorem evictLoop_sub (maxSize : Nat) (hs : List Nat) :
    ∀ (os : List (Nat × Nat)) (hi : List (Nat × List Nat)) o,
      o ∈ (evictLoop maxSize hs os hi).1 → o ∈ os := by
  induction hs with
  | nil => intro os hi o h; exact h
  | cons h hs ih =>
    intro os hi o ho
    unfold evictLoop at ho
    simp only at ho
    split at ho <;>
      (split at ho
       · exact (List.mem_filter.mp ho).1
       · exact (List.mem_filter.mp (ih _ _ o ho)).1)

/-- whatever happens, a block in the pool after `add` was there before or is the block added -/
theorem add_keeps_only_old_or_new (maxSize : Nat) (P : OPool) (id h : Nat) (o : Nat × Nat)
    (ho : o ∈ (P.add maxSize id h).orphans) : o ∈ P.orphans ∨ o = (id, h) := by
  have hins : ∀ x, x ∈ inserted P id h → x ∈ P.orphans ∨ x = (id, h) := by
    intro x hx
    unfold inserted at hx
    split at hx
    · exact Or.inl hx
    · rcases List.mem_append.mp hx with h1 | h1
      · exact Or.inl h1
      · exact Or.inr (by simpa using h1)
  unfold OPool.add at ho
  simp only at ho
  by_cases hgt : (if P.orphans.any (·.1 == id) then P.orphans else P.orphans ++ [(id, h)]).length > maxSize
  · rw [if_pos hgt] at ho; exact hins o (evictLoop_sub _ _ _ _ o ho)
  · rw [if_neg hgt] at ho; exact hins o ho

/-! ### concrete evictions (capacity 3) -/

private def P3 : OPool :=
  (((({} : OPool).add 3 10 5).add 3 11 6).add 3 12 6)

/-- three blocks fit -/
example : P3.orphans = [(10, 5), (11, 6), (12, 6)] ∧ P3.evicted = 0 := by decide

/-- a fourth block at the greatest height: it goes itself, and because exactly `maxSize` blocks are
then left (the loop stops only BELOW the capacity) the next height group goes as well -/
example : (P3.add 3 13 9).orphans = [(10, 5)] ∧ (P3.add 3 13 9).evicted = 3 := by decide

/-- a fourth block below: the group of the greatest height (two blocks) goes; 2 < 3 stops the loop -/
example : (P3.add 3 13 4).orphans = [(10, 5), (13, 4)] ∧ (P3.add 3 13 4).evicted = 2 := by decide

/-- the loop stops only BELOW the capacity: with single-block heights an insertion beyond the
capacity evicts two heights -/
example : (((((({} : OPool).add 3 10 5).add 3 11 6).add 3 12 7).add 3 13 4).orphans = [(10, 5), (13, 4)]) := by
  decide

/-- a block offered twice is held once but indexed twice; `remove_by_height` hands it over once -/
example : ((((({} : OPool).add 3 10 5).add 3 10 5).removeByHeight 5).1 = some [10]) := by decide

end GV.Props.C03Orphans
