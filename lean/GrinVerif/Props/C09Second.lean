import GrinVerif.Model.CrashCompact
import GrinVerif.Model.CrashZip
import GrinVerif.Lemmas.CrashCompactL
import GrinVerif.Props.C09Recov
/-! C09 — a SECOND process death, during the restart that follows an interrupted compaction or an
interrupted state-sync install (the `crash` run compares those restarts — `case2` lines of the
scenarios compaction, compaction-again, compaction-then-block, state-sync-install — with the prediction
for the FIRST durable state; these theorems are why that is the model's prediction).

* compaction: while a compacted file sits beside a stale prune list (or is absent) no candidate head
  validates, whatever the output / kernel files hold; the restart's own writes before its single head
  commit only truncate those files and rewrite the leaf set (`TxOnly`), so a restart that is killed
  anywhere before that commit and started again ends exactly where the first restart would have ended
  (`compaction_recovery_restartable`).
* state-sync install: in the window between the commit and the end of the directory swap the failing
  restart writes only the header MMR's two truncations, which change nothing (`hdrIns_noop`), so it can
  be killed and repeated any number of times with the same outcome (`zip_failed_restart_repeatable`). -/
namespace GV.Props.C09Second
open GV GV.Crash GV.Props.C09Recov

/-- with incoherent compaction files the fallback loop never looks at the output / kernel files, the
leaf set or the re-added positions: only the block table, the tail and the head it starts from count -/
theorem fallbackC_incoherent_ignores (bcf : Nat → Bool) (tbl : List BlkInfo) (d d' : DurableC)
    (h : (d.out.coherent && d.rp.coherent) = false) (h' : (d'.out.coherent && d'.rp.coherent) = false)
    (ht : d'.tail = d.tail) :
    ∀ (fuel hd : Nat) (r r' : List Leaf), fallbackC bcf tbl d fuel hd r = fallbackC bcf tbl d' fuel hd r' := by
  intro fuel
  induction fuel with
  | zero => intro hd r r'; rfl
  | succ f ih =>
    intro hd r r'
    unfold fallbackC
    cases hp : pathOf tbl (tbl.length + 1) hd [] with
    | none => rfl
    | some path =>
      simp only [validAtC_of_incoherent bcf d _ _ h, validAtC_of_incoherent bcf d' _ _ h', ht]
      split
      · rfl
      · simp only [Bool.false_eq_true, if_false]
        split
        · rfl
        · exact ih _ _ _

/-- **Interrupted compaction, restart killed and repeated (all chains, all positions).** -/
theorem compaction_recovery_restartable (bcf : Nat → Bool) (tbl : List BlkInfo) (d : DurableC)
    (h : (d.out.coherent && d.rp.coherent) = false) (ins : List RIns) (hi : TxOnly ins) :
    recoverC bcf tbl { d with base := runIns d.base ins } = recoverC bcf tbl d := by
  obtain ⟨k1, k2, k3, k4⟩ := runIns_tx_keeps ins d.base hi
  unfold recoverC
  simp only [k1, k2, k3, k4]
  split
  · rfl
  · split
    · rfl
    · split
      · rfl
      · exact (fallbackC_incoherent_ignores bcf tbl d { d with base := runIns d.base ins } h h rfl _ _ _ _).symm

/-- truncating the header MMR files to the length they have changes nothing -/
theorem hdrIns_noop (d : Durable) (hp : List BlkInfo)
    (h1 : d.hdrHash.length ≤ hp.length) (h2 : d.hdrData.length ≤ hp.length) (k : Nat) :
    runIns d ((hdrIns hp).take k) = d := by
  have e1 : d.hdrHash.take hp.length = d.hdrHash := List.take_of_length_le h1
  have e2 : d.hdrData.take hp.length = d.hdrData := List.take_of_length_le h2
  have : k = 0 ∨ k = 1 ∨ 2 ≤ k := by omega
  rcases this with rfl | rfl | hk
  · rfl
  · simp [hdrIns, runIns, applyRIns, e1]
  · have : (hdrIns hp).take k = hdrIns hp := List.take_of_length_le (by simp [hdrIns]; omega)
    rw [this]
    simp [hdrIns, runIns, applyRIns, e1, e2]

/-- **State-sync install, failing restart killed and repeated.** A restart on the node the install
left (header MMR holding the header chain `H`) writes, before it fails, only the header MMR's two
truncations; killed after any number of them and started again, `Chain::init` sees the same durable
state and ends the same way. -/
theorem zip_failed_restart_repeatable (bcf : Nat → Bool) (tbl : List BlkInfo) (d : DurableZ) (H : List BlkInfo)
    (h1 : d.base.hdrHash.length ≤ H.length) (h2 : d.base.hdrData.length ≤ H.length) (k : Nat) :
    recoverZ bcf tbl { d with base := runIns d.base ((hdrIns H).take k) } = recoverZ bcf tbl d := by
  rw [hdrIns_noop d.base H h1 h2 k]

/-! non-vacuity -/

example : ((PFiles.mk (some [(0, 0)]) (some []) []).coherent && (PFiles.clean []).coherent) = false := by decide

example : TxOnly (syncIns [] []) := txOnly_sync [] []

end GV.Props.C09Second
