import GrinVerif.Model.CrashCompact
import GrinVerif.Model.CrashZip
import GrinVerif.Lemmas.CrashCompactL
import GrinVerif.Props.C09Recov
/-! C09 — a SECOND process death, during the restart that follows an interrupted compaction or an
interrupted state-sync install (the `crash` run compares those restarts — `case2` lines of the
scenarios compaction, compaction-again, compaction-then-block, state-sync-install — with the prediction
for the FIRST durable state; these theorems are why that is the model's prediction).

* compaction: while a compacted file sits beside a stale prune list (or is absent) no candidate head
  validates, whatever the output / kernel files hold; the restart's own writes before its single head
  commit only truncate those files and rewrite the leaf set (`TxOnly`), so a restart that is killed
  anywhere before that commit and started again ends exactly where the first restart would have ended
  (`compaction_recovery_restartable`).
* state-sync install: in the window between the commit and the end of the directory swap the failing
  restart writes only the header MMR's two truncations, which change nothing (`hdrIns_noop`), so it can
  be killed and repeated any number of times with the same outcome (`zip_failed_restart_repeatable`). -/
namespace GV.Props.C09Second
open GV GV.Crash GV.Props.C09Recov

/-- with incoherent compaction files the fallback loop never looks at the output / kernel files, the
leaf set or the re-added positions: only the block table, the tail and the head it starts from count -/
theorem fallbackC_incoherent_ignores (bcf : Nat → Bool) (tbl : List BlkInfo) (d d' : DurableC)
    (h : (d.out.coherent && d.rp.coherent) = false) (h' : (d'.out.coherent && d'.rp.coherent) = false)
    (ht : d'.tail = d.tail) :
    ∀ (fuel hd : Nat) (r r' : List Leaf), fallbackC bcf tbl d fuel hd r = fallbackC bcf tbl d' fuel hd r' := by
  intro fuel
  induction fuel with
  | zero => intro hd r r'; rfl
  | succ f ih =>
    intro hd r r'
    unfold fallbackC
    cases hp : pathOf tbl (tbl.length + 1) hd [] with
    | none => rfl
    | some path =>
      simp only [validAtC_of_incoherent bcf d _ _ h, validAtC_of_incoherent bcf d' _ _ h', ht]
      split
      · rfl
      · simp only [Bool.false_eq_true, if_false]
        split
        · rfl
        · exact ih _ _ _

/-- **Interrupted compaction, restart killed and repeated (all chains, all positions).** -/
theorem compaction_recovery_restartable (bcf : Nat → Bool) (tbl : List BlkInfo) (d : DurableC)
    (h : (d.out.coherent && d.rp.coherent) = false) (ins : List RIns) (hi : TxOnly ins) :
    recoverC bcf tbl { d with base := runIns d.base ins } = recoverC bcf tbl d := by
  obtain ⟨k1, k2, k3, k4⟩ := runIns_tx_keeps ins d.base hi
  unfold recoverC
  simp only [k1, k2, k3, k4]
  split
  · rfl
  · split
    · rfl
    · split
      · rfl
      · exact (fallbackC_incoherent_ignores bcf tbl d { d with base := runIns d.base ins } h h rfl _ _ _ _).symm

/-- truncating the header MMR files to the length they have changes nothing -/
theorem hdrIns_noop (d : Durable) (hp : List BlkInfo)
    (h1 : d.hdrHash.length ≤ hp.length) (h2 : d.hdrData.length ≤ hp.length) (k : Nat) :
    runIns d ((hdrIns hp).take k) = d := by
  have e1 : d.hdrHash.take hp.length = d.hdrHash := List.take_of_length_le h1
  have e2 : d.hdrData.take hp.length = d.hdrData := List.take_of_length_le h2
  have : k = 0 ∨ k = 1 ∨ 2 ≤ k := by omega
  rcases this with rfl | rfl | hk
  · rfl
  · simp [hdrIns, runIns, applyRIns, e1]
  · have : (hdrIns hp).take k = hdrIns hp := List.take_of_length_le (by simp [hdrIns]; omega)
    rw [this]
    simp [hdrIns, runIns, applyRIns, e1, e2]

/-- **State-sync install, failing restart killed and repeated.** A restart on the node the install
left (header MMR holding the header chain `H`) writes, before it fails, only the header MMR's two
truncations; killed after any number of them and started again, `Chain::init` sees the same durable
state and ends the same way. -/
theorem zip_failed_restart_repeatable (bcf : Nat → Bool) (tbl : List BlkInfo) (d : DurableZ) (H : List BlkInfo)
    (h1 : d.base.hdrHash.length ≤ H.length) (h2 : d.base.hdrData.length ≤ H.length) (k : Nat) :
    recoverZ bcf tbl { d with base := runIns d.base ((hdrIns H).take k) } = recoverZ bcf tbl d := by
  rw [hdrIns_noop d.base H h1 h2 k]

/-! ### the restart's own writes on a node with compaction files / without bodies, step by step

`setup_head`'s syncs (`PMMRBackend::sync`: hash file and data file truncated, leaf set rewritten, prune
list rewritten with the content it has) never change WHICH pruned set a hash / data file is compacted
for, the prune list's content, the body tail or the set of stored bodies: the durable state of such a
node after `k` writes of the restart is the base state after those writes, the rest untouched. -/

def recCrashAfterC (bc : Nat → Bool) (tbl : List BlkInfo) (d : DurableC) (k : Nat) : DurableC :=
  { d with base := recCrashAfter bc tbl d.base k }

def recCrashAfterZ (bc : Nat → Bool) (tbl : List BlkInfo) (d : DurableZ) (k : Nat) : DurableZ :=
  { d with base := recCrashAfter bc tbl d.base k }

/-- **Coherent compaction files, no fallback: the restart can be killed anywhere (all chains, any
tail).** Lifts `recover_restartable_no_fallback` to the safe crash points of a compaction (`k = 0, 5,
6, ≥ 11` of `compaction_safe_steps_all`), of a second compaction and of a block on a compacted node. -/
theorem compaction_restartable_coherent (bcf : Nat → Bool) (tbl : List BlkInfo) (d : DurableC)
    (h1 : d.out.coherent = true) (h2 : d.rp.coherent = true) (hp P : List BlkInfo)
    (hhp : pathOf tbl (tbl.length + 1) d.base.dbHHead [] = some hp)
    (hl1 : d.base.hdrHash.length = hp.length) (hl2 : d.base.hdrData.length = hp.length)
    (hdata : d.base.hdrData = hp.map (·.id))
    (hP : pathOf tbl (tbl.length + 1) d.base.dbHead [] = some P)
    (hv : P.length ≤ 1 ∨ validAt bcf d.base [] P = true) (k : Nat) :
    recoverC bcf tbl (recCrashAfterC bcf tbl d k) = .ok d.base.dbHead := by
  have hk := recCrashAfter_kept bcf tbl d.base hp P hhp hl1 hl2 hdata hP hv k
  unfold recCrashAfterC
  generalize recCrashAfter bcf tbl d.base k = D at hk
  have hhD : HdrOk tbl D :=
    ⟨by rw [hk.hh, hk.hd, hl1, hl2], hp, by rw [hk.hhead]; exact hhp, by rw [hk.hd, hdata]; exact List.prefix_refl _⟩
  rw [recoverC_of_hdrOk bcf tbl _ hhD]
  simp only [hk.head]
  apply fallbackC_stop bcf tbl _ _ _ [] P hP
  rcases hv with hv | hv
  · exact Or.inl hv
  · right
    rw [validAtC_of_coherent bcf { d with base := D } [] P h1 h2]
    exact hk.valid.trans hv

/-- **State-sync install, restart without fallback killed anywhere**: the crash points inside the
sandbox (the chain directory still holds the old node: `P = [genesis]`) and after the directory swap
(`P` = the archive header's path, valid on the installed files) -/
theorem zip_restartable_no_fallback (bcf : Nat → Bool) (tbl : List BlkInfo) (d : DurableZ)
    (ht : d.torn = false) (hp P : List BlkInfo)
    (hhp : pathOf tbl (tbl.length + 1) d.base.dbHHead [] = some hp)
    (hl1 : d.base.hdrHash.length = hp.length) (hl2 : d.base.hdrData.length = hp.length)
    (hdata : d.base.hdrData = hp.map (·.id))
    (hP : pathOf tbl (tbl.length + 1) d.base.dbHead [] = some P)
    (hv : P.length ≤ 1 ∨ validAt bcf d.base [] P = true) (k : Nat) :
    recoverZ bcf tbl (recCrashAfterZ bcf tbl d k) = .ok d.base.dbHead := by
  have hk := recCrashAfter_kept bcf tbl d.base hp P hhp hl1 hl2 hdata hP hv k
  unfold recCrashAfterZ
  generalize recCrashAfter bcf tbl d.base k = D at hk
  unfold recoverZ
  have e1 : ¬ D.hdrHash.length ≠ D.hdrData.length := by rw [hk.hh, hk.hd, hl1, hl2]; simp
  have e2 : ¬ D.hdrData.take hp.length ≠ hp.map (·.id) := by
    rw [hk.hd, hdata]; simp [take_map_len]
  simp only [ht, Bool.false_eq_true, if_false, e1, hk.hhead, hhp, e2, hk.head]
  unfold fallbackZ
  simp only [hP]
  rcases hv with hv | hv
  · simp [hv]
  · have : validAt bcf D [] P = true := hk.valid.trans hv
    by_cases h : P.length ≤ 1
    · simp [h]
    · simp [h, this]

/-! non-vacuity -/

example : ((PFiles.mk (some [(0, 0)]) (some []) []).coherent && (PFiles.clean []).coherent) = false := by decide

example : TxOnly (syncIns [] []) := txOnly_sync [] []

end GV.Props.C09Second
