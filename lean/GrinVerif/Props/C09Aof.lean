import GrinVerif.Model.CrashAof
/-! C09 — theorems about the byte-level model of `AppendOnlyFile` / `DataFile` (store/src/types.rs,
`Model/CrashAof.lean`; tied to the real code by the `crash aof` run: every durable byte of both files
at every crash point of `flush` / `open`, and every element read back).

* `raw_flush_crash_states`, `raw_flush_labels`: a fixed-size file killed at any crash point of `flush`
  holds the old content, the content cut to the rewind position, or the final content; the order of
  the points is truncate → append → sync.
* `var_flush_size_before_data`: the size file is flushed completely before the data file is touched.
* `parseAll_spec`, `rebuild_is_canonical`, `open_rebuilds_canonical`: whatever the size file holds,
  if its sizes do not add up to the data file's length `open` replaces it by the canonical size file
  of the elements the data file holds (zero-filled / torn tails are ignored).
* `rewind_beyond_empties_data_bytes`: the byte-level form of known finding C09-recovery-not-restartable
  (`Props/C09Kernel.lean` has it on the abstraction): flushing a pair rewound to a position BEYOND the
  end of the size file grows the size file with zero entries and truncates the data file to length 0.
* `open_accepts_stale_data_witness`: the consistency check of `open` (sum of sizes = data length) does
  not detect a data file that still holds the elements of before a rewind when the byte counts
  coincide (observation; reproduced on the real code by the scripted "equal sums" history). -/
namespace GV.Props.C09Aof
open GV GV.CrashAof

/-! ### `set_len` -/

theorem setLen_length (b : Bytes) (n : Nat) : (setLen b n).length = n := by
  unfold setLen
  split
  · simp; omega
  · simp; omega

theorem setLen_shrinks (b : Bytes) (n : Nat) (h : n ≤ b.length) : setLen b n = b.take n := by
  unfold setLen; rw [if_pos h]

/-- `set_len` beyond the end of the file does not fail: it appends zero bytes -/
theorem setLen_grows_with_zeros (b : Bytes) (n : Nat) (h : b.length < n) :
    setLen b n = b ++ List.replicate (n - b.length) 0 := by
  unfold setLen; rw [if_neg (by omega)]

/-! ### fixed-size files -/

/-- the crash points of a flush, in the code's order -/
theorem raw_flush_labels (f : Raw) :
    (f.flush).1.map (·.1) =
      (if f.bak > 0 then ["before-truncate", "after-truncate"] else []) ++
        ["before-append", "after-append", "after-sync"] := by
  unfold Raw.flush
  by_cases h : f.bak > 0 <;> simp [h]

theorem raw_flush_final (f : Raw) :
    (f.flush).2.disk = (if f.bak > 0 then setLen f.disk (f.bsp * f.s) else f.disk) ++ f.buf := by
  unfold Raw.flush; simp

/-- a process killed at any crash point of the flush of a fixed-size file leaves the old content, the
content cut (or zero-extended) to the rewind position, or the final content — nothing else -/
theorem raw_flush_crash_states (f : Raw) (l : String) (d : Bytes) (h : (l, d) ∈ (f.flush).1) :
    d = f.disk ∨ d = setLen f.disk (f.bsp * f.s) ∨ d = (f.flush).2.disk := by
  unfold Raw.flush at h ⊢
  by_cases hb : f.bak > 0
  · simp [hb] at h ⊢
    rcases h with ⟨_, rfl⟩ | ⟨_, rfl⟩ | ⟨_, rfl⟩ | ⟨_, rfl⟩ | ⟨_, rfl⟩ <;> simp
  · simp [hb] at h ⊢
    rcases h with ⟨_, rfl⟩ | ⟨_, rfl⟩ | ⟨_, rfl⟩ <;> simp

/-- an un-rewound flush only ever appends: every crash point holds the old content as a prefix -/
theorem raw_flush_append_only (f : Raw) (hb : f.bak = 0) (l : String) (d : Bytes)
    (h : (l, d) ∈ (f.flush).1) : d = f.disk ∨ d = f.disk ++ f.buf := by
  unfold Raw.flush at h
  simp [hb] at h
  rcases h with ⟨_, rfl⟩ | ⟨_, rfl⟩ | ⟨_, rfl⟩ <;> simp

example : (({ s := 4, disk := [1,2,3,4,5,6,7,8], bsp := 2 } : Raw).rewind 1 |>.append [9,9,9,9]).flush.1 =
    [("before-truncate", [1,2,3,4,5,6,7,8]), ("after-truncate", [1,2,3,4]), ("before-append", [1,2,3,4]),
     ("after-append", [1,2,3,4,9,9,9,9]), ("after-sync", [1,2,3,4,9,9,9,9])] := by decide

/-! ### variable-size files: order of the two flushes -/

theorem mem_of_crashAt {t : Trace} {k : Nat} {d : Disk} (h : crashAt t k = some d) :
    ∃ l, (l, d) ∈ t := by
  unfold crashAt at h
  cases hg : t[k - 1]? with
  | none => simp [hg] at h
  | some p =>
    simp [hg] at h
    exact ⟨p.1, by rw [← h]; exact List.mem_of_getElem? hg⟩

/-- `flush` of a file with a size file: at every crash point either the data file is still untouched
or the size file already has its final content — the size file is flushed first, completely -/
theorem var_flush_size_before_data (s r : Raw) (k : Nat) (d : Disk)
    (h : crashAt (Aof.flush { sf := some s, raw := r }).1 k = some d) :
    d.data = r.disk ∨ d.size = (s.flush).2.disk := by
  obtain ⟨l, hm⟩ := mem_of_crashAt h
  unfold Aof.flush at hm
  simp only at hm
  split at hm
  · -- Err path
    simp only [List.mem_append, List.mem_map, List.mem_singleton] at hm
    rcases hm with ⟨p, _, hp⟩ | hp
    · left; cases hp; rfl
    · right; cases hp; rfl
  · simp only [List.mem_append, List.mem_map] at hm
    rcases hm with (⟨p, _, hp⟩ | hp) | hp
    · left; cases hp; rfl
    · right
      split at hp
      · simp at hp; rcases hp with ⟨_, rfl⟩ | ⟨_, rfl⟩ <;> rfl
      · simp at hp
    · right
      simp at hp; rcases hp with ⟨_, rfl⟩ | ⟨_, rfl⟩ | ⟨_, rfl⟩ <;> rfl

/-! ### `rebuild_size_file` -/

/-- the canonical size entries of a list of element encodings -/
def offsets : List Bytes → Nat → List (Nat × Nat)
  | [], _ => []
  | e :: es, off => (off, e.length) :: offsets es (off + e.length)

/-- `parse` reads each of the elements off the head of any stream, and nothing else of them -/
def PrefixCode (parse : Bytes → Option Nat) (es : List Bytes) : Prop :=
  ∀ e ∈ es, 0 < e.length ∧ ∀ rest, parse (e ++ rest) = some e.length

/-- the element loop of `rebuild_size_file` on a file that holds the elements `es` followed by bytes
that do not parse (nothing, a torn element, zero fill): exactly the canonical entries of `es` -/
theorem parseAll_spec (parse : Bytes → Option Nat) (tail : Bytes) (htail : parse tail = none) :
    ∀ (es : List Bytes) (off fuel : Nat), PrefixCode parse es →
      (es.flatten ++ tail).length ≤ fuel →
      parseAll parse fuel (es.flatten ++ tail) off = offsets es off := by
  intro es
  induction es with
  | nil =>
    intro off fuel _ _
    cases fuel with
    | zero => simp [parseAll, offsets]
    | succ f => simp [parseAll, offsets, htail]
  | cons e es ih =>
    intro off fuel hc hf
    have he := hc e (by simp)
    have hlen : (e ++ (es.flatten ++ tail)).length ≤ fuel := by simpa [List.append_assoc] using hf
    have h0 := he.1
    cases fuel with
    | zero => simp only [List.length_append] at hlen; omega
    | succ f =>
      have hp : parse (e ++ (es.flatten ++ tail)) = some e.length := he.2 _
      have hne : e.length ≠ 0 := by omega
      simp only [List.flatten_cons, List.append_assoc, parseAll, hp, hne, if_false, offsets]
      congr 1
      rw [List.drop_left]
      apply ih
      · intro x hx; exact hc x (by simp [hx])
      · simp at hlen ⊢; omega

theorem rebuild_is_canonical (parse : Bytes → Option Nat) (es : List Bytes) (tail : Bytes)
    (htail : parse tail = none) (hc : PrefixCode parse es) :
    rebuildSize parse (es.flatten ++ tail) = (offsets es 0).flatMap encEntry := by
  unfold rebuildSize
  rw [parseAll_spec parse tail htail es 0 _ hc (Nat.le_refl _)]

theorem init_disk (f : Raw) : f.init.disk = f.disk := by
  unfold Raw.init; split <;> rfl

/-- `open` rebuilds exactly when the sizes do not add up -/
theorem open_no_rebuild_iff (parse : Bytes → Option Nat) (d : Disk) (sum : Nat)
    (hs : (({ s := 10, disk := d.size } : Raw).init).sumSizes (({ s := 10, disk := d.size } : Raw).init).bsp = some sum) :
    (openVar parse d).1 = [] ↔ sum = d.data.length := by
  unfold openVar
  simp only [hs]
  by_cases h : sum = d.data.length <;> simp [h]

/-- WHATEVER the size file holds: if its sizes do not add up to the length of the data file, `open`
replaces it by the canonical size file of the elements the data file holds and leaves the data file
alone (crash between the size file's flush and the data file's: the old elements are all back) -/
theorem open_rebuilds_canonical (parse : Bytes → Option Nat) (es : List Bytes) (tail sizeDisk : Bytes)
    (htail : parse tail = none) (hc : PrefixCode parse es) (sum : Nat)
    (hs : (({ s := 10, disk := sizeDisk } : Raw).init).sumSizes (({ s := 10, disk := sizeDisk } : Raw).init).bsp = some sum)
    (hne : sum ≠ (es.flatten ++ tail).length) :
    ∃ a, (openVar parse { size := sizeDisk, data := es.flatten ++ tail }).2 = some a ∧
      a.disk = { size := (offsets es 0).flatMap encEntry, data := es.flatten ++ tail } := by
  unfold openVar
  simp only [hs, hne, if_false]
  refine ⟨_, rfl, ?_⟩
  simp only [Aof.disk, Option.map_some, Option.getD_some, init_disk]
  rw [rebuild_is_canonical parse es tail htail hc]
  congr 1
  repeat' split
  all_goals rfl

/-- the harness's `Blob` codec is such a code, and zero fill does not parse -/
theorem blob_prefix_code (es : List Bytes)
    (h : ∀ e ∈ es, ∃ l p, e = l :: p ∧ l ≠ 0 ∧ p.length = l) : PrefixCode blobParse es := by
  intro e he
  obtain ⟨l, p, rfl, hl, hp⟩ := h e he
  refine ⟨by simp, ?_⟩
  intro rest
  simp [blobParse, hl, hp]

theorem blob_zero_fill (n : Nat) : blobParse (List.replicate n 0) = none := by
  cases n <;> simp [blobParse, List.replicate_succ]

example : PrefixCode blobParse [[2, 7, 7], [1, 9]] :=
  blob_prefix_code _ (by
    intro e he
    simp at he
    rcases he with rfl | rfl
    · exact ⟨2, [7, 7], rfl, by decide, rfl⟩
    · exact ⟨1, [9], rfl, by decide, rfl⟩)

/-! ### a rewind beyond the end of the size file -/

theorem ofBE_zeros (n : Nat) : ofBE (List.replicate n 0) = 0 := by
  unfold ofBE
  induction n with
  | zero => rfl
  | succ n ih => simp [List.replicate_succ, ih]

theorem zeros_tail (A : Bytes) (m n : Nat) (hA : A.length = 10 * m) (h : m < n) :
    ((setLen A (n * 10)).drop ((n - 1) * 10)).take 10 = List.replicate 10 0 := by
  rw [setLen_grows_with_zeros A (n * 10) (by omega)]
  rw [List.drop_append, List.drop_eq_nil_of_le (by omega), List.nil_append, List.drop_replicate,
    List.take_replicate]
  congr 1
  omega

theorem raw_flush_rewound_state (s : Raw) (n : Nat) (hs10 : s.s = 10) (hbuf : s.buf = [])
    (hsb : s.bak > 0) (hsp : s.bsp = n) :
    (s.flush).2 =
      { s := 10
        disk := setLen s.disk (n * 10)
        buf := []
        bak := 0
        bsp := (setLen s.disk (n * 10)).length / 10
        mmap := if (setLen s.disk (n * 10)).length = 0 then none else some (setLen s.disk (n * 10)) } := by
  unfold Raw.flush; simp [hsb, hsp, hs10, hbuf]

/-- Byte-level form of C09-recovery-not-restartable: a data file with a size file of `m` entries,
rewound to a position `n > m` (what a restart after a death inside the recovery asks for), is flushed
WITHOUT an error: the size file grows to `n` entries, the new ones all zero, and the data file is
truncated to the end of entry `n - 1` = offset 0 + size 0: only the buffer is left of it -/
theorem rewind_beyond_empties_data_bytes (s r : Raw) (m n : Nat)
    (hs10 : s.s = 10) (hlen : s.disk.length = 10 * m) (hbuf : s.buf = [])
    (hsb : s.bak > 0) (hrb : r.bak > 0) (hsp : s.bsp = n) (hrp : r.bsp = n) (h : m < n) :
    let res := Aof.flush { sf := some s, raw := r }
    res.2.2 = true ∧ res.2.1.raw.disk = r.buf ∧
      res.2.1.disk.size = s.disk ++ List.replicate (10 * (n - m)) 0 := by
  have hd2 : (s.flush).2.disk = setLen s.disk (n * 10) := by
    rw [raw_flush_final]; simp [hsb, hsp, hs10, hbuf]
  have hl2 : (setLen s.disk (n * 10)).length = n * 10 := setLen_length _ _
  have hentry : (s.flush).2.readEntry (n - 1) = some (0, 0) := by
    unfold Raw.readEntry Raw.read Raw.sizeUnsync Raw.readMmap
    have hf := raw_flush_rewound_state s n hs10 hbuf hsb hsp
    rw [hf]
    simp only [hl2]
    have h1 : n * 10 / 10 = n := by omega
    have h2 : ¬ (n - 1 ≥ n + ([] : Bytes).length / 10) := by simp; omega
    have h3 : n - 1 < n := by omega
    have h4 : ¬ (n * 10 = 0) := by omega
    have h5 : ¬ (n * 10 < (n - 1) * 10 + 10) := by omega
    simp only [h1, h2, h3, h4, h5, if_false, if_true, hl2]
    rw [zeros_tail s.disk m n hlen h]
    simp
    decide
  have hpos : ¬ (n = 0) := by omega
  unfold Aof.flush
  simp only [hrb, hrp, hpos, if_true, if_false, hentry, Option.map_some]
  refine ⟨trivial, ?_, ?_⟩
  · simp [setLen]
  · simp only [Aof.disk, Option.map_some, Option.getD_some, hd2]
    rw [setLen_grows_with_zeros _ _ (by omega)]
    congr 2
    omega

/-- hypotheses are satisfiable: two entries on disk, rewound to 3 -/
example : let s : Raw := ({ s := 10, disk := encEntry (0, 3) ++ encEntry (3, 2), bsp := 2, mmap := some (encEntry (0, 3) ++ encEntry (3, 2)) } : Raw).rewind 3
          let r : Raw := ({ s := 0, disk := [2, 7, 7, 1, 9], bsp := 2, mmap := some [2, 7, 7, 1, 9] } : Raw).rewind 3
          (Aof.flush { sf := some s, raw := r }).2.1.disk =
            { size := encEntry (0, 3) ++ encEntry (3, 2) ++ List.replicate 10 0, data := [] } := by decide

/-! ### the consistency check of `open` is a byte count -/

/-- `[a b c]` synced, rewind to 1, append `d` with `|d| = |b| + |c|`, killed after the size file's
flush (crash point 4 = `after-append@size`): the size file describes `[a d]`, the data file still
holds `a b c`, the byte counts agree, `open` does NOT rebuild, and the file shows two elements, the
second one being `b` — neither the old nor the new content. Real code: `crash aof`, scripted history. -/
def staleRun : Option (Disk × List String × Nat × List (Option Bytes) × List (Option Bytes)) :=
  let a := [3, 1, 1, 1]; let b := [1, 5]; let c := [2, 6, 6]; let d := [4, 8, 8, 8, 8]
  let d0 : Disk := { size := (offsets [a, b, c] 0).flatMap encEntry, data := a ++ b ++ c }
  match (openVar blobParse d0).2 with
  | none => none
  | some f0 =>
    match (f0.rewind 1).append d with
    | none => none
    | some f1 =>
      match crashAt f1.flush.1 4 with
      | none => none
      | some dk =>
        match openVar blobParse dk with
        | (t, some f2) =>
          some (dk, t.map (·.1), f2.sizeInElmts, dfReadAll blobParse f2 3, dfReadAll blobParse f0 3)
        | _ => none

theorem open_accepts_stale_data_witness :
    staleRun = some ({ size := (offsets [[3, 1, 1, 1], [4, 8, 8, 8, 8]] 0).flatMap encEntry,
                       data := [3, 1, 1, 1, 1, 5, 2, 6, 6] },
                     [], 2, [some [3, 1, 1, 1], some [1, 5], none],
                     [some [3, 1, 1, 1], some [1, 5], some [2, 6, 6]]) := by
  rfl

end GV.Props.C09Aof
