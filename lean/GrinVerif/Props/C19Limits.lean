import GrinVerif.Props.C19
import GrinVerif.Lemmas.DecBound
/-! # C19 — the length limit of every message type is exactly the regenerated table

`Gen/Msg.lean` (tools/gen_msg.py) regenerates `max_msg_size`, the 4× allowance, the default for unknown
type bytes and the comparison `msg_len > max_len` from `p2p/src/msg.rs` on every run.

* `header_step_exact` — what the codec does with the 11 header bytes of a frame of type byte `t`
  announcing `len` bytes is decided by `len > maxLen net t` and nothing else: above the limit
  `TooLargeReadErr` with the codec idle again, at or below it the state `Header(Known / Unknown)` —
  for EVERY type byte 0 … 255 and every `len < 2^64`;
* `limit_boundary` — `limit` is accepted at the header, `limit + 1` refused (with exactly 11 bytes
  read and 11 requested from the allocator: `refuse_too_large`);
* `limit_table_pinned` — the table itself, per type byte, on mainnet and on the AutomatedTesting
  chain the harness runs on, and the default for the unknown type bytes;
* `limits_independent_of_version` — the limit does not depend on the protocol version (the header
  decoder has no version parameter). -/
namespace GV.Props.C19Limits
open GV GV.Ser GV.Dec GV.Msg GV.Codec GV.Gen.Msg GV.Props.C19

variable {B H : Type}

/-- **the limit table is what the codec enforces at the frame header** -/
theorem header_step_exact (env : Env B H) (t len : Nat) (h64 : len < 2^64) :
    stepState env ({ buffer := encHeader env.net t len, state := .none } : Codec H) 11 =
      if len > maxLen env.net t then .inl (.err (.ser .tooLarge), idle, 0)
      else .inr ({ buffer := [], state := .header (if isKnownType t then .known t len else .unknown len t) }, 0) := by
  rw [stepState_none env _ (encHeader_length _ _ _)]
  have := decHeader_encHeader env.net t len h64 []
  rw [List.append_nil] at this
  rw [this]
  by_cases h1 : len > maxLen env.net t
  · simp only [h1, if_true]
  · by_cases h2 : isKnownType t = true
    · simp only [h1, h2, if_false, if_true]
    · simp only [h1, h2, if_false]
      rfl

/-- **at the limit accepted, one byte above refused** — and the refusal reads exactly the header and
allocates nothing for the announced body, under every fragmentation -/
theorem limit_boundary (env : Env B H) (t : Nat) (hlim : maxLen env.net t + 1 < 2^64) :
    (∃ h, stepState env ({ buffer := encHeader env.net t (maxLen env.net t), state := .none } : Codec H) 11 =
        .inr ({ buffer := [], state := .header h }, 0)) ∧
    (∀ (rest : Bytes) (frags : List Bytes), frags.flatten = encHeader env.net t (maxLen env.net t + 1) ++ rest →
      (read env fragOps idle frags).res = .err (.ser .tooLarge) ∧
      (read env fragOps idle frags).bytesRead = 11 ∧ (read env fragOps idle frags).alloc = 11) := by
  constructor
  · refine ⟨if isKnownType t then .known t (maxLen env.net t) else .unknown (maxLen env.net t) t, ?_⟩
    rw [header_step_exact env t _ (by omega), if_neg (by omega)]
  · intro rest frags hfr
    obtain ⟨h1, h2, h3, _⟩ := refuse_too_large env t (maxLen env.net t + 1) hlim (by omega) rest frags hfr
    exact ⟨h1, h2, h3⟩

/-- **the table**: `4 × max_msg_size(type)` for the type bytes 0 … 28, mainnet -/
theorem limit_table_pinned :
    (List.range 29).map (maxLen netMainnet) =
      [0, 512, 352, 64, 64, 16, 19472, 2564, 1460, 747528, 128, 5392128, 128, 539212, 5392128, 5392128, 160, 256, 256,
       128, 128, 164, 10784256, 164, 10784256, 164, 10784256, 164, 10784256] ∧
    (List.range 29).map (maxLen netAutomatedTesting) =
      [0, 512, 352, 64, 64, 16, 19472, 2564, 1460, 747528, 128, 31152, 128, 3112, 31152, 31152, 160, 256, 256,
       128, 128, 164, 62304, 164, 62304, 164, 62304, 164, 62304] ∧
    (∀ t ∈ [29, 30, 77, 128, 200, 254, 255], maxLen netMainnet t = 5392128 ∧ maxLen netAutomatedTesting t = 31152) := by
  refine ⟨by decide, by decide, by decide⟩

/-- every known type's limit is far below `2^64` (so `limit_boundary` applies), and every byte that is
no `Type` gets the default -/
theorem limits_small :
    (∀ t ∈ List.range 29, maxLen netMainnet t + 1 < 2^64 ∧ maxLen netAutomatedTesting t + 1 < 2^64) ∧
    (∀ t, isKnownType t = false → maxLen netMainnet t = 5392128 ∧ maxLen netAutomatedTesting t = 31152) := by
  refine ⟨by decide, fun t ht => ?_⟩
  unfold maxLen
  simp only [ht, Bool.false_eq_true, if_false]
  exact ⟨by decide, by decide⟩

/-- the limit does not depend on the protocol version: neither `decHeader` nor `maxLen` has a version
parameter, and the codec's environment only enters through `env.net` -/
theorem limits_independent_of_version (env1 env2 : Env B H) (hnet : env1.net = env2.net) (t len : Nat) (h64 : len < 2^64) :
    (stepState env1 ({ buffer := encHeader env1.net t len, state := .none } : Codec H) 11).isLeft =
    (stepState env2 ({ buffer := encHeader env2.net t len, state := .none } : Codec H) 11).isLeft := by
  rw [header_step_exact env1 t len h64, header_step_exact env2 t len h64, hnet]

/-! ## item counts of the list-carrying messages -/

/-- **the count gates are the closed bounds**: `PeerAddrs` with up to and including `MAX_PEER_ADDRS` = 256
entries and a locator with up to and including `MAX_LOCATORS` = 20 hashes pass, one more is refused
(the predicates are regenerated from `p2p/src/msg.rs` WITH their comparison operator: `>` turned into
`>=` - the honest maximum refused - breaks this theorem) -/
theorem list_count_gates_closed :
    (∀ n, peerAddrsCountRefused n = false ↔ n ≤ 256) ∧ (∀ n, peerAddrsCountRefused n = true ↔ 257 ≤ n) ∧
    (∀ n, n < 256 → (locatorCountRefused n = false ↔ n ≤ 20)) ∧ (∀ n, n < 256 → (locatorCountRefused n = true ↔ 21 ≤ n)) ∧
    GV.Gen.MAX_PEER_ADDRS = 256 ∧ GV.Gen.MAX_LOCATORS = 20 ∧ GV.Gen.MAX_BLOCK_HEADERS = 512 := by
  have e1 : GV.Gen.MAX_PEER_ADDRS = 256 := rfl
  have e2 : GV.Gen.MAX_LOCATORS % 256 = 20 := rfl
  refine ⟨fun n => ?_, fun n => ?_, fun n _ => ?_, fun n _ => ?_, rfl, rfl, rfl⟩
  · unfold peerAddrsCountRefused; rw [e1, decide_eq_false_iff_not]; omega
  · unfold peerAddrsCountRefused; rw [e1, decide_eq_true_eq]; omega
  · unfold locatorCountRefused; rw [e2, decide_eq_false_iff_not]; omega
  · unfold locatorCountRefused; rw [e2, decide_eq_true_eq]; omega

/-- **the reader's gate is the generated one** (`Readable for PeerAddrs`): a body announcing `n` entries
is refused with `TooLargeReadErr` before any entry is read or any vector allocated iff the generated
predicate says so; otherwise exactly `n` entries are read -/
theorem peer_addrs_gate {P : Type} (rd : Rdr) (n : Nat) (h32 : n < 2^32) (rest : Bytes) :
    decPeerAddrs (P := P) rd (writeU32 n ++ rest) =
      if peerAddrsCountRefused n then .err .tooLarge 0
      else if n = 0 then .ok (.peerAddrs []) rest 0
      else (withCapacity n PEER_ADDR_MEM
        (GV.Dec.bind (readN (decPeerAddr rd) n rest) fun ps r => .ok (.peerAddrs ps) r 0)).addAlloc 0 := by
  unfold decPeerAddrs
  have hr : rU32 (writeU32 n ++ rest) = .ok n rest 0 := by simp [rU32, readU32_write n h32, GV.Dec.lift]
  rw [hr, bind_ok]
  by_cases h1 : n > GV.Gen.MAX_PEER_ADDRS
  · simp [peerAddrsCountRefused, h1, Outcome.addAlloc]
  · by_cases h2 : n = 0
    · simp [peerAddrsCountRefused, h2, Outcome.addAlloc]
    · simp [peerAddrsCountRefused, h1, h2]

/-- … and of the locator (`Readable for Locator`, count byte `n`) -/
theorem locator_gate {P : Type} (rd : Rdr) (n : Nat) (rest : Bytes) :
    decLocator (P := P) rd (n :: rest) =
      if locatorCountRefused n then .err .tooLarge 0
      else (withCapacity n 32 (GV.Dec.bind (readN (rHash rd) n rest) fun hs r => .ok (.locator hs) r 0)).addAlloc 0 := by
  unfold decLocator
  rw [rU8_cons, bind_ok]
  by_cases h1 : n > GV.Gen.MAX_LOCATORS % 256
  · simp [locatorCountRefused, h1, Outcome.addAlloc]
  · simp [locatorCountRefused, h1]

/-- **the reader accepts exactly the writer's range**: the writers put a count of up to the maximum in
front (`find_peers(.., MAX_PEER_ADDRS)`, at most `MAX_LOCATORS` locator hashes); for these counts, and
only for these, the gate lets the body through -/
theorem reader_accepts_writers_range (n : Nat) :
    (n ≤ GV.Gen.MAX_PEER_ADDRS ↔ peerAddrsCountRefused n = false) ∧
    (n < 256 → (n ≤ GV.Gen.MAX_LOCATORS ↔ locatorCountRefused n = false)) := by
  have e1 : GV.Gen.MAX_PEER_ADDRS = 256 := rfl
  have e2 : GV.Gen.MAX_LOCATORS % 256 = 20 := rfl
  have e3 : GV.Gen.MAX_LOCATORS = 20 := rfl
  constructor
  · unfold peerAddrsCountRefused; rw [decide_eq_false_iff_not]; omega
  · intro _
    unfold locatorCountRefused; rw [e2, e3, decide_eq_false_iff_not]; omega

/-- the maximum itself fits the frame limit of its type with every entry an IPv6 address (19 bytes), so
a full `PeerAddrs` / locator / `Headers` answer is never refused by the frame header either -/
example : 4 + 19 * GV.Gen.MAX_PEER_ADDRS ≤ maxLen netMainnet T_PeerAddrs ∧
    1 + 32 * GV.Gen.MAX_LOCATORS ≤ maxLen netMainnet T_GetHeaders ∧
    2 + 365 * GV.Gen.MAX_BLOCK_HEADERS ≤ maxLen netMainnet T_Headers := by decide

end GV.Props.C19Limits
