import GrinVerif.Props.C19
/-! # C19 — the length limit of every message type is exactly the regenerated table

`Gen/Msg.lean` (tools/gen_msg.py) regenerates `max_msg_size`, the 4× allowance, the default for unknown
type bytes and the comparison `msg_len > max_len` from `p2p/src/msg.rs` on every run.

* `header_step_exact` — what the codec does with the 11 header bytes of a frame of type byte `t`
  announcing `len` bytes is decided by `len > maxLen net t` and nothing else: above the limit
  `TooLargeReadErr` with the codec idle again, at or below it the state `Header(Known / Unknown)` —
  for EVERY type byte 0 … 255 and every `len < 2^64`;
* `limit_boundary` — `limit` is accepted at the header, `limit + 1` refused (with exactly 11 bytes
  read and 11 requested from the allocator: `refuse_too_large`);
* `limit_table_pinned` — the table itself, per type byte, on mainnet and on the AutomatedTesting
  chain the harness runs on, and the default for the unknown type bytes;
* `limits_independent_of_version` — the limit does not depend on the protocol version (the header
  decoder has no version parameter). -/
namespace GV.Props.C19Limits
open GV GV.Ser GV.Dec GV.Msg GV.Codec GV.Gen.Msg GV.Props.C19

variable {B H : Type}

/-- **the limit table is what the codec enforces at the frame header** -/
theorem header_step_exact (env : Env B H) (t len : Nat) (h64 : len < 2^64) :
    stepState env ({ buffer := encHeader env.net t len, state := .none } : Codec H) 11 =
      if len > maxLen env.net t then .inl (.err (.ser .tooLarge), idle, 0)
      else .inr ({ buffer := [], state := .header (if isKnownType t then .known t len else .unknown len t) }, 0) := by
  rw [stepState_none env _ (encHeader_length _ _ _)]
  have := decHeader_encHeader env.net t len h64 []
  rw [List.append_nil] at this
  rw [this]
  by_cases h1 : len > maxLen env.net t
  · simp only [h1, if_true]
  · by_cases h2 : isKnownType t = true
    · simp only [h1, h2, if_false, if_true]
    · simp only [h1, h2, if_false]
      rfl

/-- **at the limit accepted, one byte above refused** — and the refusal reads exactly the header and
allocates nothing for the announced body, under every fragmentation -/
theorem limit_boundary (env : Env B H) (t : Nat) (hlim : maxLen env.net t + 1 < 2^64) :
    (∃ h, stepState env ({ buffer := encHeader env.net t (maxLen env.net t), state := .none } : Codec H) 11 =
        .inr ({ buffer := [], state := .header h }, 0)) ∧
    (∀ (rest : Bytes) (frags : List Bytes), frags.flatten = encHeader env.net t (maxLen env.net t + 1) ++ rest →
      (read env fragOps idle frags).res = .err (.ser .tooLarge) ∧
      (read env fragOps idle frags).bytesRead = 11 ∧ (read env fragOps idle frags).alloc = 11) := by
  constructor
  · refine ⟨if isKnownType t then .known t (maxLen env.net t) else .unknown (maxLen env.net t) t, ?_⟩
    rw [header_step_exact env t _ (by omega), if_neg (by omega)]
  · intro rest frags hfr
    obtain ⟨h1, h2, h3, _⟩ := refuse_too_large env t (maxLen env.net t + 1) hlim (by omega) rest frags hfr
    exact ⟨h1, h2, h3⟩

/-- **the table**: `4 × max_msg_size(type)` for the type bytes 0 … 28, mainnet -/
theorem limit_table_pinned :
    (List.range 29).map (maxLen netMainnet) =
      [0, 512, 352, 64, 64, 16, 19472, 2564, 1460, 747528, 128, 5392128, 128, 539212, 5392128, 5392128, 160, 256, 256,
       128, 128, 164, 10784256, 164, 10784256, 164, 10784256, 164, 10784256] ∧
    (List.range 29).map (maxLen netAutomatedTesting) =
      [0, 512, 352, 64, 64, 16, 19472, 2564, 1460, 747528, 128, 31152, 128, 3112, 31152, 31152, 160, 256, 256,
       128, 128, 164, 62304, 164, 62304, 164, 62304, 164, 62304] ∧
    (∀ t ∈ [29, 30, 77, 128, 200, 254, 255], maxLen netMainnet t = 5392128 ∧ maxLen netAutomatedTesting t = 31152) := by
  refine ⟨by decide, by decide, by decide⟩

/-- every known type's limit is far below `2^64` (so `limit_boundary` applies), and every byte that is
no `Type` gets the default -/
theorem limits_small :
    (∀ t ∈ List.range 29, maxLen netMainnet t + 1 < 2^64 ∧ maxLen netAutomatedTesting t + 1 < 2^64) ∧
    (∀ t, isKnownType t = false → maxLen netMainnet t = 5392128 ∧ maxLen netAutomatedTesting t = 31152) := by
  refine ⟨by decide, fun t ht => ?_⟩
  unfold maxLen
  simp only [ht, Bool.false_eq_true, if_false]
  exact ⟨by decide, by decide⟩

/-- the limit does not depend on the protocol version: neither `decHeader` nor `maxLen` has a version
parameter, and the codec's environment only enters through `env.net` -/
theorem limits_independent_of_version (env1 env2 : Env B H) (hnet : env1.net = env2.net) (t len : Nat) (h64 : len < 2^64) :
    (stepState env1 ({ buffer := encHeader env1.net t len, state := .none } : Codec H) 11).isLeft =
    (stepState env2 ({ buffer := encHeader env2.net t len, state := .none } : Codec H) 11).isLeft := by
  rw [header_step_exact env1 t len h64, header_step_exact env2 t len h64, hnet]

end GV.Props.C19Limits
