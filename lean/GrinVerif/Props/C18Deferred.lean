import GrinVerif.Lemmas.KvResize
import GrinVerif.Props.C18
import GrinVerif.Model.KvMigrate
/-! C18, the DEFERRED resize (`Store::maybe_resize`, branch "transactions are open") and the
head-room of a migration into a SHARED environment.

The waiter thread a deferred resize spawns captures the size `needs_resize` planned at decision
time; it does not look at the environment again.  Threads that are allowed through the gate during
the wait (the holder's own nested operations) may commit more data - the size the waiter sets is
still the planned one: a whole number of chunks (hence of pages), strictly larger than the map,
with the usage found at decision time at most 65 % of it.  Tie: run `kv deferred`. -/
namespace GV.Props.C18Deferred
open GV GV.Kv

/-- **What a deferred decision plans.**  When `maybe_resize` takes the deferred branch, the size
handed to the waiter is the one `needs_resize` computed from the map and the usage found at that
moment: a whole number of chunks, strictly larger than the map. -/
theorem deferred_decision_planned (e : REnv) (used n : Nat) (hc : 0 < e.chunk)
    (h : (maybeResize e used).2 = .deferred n) :
    n = (needsResize e.mapSize used e.chunk).2 ∧ n % e.chunk = 0 ∧ e.mapSize < n ∧
    (maybeResize e used).1.pending = some n ∧ (maybeResize e used).1.mapSize = e.mapSize := by
  rcases maybeResize_cases e used with ⟨_, h1⟩ | ⟨_, _, h1⟩ | ⟨_, hr, _, h1⟩ | ⟨_, _, _, h1⟩
  · rw [h1] at h; simp at h
  · rw [h1] at h; simp at h
  · rw [h1] at h ⊢
    simp only [Branch.deferred.injEq] at h
    subst h
    exact ⟨rfl, needsResize_mod _ _ _ hr, needsResize_lt _ _ _ hc hr, rfl, rfl⟩
  · rw [h1] at h; simp at h

/-- one action while a resize is pending: the waiter's target does not change; the only way it
goes away is the waiter firing, and then the map IS that size and both flags are free -/
theorem pending_step (e : REnv) (inv : RInv e) (n : Nat) (hp : e.pending = some n) (a : RAct) :
    (rstep e a).pending = some n ∧ (rstep e a).mapSize = e.mapSize ∨
    (rstep e a).pending = none ∧ (rstep e a).mapSize = n ∧ (rstep e a).resizing = false ∧
      (rstep e a).checking = false := by
  have hck : e.checking = true := by rw [inv.guard, hp]; rfl
  cases a with
  | openTx => left; exact ⟨hp, rfl⟩
  | closeTx => left; exact ⟨hp, rfl⟩
  | call used =>
    left
    simp [rstep, maybeResize, hck, hp]
  | waiter =>
    simp only [rstep, waiterStep, hp]
    by_cases ho : e.openTxs = 0
    · right; simp [ho]
    · left; simp [ho, hp]

/-- **deferred_resize_sets_planned_size.**  From the moment a resize is deferred with planned size
`n`, through ANY sequence of transactions opening and closing (threads let through the gate, with
whatever they commit), further `maybe_resize` calls of any handle and polls of the waiter: either
the resize is still pending with the same target `n` and the map untouched, or it has happened -
and at the moment it happened the map became exactly `n`. -/
theorem deferred_resize_sets_planned_size (n : Nat) :
    ∀ (as : List RAct) (e : REnv), RInv e → e.pending = some n →
      ((rrun e as).pending = some n ∧ (rrun e as).mapSize = e.mapSize) ∨
      ∃ pre post, as = pre ++ RAct.waiter :: post ∧ (rrun e pre).pending = some n ∧
        (rrun e (pre ++ [RAct.waiter])).mapSize = n ∧
        (rrun e (pre ++ [RAct.waiter])).pending = none ∧
        (rrun e (pre ++ [RAct.waiter])).resizing = false ∧
        (rrun e (pre ++ [RAct.waiter])).checking = false := by
  intro as
  induction as with
  | nil => intro e _ hp; left; exact ⟨hp, rfl⟩
  | cons a rest ih =>
    intro e inv hp
    rcases pending_step e inv n hp a with ⟨h1, h2⟩ | ⟨h1, h2, h3, h4⟩
    · rcases ih (rstep e a) (rinv_step e a inv) h1 with ⟨g1, g2⟩ | ⟨pre, post, e1, g1, g2, g3, g4, g5⟩
      · left; exact ⟨g1, by rw [← h2]; exact g2⟩
      · right
        refine ⟨a :: pre, post, by rw [e1]; rfl, g1, g2, g3, g4, g5⟩
    · -- the waiter fired at this very action
      have ha : a = RAct.waiter := by
        cases a with
        | waiter => rfl
        | openTx => simp [rstep, hp] at h1
        | closeTx => simp [rstep, hp] at h1
        | call used =>
          have hck : e.checking = true := by rw [inv.guard, hp]; rfl
          simp [rstep, maybeResize, hck, hp] at h1
      subst ha
      right
      exact ⟨[], rest, rfl, hp, h2, h1, h3, h4⟩

/-- the planned size is large enough for what was there when the decision was taken -/
theorem planned_size_sufficient (mapSize used chunk : Nat) (hc : 0 < chunk) (hm : chunk ≤ mapSize)
    (h : (needsResize mapSize used chunk).1 = true) :
    used * 100 ≤ 65 * (needsResize mapSize used chunk).2 ∧
    (needsResize mapSize used chunk).2 % chunk = 0 ∧ mapSize < (needsResize mapSize used chunk).2 := by
  refine ⟨?_, needsResize_mod _ _ _ h, needsResize_lt _ _ _ hc h⟩
  have hp : needsResize mapSize used chunk = (true, (needsResize mapSize used chunk).2) := by
    rw [← h]
  exact (GV.Props.C18.needs_resize_grows mapSize used chunk _ hc hp).2 hm

/-! ### the steps of the growth sequence the run walks through (1 MiB chunks) -/

example : (needsResize 1048576 962560 1048576) = (true, 2097152) := by decide
example : (needsResize 3145728 2846720 1048576) = (true, 5242880) := by decide
/-- the fourth step: from 5 MiB the planned size is 7 MiB -/
example : (needsResize 5242880 4726784 1048576) = (true, 7340032) := by decide

/-- a deferred decision at the fourth step, two nested transactions of the holder opening and
closing during the wait, a further `maybe_resize` call (guard busy), then everything closed and
the waiter polling: the map is the planned 7 MiB -/
example : (rrun { mapSize := 5242880, chunk := 1048576, openTxs := 1 }
    [.call 4726784, .openTx, .closeTx, .call 5100000, .openTx, .closeTx, .waiter, .closeTx, .waiter]).mapSize
    = 7340032 := by decide

/-! ### migration into a shared environment: the head-room counts both -/

/-- the lead scenario: the first store has 2 527 232 bytes in a 3 MiB map, the legacy environment
of the second store holds 942 080 bytes: the map must grow to 6 MiB before the copy; a head-room
that ignored what the shared environment already holds would leave it at 3 MiB, less than the
3 469 312 bytes both need -/
example : migrationMapSize 2527232 942080 1048576 3145728 = 6291456 ∧
    migrationMapSize 0 942080 1048576 3145728 = 3145728 ∧ 3145728 < 2527232 + 942080 := by decide

end GV.Props.C18Deferred
