import GrinVerif.Lemmas.CodecFaith
import GrinVerif.Lemmas.CodecSafe
/-! # C19 — peer message framing is faithful under fragmentation and enforces size limits

Model: `Model/Codec.lean` (the `Codec` state machine of `p2p/src/codec.rs` over a socket that is a
list of fragments; `msg::read_message`; the handshake decisions of `p2p/src/handshake.rs`),
`Model/Msg.lean` (frame header, limits from the regenerated `Gen/Msg.lean`), `Model/CodecSpec.lean`
(what is sent, what must be delivered).  The body decoders (`env.decBody`) and the header item
decoder (`env.decItem`) are parameters: the theorems hold for every body layer that satisfies the
stated round-trip hypotheses (`SentWF`), in particular for the native bodies of `Model/Msg.lean`.

* `frag_irrelevant` — whatever the fragmentation, the reader loop returns the same messages, ends
  the same way and leaves the codec in the same state as on the unfragmented stream;
* `framing_faithful` — every list of well-formed sent messages (plain bodies of every dispatched
  type, unknown types, `Headers` lists of 1 … 65535 items delivered in batches of 32 with the right
  `remaining`, messages followed by attachment bytes delivered in chunks of ≤ 48 000) is read back as
  exactly the expected sequence, under every fragmentation; the loop then ends with
  `Error::Connection` (end of stream) with the codec idle and nothing buffered;
* `refuse_wrong_magic`, `refuse_too_large` — a frame whose magic is wrong or whose announced length
  exceeds `4 × max_msg_size(type)` (`4 × default` for unknown types) is refused with exactly the 11
  header bytes read and 11 bytes requested from the allocator, under every fragmentation;
* `headers_zero_count_refused`, `headers_remaining_no_wrap` — a frame announcing 0 items but carrying some
  is refused with `BadMessage` before any item is decoded; `remaining` of a delivered batch never wraps
  (the code was repaired in /repo 8eb131841; before, `items_left` wrapped and batches were delivered);
* `headers_empty_refused` — **the property fails for an empty `Headers` list** (known finding): the well-formed frame
  `Headers { headers: vec![] }` is refused with `BadMessage` (so `framing_faithful` is stated for
  non-empty lists); `headers_never_read_beyond` — while streaming a `Headers` body the codec never
  pulls bytes beyond the announced `msg_len`, whatever the count says;
* `negotiate_min`, `accept_*`, `initiate_*`, `own_nonce_detected` — handshake decisions;
* `codec_read_no_panic`, `codec_read_no_hang`, `codec_read_alloc_bound` — the C11 obligations of the
  state machine itself.

Not proved (runtime, **partial on that clause**): the I/O timeouts (`HEADER_IO_TIMEOUT` 2 s,
`BODY_IO_TIMEOUT` 60 s, handshake 10 s / 2 s).  The model has no clock: a fragment list that ends is
an end of stream.  In the code a timeout in the *middle* of a frame discards the bytes already pulled
(`buffer.truncate(pre_len)`) and the next `read` starts mid-frame — outside "within the I/O timeouts". -/
namespace GV.Props.C19
open GV GV.Ser GV.Dec GV.Msg GV.Codec GV.Gen.Msg

variable {B H : Type}

/-! ## fragmentation -/

/-- **fragmentation is irrelevant**: messages, way of ending and final codec state are those of the
unfragmented stream -/
theorem frag_irrelevant (env : Env B H) (attach : Message B H → Option Nat) (fuel : Nat) (c : Codec H)
    (frags : List Bytes) :
    (run env fragOps attach fuel c frags).1 = (run env fragOps attach fuel c [frags.flatten]).1 ∧
    (run env fragOps attach fuel c frags).2.1 = (run env fragOps attach fuel c [frags.flatten]).2.1 ∧
    (run env fragOps attach fuel c frags).2.2.1 = (run env fragOps attach fuel c [frags.flatten]).2.2.1 := by
  obtain ⟨a1, a2, a3, _⟩ := run_sim env sim_frag_flat attach fuel c frags frags.flatten rfl
  obtain ⟨b1, b2, b3, _⟩ := run_sim env sim_frag_flat attach fuel c [frags.flatten] frags.flatten (by simp)
  exact ⟨a1.trans b1.symm, a2.trans b2.symm, a3.trans b3.symm⟩

/-- the same for a single `Codec::read`, including its byte and allocation counters -/
theorem frag_irrelevant_read (env : Env B H) (c : Codec H) (frags : List Bytes) :
    (read env fragOps c frags).res = (read env fragOps c [frags.flatten]).res ∧
    (read env fragOps c frags).bytesRead = (read env fragOps c [frags.flatten]).bytesRead ∧
    (read env fragOps c frags).alloc = (read env fragOps c [frags.flatten]).alloc ∧
    (read env fragOps c frags).codec = (read env fragOps c [frags.flatten]).codec ∧
    (read env fragOps c frags).sock.flatten = (read env fragOps c [frags.flatten]).sock.flatten := by
  obtain ⟨a1, a2, a3, a4, a5⟩ := read_sim env sim_frag_flat c frags frags.flatten rfl
  obtain ⟨b1, b2, b3, b4, b5⟩ := read_sim env sim_frag_flat c [frags.flatten] frags.flatten (by simp)
  exact ⟨a1.trans b1.symm, a2.trans b2.symm, a3.trans b3.symm, a4.trans b4.symm, a5.trans b5.symm⟩

/-! ## faithful framing -/

/-- **framing is faithful**: for every list of well-formed sent messages and every way of cutting
their byte stream into fragments, the reader loop delivers exactly the expected sequence of typed
messages, then ends at the end of the stream with the codec idle and nothing buffered or unread -/
theorem framing_faithful (env : Env B H) (attach : Message B H → Option Nat) (hat : AttachOK attach)
    (msgs : List (Sent B H)) (hwf : ∀ m ∈ msgs, SentWF env attach m)
    (frags : List Bytes) (hfr : frags.flatten = (msgs.map (encodeSent env.net)).flatten) (extra : Nat) :
    let r := run env fragOps attach ((msgs.map expected).flatten.length + (extra + 1)) idle frags
    r.1 = (msgs.map expected).flatten ∧ r.2.1 = .err .conn ∧ r.2.2.1 = idle ∧ r.2.2.2.flatten = [] := by
  intro r
  obtain ⟨a1, a2, a3, a4⟩ := run_sim env sim_frag_flat attach
    ((msgs.map expected).flatten.length + (extra + 1)) idle frags _ hfr
  have hf := framing_faithful_flat env attach hat msgs hwf extra
  rw [hf] at a1 a2 a3 a4
  exact ⟨a1, a2, a3, a4⟩

/-- a concrete receiving node for the non-vacuity examples: every body decodes to its own bytes,
a header item is one byte -/
def exEnv : Env Bytes Nat :=
  { net := netAutomatedTesting, hdrMax := 310, hdrMem := 400,
    decBody := fun _ raw => .ok raw, decItem := readU8 }

/-- the hypotheses of `framing_faithful` are satisfiable: a ping-like frame, an unknown type, a
`Headers` list of two items and an archive with 3 attachment bytes -/
example : ∀ m ∈ [Sent.plain 3 [1, 2] [1, 2], Sent.unknown 200 [9], Sent.headers [(7, [7]), (8, [8])],
                  Sent.archive 17 [5] [5] [1, 2, 3]],
    SentWF exEnv (fun m => match m with | .body 17 _ => some 3 | _ => none) m := by
  intro m hm
  simp only [List.mem_cons, List.mem_nil_iff, or_false] at hm
  rcases hm with rfl | rfl | rfl | rfl
  · exact ⟨by decide, by decide, by decide, rfl, rfl⟩
  · exact ⟨by decide, by decide, by decide⟩
  · refine ⟨by decide, by decide, by decide, by decide, ?_⟩
    intro it hit
    simp only [List.mem_cons, List.mem_nil_iff, or_false] at hit
    rcases hit with rfl | rfl <;> exact ⟨by decide, by decide, fun x => rfl⟩
  · exact ⟨by decide, by decide, by decide, rfl, rfl⟩

/-! ## refusals at the frame header -/

/-- a frame header that `MsgHeaderWrapper::read` refuses: the error is returned after exactly the
11 header bytes were read and 11 bytes reserved; nothing of the announced body is read or
allocated; holds under every fragmentation of `hd ++ rest` -/
theorem refuse_at_header (env : Env B H) (hd rest : Bytes) (hl : hd.length = 11) (e : SerErr) (a0 : Nat)
    (hdec : decHeader env.net hd = .err e a0) (frags : List Bytes) (hfr : frags.flatten = hd ++ rest) :
    (read env fragOps idle frags).res = .err (.ser e) ∧ (read env fragOps idle frags).bytesRead = 11 ∧
    (read env fragOps idle frags).alloc = 11 ∧ (read env fragOps idle frags).codec = idle ∧
    (read env fragOps idle frags).sock.flatten = rest := by
  obtain ⟨a1, a2, a3, a4, a5⟩ := read_sim env sim_frag_flat idle frags (hd ++ rest) hfr
  have hf : read env flatOps (idle : Codec H) (hd ++ rest) = _ :=
    readLoop_header_err env 35 hd rest hl 0 0 e a0 hdec
  rw [hf] at a1 a2 a3 a4 a5
  exact ⟨a1, a2, a3, a4, a5⟩

/-- **wrong network magic** (either byte) ⇒ `UnexpectedData` after the header, nothing else read -/
theorem refuse_wrong_magic (env : Env B H) (b0 b1 : Nat) (tail rest : Bytes) (ht : tail.length = 9)
    (hm : b0 ≠ env.net.magic.1 ∨ b1 ≠ env.net.magic.2)
    (frags : List Bytes) (hfr : frags.flatten = (b0 :: b1 :: tail) ++ rest) :
    (read env fragOps idle frags).res = .err (.ser .unexpectedData) ∧
    (read env fragOps idle frags).bytesRead = 11 ∧ (read env fragOps idle frags).alloc = 11 ∧
    (read env fragOps idle frags).sock.flatten = rest := by
  have hdec : decHeader env.net (b0 :: b1 :: tail) = .err .unexpectedData 0 := by
    by_cases h0 : b0 = env.net.magic.1
    · subst h0
      exact decHeader_wrong_magic2 env.net b1 tail (by rcases hm with h | h; exact absurd rfl h; exact h)
    · exact decHeader_wrong_magic1 env.net b0 (b1 :: tail) h0
  obtain ⟨h1, h2, h3, _, h5⟩ := refuse_at_header env (b0 :: b1 :: tail) rest (by simp [ht]) _ _ hdec frags hfr
  exact ⟨h1, h2, h3, h5⟩

/-- **announced length above the limit for its type** (`msg_len > max_msg_size(t) * 4`, or
`> default_max_msg_size() * 4` for an unknown type byte) ⇒ `TooLargeReadErr` with exactly the header
consumed and 11 bytes requested — the announced body is neither read nor allocated -/
theorem refuse_too_large (env : Env B H) (t len : Nat) (h64 : len < 2^64) (hbig : len > maxLen env.net t)
    (rest : Bytes) (frags : List Bytes) (hfr : frags.flatten = encHeader env.net t len ++ rest) :
    (read env fragOps idle frags).res = .err (.ser .tooLarge) ∧
    (read env fragOps idle frags).bytesRead = 11 ∧ (read env fragOps idle frags).alloc = 11 ∧
    (read env fragOps idle frags).sock.flatten = rest := by
  have hdec : decHeader env.net (encHeader env.net t len) = .err .tooLarge 0 := by
    have := decHeader_encHeader env.net t len h64 []
    rw [List.append_nil] at this
    rw [this, if_pos hbig]
  obtain ⟨h1, h2, h3, _, h5⟩ := refuse_at_header env _ rest (encHeader_length _ _ _) _ _ hdec frags hfr
  exact ⟨h1, h2, h3, h5⟩

/-- the limit is the table's, e.g. a `Ping` may announce 64 bytes but not 65, on every network -/
example : maxLen netMainnet T_Ping = 64 ∧ maxLen netAutomatedTesting T_Ping = 64 := by decide
example : maxLen netMainnet 200 = 4 * (40000 / 21 * 708) := by decide

/-- the largest limits of the table (segment responses: `2·max_block_size`, ×4): what one frame
header can make the codec reserve before the body arrives is about 10.8 MB on mainnet -/
example : maxLen netMainnet T_OutputSegment = 10_784_256 ∧ maxLen netMainnet T_Headers = 747_528 ∧
    maxLen netMainnet T_Block = 5_392_128 := by decide

/-! ## `Headers`: item count vs. length -/

/-- **an empty `Headers` list is refused**: the well-formed frame `Headers { headers: vec![] }`
(count 0, `msg_len` 2 — what a peer answers to `GetHeaders` when it has nothing newer) makes
`Codec::read` return `BadMessage`.  So `framing_faithful` cannot include empty lists. -/
theorem headers_empty_refused (env : Env B H) (rest : Bytes) :
    (read env flatOps (idle : Codec H) (encodeSent env.net (Sent.headers (B := B) ([] : List (H × Bytes))) ++ rest)).res
      = .err .badMessage := by
  have h2 : (2 : Nat) ≤ maxLen env.net T_Headers := by
    have : maxLen env.net T_Headers = (2 + 365 * GV.Gen.MAX_BLOCK_HEADERS) * 4 := by
      unfold maxLen
      rw [if_pos isKnown_headers]
      simp [maxMsgSize, T_Headers, KNOWN_LEN_FACTOR]
    rw [this]; decide
  have hdec : decHeader env.net (encHeader env.net T_Headers 2) = .ok (.known T_Headers 2) [] 0 := by
    have := decHeader_encHeader env.net T_Headers 2 (by decide) []
    rw [List.append_nil] at this
    rw [this, if_neg (by omega), if_pos isKnown_headers]
  have hs : encodeSent env.net (Sent.headers (B := B) ([] : List (H × Bytes))) ++ rest =
      encHeader env.net T_Headers 2 ++ (writeU16 0 ++ rest) := by
    simp [encodeSent, writeMessage, headersBody, writeU16]
  have e1 := readLoop_header_ok env (34 + 1) (encHeader env.net T_Headers 2) (writeU16 0 ++ rest)
    (encHeader_length _ _ _) 0 0 _ _ _ hdec
  have e2 := readLoop_count env 34 2 0 rest (by decide) (by decide) (0 + 11) (0 + 11 + 0)
  have hfill : fill flatOps ({ buffer := [], state := .blockHeaders (2 - 2) 0 [] } : Codec H) rest
      (nextLen env (State.blockHeaders (2 - 2) 0 ([] : List H))) =
      some ({ buffer := [], state := .blockHeaders (2 - 2) 0 [] }, rest) := by
    simp [fill, nextLen]
  have hstep : stepState env ({ buffer := [], state := .blockHeaders (2 - 2) 0 [] } : Codec H)
      (nextLen env (State.blockHeaders (2 - 2) 0 ([] : List H))) =
      .inl (.err .badMessage, { buffer := [], state := .none }, 0) := by
    simp [stepState]
  have e3 := readLoop_inl env flatOps 33 ({ buffer := [], state := .blockHeaders (2 - 2) 0 [] } : Codec H) _ _ _ _
    (0 + 11 + 2) (0 + 11 + 0 + 2 + min HEADER_BATCH_SIZE 0 * env.hdrMem) _ _ hfill hstep
  unfold GV.Codec.read
  rw [READ_FUEL_eq, hs, e1, e2, e3]

/-- **a `Headers` frame announcing 0 items but carrying some is refused before anything is decoded or
delivered** (repair 8eb131841: `if *bytes_left == 0 || *items_left == 0`): from the idle codec, the
frame header, the count and at most one header's worth of the body are pulled, then `BadMessage` with the
state reset — no batch with a wrapped `remaining` reaches the handler; under every fragmentation -/
theorem headers_zero_count_refused (env : Env B H) (L : Nat) (hL : 2 ≤ L) (hmax : L ≤ maxLen env.net T_Headers)
    (h64 : L < 2^64) (rest : Bytes) (hpresent : min (L - 2) env.hdrMax ≤ rest.length) (frags : List Bytes)
    (hfr : frags.flatten = encHeader env.net T_Headers L ++ (writeU16 0 ++ rest)) :
    (read env fragOps (idle : Codec H) frags).res = .err .badMessage ∧
    (read env fragOps (idle : Codec H) frags).bytesRead = 13 + min (L - 2) env.hdrMax ∧
    (read env fragOps (idle : Codec H) frags).codec.state = .none := by
  obtain ⟨a1, a2, _, a4, _⟩ := read_sim env sim_frag_flat (idle : Codec H) frags _ hfr
  rw [a1, a2, a4]
  have hdec : decHeader env.net (encHeader env.net T_Headers L) = .ok (.known T_Headers L) [] 0 := by
    have := decHeader_encHeader env.net T_Headers L h64 []
    rw [List.append_nil] at this
    rw [this, if_neg (by omega), if_pos isKnown_headers]
  have e1 := readLoop_header_ok env (34 + 1) (encHeader env.net T_Headers L) (writeU16 0 ++ rest)
    (encHeader_length _ _ _) 0 0 _ _ _ hdec
  have e2 := readLoop_count env 34 L 0 rest hL (by decide) (0 + 11) (0 + 11 + 0)
  have hnl : nextLen env (State.blockHeaders (L - 2) 0 ([] : List H)) = min (L - 2) env.hdrMax := rfl
  have hsplit : rest = rest.take (min (L - 2) env.hdrMax) ++ rest.drop (min (L - 2) env.hdrMax) :=
    (List.take_append_drop _ _).symm
  have hf := fill_flat (H := H) (.blockHeaders (L - 2) 0 []) [] (rest.take (min (L - 2) env.hdrMax))
    (rest.drop (min (L - 2) env.hdrMax)) (min (L - 2) env.hdrMax)
    (by rw [List.length_take]; simp; omega)
  rw [← hsplit, List.nil_append] at hf
  have hstep := stepState_zero_items env (L - 2) ([] : List H) (rest.take (min (L - 2) env.hdrMax))
    (min (L - 2) env.hdrMax)
  have e3 := readLoop_inl env flatOps 33 ({ buffer := [], state := .blockHeaders (L - 2) 0 [] } : Codec H) _ _ _ _
    (0 + 11 + 2) (0 + 11 + 0 + 2 + min HEADER_BATCH_SIZE 0 * env.hdrMem) _ _ (by rw [hnl]; exact hf)
    (by rw [hnl]; exact hstep)
  unfold GV.Codec.read
  rw [READ_FUEL_eq, e1, e2, e3, hnl]
  exact ⟨rfl, by simp, rfl⟩

/-- a batch that *is* delivered carries `remaining = items_left − 1` with `items_left ≥ 1`: the
`*items_left -= 1` of the code can no longer wrap -/
theorem headers_remaining_no_wrap (env : Env B H) (bl il : Nat) (hs : List H) (buffer : Bytes) (nl : Nat)
    (hil : il < 2^64) (hs' : List H) (rem : Nat) (c2 : Codec H) (a : Nat)
    (h : stepState env ({ buffer := buffer, state := .blockHeaders bl il hs } : Codec H) nl =
      .inl (.msg (.headers hs' rem), c2, a)) : rem + 1 = il :=
  stepState_headers_remaining env bl il hs buffer nl hil hs' rem c2 a h

/-- while a `Headers` body is being streamed, one loop iteration pulls at most the bytes of the
message that are not yet buffered: `to_read ≤ bytes_left − buffered`, whatever `items_left` says -/
theorem headers_never_read_beyond (env : Env B H) (bl il : Nat) (hs : List H) (buffer : Bytes)
    (hb : buffer.length ≤ bl) :
    nextLen env (State.blockHeaders bl il hs) - buffer.length ≤ bl - buffer.length ∧
    nextLen env (State.blockHeaders bl il hs) ≤ bl := by
  have : nextLen env (State.blockHeaders bl il hs) = min bl env.hdrMax := rfl
  rw [this]; omega

/-- … and what stays buffered after an item was decoded is still within the message
(`bytes_left' = bytes_left − used`, buffer' = buffer − used), for any item decoder that returns a
suffix of its input -/
theorem headers_buffer_within (bl : Nat) (buffer rest : Bytes) (hb : buffer.length ≤ bl)
    (hr : rest.length ≤ buffer.length) : rest.length ≤ bl - (buffer.length - rest.length) := by
  omega

/-! ## handshake -/

/-- the handshake settles on the lower of the two protocol versions -/
theorem negotiate_min (ours theirs : Nat) :
    negotiate ours theirs ≤ ours ∧ negotiate ours theirs ≤ theirs ∧
    (negotiate ours theirs = ours ∨ negotiate ours theirs = theirs) := by
  unfold negotiate; omega

theorem accept_genesis_mismatch (g : Bytes) (v : Nat) (nonces : List Nat) (denied : Bool) (h : Hand)
    (hg : h.genesis ≠ g) : acceptDecision g v nonces denied h = .error .genesisMismatch := by
  simp [acceptDecision, hg]

/-- a `Hand` carrying one of our own recent nonces is a connection to ourselves -/
theorem accept_own_nonce (g : Bytes) (v : Nat) (nonces : List Nat) (denied : Bool) (h : Hand)
    (hg : h.genesis = g) (hn : h.nonce ∈ nonces) : acceptDecision g v nonces denied h = .error .peerWithSelf := by
  simp [acceptDecision, hg, hn]

theorem accept_ok (g : Bytes) (v : Nat) (nonces : List Nat) (h : Hand)
    (hg : h.genesis = g) (hn : h.nonce ∉ nonces) :
    acceptDecision g v nonces false h = .ok (min v h.version) := by
  simp [acceptDecision, hg, hn, negotiate]

theorem initiate_genesis_mismatch (g : Bytes) (v : Nat) (denied : Bool) (s : Shake) (hg : s.genesis ≠ g) :
    initiateDecision g v denied s = .error .genesisMismatch := by
  simp [initiateDecision, hg]

theorem initiate_ok (g : Bytes) (v : Nat) (s : Shake) (hg : s.genesis = g) :
    initiateDecision g v false s = .ok (min v s.version) := by
  simp [initiateDecision, hg, negotiate]

/-- the nonce just generated by `next_nonce` is in the ring (the ring drops only its oldest entry),
so the `Hand` we send is recognised if it comes back to us -/
theorem own_nonce_detected (ring : List Nat) (n : Nat) : n ∈ pushNonce ring n := by
  unfold pushNonce
  simp only
  split
  · rename_i h
    cases ring with
    | nil => simp [NONCES_CAP] at h
    | cons a t => simp
  · simp

example : acceptDecision [1] 1000 (pushNonce [] 42) false
    { version := 3, capabilities := 0, nonce := 42, genesis := [1], totalDifficulty := 0,
      senderAddr := .v4 [0, 0, 0, 0] 0, receiverAddr := .v4 [0, 0, 0, 0] 0, userAgent := [] } = .error .peerWithSelf := by
  rfl

/-! ## the state machine itself never panics, never spins (C11 for `codec.rs`) -/

/-- **`Codec::read` never panics** — from any codec state, on any bytes, under any fragmentation -/
theorem codec_read_no_panic (env : Env B H) (c : Codec H) (frags : List Bytes) (st : Site) :
    (read env fragOps c frags).res ≠ .panic st :=
  readLoop_no_panic env fragOps frag_rx_len READ_FUEL c frags 0 0 st

/-- **`Codec::read` terminates**: from every state with fewer than 32 headers in the current batch
(all states the machine itself produces) the loop returns within 36 iterations -/
theorem codec_read_no_hang (env : Env B H) (c : Codec H) (hw : WFc c) (frags : List Bytes) :
    (read env fragOps c frags).res ≠ .hang := by
  apply readLoop_no_hang env fragOps READ_FUEL c frags 0 0 hw
  · unfold rank; rw [READ_FUEL_eq]; cases c.state <;> simp <;> omega
  · rw [READ_FUEL_eq]; omega

/-- **allocation of one `Codec::read`** ≤ bytes pulled from the socket + 36 header-batch vectors
(`Vec::with_capacity(min(32, items_left))`), plus — only when the stream ended during a fill — the
`reserve(to_read)` of the fill that failed, where `to_read ≤ next_len ≤ 4·max_msg_size(type)` by the
check on the frame header (`refuse_too_large`) -/
theorem codec_read_alloc_bound (env : Env B H) (c : Codec H) (frags : List Bytes) :
    (read env fragOps c frags).alloc ≤ (read env fragOps c frags).bytesRead + 36 * (32 * env.hdrMem) +
      (if isConn (read env fragOps c frags).res then
        nextLen env (read env fragOps c frags).codec.state - (read env fragOps c frags).codec.buffer.length else 0) := by
  have := readLoop_alloc_bound env fragOps READ_FUEL c frags 0 0 _ rfl
  rw [READ_FUEL_eq] at this
  simpa [GV.Codec.read, READ_FUEL_eq] using this

/-- the states `Codec::new` and `expect_attachment` produce satisfy the invariant -/
example : WFc (Codec.new : Codec Nat) := trivial
example : WFc ({ buffer := [], state := .attachment 5 } : Codec Nat) := trivial

end GV.Props.C19
