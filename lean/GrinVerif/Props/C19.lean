import GrinVerif.Lemmas.CodecFaith
import GrinVerif.Lemmas.CodecSafe
import GrinVerif.Lemmas.CodecTimed
import GrinVerif.Lemmas.CodecNonce
import GrinVerif.Lemmas.CodecAttach
import GrinVerif.Lemmas.CodecConn
/-! # C19 — peer message framing is faithful under fragmentation and enforces size limits

Model: `Model/Codec.lean` (the `Codec` state machine of `p2p/src/codec.rs` over a socket that is a
list of fragments; `msg::read_message`; the handshake decisions of `p2p/src/handshake.rs`),
`Model/Msg.lean` (frame header, limits from the regenerated `Gen/Msg.lean`), `Model/CodecSpec.lean`
(what is sent, what must be delivered).  The body decoders (`env.decBody`) and the header item
decoder (`env.decItem`) are parameters: the theorems hold for every body layer that satisfies the
stated round-trip hypotheses (`SentWF`), in particular for the native bodies of `Model/Msg.lean`.

* `frag_irrelevant` — whatever the fragmentation, the reader loop returns the same messages, ends
  the same way and leaves the codec in the same state as on the unfragmented stream;
* `framing_faithful` — every list of well-formed sent messages (plain bodies of every dispatched
  type, unknown types, `Headers` lists of 0 … 65535 items delivered in batches of 32 with the right
  `remaining`, messages followed by attachment bytes delivered in chunks of ≤ 48 000) is read back as
  exactly the expected sequence, under every fragmentation; the loop then ends with
  `Error::Connection` (end of stream) with the codec idle and nothing buffered;
* `refuse_wrong_magic`, `refuse_too_large` — a frame whose magic is wrong or whose announced length
  exceeds `4 × max_msg_size(type)` (`4 × default` for unknown types) is refused with exactly the 11
  header bytes read and 11 bytes requested from the allocator, under every fragmentation;
* `headers_zero_count_refused`, `headers_remaining_no_wrap` — a frame announcing 0 items but carrying some
  is refused with `BadMessage` before any item is decoded; `remaining` of a delivered batch never wraps
  (the code was repaired in /repo 8eb131841; before, `items_left` wrapped and batches were delivered);
* `headers_empty_delivered` — the empty list `Headers { headers: vec![] }` is read as one empty batch
  (repaired in /repo 11bd5ac16; it was refused with `BadMessage` before — finding
  C19-empty-headers-refused), and `framing_faithful` / `fragmentation_with_delays_faithful` /
  `fragmentation_with_idle_gaps_faithful` now cover EVERY `Headers` list of 0 … 65535 items;
  `headers_count_without_items_refused`, `headers_zero_count_refused` — the other count/length
  inconsistencies (count > 0 with length 2, count 0 with length > 2) are still refused; `headers_never_read_beyond` — while streaming a `Headers` body the codec never
  pulls bytes beyond the announced `msg_len`, whatever the count says;
* `negotiate_min`, `accept_*`, `initiate_*`, `own_nonce_detected` — handshake decisions;
* `ring_holds_last`, `recent_nonce_retained`, `self_connect_refused`, `evicted_nonce_not_detected` —
  the nonce ring of one long-lived `Handshake` over any history of outbound attempts: it holds exactly
  the last `min(n, NONCES_CAP − 1)` nonces (the code pops when `len >= NONCES_CAP`, so 99, not 100),
  hence a connection to itself made now is refused whatever happened before;
* `body_states_use_body_timeout`, `timeout_table` — the read timeout per codec state (table
  regenerated from `set_stream_timeout` into `Gen/CodecTimeouts.lean`): `HEADER_IO_TIMEOUT` only
  while idle in `None`, `BODY_IO_TIMEOUT` in every state reachable after an accepted message header,
  streaming states included;
* `fragmentation_with_delays_faithful` — `framing_faithful` over the **timed** machine (`runT`: every
  byte carries the time it lets the reader wait; a wait ≥ the timeout of the current state makes the
  fill fail with `TimedOut` and lose what it had pulled): for every fragment schedule whose pauses
  respect the per-state timeout (`DelaysOK`: < 2 s while a frame header is awaited, < 60 s anywhere
  after it) the expected sequence is delivered; `fragmentation_small_delays_faithful` (all pauses
  < 2 s), `fragmentation_with_idle_gaps_faithful` (in addition pauses of ANY length between messages:
  the reads that time out while idle lose nothing and are retried), `idle_pause_absorbed`;
* `attachment_chunks_exact`, `attachment_step` — the attachment streamed after a message: the
  `Attachment(left)` state as a sub-state machine (`attStep`); for every size the updates are full
  48 000-byte chunks with something left followed by exactly one update with `left = 0` (one empty update
  for size 0), they add up to the attachment, and the codec is back to reading a message header exactly
  after that last update — also when it is a full chunk;
* `try_break_classes`, `refused_header_ends_stream` (+ `wrong_magic_ends_stream`,
  `too_large_ends_stream`, `refused_header_ends_stream_timed`), `body_decode_error_ends_stream` — at
  connection level: the reader loop of `conn::poll` follows `tryBreak` (`try_break!`): every error class
  of the codec but a read timeout ends the stream.  A refused frame header ends it with NOTHING of the
  announced body interpreted — whatever those bytes spell, e.g. complete valid frames — and a body that
  does not decode (`CorruptedData` …) is consumed completely and ends it too (the code closes rather
  than skips; pinned here and on the real `Peer`);
* `codec_read_no_panic`, `codec_read_no_hang`, `codec_read_alloc_bound` — the C11 obligations of the
  state machine itself.

Timing, what is **not** proved: that the operating system's `SO_RCVTIMEO` behaves as `rxT` says (one
timer per `read` call, restarted by every byte that arrives), the handshake timeouts (10 s / 2 s,
plain `read_exact` on the socket), and liveness.  A timeout in the *middle* of a frame header, or a
pause ≥ 60 s inside a body, discards the bytes already pulled (`buffer.truncate(pre_len)`) and the
next `read` starts mid-frame — that is outside "within the I/O timeouts" (`header_pause_desyncs`). -/
namespace GV.Props.C19
open GV GV.Ser GV.Dec GV.Msg GV.Codec GV.Gen.Msg

variable {B H : Type}

/-! ## fragmentation -/

/-- **fragmentation is irrelevant**: messages, way of ending and final codec state are those of the
unfragmented stream -/
theorem frag_irrelevant (env : Env B H) (attach : Message B H → Option Nat) (fuel : Nat) (c : Codec H)
    (frags : List Bytes) :
    (run env fragOps attach fuel c frags).1 = (run env fragOps attach fuel c [frags.flatten]).1 ∧
    (run env fragOps attach fuel c frags).2.1 = (run env fragOps attach fuel c [frags.flatten]).2.1 ∧
    (run env fragOps attach fuel c frags).2.2.1 = (run env fragOps attach fuel c [frags.flatten]).2.2.1 := by
  obtain ⟨a1, a2, a3, _⟩ := run_sim env sim_frag_flat attach fuel c frags frags.flatten rfl
  obtain ⟨b1, b2, b3, _⟩ := run_sim env sim_frag_flat attach fuel c [frags.flatten] frags.flatten (by simp)
  exact ⟨a1.trans b1.symm, a2.trans b2.symm, a3.trans b3.symm⟩

/-- the same for a single `Codec::read`, including its byte and allocation counters -/
theorem frag_irrelevant_read (env : Env B H) (c : Codec H) (frags : List Bytes) :
    (read env fragOps c frags).res = (read env fragOps c [frags.flatten]).res ∧
    (read env fragOps c frags).bytesRead = (read env fragOps c [frags.flatten]).bytesRead ∧
    (read env fragOps c frags).alloc = (read env fragOps c [frags.flatten]).alloc ∧
    (read env fragOps c frags).codec = (read env fragOps c [frags.flatten]).codec ∧
    (read env fragOps c frags).sock.flatten = (read env fragOps c [frags.flatten]).sock.flatten := by
  obtain ⟨a1, a2, a3, a4, a5⟩ := read_sim env sim_frag_flat c frags frags.flatten rfl
  obtain ⟨b1, b2, b3, b4, b5⟩ := read_sim env sim_frag_flat c [frags.flatten] frags.flatten (by simp)
  exact ⟨a1.trans b1.symm, a2.trans b2.symm, a3.trans b3.symm, a4.trans b4.symm, a5.trans b5.symm⟩

/-! ## faithful framing -/

/-- **framing is faithful**: for every list of well-formed sent messages and every way of cutting
their byte stream into fragments, the reader loop delivers exactly the expected sequence of typed
messages, then ends at the end of the stream with the codec idle and nothing buffered or unread -/
theorem framing_faithful (env : Env B H) (attach : Message B H → Option Nat) (hat : AttachOK attach)
    (msgs : List (Sent B H)) (hwf : ∀ m ∈ msgs, SentWF env attach m)
    (frags : List Bytes) (hfr : frags.flatten = (msgs.map (encodeSent env.net)).flatten) (extra : Nat) :
    let r := run env fragOps attach ((msgs.map expected).flatten.length + (extra + 1)) idle frags
    r.1 = (msgs.map expected).flatten ∧ r.2.1 = .err .conn ∧ r.2.2.1 = idle ∧ r.2.2.2.flatten = [] := by
  intro r
  obtain ⟨a1, a2, a3, a4⟩ := run_sim env sim_frag_flat attach
    ((msgs.map expected).flatten.length + (extra + 1)) idle frags _ hfr
  have hf := framing_faithful_flat env attach hat msgs hwf extra
  rw [hf] at a1 a2 a3 a4
  exact ⟨a1, a2, a3, a4⟩

/-- a concrete receiving node for the non-vacuity examples: every body decodes to its own bytes,
a header item is one byte -/
def exEnv : Env Bytes Nat :=
  { net := netAutomatedTesting, hdrMax := 310, hdrMem := 400,
    decBody := fun _ raw => .ok raw, decItem := readU8 }

/-- the hypotheses of `framing_faithful` are satisfiable: a ping-like frame, an unknown type, a
`Headers` list of two items, the EMPTY `Headers` list and an archive with 3 attachment bytes -/
example : ∀ m ∈ [Sent.plain 3 [1, 2] [1, 2], Sent.unknown 200 [9], Sent.headers [(7, [7]), (8, [8])],
                  Sent.headers [], Sent.archive 17 [5] [5] [1, 2, 3]],
    SentWF exEnv (fun m => match m with | .body 17 _ => some 3 | _ => none) m := by
  intro m hm
  simp only [List.mem_cons, List.mem_nil_iff, or_false] at hm
  rcases hm with rfl | rfl | rfl | rfl | rfl
  · exact ⟨by decide, by decide, by decide, rfl, rfl⟩
  · exact ⟨by decide, by decide, by decide⟩
  · refine ⟨by decide, by decide, by decide, ?_⟩
    intro it hit
    simp only [List.mem_cons, List.mem_nil_iff, or_false] at hit
    rcases hit with rfl | rfl <;> exact ⟨by decide, by decide, fun x => rfl⟩
  · exact ⟨by decide, by decide, by decide, fun it hit => by cases hit⟩
  · exact ⟨by decide, by decide, by decide, rfl, rfl⟩

/-- what must be delivered for the empty list: one empty batch with nothing remaining -/
example : expected (Sent.headers (B := Bytes) ([] : List (Nat × Bytes))) = [Message.headers [] 0] := rfl

/-! ## timing: the read timeout per state, pauses between fragments -/

/-- the codec states reachable after a message header was accepted and before the message (with its
streamed items / attachment) is finished: the loop continued out of `None`, continued further,
returned a batch or chunk with more to come, or the handler announced an attachment; the buffer is
whatever the fills made it -/
inductive InMessage (env : Env B H) : Codec H → Prop
  | accepted (buf : Bytes) (nl : Nat) (c' : Codec H) (a : Nat) :
      stepState env { buffer := buf, state := .none } nl = .inr (c', a) → InMessage env c'
  | continued (c : Codec H) (buf : Bytes) (nl : Nat) (c' : Codec H) (a : Nat) :
      InMessage env c → stepState env { c with buffer := buf } nl = .inr (c', a) → InMessage env c'
  | delivered (c : Codec H) (buf : Bytes) (nl : Nat) (m : Message B H) (c' : Codec H) (a : Nat) :
      InMessage env c → stepState env { c with buffer := buf } nl = .inl (.msg m, c', a) →
      c'.state ≠ .none → InMessage env c'
  | attachment (c : Codec H) (size : Nat) (c' : Codec H) :
      expectAttachment c size = some c' → InMessage env c'

/-- **every state reachable after an accepted message header reads with `BODY_IO_TIMEOUT`**
(`Header(..)`, the streamed `BlockHeaders { .. }`, `Attachment(..)`), and `HEADER_IO_TIMEOUT` is used
in state `None` only.  The table is the one `tools/gen_codec_timeouts.py` extracts from
`Codec::set_stream_timeout`. -/
theorem body_states_use_body_timeout (env : Env B H) :
    (∀ c : Codec H, InMessage env c → ioTimeout c.state = BODY_IO_TIMEOUT_MS) ∧
    (∀ st : State H, st ≠ .none → ioTimeout st = BODY_IO_TIMEOUT_MS) ∧
    (∀ st : State H, ioTimeout st = HEADER_IO_TIMEOUT_MS ↔ st = .none) := by
  refine ⟨?_, ioTimeout_body, ?_⟩
  · intro c h
    induction h with
    | accepted buf nl c' a h => exact ioTimeout_body _ (stepState_inr_state env _ nl c' a h)
    | continued c buf nl c' a _ h _ => exact ioTimeout_body _ (stepState_inr_state env _ nl c' a h)
    | delivered c buf nl m c' a _ _ hne _ => exact ioTimeout_body _ hne
    | attachment c size c' h => exact ioTimeout_body _ (expectAttachment_state c c' size h)
  · intro st
    constructor
    · intro h
      cases st with
      | none => rfl
      | header _ => rw [ioTimeout_body _ (by simp)] at h; exact absurd h (by decide)
      | blockHeaders _ _ _ => rw [ioTimeout_body _ (by simp)] at h; exact absurd h (by decide)
      | attachment _ => rw [ioTimeout_body _ (by simp)] at h; exact absurd h (by decide)
    · intro h; subst h; rfl

/-- the table, state by state, with the durations of the source -/
theorem timeout_table :
    ioTimeout (State.none : State H) = 2000 ∧ (∀ h, ioTimeout (State.header h : State H) = 60000) ∧
    (∀ bl il hs, ioTimeout (State.blockHeaders bl il hs : State H) = 60000) ∧
    (∀ left, ioTimeout (State.attachment left : State H) = 60000) :=
  ⟨rfl, fun _ => rfl, fun _ _ _ => rfl, fun _ => rfl⟩

/-- every variant of the source's `enum State` (regenerated `StateKind`) is a state of the model: a
variant added to `codec.rs` breaks this match -/
theorem state_kinds_covered : ∀ k : GV.Gen.CodecTimeouts.StateKind, ∃ st : State Unit, st.kind = k
  | .sNone => ⟨.none, rfl⟩
  | .sHeader => ⟨.header (.known 0 0), rfl⟩
  | .sBlockHeaders => ⟨.blockHeaders 0 0 [], rfl⟩
  | .sAttachment => ⟨.attachment 0, rfl⟩

/-- `InMessage` is inhabited by each kind of body state: after the frame header of a `Ping`, in the
middle of a `Headers` list, and once the handler announced an attachment -/
example : InMessage exEnv ({ buffer := [], state := .attachment 5 } : Codec Nat) :=
  .attachment { buffer := [], state := .none } 5 _ rfl

example : InMessage exEnv ({ buffer := [], state := .header (.known 3 2) } : Codec Nat) :=
  .accepted (encHeader exEnv.net 3 2) 11 _ 0 (by decide)

/-- the frame header of a `Headers` message of 2 items (2 + 2 body bytes), then its item count: the codec
is in the streaming state `BlockHeaders { bytes_left: 2, items_left: 2, .. }` -/
example : InMessage exEnv ({ buffer := [], state := .blockHeaders 2 2 [] } : Codec Nat) :=
  .continued { buffer := [], state := .header (.known T_Headers 4) } [0, 2] 2 _ (min 32 2 * 400)
    (.accepted (encHeader exEnv.net T_Headers 4) 11 _ 0 (by decide)) (by decide)

/-- a wait is tolerated in a state iff it is shorter than that state's timeout: 2.5 s is tolerated
anywhere after an accepted header and not while a header is awaited -/
example : tolerated (State.blockHeaders 100 3 ([] : List Nat)) 2500 = true ∧
    tolerated (State.attachment 7 : State Nat) 59999 = true ∧ tolerated (State.attachment 7 : State Nat) 60000 = false ∧
    tolerated (State.none : State Nat) 2500 = false ∧ tolerated (State.none : State Nat) 1999 = true := by decide

/-- **one `Codec::read` with tolerated waits** is the read on the flat stream: same result, byte and
allocation counters, codec, and the same bytes consumed — from any state, for any bytes -/
theorem read_with_tolerated_waits (env : Env B H) (c : Codec H) (ts : TStream)
    (hb : WaitsBelow BODY_IO_TIMEOUT_MS ts)
    (hh : c.state = .none → WaitsBelow HEADER_IO_TIMEOUT_MS (ts.take (MSG_HEADER_LEN - c.buffer.length))) :
    ∃ j, (readT env c ts).res = (read env flatOps c (tbytes ts)).res ∧
      (readT env c ts).bytesRead = (read env flatOps c (tbytes ts)).bytesRead ∧
      (readT env c ts).alloc = (read env flatOps c (tbytes ts)).alloc ∧
      (readT env c ts).codec = (read env flatOps c (tbytes ts)).codec ∧
      (readT env c ts).sock = ts.drop j ∧ (read env flatOps c (tbytes ts)).sock = tbytes (ts.drop j) := by
  obtain ⟨j, e1, e2⟩ := readT_flat env c ts hb hh
  exact ⟨j, by rw [e1], by rw [e1], by rw [e1], by rw [e1], by rw [e1], e2⟩

/-- **framing is faithful under fragmentation with pauses**: for every list of well-formed sent
messages and every schedule of fragments and pauses whose pauses respect the read timeout of the
state the codec is in while it waits (`DelaysOK`: shorter than `HEADER_IO_TIMEOUT` while one of the
11 frame-header bytes is awaited, shorter than `BODY_IO_TIMEOUT` anywhere after an accepted header —
body, item count, every streamed block header, every attachment chunk), the reader loop over the
timed stream delivers exactly the expected sequence of typed messages and ends at the end of the
stream, idle, with nothing buffered or unread; no read times out -/
theorem fragmentation_with_delays_faithful (env : Env B H) (attach : Message B H → Option Nat)
    (hat : AttachOK attach) (msgs : List (Sent B H)) (hwf : ∀ m ∈ msgs, SentWF env attach m)
    (sched : Sched) (hfr : (sched.map (·.2)).flatten = (msgs.map (encodeSent env.net)).flatten)
    (hd : DelaysOK env.net msgs (tagSched sched)) (extra : Nat) :
    let r := runT env attach ((msgs.map expected).flatten.length + (extra + 1)) idle (tagSched sched)
    r.1 = (msgs.map expected).flatten ∧ r.2.1 = .err .conn ∧ r.2.2.1 = idle ∧ r.2.2.2 = [] := by
  intro r
  have hts : tbytes (tagSched sched) = (msgs.map (encodeSent env.net)).flatten := by
    rw [tbytes_tagSched, hfr]
  have h := runT_all env attach hat msgs hwf (tagSched sched) hts hd (extra + 1)
  have he := runT_idle_eof env attach extra
  have hr : r = _ := h
  rw [hr, he]
  simp

/-- in particular every schedule whose pauses are all shorter than `HEADER_IO_TIMEOUT` -/
theorem fragmentation_small_delays_faithful (env : Env B H) (attach : Message B H → Option Nat)
    (hat : AttachOK attach) (msgs : List (Sent B H)) (hwf : ∀ m ∈ msgs, SentWF env attach m)
    (sched : Sched) (hfr : (sched.map (·.2)).flatten = (msgs.map (encodeSent env.net)).flatten)
    (hsmall : ∀ p ∈ sched, p.1 < HEADER_IO_TIMEOUT_MS) (extra : Nat) :
    let r := runT env attach ((msgs.map expected).flatten.length + (extra + 1)) idle (tagSched sched)
    r.1 = (msgs.map expected).flatten ∧ r.2.1 = .err .conn ∧ r.2.2.1 = idle ∧ r.2.2.2 = [] := by
  apply fragmentation_with_delays_faithful env attach hat msgs hwf sched hfr
  apply delaysOK_of_small
  · rw [tbytes_tagSched, hfr]
  · exact waitsBelow_tagSched _ (by decide) sched hsmall

/-- **a pause of any length while the codec is idle loses nothing**: `w / HEADER_IO_TIMEOUT` reads time
out with nothing pulled (`try_break!` carries on), then the loop continues as if the wait had been
`w % HEADER_IO_TIMEOUT` -/
theorem idle_pause_absorbed (env : Env B H) (attach : Message B H → Option Nat) (w b : Nat) (s : TStream) (fuel : Nat) :
    runT env attach (w / HEADER_IO_TIMEOUT_MS + fuel) (idle : Codec H) ((w, b) :: s) =
      runT env attach fuel (idle : Codec H) ((w % HEADER_IO_TIMEOUT_MS, b) :: s) :=
  runT_idle_wait' env attach w b s fuel

/-- **… and with idle pauses of any length between messages** (`DelaysOKIdle`: as `DelaysOK`, but the
wait for the first byte of a frame is unbounded): `idleRetries` reads time out with nothing pulled and
are retried by the reader thread, everything is delivered exactly -/
theorem fragmentation_with_idle_gaps_faithful (env : Env B H) (attach : Message B H → Option Nat)
    (hat : AttachOK attach) (msgs : List (Sent B H)) (hwf : ∀ m ∈ msgs, SentWF env attach m)
    (sched : Sched) (hfr : (sched.map (·.2)).flatten = (msgs.map (encodeSent env.net)).flatten)
    (hd : DelaysOKIdle env.net msgs (tagSched sched)) (extra : Nat) :
    let r := runT env attach (idleRetries env.net msgs (tagSched sched) +
      ((msgs.map expected).flatten.length + (extra + 1))) idle (tagSched sched)
    r.1 = (msgs.map expected).flatten ∧ r.2.1 = .err .conn ∧ r.2.2.1 = idle ∧ r.2.2.2 = [] := by
  intro r
  have hts : tbytes (tagSched sched) = (msgs.map (encodeSent env.net)).flatten := by
    rw [tbytes_tagSched, hfr]
  have h := runT_all_idle env attach hat msgs hwf (tagSched sched) hts hd (extra + 1)
  have he := runT_idle_eof env attach extra
  have hr : r = _ := h
  rw [hr, he]
  simp

/-- satisfiable: a frame, 7.3 s of silence, a frame with a 2.5 s pause inside its body: three reads time
out while idle -/
example : DelaysOKIdle (B := Bytes) (H := Nat) exEnv.net [Sent.plain 3 [1, 2] [1, 2], Sent.unknown 200 [9, 9]]
    (tagSched [(0, encHeader exEnv.net 3 2 ++ [1, 2]), (7300, encHeader exEnv.net 200 2 ++ [9]), (2500, [9])]) ∧
    idleRetries (B := Bytes) (H := Nat) exEnv.net [Sent.plain 3 [1, 2] [1, 2], Sent.unknown 200 [9, 9]]
    (tagSched [(0, encHeader exEnv.net 3 2 ++ [1, 2]), (7300, encHeader exEnv.net 200 2 ++ [9]), (2500, [9])]) = 3 := by
  refine ⟨⟨?_, ?_, ?_, ?_, ?_⟩, ?_⟩
  · decide
  · decide
  · decide
  · decide
  · show _ = []
    rfl
  · decide

/-- the hypotheses of `fragmentation_with_delays_faithful` are satisfiable with a pause longer than
the header timeout inside a body: a 13-byte `Ping`-like frame written as header + first body byte,
a pause of 2.5 s, then the last body byte, then (after 1.9 s) an unknown frame in one piece -/
example : DelaysOK (B := Bytes) (H := Nat) exEnv.net [Sent.plain 3 [1, 2] [1, 2], Sent.unknown 200 [9]]
    (tagSched [(0, encHeader exEnv.net 3 2 ++ [1]), (2500, [2]), (1900, encHeader exEnv.net 200 1 ++ [9])]) := by
  refine ⟨?_, ?_, ?_, ?_, ?_⟩
  · decide
  · decide
  · decide
  · decide
  · show _ = []
    rfl

/-- … while a pause of 2 s or more in the *middle of a frame header* is outside the I/O timeouts:
the 5 header bytes already pulled are dropped and the stream is desynchronised -/
theorem header_pause_desyncs :
    (runT exEnv (fun _ => none) 10 (idle : Codec Nat)
      (tagSched [(0, (encHeader exEnv.net 3 2).take 5), (2000, (encHeader exEnv.net 3 2).drop 5 ++ [1, 2])])).1
      ≠ [Message.body 3 [1, 2]] := by
  decide

/-! ## attachments streamed after a message -/

/-- **the `Attachment(left, ..)` state is the sub-state machine `attStep`**: the chunk announced is
`min(left, 48 000)`; with that many bytes buffered the read returns an update carrying exactly them, with
`left' = left − chunk`; the state after it is `None` (message-header reading) iff `left' = 0`, i.e. iff
`left ≤ 48 000` — in particular after a *full* chunk when `left = 48 000` — and `Attachment(left')` otherwise -/
theorem attachment_step (env : Env B H) (left : Nat) (chunk : Bytes) (hc : chunk.length = min left ATTACHMENT_CHUNK) :
    nextLen env (State.attachment left : State H) = min left 48000 ∧
    stepState env ({ buffer := chunk, state := .attachment left } : Codec H) (nextLen env (State.attachment left : State H)) =
      .inl (.msg (.attachment (min left 48000) (left - min left 48000) chunk),
            { buffer := [], state := if left ≤ 48000 then .none else .attachment (left - 48000) }, 0) ∧
    ((attStep left).2 = none ↔ left ≤ 48000) := by
  have h48 : ATTACHMENT_CHUNK = 48000 := rfl
  have hs := stepState_attStep env left chunk hc
  refine ⟨rfl, ?_, ?_⟩
  · rw [hs]
    simp only [attStep, h48]
    by_cases hle : left ≤ 48000
    · simp [hle]
    · have h2 : min left 48000 = 48000 := by omega
      have h3 : ¬ left - 48000 = 0 := by omega
      simp [hle, h2, h3]
  · simp only [attStep, h48]
    by_cases hle : left ≤ 48000
    · simp [hle]
    · have h1 : ¬ left - min left 48000 = 0 := by omega
      simp [h1, hle]

example : attStep 0 = (0, none) ∧ attStep 1 = (1, none) ∧ attStep 47999 = (47999, none) ∧
    attStep 48000 = (48000, none) ∧ attStep 48001 = (48000, some 1) ∧ attStep 96000 = (48000, some 48000) ∧
    attChunkLens 5 0 = [0] ∧ attChunkLens 96001 96000 = [48000, 48000] ∧
    attChunkLens 96002 96001 = [48000, 48000, 1] ∧ attChunkLens 144001 144000 = [48000, 48000, 48000] := by decide

/-- **the chunks of an attachment are exact**, for every attachment `data` (of any size `n`) followed by
anything: reading from `Attachment(n)` the reader loop delivers full 48 000-byte updates that all
report something left, then exactly one update with `left = 0` (of `n mod 48 000` bytes, or a full one
when `n` is a positive multiple, or the single empty update when `n = 0`) and nothing more: it is then
idle in `None` with an empty buffer and `rest` unread.  The update lengths are those of the sub-state
machine `attStep`, each is ≤ 48 000 (the literal of `next_len`), they sum to `n`, and the bytes handed
over concatenate to `data` -/
theorem attachment_chunks_exact (env : Env B H) (attach : Message B H → Option Nat) (hat : AttachOK attach)
    (data rest : Bytes) :
    ∃ (pre : List (Message B H)) (last : Bytes),
      Chain env attach { buffer := [], state := .attachment data.length } (data ++ rest)
        (pre ++ [.attachment last.length 0 last]) idle rest ∧
      (∀ e ∈ pre, ∃ left b, e = .attachment 48000 left b ∧ b.length = 48000 ∧ left ≠ 0) ∧
      last.length ≤ 48000 ∧
      (pre.map attRead).sum + last.length = data.length ∧
      (pre.map attBytes).flatten ++ last = data ∧
      (pre ++ [Message.attachment last.length 0 last]).map attRead = attChunkLens (data.length + 1) data.length ∧
      (data = [] → pre = [] ∧ last = []) ∧
      GV.Gen.CodecTimeouts.ATTACHMENT_CHUNK_SRC = ATTACHMENT_CHUNK := by
  have h48 : ATTACHMENT_CHUNK = 48000 := rfl
  obtain ⟨pre, last, e1, e2, e3, e4, e5⟩ := attEvents_spec (B := B) (H := H) (data.length + 1) data (Nat.lt_succ_self _)
  have hch := chain_attachment env attach hat rest (data.length + 1) data (Nat.lt_succ_self _)
  rw [e1] at hch
  have hl := attEvents_lens (B := B) (H := H) (data.length + 1) data
  rw [e1] at hl
  refine ⟨pre, last, hch, ?_, by omega, e5, e4, hl, ?_, rfl⟩
  · intro e he
    obtain ⟨left, b, h1, h2, h3⟩ := e3 e he
    exact ⟨left, b, by rw [h1, h48], by rw [h2, h48], h3⟩
  · intro hd
    subst hd
    cases pre with
    | nil => exact ⟨rfl, by simpa using e4⟩
    | cons x xs =>
      obtain ⟨left, b, h1, h2, _⟩ := e3 x (by simp)
      rw [h1] at e5
      simp [attRead] at e5
      omega

/-! ## refusals at the frame header -/

/-- a frame header that `MsgHeaderWrapper::read` refuses: the error is returned after exactly the
11 header bytes were read and 11 bytes reserved; nothing of the announced body is read or
allocated; holds under every fragmentation of `hd ++ rest` -/
theorem refuse_at_header (env : Env B H) (hd rest : Bytes) (hl : hd.length = 11) (e : SerErr) (a0 : Nat)
    (hdec : decHeader env.net hd = .err e a0) (frags : List Bytes) (hfr : frags.flatten = hd ++ rest) :
    (read env fragOps idle frags).res = .err (.ser e) ∧ (read env fragOps idle frags).bytesRead = 11 ∧
    (read env fragOps idle frags).alloc = 11 ∧ (read env fragOps idle frags).codec = idle ∧
    (read env fragOps idle frags).sock.flatten = rest := by
  obtain ⟨a1, a2, a3, a4, a5⟩ := read_sim env sim_frag_flat idle frags (hd ++ rest) hfr
  have hf : read env flatOps (idle : Codec H) (hd ++ rest) = _ :=
    readLoop_header_err env 35 hd rest hl 0 0 e a0 hdec
  rw [hf] at a1 a2 a3 a4 a5
  exact ⟨a1, a2, a3, a4, a5⟩

/-- **wrong network magic** (either byte) ⇒ `UnexpectedData` after the header, nothing else read -/
theorem refuse_wrong_magic (env : Env B H) (b0 b1 : Nat) (tail rest : Bytes) (ht : tail.length = 9)
    (hm : b0 ≠ env.net.magic.1 ∨ b1 ≠ env.net.magic.2)
    (frags : List Bytes) (hfr : frags.flatten = (b0 :: b1 :: tail) ++ rest) :
    (read env fragOps idle frags).res = .err (.ser .unexpectedData) ∧
    (read env fragOps idle frags).bytesRead = 11 ∧ (read env fragOps idle frags).alloc = 11 ∧
    (read env fragOps idle frags).sock.flatten = rest := by
  have hdec : decHeader env.net (b0 :: b1 :: tail) = .err .unexpectedData 0 := by
    by_cases h0 : b0 = env.net.magic.1
    · subst h0
      exact decHeader_wrong_magic2 env.net b1 tail (by rcases hm with h | h; exact absurd rfl h; exact h)
    · exact decHeader_wrong_magic1 env.net b0 (b1 :: tail) h0
  obtain ⟨h1, h2, h3, _, h5⟩ := refuse_at_header env (b0 :: b1 :: tail) rest (by simp [ht]) _ _ hdec frags hfr
  exact ⟨h1, h2, h3, h5⟩

/-- **announced length above the limit for its type** (`msg_len > max_msg_size(t) * 4`, or
`> default_max_msg_size() * 4` for an unknown type byte) ⇒ `TooLargeReadErr` with exactly the header
consumed and 11 bytes requested — the announced body is neither read nor allocated -/
theorem refuse_too_large (env : Env B H) (t len : Nat) (h64 : len < 2^64) (hbig : len > maxLen env.net t)
    (rest : Bytes) (frags : List Bytes) (hfr : frags.flatten = encHeader env.net t len ++ rest) :
    (read env fragOps idle frags).res = .err (.ser .tooLarge) ∧
    (read env fragOps idle frags).bytesRead = 11 ∧ (read env fragOps idle frags).alloc = 11 ∧
    (read env fragOps idle frags).sock.flatten = rest := by
  have hdec : decHeader env.net (encHeader env.net t len) = .err .tooLarge 0 := by
    have := decHeader_encHeader env.net t len h64 []
    rw [List.append_nil] at this
    rw [this, if_pos hbig]
  obtain ⟨h1, h2, h3, _, h5⟩ := refuse_at_header env _ rest (encHeader_length _ _ _) _ _ hdec frags hfr
  exact ⟨h1, h2, h3, h5⟩

/-! ## the handshake message and what arrives with it -/

/-- **`read_message` takes exactly the handshake message off the socket**: for a frame of the expected
(known) type whose length is within the limit it consumes the 11 header bytes and the `msg_len` body
bytes and nothing else, whatever the body decoder says — every byte written behind the `Hand` / `Shake`
in the same write is still there for the `Codec` that `Peer::accept` / `Peer::connect` start on the
same stream (and is then read faithfully: `framing_faithful`) -/
theorem handshake_consumes_exactly {α : Type} (net : NetCfg) (t : Nat) (dec : Dec α) (body rest : Bytes)
    (hk : isKnownType t = true) (hl : body.length ≤ maxLen net t) (h64 : body.length < 2^64) :
    (readMessage net t dec (encHeader net t body.length ++ (body ++ rest))).consumed = 11 + body.length ∧
    ((readMessage net t dec (encHeader net t body.length ++ (body ++ rest))).res =
      match dec body with
      | .ok v _ _ => .ok v
      | .err e _ => .error (.ser e)
      | .panic _ _ => .error .conn) := by
  have hs : splitExact MSG_HEADER_LEN (encHeader net t body.length ++ (body ++ rest)) =
      some (encHeader net t body.length, body ++ rest) := by
    have := splitExact_append (encHeader net t body.length) (body ++ rest)
    rwa [encHeader_length] at this
  have hdec : decHeader net (encHeader net t body.length) = .ok (.known t body.length) [] 0 := by
    have := decHeader_encHeader net t body.length h64 []
    rw [List.append_nil] at this
    rw [this, if_neg (by omega), if_pos hk]
  have hb : splitExact body.length (body ++ rest) = some (body, rest) := splitExact_append body rest
  unfold readMessage
  simp only [hs, hdec, if_true, hb]
  cases dec body <;> exact ⟨rfl, rfl⟩


/-- **a handshake message that announces MORE bytes than its fields occupy is taken off the socket whole**
(a newer peer that appended a field): whatever `k` surplus bytes `junk` follow the fields inside the announced
length, and whichever way the body parser works, `read_message` consumes the 11 header bytes and ALL
`fields.length + k` announced bytes, returns the value the parser finds in front, and the next frame starts
exactly at `rest` -/
theorem handshake_surplus_is_drained {α : Type} (net : NetCfg) (t : Nat) (dec : Dec α) (fields junk rest : Bytes)
    (v : α) (a : Nat) (hdec : dec (fields ++ junk) = .ok v junk a)
    (hk : isKnownType t = true) (hl : (fields ++ junk).length ≤ maxLen net t) (h64 : (fields ++ junk).length < 2^64) :
    (readMessage net t dec (encHeader net t (fields ++ junk).length ++ ((fields ++ junk) ++ rest))).consumed =
      11 + fields.length + junk.length ∧
    (readMessage net t dec (encHeader net t (fields ++ junk).length ++ ((fields ++ junk) ++ rest))).res = .ok v := by
  obtain ⟨h1, h2⟩ := handshake_consumes_exactly net t dec (fields ++ junk) rest hk hl h64
  refine ⟨by rw [h1, List.length_append]; omega, ?_⟩
  rw [h2, hdec]

/-- header items of DIFFERENT serialized sizes are within `framing_faithful`: a receiving node whose
items are a length byte followed by that many bytes, and a `Headers` list with items of 3, 1 and 5 bytes -/
example : ∀ m ∈ [Sent.headers [(2, [2, 7, 7]), (0, [0]), (4, [4, 1, 2, 3, 4])]],
    SentWF (B := Bytes) (H := Nat)
      { net := netAutomatedTesting, hdrMax := 310, hdrMem := 400, decBody := fun _ raw => .ok raw,
        decItem := fun bs => match bs with
          | n :: r => if n ≤ r.length then .ok (n, r.drop n) else .error .ioEof
          | [] => .error .ioEof }
      (fun _ => none) m := by
  intro m hm
  simp only [List.mem_cons, List.mem_nil_iff, or_false] at hm
  subst hm
  refine ⟨by decide, by decide, by decide, ?_⟩
  intro it hit
  simp only [List.mem_cons, List.mem_nil_iff, or_false] at hit
  rcases hit with rfl | rfl | rfl <;> exact ⟨by decide, by decide, fun x => by simp⟩

/-! ## refusals at connection level (`conn::poll`, `try_break!`) -/

/-- the classes of `codec.read()` results and what the reader loop does with them: a message is
delivered, a read timeout is retried, every other error — `Serialization(UnexpectedData)`,
`Serialization(TooLargeReadErr)`, `Serialization(CorruptedData)`, …, `BadMessage`, `UnexpectedMessage`,
`Connection` — ends the stream -/
theorem try_break_classes (m : Message B H) (e : SerErr) (st : Site) :
    tryBreak (.msg m : Res B H) = .deliver ∧ tryBreak (.err .timedOut : Res B H) = .retry ∧
    tryBreak (.err (.ser e) : Res B H) = .leave ∧ tryBreak (.err .badMessage : Res B H) = .leave ∧
    tryBreak (.err .unexpectedMessage : Res B H) = .leave ∧ tryBreak (.err .conn : Res B H) = .leave ∧
    tryBreak (.panic st : Res B H) = .leave :=
  ⟨rfl, rfl, rfl, rfl, rfl, rfl, rfl⟩

/-- the loops of the model are driven by `tryBreak` and by nothing else -/
theorem loop_follows_try_break (env : Env B H) (attach : Message B H → Option Nat) (fuel : Nat) (c : Codec H)
    (s : TStream) :
    (tryBreak (readT env c s).res = .leave →
      runT env attach (fuel + 1) c s = ([], (readT env c s).res, (readT env c s).codec, (readT env c s).sock)) ∧
    (tryBreak (readT env c s).res = .retry →
      runT env attach (fuel + 1) c s = runT env attach fuel (readT env c s).codec (readT env c s).sock) :=
  ⟨runT_leave env attach fuel c s, runT_retry env attach fuel c s⟩

/-- **a refused frame header ends the stream**: when `MsgHeaderWrapper::read` refuses the 11 header
bytes, the reader loop delivers nothing, leaves with that error, and everything after the header —
the announced "body", whatever it spells, and all later frames — is still unread on the socket: no
hidden message is ever decoded, let alone answered.  Under every fragmentation. -/
theorem refused_header_ends_stream (env : Env B H) (attach : Message B H → Option Nat) (hd rest : Bytes)
    (hl : hd.length = 11) (e : SerErr) (a0 : Nat) (hdec : decHeader env.net hd = .err e a0)
    (frags : List Bytes) (hfr : frags.flatten = hd ++ rest) (fuel : Nat) :
    tryBreak (read env fragOps (idle : Codec H) frags).res = .leave ∧
    (run env fragOps attach (fuel + 1) idle frags).1 = [] ∧
    (run env fragOps attach (fuel + 1) idle frags).2.1 = .err (.ser e) ∧
    (run env fragOps attach (fuel + 1) idle frags).2.2.1 = idle ∧
    (run env fragOps attach (fuel + 1) idle frags).2.2.2.flatten = rest := by
  obtain ⟨h1, _, _, h4, h5⟩ := refuse_at_header env hd rest hl e a0 hdec frags hfr
  have hl' : tryBreak (read env fragOps (idle : Codec H) frags).res = .leave := by rw [h1]; rfl
  have hne : tryBreak (read env fragOps (idle : Codec H) frags).res ≠ .deliver := by rw [hl']; decide
  rw [run_leave env fragOps attach fuel idle frags hne]
  exact ⟨hl', rfl, h1, h4, h5⟩

/-- wrong network magic, followed by anything -/
theorem wrong_magic_ends_stream (env : Env B H) (attach : Message B H → Option Nat) (b0 b1 : Nat)
    (tail rest : Bytes) (ht : tail.length = 9) (hm : b0 ≠ env.net.magic.1 ∨ b1 ≠ env.net.magic.2)
    (frags : List Bytes) (hfr : frags.flatten = (b0 :: b1 :: tail) ++ rest) (fuel : Nat) :
    (run env fragOps attach (fuel + 1) (idle : Codec H) frags).1 = [] ∧
    (run env fragOps attach (fuel + 1) (idle : Codec H) frags).2.1 = .err (.ser .unexpectedData) ∧
    (run env fragOps attach (fuel + 1) (idle : Codec H) frags).2.2.2.flatten = rest := by
  have hdec : decHeader env.net (b0 :: b1 :: tail) = .err .unexpectedData 0 := by
    by_cases h0 : b0 = env.net.magic.1
    · subst h0
      exact decHeader_wrong_magic2 env.net b1 tail (by rcases hm with h | h; exact absurd rfl h; exact h)
    · exact decHeader_wrong_magic1 env.net b0 (b1 :: tail) h0
  obtain ⟨_, h1, h2, _, h4⟩ := refused_header_ends_stream env attach (b0 :: b1 :: tail) rest (by simp [ht]) _ _ hdec
    frags hfr fuel
  exact ⟨h1, h2, h4⟩

/-- an announced length above the limit of its type, followed by anything (in particular by bytes that
spell complete valid frames: e.g. a `Ping` header announcing 65 bytes) -/
theorem too_large_ends_stream (env : Env B H) (attach : Message B H → Option Nat) (t len : Nat)
    (h64 : len < 2^64) (hbig : len > maxLen env.net t) (rest : Bytes) (frags : List Bytes)
    (hfr : frags.flatten = encHeader env.net t len ++ rest) (fuel : Nat) :
    (run env fragOps attach (fuel + 1) (idle : Codec H) frags).1 = [] ∧
    (run env fragOps attach (fuel + 1) (idle : Codec H) frags).2.1 = .err (.ser .tooLarge) ∧
    (run env fragOps attach (fuel + 1) (idle : Codec H) frags).2.2.2.flatten = rest := by
  have hdec : decHeader env.net (encHeader env.net t len) = .err .tooLarge 0 := by
    have := decHeader_encHeader env.net t len h64 []
    rw [List.append_nil] at this
    rw [this, if_pos hbig]
  obtain ⟨_, h1, h2, _, h4⟩ := refused_header_ends_stream env attach _ rest (encHeader_length _ _ _) _ _ hdec
    frags hfr fuel
  exact ⟨h1, h2, h4⟩

example : (65 : Nat) > maxLen exEnv.net T_Ping := by decide

/-- the same over the timed machine (the loop the `timed` / `peer` lines are compared with), when the 11
header bytes arrive within the header timeout -/
theorem refused_header_ends_stream_timed (env : Env B H) (attach : Message B H → Option Nat) (hd rest : Bytes)
    (hl : hd.length = 11) (e : SerErr) (a0 : Nat) (hdec : decHeader env.net hd = .err e a0)
    (ts : TStream) (hts : tbytes ts = hd ++ rest) (hb : WaitsBelow BODY_IO_TIMEOUT_MS ts)
    (hh : WaitsBelow HEADER_IO_TIMEOUT_MS (ts.take 11)) (fuel : Nat) :
    ∃ j, runT env attach (fuel + 1) (idle : Codec H) ts = ([], .err (.ser e), idle, ts.drop j) ∧
      tbytes (ts.drop j) = rest := by
  obtain ⟨j, e1, e2⟩ := readT_flat env (idle : Codec H) ts hb (fun _ => hh)
  have hf : read env flatOps (idle : Codec H) (hd ++ rest) = _ :=
    readLoop_header_err env 35 hd rest hl 0 0 e a0 hdec
  rw [hts, hf] at e1 e2
  have hleave : tryBreak (readT env (idle : Codec H) ts).res = .leave := by rw [e1]; rfl
  refine ⟨j, ?_, e2.symm⟩
  rw [runT_leave env attach fuel idle ts hleave, e1]

/-- **a body that does not decode ends the stream too** (what the code does with a body-level error such as
`CorruptedData`: the property would allow skipping exactly that message; `try_break!` closes): header and
body are consumed completely — `bytes_read = 11 + msg_len` — nothing is delivered, the loop leaves with
the decoder's error, the codec is idle and the frames after it are unread -/
theorem body_decode_error_ends_stream (env : Env B H) (attach : Message B H → Option Nat) (t : Nat)
    (raw rest : Bytes) (e : SerErr) (hd : isDispatched t = true) (hl : raw.length ≤ maxLen env.net t)
    (h64 : raw.length < 2^64) (hb : env.decBody t raw = .error e)
    (frags : List Bytes) (hfr : frags.flatten = encHeader env.net t raw.length ++ (raw ++ rest)) (fuel : Nat) :
    (read env fragOps (idle : Codec H) frags).bytesRead = 11 + raw.length ∧
    (run env fragOps attach (fuel + 1) idle frags).1 = [] ∧
    (run env fragOps attach (fuel + 1) idle frags).2.1 = .err (.ser e) ∧
    (run env fragOps attach (fuel + 1) idle frags).2.2.1 = idle ∧
    (run env fragOps attach (fuel + 1) idle frags).2.2.2.flatten = rest := by
  obtain ⟨a1, a2, _, a4, a5⟩ := read_sim env sim_frag_flat (idle : Codec H) frags _ hfr
  rw [read_body_error_flat env t raw rest e hd hl h64 hb] at a1 a2 a4 a5
  have hne : tryBreak (read env fragOps (idle : Codec H) frags).res ≠ .deliver := by
    rw [a1]; intro h; cases h
  rw [run_leave env fragOps attach fuel idle frags hne]
  exact ⟨by rw [a2], rfl, a1, a4, a5⟩

/-- the limit is the table's, e.g. a `Ping` may announce 64 bytes but not 65, on every network -/
example : maxLen netMainnet T_Ping = 64 ∧ maxLen netAutomatedTesting T_Ping = 64 := by decide
example : maxLen netMainnet 200 = 4 * (40000 / 21 * 708) := by decide

/-- the largest limits of the table (segment responses: `2·max_block_size`, ×4): what one frame
header can make the codec reserve before the body arrives is about 10.8 MB on mainnet -/
example : maxLen netMainnet T_OutputSegment = 10_784_256 ∧ maxLen netMainnet T_Headers = 747_528 ∧
    maxLen netMainnet T_Block = 5_392_128 := by decide

/-! ## `Headers`: item count vs. length -/

/-- **an empty `Headers` list is delivered** (since /repo 11bd5ac16; it was refused with `BadMessage`
before — finding C19-empty-headers-refused): the well-formed frame `Headers { headers: vec![] }` (count
0, `msg_len` 2 — what a peer answers to `GetHeaders` when it has nothing newer) is read as the empty
batch `Headers { headers: [], remaining: 0 }` after exactly 13 bytes, the codec is idle again and what
follows is unread.  It is part of `framing_faithful` (`SentWF` no longer excludes the empty list). -/
theorem headers_empty_delivered (env : Env B H) (rest : Bytes) :
    read env flatOps (idle : Codec H) (encodeSent env.net (Sent.headers (B := B) ([] : List (H × Bytes))) ++ rest) =
      { res := .msg (.headers [] 0), bytesRead := 0 + 11 + 2, alloc := 0 + 11 + 0 + 2 + 0, codec := idle, sock := rest } := by
  have h2 : (2 : Nat) ≤ maxLen env.net T_Headers := by
    have : maxLen env.net T_Headers = (2 + 365 * GV.Gen.MAX_BLOCK_HEADERS) * 4 := by
      unfold maxLen
      rw [if_pos isKnown_headers]
      simp [maxMsgSize, T_Headers, KNOWN_LEN_FACTOR]
    rw [this]; decide
  have hdec : decHeader env.net (encHeader env.net T_Headers 2) = .ok (.known T_Headers 2) [] 0 := by
    have := decHeader_encHeader env.net T_Headers 2 (by decide) []
    rw [List.append_nil] at this
    rw [this, if_neg (by omega), if_pos isKnown_headers]
  have hs : encodeSent env.net (Sent.headers (B := B) ([] : List (H × Bytes))) ++ rest =
      encHeader env.net T_Headers 2 ++ (writeU16 0 ++ rest) := by
    simp [encodeSent, writeMessage, headersBody, writeU16]
  have e1 := readLoop_header_ok env (34 + 1) (encHeader env.net T_Headers 2) (writeU16 0 ++ rest)
    (encHeader_length _ _ _) 0 0 _ _ _ hdec
  have e2 := readLoop_count_empty env 34 rest (0 + 11) (0 + 11 + 0)
  unfold GV.Codec.read
  rw [READ_FUEL_eq, hs, e1, e2]

/-- **a count without items is still refused**: a `Headers` frame of `msg_len` 2 announcing `n > 0` items
(nothing but the count) is answered `BadMessage` after the 13 bytes, state reset -/
theorem headers_count_without_items_refused (env : Env B H) (n : Nat) (hn0 : n ≠ 0) (hn : n < 2^16) (rest : Bytes) :
    (read env flatOps (idle : Codec H) (encHeader env.net T_Headers 2 ++ (writeU16 n ++ rest))).res = .err .badMessage ∧
    (read env flatOps (idle : Codec H) (encHeader env.net T_Headers 2 ++ (writeU16 n ++ rest))).codec.state = .none ∧
    (read env flatOps (idle : Codec H) (encHeader env.net T_Headers 2 ++ (writeU16 n ++ rest))).sock = rest := by
  have h2 : (2 : Nat) ≤ maxLen env.net T_Headers := by
    have : maxLen env.net T_Headers = (2 + 365 * GV.Gen.MAX_BLOCK_HEADERS) * 4 := by
      unfold maxLen
      rw [if_pos isKnown_headers]
      simp [maxMsgSize, T_Headers, KNOWN_LEN_FACTOR]
    rw [this]; decide
  have hdec : decHeader env.net (encHeader env.net T_Headers 2) = .ok (.known T_Headers 2) [] 0 := by
    have := decHeader_encHeader env.net T_Headers 2 (by decide) []
    rw [List.append_nil] at this
    rw [this, if_neg (by omega), if_pos isKnown_headers]
  have e1 := readLoop_header_ok env (34 + 1) (encHeader env.net T_Headers 2) (writeU16 n ++ rest)
    (encHeader_length _ _ _) 0 0 _ _ _ hdec
  have e2 := readLoop_count env 34 2 n rest (by decide) hn (fun h => hn0 h.1) (0 + 11) (0 + 11 + 0)
  have hfill : fill flatOps ({ buffer := [], state := .blockHeaders (2 - 2) n [] } : Codec H) rest
      (nextLen env (State.blockHeaders (2 - 2) n ([] : List H))) =
      some ({ buffer := [], state := .blockHeaders (2 - 2) n [] }, rest) := by
    simp [fill, nextLen]
  have hstep : stepState env ({ buffer := [], state := .blockHeaders (2 - 2) n [] } : Codec H)
      (nextLen env (State.blockHeaders (2 - 2) n ([] : List H))) =
      .inl (.err .badMessage, { buffer := [], state := .none }, 0) := by
    simp [stepState]
  have e3 := readLoop_inl env flatOps 33 ({ buffer := [], state := .blockHeaders (2 - 2) n [] } : Codec H) _ _ _ _
    (0 + 11 + 2) (0 + 11 + 0 + 2 + min HEADER_BATCH_SIZE n * env.hdrMem) _ _ hfill hstep
  unfold GV.Codec.read
  rw [READ_FUEL_eq, e1, e2, e3]
  exact ⟨rfl, rfl, rfl⟩

/-- **a `Headers` frame announcing 0 items but carrying some is refused before anything is decoded or
delivered** (repair 8eb131841: `if *bytes_left == 0 || *items_left == 0`): from the idle codec, the
frame header, the count and at most one header's worth of the body are pulled, then `BadMessage` with the
state reset — no batch with a wrapped `remaining` reaches the handler; under every fragmentation -/
theorem headers_zero_count_refused (env : Env B H) (L : Nat) (hL : 2 < L) (hmax : L ≤ maxLen env.net T_Headers)
    (h64 : L < 2^64) (rest : Bytes) (hpresent : min (L - 2) env.hdrMax ≤ rest.length) (frags : List Bytes)
    (hfr : frags.flatten = encHeader env.net T_Headers L ++ (writeU16 0 ++ rest)) :
    (read env fragOps (idle : Codec H) frags).res = .err .badMessage ∧
    (read env fragOps (idle : Codec H) frags).bytesRead = 13 + min (L - 2) env.hdrMax ∧
    (read env fragOps (idle : Codec H) frags).codec.state = .none := by
  obtain ⟨a1, a2, _, a4, _⟩ := read_sim env sim_frag_flat (idle : Codec H) frags _ hfr
  rw [a1, a2, a4]
  have hdec : decHeader env.net (encHeader env.net T_Headers L) = .ok (.known T_Headers L) [] 0 := by
    have := decHeader_encHeader env.net T_Headers L h64 []
    rw [List.append_nil] at this
    rw [this, if_neg (by omega), if_pos isKnown_headers]
  have e1 := readLoop_header_ok env (34 + 1) (encHeader env.net T_Headers L) (writeU16 0 ++ rest)
    (encHeader_length _ _ _) 0 0 _ _ _ hdec
  have e2 := readLoop_count env 34 L 0 rest (by omega) (by decide) (fun h => by omega) (0 + 11) (0 + 11 + 0)
  have hnl : nextLen env (State.blockHeaders (L - 2) 0 ([] : List H)) = min (L - 2) env.hdrMax := rfl
  have hsplit : rest = rest.take (min (L - 2) env.hdrMax) ++ rest.drop (min (L - 2) env.hdrMax) :=
    (List.take_append_drop _ _).symm
  have hf := fill_flat (H := H) (.blockHeaders (L - 2) 0 []) [] (rest.take (min (L - 2) env.hdrMax))
    (rest.drop (min (L - 2) env.hdrMax)) (min (L - 2) env.hdrMax)
    (by rw [List.length_take]; simp; omega)
  rw [← hsplit, List.nil_append] at hf
  have hstep := stepState_zero_items env (L - 2) ([] : List H) (rest.take (min (L - 2) env.hdrMax))
    (min (L - 2) env.hdrMax)
  have e3 := readLoop_inl env flatOps 33 ({ buffer := [], state := .blockHeaders (L - 2) 0 [] } : Codec H) _ _ _ _
    (0 + 11 + 2) (0 + 11 + 0 + 2 + min HEADER_BATCH_SIZE 0 * env.hdrMem) _ _ (by rw [hnl]; exact hf)
    (by rw [hnl]; exact hstep)
  unfold GV.Codec.read
  rw [READ_FUEL_eq, e1, e2, e3, hnl]
  exact ⟨rfl, by simp, rfl⟩

/-- **excess bytes inside `msg_len` after the last announced header are refused**: when the item that
brings `items_left` to 0 has been decoded and `bytes_left` is still positive, the read returns
`BadMessage` with the state reset — the batch it completed is not delivered — whatever the excess
bytes are and however many of them the codec has already read ahead into its buffer -/
theorem headers_excess_refused (env : Env B H) (bl : Nat) (hs : List H) (buffer rest : Bytes) (nl : Nat) (h : H)
    (hdec : env.decItem buffer = .ok (h, rest)) (hbl : bl ≠ 0)
    (hex : bl - (buffer.length - rest.length) > 0) :
    stepState env ({ buffer := buffer, state := .blockHeaders bl 1 hs } : Codec H) nl =
      .inl (.err .badMessage, { buffer := rest, state := .none }, min HEADER_BATCH_SIZE 0 * env.hdrMem) := by
  have hil : (1 + USIZE_MOD - 1) % USIZE_MOD = 0 := by decide
  simp only [stepState, hdec, hil]
  simp [hbl, hex]

/-- one announced one-byte item, two bytes of body: the second byte is excess -/
example : stepState exEnv ({ buffer := [7, 9], state := .blockHeaders 2 1 [] } : Codec Nat) 2 =
    .inl (.err .badMessage, { buffer := [9], state := .none }, 0) := by decide

/-- a batch that *is* delivered carries `remaining = items_left − 1` with `items_left ≥ 1`: the
`*items_left -= 1` of the code can no longer wrap -/
theorem headers_remaining_no_wrap (env : Env B H) (bl il : Nat) (hs : List H) (buffer : Bytes) (nl : Nat)
    (hil : il < 2^64) (hs' : List H) (rem : Nat) (c2 : Codec H) (a : Nat)
    (h : stepState env ({ buffer := buffer, state := .blockHeaders bl il hs } : Codec H) nl =
      .inl (.msg (.headers hs' rem), c2, a)) : rem + 1 = il :=
  stepState_headers_remaining env bl il hs buffer nl hil hs' rem c2 a h

/-- while a `Headers` body is being streamed, one loop iteration pulls at most the bytes of the
message that are not yet buffered: `to_read ≤ bytes_left − buffered`, whatever `items_left` says -/
theorem headers_never_read_beyond (env : Env B H) (bl il : Nat) (hs : List H) (buffer : Bytes)
    (hb : buffer.length ≤ bl) :
    nextLen env (State.blockHeaders bl il hs) - buffer.length ≤ bl - buffer.length ∧
    nextLen env (State.blockHeaders bl il hs) ≤ bl := by
  have : nextLen env (State.blockHeaders bl il hs) = min bl env.hdrMax := rfl
  rw [this]; omega

/-- … and what stays buffered after an item was decoded is still within the message
(`bytes_left' = bytes_left − used`, buffer' = buffer − used), for any item decoder that returns a
suffix of its input -/
theorem headers_buffer_within (bl : Nat) (buffer rest : Bytes) (hb : buffer.length ≤ bl)
    (hr : rest.length ≤ buffer.length) : rest.length ≤ bl - (buffer.length - rest.length) := by
  omega

/-! ## handshake -/

/-- the handshake settles on the lower of the two protocol versions -/
theorem negotiate_min (ours theirs : Nat) :
    negotiate ours theirs ≤ ours ∧ negotiate ours theirs ≤ theirs ∧
    (negotiate ours theirs = ours ∨ negotiate ours theirs = theirs) := by
  unfold negotiate; omega

theorem accept_genesis_mismatch (g : Bytes) (v : Nat) (nonces : List Nat) (denied : Bool) (h : Hand)
    (hg : h.genesis ≠ g) : acceptDecision g v nonces denied h = .error .genesisMismatch := by
  simp [acceptDecision, hg]

/-- a `Hand` carrying one of our own recent nonces is a connection to ourselves -/
theorem accept_own_nonce (g : Bytes) (v : Nat) (nonces : List Nat) (denied : Bool) (h : Hand)
    (hg : h.genesis = g) (hn : h.nonce ∈ nonces) : acceptDecision g v nonces denied h = .error .peerWithSelf := by
  simp [acceptDecision, hg, hn]

theorem accept_ok (g : Bytes) (v : Nat) (nonces : List Nat) (h : Hand)
    (hg : h.genesis = g) (hn : h.nonce ∉ nonces) :
    acceptDecision g v nonces false h = .ok (min v h.version) := by
  simp [acceptDecision, hg, hn, negotiate]

theorem initiate_genesis_mismatch (g : Bytes) (v : Nat) (denied : Bool) (s : Shake) (hg : s.genesis ≠ g) :
    initiateDecision g v denied s = .error .genesisMismatch := by
  simp [initiateDecision, hg]

theorem initiate_ok (g : Bytes) (v : Nat) (s : Shake) (hg : s.genesis = g) :
    initiateDecision g v false s = .ok (min v s.version) := by
  simp [initiateDecision, hg, negotiate]


/-- **the refusal reasons of `Handshake::accept` are complete and ordered**: for EVERY Hand (any announced
version, 0 and 2^32 - 1 included), every nonce ring, every deny verdict - genesis first, then the own nonce,
then the deny / allow lists, and otherwise the lower of the two versions; there is no other outcome -/
theorem accept_decision_complete (g : Bytes) (v : Nat) (nonces : List Nat) (denied : Bool) (h : Hand) :
    acceptDecision g v nonces denied h =
      if h.genesis ≠ g then .error .genesisMismatch
      else if nonces.contains h.nonce then .error .peerWithSelf
      else if denied then .error .connectionClose
      else .ok (min v h.version) := by
  simp only [acceptDecision, negotiate]

/-- … and of `Handshake::initiate` (the self-connection is the acceptor's to detect) -/
theorem initiate_decision_complete (g : Bytes) (v : Nat) (denied : Bool) (s : Shake) :
    initiateDecision g v denied s =
      if s.genesis ≠ g then .error .genesisMismatch
      else if denied then .error .connectionClose
      else .ok (min v s.version) := by
  simp only [initiateDecision, negotiate]

/-- a different genesis is refused at EVERY announced version, on both sides, before anything else is looked at -/
theorem genesis_mismatch_at_every_version (g : Bytes) (v : Nat) (nonces : List Nat) (d1 d2 : Bool) (h : Hand) (s : Shake)
    (hh : h.genesis ≠ g) (hs : s.genesis ≠ g) :
    acceptDecision g v nonces d1 h = .error .genesisMismatch ∧ initiateDecision g v d2 s = .error .genesisMismatch := by
  simp [acceptDecision, initiateDecision, hh, hs]

/-- the extremes: a peer announcing version 0 is served at 0, one announcing 2^32 - 1 at OUR version -/
theorem version_extremes (g : Bytes) (v : Nat) (hv : v ≤ 2^32 - 1) (h : Hand) (hg : h.genesis = g) :
    (h.version = 0 → acceptDecision g v [] false h = .ok 0) ∧
    (h.version = 2^32 - 1 → acceptDecision g v [] false h = .ok v) := by
  constructor <;> intro hh <;> simp [acceptDecision, negotiate, hg, hh] <;> omega

/-- the nonce just generated by `next_nonce` is in the ring (the ring drops only its oldest entry),
so the `Hand` we send is recognised if it comes back to us -/
theorem own_nonce_detected (ring : List Nat) (n : Nat) : n ∈ pushNonce ring n := by
  unfold pushNonce
  simp only
  split
  · rename_i h
    cases ring with
    | nil => simp [NONCES_CAP] at h
    | cons a t => simp
  · simp

/-- **the ring holds exactly the last `min(n, NONCES_CAP − 1)` nonces** of the outbound attempts this
`Handshake` object ever made (`next_nonce` pops when `len >= NONCES_CAP`: 99 are kept, not 100) -/
theorem ring_holds_last (ns : List Nat) :
    ringAfter ns = ns.drop (ns.length - (NONCES_CAP - 1)) ∧
    (ringAfter ns).length = min ns.length (NONCES_CAP - 1) :=
  ⟨ringAfter_eq ns, ringAfter_length ns⟩

/-- **after any number of pushes the nonces of the last `min(n, NONCES_CAP − 1)` attempts are
contained**, in particular the most recent one -/
theorem recent_nonce_retained (older recent : List Nat) (h : recent.length ≤ NONCES_CAP - 1) :
    (∀ n ∈ recent, n ∈ ringAfter (older ++ recent)) ∧ (∀ n, n ∈ ringAfter (older ++ [n])) :=
  ⟨ringAfter_recent older recent h, fun n => ringAfter_recent older [n] (by have := NONCES_CAP_ge; simp only [List.length_cons, List.length_nil]; omega) n (by simp)⟩

/-- **a connection to itself is refused over every history**: whatever outbound attempts (succeeded
or failed) the `Handshake` object made before, and even with up to `NONCES_CAP − 2` further attempts
started before the `Hand` comes back, a `Hand` carrying the nonce it has just drawn is answered
`PeerWithSelf` -/
theorem self_connect_refused (g : Bytes) (v : Nat) (denied : Bool) (history later : List Nat)
    (hl : later.length ≤ NONCES_CAP - 2) (hand : Hand) (hg : hand.genesis = g) :
    acceptDecision g v (ringAfter (history ++ [hand.nonce] ++ later)) denied hand = .error .peerWithSelf := by
  apply accept_own_nonce g v _ denied hand hg
  rw [List.append_assoc]
  apply ringAfter_recent history ([hand.nonce] ++ later)
  · have := NONCES_CAP_ge
    simp only [List.length_append, List.length_cons, List.length_nil]
    omega
  · simp

/-- **the self check looks at the nonce ring only**: the verdict of `accept` does not depend on any
address — not on the sender / receiver addresses the `Hand` carries (nor, the decision having no such
parameter at all, on the local / peer address of the socket): a node that reaches itself over a socket
whose peer IP differs from its local IP (multi-homed host, wildcard listener, NAT hairpin) is refused
like on 127.0.0.1, and another node behind the same address pair is not -/
theorem self_check_ignores_addresses (g : Bytes) (v : Nat) (ring : List Nat) (denied : Bool) (h : Hand)
    (a b : PeerAddr) :
    acceptDecision g v ring denied { h with senderAddr := a, receiverAddr := b } = acceptDecision g v ring denied h ∧
    (h.genesis = g → h.nonce ∈ ring →
      acceptDecision g v ring denied { h with senderAddr := a, receiverAddr := b } = .error .peerWithSelf) ∧
    (h.genesis = g → h.nonce ∉ ring →
      acceptDecision g v ring false { h with senderAddr := a, receiverAddr := b } = .ok (min v h.version)) := by
  refine ⟨rfl, fun hg hn => ?_, fun hg hn => ?_⟩
  · exact accept_own_nonce g v ring denied _ hg hn
  · exact accept_ok g v ring _ hg hn

/-- what the code does with a nonce that is `NONCES_CAP − 1` or more attempts old: it is forgotten, a
`Hand` replaying it is accepted (the property only speaks about a connection to itself made *now*) -/
theorem evicted_nonce_not_detected (g : Bytes) (v : Nat) (history later : List Nat) (n : Nat)
    (hl : later.length = NONCES_CAP - 1) (hn : n ∉ later) (hand : Hand) (hg : hand.genesis = g)
    (hnonce : hand.nonce = n) :
    acceptDecision g v (ringAfter (history ++ [n] ++ later)) false hand = .ok (min v hand.version) := by
  apply accept_ok g v _ hand hg
  rw [ringAfter_evicted _ later hl, hnonce]
  exact hn

set_option maxRecDepth 8000 in
/-- a history of 250 attempts: the ring has 99 entries, the most recent nonce (249) and the one 98
attempts back (151) are in it, the one 99 attempts back (150) is not -/
example : (ringAfter (List.range 250)).length = 99 ∧ 249 ∈ ringAfter (List.range 250) ∧
    151 ∈ ringAfter (List.range 250) ∧ 150 ∉ ringAfter (List.range 250) := by
  rw [ringAfter_eq]; decide

example : acceptDecision [1] 1000 (pushNonce [] 42) false
    { version := 3, capabilities := 0, nonce := 42, genesis := [1], totalDifficulty := 0,
      senderAddr := .v4 [0, 0, 0, 0] 0, receiverAddr := .v4 [0, 0, 0, 0] 0, userAgent := [] } = .error .peerWithSelf := by
  rfl

/-! ## the state machine itself never panics, never spins (C11 for `codec.rs`) -/

/-- **`Codec::read` never panics** — from any codec state, on any bytes, under any fragmentation -/
theorem codec_read_no_panic (env : Env B H) (c : Codec H) (frags : List Bytes) (st : Site) :
    (read env fragOps c frags).res ≠ .panic st :=
  readLoop_no_panic env fragOps frag_rx_len READ_FUEL c frags 0 0 st

/-- **`Codec::read` terminates**: from every state with fewer than 32 headers in the current batch
(all states the machine itself produces) the loop returns within 36 iterations -/
theorem codec_read_no_hang (env : Env B H) (c : Codec H) (hw : WFc c) (frags : List Bytes) :
    (read env fragOps c frags).res ≠ .hang := by
  apply readLoop_no_hang env fragOps READ_FUEL c frags 0 0 hw
  · unfold rank; rw [READ_FUEL_eq]; cases c.state <;> simp <;> omega
  · rw [READ_FUEL_eq]; omega

/-- **allocation of one `Codec::read`** ≤ bytes pulled from the socket + 36 header-batch vectors
(`Vec::with_capacity(min(32, items_left))`), plus — only when the stream ended during a fill — the
`reserve(to_read)` of the fill that failed, where `to_read ≤ next_len ≤ 4·max_msg_size(type)` by the
check on the frame header (`refuse_too_large`) -/
theorem codec_read_alloc_bound (env : Env B H) (c : Codec H) (frags : List Bytes) :
    (read env fragOps c frags).alloc ≤ (read env fragOps c frags).bytesRead + 36 * (32 * env.hdrMem) +
      (if isConn (read env fragOps c frags).res then
        nextLen env (read env fragOps c frags).codec.state - (read env fragOps c frags).codec.buffer.length else 0) := by
  have := readLoop_alloc_bound env fragOps READ_FUEL c frags 0 0 _ rfl
  rw [READ_FUEL_eq] at this
  simpa [GV.Codec.read, READ_FUEL_eq] using this

/-- the states `Codec::new` and `expect_attachment` produce satisfy the invariant -/
example : WFc (Codec.new : Codec Nat) := trivial
example : WFc ({ buffer := [], state := .attachment 5 } : Codec Nat) := trivial

end GV.Props.C19
