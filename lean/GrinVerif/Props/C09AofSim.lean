import GrinVerif.Props.C09AofFlush
/-! C09 — the append-fold lemma of the byte-level `AppendOnlyFile` model: from the canonical synced file
of `es`, rewound to `p`, a fold of `append` calls over `as` builds exactly the pending state
`flush_pending` starts from (`Props/C09AofFlush.lean`), so `flush_pending` / `flush_death_then_open`
speak about every history "open, rewind, append …, flush". -/
namespace GV.Props.C09AofSim
open GV GV.CrashAof GV.Props.C09Aof GV.Props.C09AofFlush

/-- reading entry `i ≥ buffer_start_pos` of a size file whose buffer holds the entries `B` -/
theorem readEntry_buffered (f : Raw) (B : List (Nat × Nat)) (i : Nat) (e : Nat × Nat)
    (hs : f.s = 10) (hb : f.buf = entBytes B) (hi : f.bsp ≤ i) (hB : B[i - f.bsp]? = some e)
    (h1 : e.1 < 2 ^ 64) (h2 : e.2 < 2 ^ 16) : f.readEntry i = some e := by
  have hil : i - f.bsp < B.length := by
    rcases Nat.lt_or_ge (i - f.bsp) B.length with h | h
    · exact h
    · rw [List.getElem?_eq_none h] at hB; cases hB
  have hbytes : f.read i = encEntry e := by
    unfold Raw.read Raw.sizeUnsync Raw.readBuf
    rw [hb, hs, entBytes_length]
    have q : 10 * B.length / 10 = B.length := by omega
    have c1 : ¬ (i ≥ f.bsp + B.length) := by omega
    have c2 : ¬ (i < f.bsp) := by omega
    have c3 : ¬ (10 * B.length < i * 10 - f.bsp * 10 + 10) := by omega
    have e0 : i * 10 - f.bsp * 10 = (i - f.bsp) * 10 := by omega
    rw [q, if_neg c1, if_neg c2, if_neg c3, e0, entBytes_drop]
    have hd : B.drop (i - f.bsp) = e :: B.drop (i - f.bsp + 1) := by
      rw [List.drop_eq_getElem_cons hil]
      congr 1
      have := List.getElem?_eq_getElem hil
      rw [this] at hB; exact Option.some.inj hB
    rw [hd]
    simp only [entBytes, List.flatMap_cons]
    exact List.take_left' (encEntry_length e)
  unfold Raw.readEntry
  simp only [hbytes, encEntry_length]
  have := decEntry_enc e h1 h2
  unfold decEntry at this
  simp [this]

theorem pending_sizeUnsync (es as1 : List Bytes) (p : Nat) :
    ({ s := 10, disk := sizeB es, buf := entBytes (offs as1 (es.take p).flatten.length), bsp := p,
       bak := es.length, mmap := some (sizeB es) } : Raw).sizeUnsync = p + as1.length := by
  simp [Raw.sizeUnsync, entBytes_length, offs_length]

/-- the offset `append` computes for the next element: the bytes of `es.take p` and of what was appended -/
theorem next_offset (es as1 : List Bytes) (p : Nat) (hp : p ≤ es.length) (hbe : Bounded es)
    (hb : Bounded (es.take p ++ as1)) (hnz : p + as1.length ≠ 0) :
    (({ s := 10, disk := sizeB es, buf := entBytes (offs as1 (es.take p).flatten.length), bsp := p,
        bak := es.length, mmap := some (sizeB es) } : Raw).readEntry (p + as1.length - 1)).map
      (fun e => e.1 + e.2) = some ((es.take p).flatten.length + as1.flatten.length) := by
  rcases List.eq_nil_or_concat as1 with rfl | ⟨as0, x, rfl⟩
  · -- nothing appended yet: the entry of element p - 1 on disk
    have hp0 : 0 < p := by simp at hnz; omega
    have hbe' : Bounded (es.take p ++ es.drop p) := by rw [List.take_append_drop]; exact hbe
    have := end_of_entry es (es.drop p) p hp0 hp hbe'
      { s := 10, disk := sizeB es, buf := entBytes (offs [] (es.take p).flatten.length), bsp := p,
        bak := es.length, mmap := some (sizeB es) } rfl (by rw [List.take_append_drop]) (Nat.le_refl _)
    simpa using this
  · -- the last appended entry, in the buffer
    simp only [List.concat_eq_append] at hb hnz ⊢
    have hidx : p + (as0 ++ [x]).length - 1 = p + as0.length := by simp
    rw [hidx]
    have hx : (as0 ++ [x])[as0.length]? = some x := by simp
    have hg := offs_get (as0 ++ [x]) as0.length (es.take p).flatten.length x hx
    have hmem : ((es.take p).flatten.length + ((as0 ++ [x]).take as0.length).flatten.length, x.length) ∈
        offs (es.take p ++ (as0 ++ [x])) 0 := by
      rw [offs_append]; simp only [Nat.zero_add]
      exact List.mem_append_right _ (List.mem_of_getElem? hg)
    have hbd := hb _ hmem
    rw [readEntry_buffered _ (offs (as0 ++ [x]) (es.take p).flatten.length) (p + as0.length) _ rfl rfl
      (Nat.le_add_right _ _) (by simpa using hg) hbd.1 hbd.2]
    simp [List.take_left' rfl]
    omega

/-- **One `append`**: from the pending state of `as1` to the pending state of `as1 ++ [b]` -/
theorem append_step (es as1 : List Bytes) (p : Nat) (b : Bytes) (hp : p ≤ es.length) (hbe : Bounded es)
    (hb : Bounded (es.take p ++ as1)) :
    (pending es p as1).append b = some (pending es p (as1 ++ [b])) := by
  unfold pending Aof.append
  simp only [pending_sizeUnsync]
  by_cases hz : p + as1.length = 0
  · have hp0 : p = 0 := by omega
    have ha : as1 = [] := List.eq_nil_of_length_eq_zero (by omega)
    subst hp0; subst ha
    simp [Raw.append, offs, entBytes]
  · rw [if_neg hz, next_offset es as1 p hp hbe hb hz]
    simp only [Raw.append, Option.some.injEq]
    congr 2
    · congr 1
      rw [offs_append]
      simp [offs, entBytes]
    · congr 1
      simp

/-- **The append fold**: open the canonical file of `es`, rewind to `p`, append `as` one by one: the
state is `pending es p as`, the state `flush_pending` starts from -/
theorem append_fold (es : List Bytes) (p : Nat) (hp : p ≤ es.length) (hbe : Bounded es) :
    ∀ (as as1 : List Bytes), Bounded (es.take p ++ as1 ++ as) →
      as.foldl (fun st b => st.bind (·.append b)) (some (pending es p as1)) = some (pending es p (as1 ++ as)) := by
  intro as
  induction as with
  | nil => intro as1 _; simp
  | cons b rest ih =>
    intro as1 hb
    have hb1 : Bounded (es.take p ++ as1) := by
      intro e he
      apply hb e
      rw [List.append_assoc, offs_append] at *
      rcases List.mem_append.mp he with h | h
      · exact List.mem_append_left _ h
      · apply List.mem_append_right
        rw [offs_append]; exact List.mem_append_left _ h
    simp only [List.foldl_cons, Option.bind_some]
    rw [append_step es as1 p b hp hbe hb1]
    have := ih (as1 ++ [b]) (by simpa [List.append_assoc] using hb)
    simpa [List.append_assoc] using this

end GV.Props.C09AofSim
