import GrinVerif.Model.TxBlock
/-! # C12 — `Transaction::validate` against `Transaction::validate_read`: the same gates, another order

`core/src/core/transaction.rs`:

```text
Transaction::validate_read():  body.validate_read(AsTransaction)?; body.verify_features()?;
Transaction::validate(w):      body.verify_features()?; body.validate(w)?  (= validate_read(w)?, proofs, signatures);
                               verify_kernel_sums(..)?
```

`verify_features` is the LAST gate of `validate_read` and the FIRST of `validate`.  The theorems say
what that means for every transaction (model: `Model/TxBlock.lean`, `validateReadW` /
`txValidateGates`; `later` is the outcome of range proofs, kernel signatures and kernel sums):
acceptance is the same set of gates, so a transaction `validate` accepts is one `validate_read`
accepts; the two can name DIFFERENT errors exactly when a coinbase item is present and a body gate
fails as well.  The harness prints both verdicts for every operand and for transactions that carry
a coinbase item (`tx vread` / `tx val` lines). -/
namespace GV.Props.C12
open GV GV.Tx

/-- `validateReadW` for `AsTransaction` is the `validateReadFull` the other theorems speak about -/
theorem validateReadW_asTransaction (K : Keys) (M : KMeta) (ct : Cons.ChainType) (nrd : Bool) (t : Tx) :
    validateReadW K M ct nrd .asTransaction t = validateReadFull K M ct nrd t := rfl

/-- **`validate` accepts iff `validate_read` (same weighting) accepts and everything behind the
gates holds** — the order of the gates does not matter for acceptance. -/
theorem validate_none_iff (K : Keys) (M : KMeta) (ct : Cons.ChainType) (nrd : Bool) (w : Weighting) (t : Tx)
    (later : Option BErr) :
    txValidateGates K M ct nrd w t later = none ↔ validateReadW K M ct nrd w t = none ∧ later = none := by
  unfold txValidateGates validateReadW
  cases hb : bodyValidateRead K M ct nrd w t.inputs t.outputs t.kernels with
  | some e =>
    by_cases h1 : t.outputs.any isCoinbase = true
    · simp [h1]
    · by_cases h2 : t.kernels.any isCoinbase = true
      · simp [h1, h2]
      · simp [h1, h2]
  | none =>
    by_cases h1 : t.outputs.any isCoinbase = true
    · simp [h1]
    · by_cases h2 : t.kernels.any isCoinbase = true
      · simp [h1, h2]
      · simp [h1, h2]

/-- … in particular: **what `validate` accepts, `validate_read` accepts** (a transaction that passed
full validation is never refused when it is read back). -/
theorem validate_ok_read_ok (K : Keys) (M : KMeta) (ct : Cons.ChainType) (nrd : Bool) (w : Weighting) (t : Tx)
    (later : Option BErr) (h : txValidateGates K M ct nrd w t later = none) :
    validateReadW K M ct nrd w t = none :=
  ((validate_none_iff K M ct nrd w t later).1 h).1

/-- without a coinbase item the order is invisible: `validate` reports what `validate_read` reports,
and if that is nothing, what lies behind the gates -/
theorem validate_eq_read_of_no_coinbase (K : Keys) (M : KMeta) (ct : Cons.ChainType) (nrd : Bool) (w : Weighting)
    (t : Tx) (later : Option BErr) (h1 : t.outputs.any isCoinbase = false) (h2 : t.kernels.any isCoinbase = false) :
    txValidateGates K M ct nrd w t later =
      match validateReadW K M ct nrd w t with
      | some e => some e
      | none => later := by
  unfold txValidateGates validateReadW
  cases hb : bodyValidateRead K M ct nrd w t.inputs t.outputs t.kernels <;> simp [h1, h2]

/-- **when do the two name different errors?**  If both refuse, either they name the same error, or
`validate` names the features error while `validate_read` names the body gate that fails as well
(weight, NRD duplicate, sort order, cut-through). -/
theorem validate_error_vs_read (K : Keys) (M : KMeta) (ct : Cons.ChainType) (nrd : Bool) (w : Weighting)
    (t : Tx) (later : Option BErr) (e e' : BErr)
    (hr : validateReadW K M ct nrd w t = some e) (hv : txValidateGates K M ct nrd w t later = some e') :
    e = e' ∨ ((e' = .outputFeatures ∨ e' = .kernelFeatures) ∧
      bodyValidateRead K M ct nrd w t.inputs t.outputs t.kernels = some e) := by
  unfold txValidateGates at hv
  unfold validateReadW at hr
  cases hb : bodyValidateRead K M ct nrd w t.inputs t.outputs t.kernels with
  | some b =>
    rw [hb] at hr hv
    have hbe : b = e := by simpa using hr
    subst hbe
    by_cases h1 : t.outputs.any isCoinbase = true
    · rw [if_pos h1] at hv
      exact Or.inr ⟨Or.inl (Option.some.inj hv).symm, rfl⟩
    · rw [if_neg h1] at hv
      by_cases h2 : t.kernels.any isCoinbase = true
      · rw [if_pos h2] at hv
        exact Or.inr ⟨Or.inr (Option.some.inj hv).symm, rfl⟩
      · rw [if_neg h2] at hv
        exact Or.inl (Option.some.inj hv)
  | none =>
    rw [hb] at hr hv
    by_cases h1 : t.outputs.any isCoinbase = true
    · rw [if_pos h1] at hv
      simp only [h1, if_true] at hr
      exact Or.inl (Option.some.inj (hr.symm.trans hv))
    · rw [if_neg h1] at hv
      by_cases h2 : t.kernels.any isCoinbase = true
      · rw [if_pos h2] at hv
        simp only [h1, h2, if_true] at hr
        exact Or.inl (Option.some.inj (hr.symm.trans hv))
      · simp [h1, h2] at hr

/-- evaluation of the gates on concrete data -/
macro "val_eval" : tactic => `(tactic|
  simp [txValidateGates, validateReadW, bodyValidateRead, verifyWeight, maxWeightOf, maxTxWeight, coinbaseWeight,
    verifyNoNrdDuplicates, dedupAdj, sortedUnique, satSub,
    verifyCutThrough, adjDup, sortBy, outCommit, isCoinbase, BErr.ofV, Cons.weightByIok, Cons.maxBlockWeight,
    List.mergeSort, List.MergeSort.Internal.splitInTwo, List.merge,
    Gen.TESTING_MAX_BLOCK_WEIGHT, Gen.INPUT_WEIGHT, Gen.OUTPUT_WEIGHT, Gen.KERNEL_WEIGHT, U64MAX])

/-- kernel meta data of the examples: every kernel plain, no fee -/
def MV0 : KMeta := ⟨fun _ => 0, fun _ => 0, fun _ => 0, fun k => k, fun _ => 0⟩

/-- the second alternative happens (kernel-checked): a transaction whose coinbase output (code 11 =
commitment 5, coinbase) is spent by its own input 5 — `validate` says `OutputFeatures`, `validate_read`
says `CutThrough`. -/
theorem validate_and_read_name_different_errors :
    validateReadW ⟨id, id, id⟩ MV0 .automatedTesting true .asTransaction ⟨0, false, [5], [11], [0]⟩ = some .cutThrough ∧
    txValidateGates ⟨id, id, id⟩ MV0 .automatedTesting true .asTransaction ⟨0, false, [5], [11], [0]⟩ none
      = some .outputFeatures := by
  refine ⟨by simp only [MV0]; val_eval, by simp only [MV0]; val_eval⟩

/-- non-vacuity of the acceptance theorems: a plain one-input one-output transaction passes both -/
example : txValidateGates ⟨id, id, id⟩ MV0 .automatedTesting true .asTransaction ⟨0, false, [5], [12], [0]⟩ none = none ∧
    validateReadW ⟨id, id, id⟩ MV0 .automatedTesting true .asTransaction ⟨0, false, [5], [12], [0]⟩ = none := by
  refine ⟨by simp only [MV0]; val_eval, by simp only [MV0]; val_eval⟩

end GV.Props.C12
