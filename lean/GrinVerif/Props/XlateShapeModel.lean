import GrinVerif.Model.Cons
import GrinVerif.Gen.PipeShapeChain
import GrinVerif.Props.XlateShapeLib
/-! # The regenerated shape of `pipe::validate_header` = the order of checks of the hand model

`Model/Cons.lean` writes `validateHeader` as a chain of `if`s.  Here the model is shown (for ALL inputs) to be the
"first failing stage" interpreter over an explicit LIST of named stages, and the names of that list, in order, are
shown (`decide`) to be the error spine that tools/gen_pipeshape.py reads from the CURRENT source of
`chain/src/pipe.rs::validate_header`.  So: the order of checks the model assumes is the order the code has, and a
check that is dropped, moved, or put on the other side of the `SKIP_POW` guard breaks `validate_header_shape_is_model`
(`process_block_header`: `processBlockHeader_stages`). -/
namespace GV.Props.XlateShapeModel
open GV GV.Cons GV.Gen.PipeShape GV.Props.XlateShape

/-- a stage: the name of the code's step, whether it sits under `if !SKIP_POW`, whether the code has a step for it
(`false`: model only — the `Panic` outcome of `next_difficulty`), and when it fails with which error -/
structure Stage where
  name : String
  powOnly : Bool
  inCode : Bool
  fails : Ctx → Hdr → Hdr → Option Err

def hdr0 : Hdr := ⟨0, 0, 0, 0, 0, 0, 0, 0, 0⟩

def newOut (prev h : Hdr) : Nat := numNew h.outputMmrSize prev.outputMmrSize
def newKer (prev h : Hdr) : Nat := numNew h.kernelMmrSize prev.kernelMmrSize

/-- the stages of `validate_header` after the previous header was found, in the model's order -/
def stages : List Stage := [
  ⟨"InvalidBlockHeight", false, true, fun _ p h => if h.height ≠ addW p.height 1 then some .InvalidBlockHeight else none⟩,
  ⟨"InvalidBlockVersion", false, true, fun c _ h => if !validHeaderVersion c.ct h.height h.version then some .InvalidBlockVersion else none⟩,
  ⟨"InvalidBlockTime", false, true, fun _ p h => if h.ts ≤ p.ts then some .InvalidBlockTime else none⟩,
  ⟨"InvalidMMRSize", false, true, fun _ p h => if newOut p h = 0 ∨ newKer p h = 0 then some .InvalidMMRSize else none⟩,
  ⟨"Block.TooHeavy", false, true, fun c p h => if weightByIok 0 (newOut p h) (newKer p h) > maxBlockWeight c.ct then some .TooHeavy else none⟩,
  ⟨"validate_pow_only", true, true, fun c _ h => match validatePowOnly c.ct c.powOk h with | .error e => some e | .ok () => none⟩,
  ⟨"DifficultyTooLow", true, true, fun _ p h => if h.totalDiff ≤ p.totalDiff then some .DifficultyTooLow else none⟩,
  ⟨"DifficultyTooLow", true, true, fun c p h =>
    if toDifficulty c.ct h.height h.edgeBits h.secondaryScaling h.hash64 < h.totalDiff - p.totalDiff then some .DifficultyTooLow else none⟩,
  ⟨"next_difficulty (panic)", true, false, fun c _ h => if (nextDifficulty c.ct h.height c.window).isNone then some .Panic else none⟩,
  ⟨"WrongTotalDifficulty", true, true, fun c p h =>
    match nextDifficulty c.ct h.height c.window with
    | some next => if h.totalDiff - p.totalDiff ≠ next.diff then some .WrongTotalDifficulty else none
    | none => none⟩,
  ⟨"InvalidScaling", true, true, fun c p h =>
    match nextDifficulty c.ct h.height c.window with
    | some next => if h.version < 5 ∧ h.secondaryScaling ≠ next.scaling then some .InvalidScaling else none
    | none => none⟩ ]

/-- first failing stage; stages under the `SKIP_POW` guard are skipped when `skipPow` -/
def run (c : Ctx) (p h : Hdr) : List Stage → Except Err Unit
  | [] => .ok ()
  | s :: rest =>
    if s.powOnly && c.skipPow then run c p h rest
    else match s.fails c p h with
      | some e => .error e
      | none => run c p h rest

/-- **the model is the stage list**: for every context and header, `Cons.validateHeader` = denylist, then previous
header lookup, then the first failing stage of `stages` in order -/
theorem validateHeader_stages (c : Ctx) (h : Hdr) :
    validateHeader c h =
      if c.denied then .error .Denied else
      match c.prev with
      | none => .error .Orphan
      | some p => run c p h stages := by
  unfold validateHeader
  by_cases hd : c.denied
  · simp [hd]
  · simp only [hd, Bool.false_eq_true, if_false]
    cases hp : c.prev with
    | none => rfl
    | some p =>
      simp only [stages, run, newOut, newKer, Bool.false_and, Bool.true_and, Bool.false_eq_true, if_false]
      by_cases h1 : h.height ≠ addW p.height 1
      · simp [h1]
      · simp only [h1, if_false]
        by_cases h2 : (!validHeaderVersion c.ct h.height h.version) = true
        · simp [h2]
        · simp only [h2, if_false]
          by_cases h3 : h.ts ≤ p.ts
          · simp [h3]
          · simp only [h3, if_false]
            by_cases h4 : numNew h.outputMmrSize p.outputMmrSize = 0 ∨ numNew h.kernelMmrSize p.kernelMmrSize = 0
            · simp [h4]
            · simp only [h4, if_false]
              by_cases h5 : weightByIok 0 (numNew h.outputMmrSize p.outputMmrSize) (numNew h.kernelMmrSize p.kernelMmrSize)
                  > maxBlockWeight c.ct
              · simp [h5]
              · simp only [h5, if_false]
                by_cases hs : c.skipPow
                · simp [hs]
                · simp only [hs, Bool.false_eq_true, if_false]
                  unfold validateDifficulty
                  cases hpow : validatePowOnly c.ct c.powOk h with
                  | error e => simp
                  | ok u =>
                    simp only []
                    by_cases h6 : h.totalDiff ≤ p.totalDiff
                    · simp [h6]
                    · simp only [h6, if_false]
                      by_cases h7 : toDifficulty c.ct h.height h.edgeBits h.secondaryScaling h.hash64 < h.totalDiff - p.totalDiff
                      · simp [h7]
                      · simp only [h7, if_false]
                        cases hn : nextDifficulty c.ct h.height c.window with
                        | none => simp
                        | some next =>
                          simp only [Option.isNone_some, Bool.false_eq_true, if_false]
                          by_cases h8 : h.totalDiff - p.totalDiff ≠ next.diff
                          · simp [h8]
                          · simp only [h8, if_false]
                            by_cases h9 : h.version < 5 ∧ h.secondaryScaling ≠ next.scaling
                            · simp [h9]
                            · simp [h9]

/-- the names the code's error spine must show, in order: the two lookups, then the stages the code has -/
def modelSpine : List String :=
  ["validate_header_ctx", "prev_header_store"] ++ (stages.filter (·.inCode)).map (·.name)

/-- the code's spine without the steps the model abstracts (`ctx.batch.child()`: a store error) -/
def codeSpine : List String := (spine pipe_validate_header).filter (· != "child")

/-- **shape = model**: the order of checks read from the current source of `pipe::validate_header` is the order of
the model's stage list -/
theorem validate_header_shape_is_model : readOk pipe_validate_header = true ∧ codeSpine = modelSpine := by decide

/-- … and exactly the model's `powOnly` stages sit under the code's `if !ctx.opts.contains(Options::SKIP_POW)` -/
theorem validate_header_pow_guard_is_model :
    (under "!($1.opts.contains(Options::SKIP_POW))" pipe_validate_header).filter (· != "child")
      = ((stages.filter fun s => s.inCode && s.powOnly).map (·.name)) := by decide

/-- no early `Ok`, nothing discarded: every failing stage ends the function -/
theorem validate_header_total : earlyOks pipe_validate_header = [] ∧ calls pipe_validate_header = [] := by decide

/-- `process_block_header` after its "already known" short cuts: `validate_header`, then `validate_root` inside
the header extension (the model's `processBlockHeader`), in this order in the code -/
theorem processBlockHeader_stages (c : Ctx) (rootOk : Bool) (h : Hdr) :
    processBlockHeader c rootOk h =
      match validateHeader c h with
      | .error e => .error e
      | .ok () => if rootOk then .ok () else .error .InvalidRoot := rfl

theorem process_block_header_shape_is_model :
    (spine pipe_process_block_header).filter (fun n => n == "validate_header" || n == "validate_root")
      = ["validate_header", "validate_root"] := by decide

/-- non-vacuity: a stage list run on a concrete input -/
example : run ⟨.mainnet, false, none, [], true, true⟩ ⟨5, 10, 1, 0, 0, 0, 0, 0, 0⟩ ⟨7, 11, 1, 0, 0, 0, 0, 0, 0⟩
    (stages.take 1) = .error .InvalidBlockHeight := by rfl

end GV.Props.XlateShapeModel
