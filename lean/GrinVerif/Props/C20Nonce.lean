import GrinVerif.Model.KeysNonce
import GrinVerif.Lemmas.KeysArith
/-! # C20 — the nonces of the proof builders and `BlindingFactor::from_slice`, at byte level

Theorems about `Model/KeysNonce.lean`.  The hash itself (keyed BLAKE2b) is executable and compared
with the real one on every `nonce` line of the `nonces` run; what is proved here is the structure
the rewind theorems of `Props/C20.lean` assume of the opaque nonce function: the root `ViewKey` and
the `ProofBuilder` of one keychain compute the SAME rewind nonce for every commitment (so a view key
can rewind what the builder created), a nonce that is handed out is a valid secret key, and the
byte logic of `BlindingFactor::from_slice`. -/
namespace GV.Props.C20
open GV GV.Keys List

/-- **the view key shares the builder's rewind nonce**: `ViewKey::rewind_nonce` and
`ProofBuilder::rewind_nonce` of the same keychain are the same function of the commitment bytes
(both hash the compressed public root key first) — for every public root key, every private root key
and every 33 commitment bytes, curve point or not.  This is the fact `viewBuilder` in
`Model/Keys.lean` builds in when it shares `rn` with the creating builder. -/
theorem view_key_shares_rewind_nonce (pubRoot privRoot commit : Bytes) :
    viewNonce pubRoot commit = builderNonce pubRoot privRoot commit false := by
  simp [viewNonce, builderNonce, viewRewindHash, rewindHash]

/-- the rewind nonce does not depend on the private root key, the private nonce not on the public one -/
theorem builder_nonce_reads_one_hash (pubRoot pubRoot' privRoot privRoot' commit : Bytes) :
    builderNonce pubRoot privRoot commit false = builderNonce pubRoot privRoot' commit false ∧
    builderNonce pubRoot privRoot commit true = builderNonce pubRoot' privRoot commit true := by
  simp [builderNonce]

/-- **a nonce that is handed out is a valid secret key** (`SecretKey::from_slice` refused 0 and
everything from the group order on): the digest itself, with `0 < value < n` -/
theorem nonce_is_valid_key (digest k : Bytes) (h : nonceKey digest = some k) :
    k = digest ∧ 0 < ofBE k ∧ ofBE k < N := by
  unfold nonceKey at h
  simp only at h
  split at h
  · cases h
  · rename_i hn
    have hk : digest = k := Option.some.inj h
    subst hk
    refine ⟨rfl, ?_, ?_⟩ <;> omega

/-! ## child numbers at the 2^31 boundary -/

/-- **the index constructors panic exactly from 2^31 on** (u32 indexes), and otherwise the `u32`
word of the child is the index for a normal child and the index + 2^31 for a hardened one — so
`Normal{2^31 − 1}` (word 2^31 − 1) and `Hardened{0}` (word 2^31) are neighbours and different, and
`ChildNumber::from(word)` gives the child back. -/
theorem child_from_idx (hardened : Bool) (i : Nat) (h : i < 2^32) :
    (childFromIdx hardened i = none ↔ 2^31 ≤ i) ∧
    (∀ c, childFromIdx hardened i = some c →
      c.toU32 = (if hardened then i + 2^31 else i) ∧ ChildNumber.ofU32 c.toU32 = c ∧ c.isHardened = hardened) := by
  unfold childFromIdx
  by_cases hb : i < 2^31
  · have h1 : ¬ (i / 2^31 % 2 = 1) := by omega
    refine ⟨by simp [h1]; omega, ?_⟩
    intro c hc
    simp only [h1, if_false, Option.some.injEq] at hc
    subst hc
    cases hardened
    · simp [ChildNumber.toU32, ChildNumber.ofU32, ChildNumber.isHardened, h1]
    · have h2 : (i + 2^31) / 2^31 % 2 = 1 := by omega
      simp [ChildNumber.toU32, ChildNumber.ofU32, ChildNumber.isHardened, h1]
      omega
  · have h1 : i / 2^31 % 2 = 1 := by omega
    refine ⟨by simp [h1]; omega, ?_⟩
    intro c hc
    simp [h1] at hc

/-! ## what the derivation steps feed the HMAC -/

/-- **public derivation hashes what private derivation hashes**: for a normal child `ckd_pub` feeds
the HMAC the very message `ckd_priv` feeds it (same key: the chain code) — the message half of the
BIP32 contract `viewPubMatches` relies on; a hardened child cannot be derived publicly. -/
theorem public_message_is_private_message (secret pub : Bytes) (c : ChildNumber) :
    (c.isHardened = false → ckdPubMessage pub c = some (ckdPrivMessage secret pub c)) ∧
    (c.isHardened = true → ckdPubMessage pub c = none) := by
  cases c <;> simp [ckdPubMessage, ckdPrivMessage, ChildNumber.isHardened]

/-- **different children of one parent get different messages**: for a 32-byte secret and a 33-byte
public key, the message determines the child number (canonical child numbers: index < 2^31) — the
u32 word at the end tells `Normal{2^31−1}` from `Hardened{0}` and every other pair. -/
theorem ckd_message_injective (secret pub : Bytes) (hs : secret.length = 32) (hp : pub.length = 33)
    (c1 c2 : ChildNumber) (w1 : c1.WF) (w2 : c2.WF)
    (h : ckdPrivMessage secret pub c1 = ckdPrivMessage secret pub c2) : c1 = c2 := by
  have key : u32be c1.toU32 = u32be c2.toU32 := by
    have hl : ∀ c : ChildNumber, (ckdPrivMessage secret pub c).drop 33 = u32be c.toU32 := by
      intro c
      cases c with
      | normal i => simp only [ckdPrivMessage]; exact drop_left' hp
      | hardened i =>
        simp only [ckdPrivMessage]
        exact drop_left' (by simp [hs])
    rw [← hl c1, ← hl c2, h]
  have e : c1.toU32 = c2.toU32 := by
    have a := readU32_u32be c1.toU32 (toU32_lt c1 w1)
    have b := readU32_u32be c2.toU32 (toU32_lt c2 w2)
    simp only [u32be] at key a b
    simp only [cons.injEq, and_true] at key
    obtain ⟨k1, k2, k3, k4⟩ := key
    rw [← a, ← b, k1, k2, k3, k4]
  rw [← toU32_ofU32 c1 w1, ← toU32_ofU32 c2 w2, e]

/-! ## `BlindingFactor::from_slice` -/

theorem ofBE_append_zeros (d : Bytes) (k : Nat) : ofBE (d ++ replicate k 0) = ofBE d * 256 ^ k := by
  induction k with
  | zero => simp
  | succ n ih =>
    have : d ++ replicate (n + 1) 0 = (d ++ replicate n 0) ++ [0] := by
      rw [replicate_succ', append_assoc]
    rw [this]
    unfold ofBE at ih ⊢
    rw [foldl_append, ih]
    simp [Nat.pow_succ, Nat.mul_assoc]

/-- the result always has 32 bytes -/
theorem bfFromSlice_length (d : Bytes) : (bfFromSlice d).length = 32 := by
  simp [bfFromSlice, fit]

/-- a 32-byte slice is taken as it is -/
theorem bfFromSlice_of_32 (d : Bytes) (h : d.length = 32) : bfFromSlice d = d := by
  simp [bfFromSlice, fit, h]

/-- hence applying it twice changes nothing -/
theorem bfFromSlice_idem (d : Bytes) : bfFromSlice (bfFromSlice d) = bfFromSlice d :=
  bfFromSlice_of_32 _ (bfFromSlice_length d)

/-- a long slice is cut after 32 bytes -/
theorem bfFromSlice_long (d : Bytes) (h : 32 ≤ d.length) : bfFromSlice d = d.take 32 := by
  simp [bfFromSlice, fit, take_append_of_le_length, h]

/-- **a short slice is LEFT-aligned**: the bytes are copied to the front and zeros follow, so as a
big-endian scalar the value is multiplied by `256^(32 − len)` — `from_slice(&[1])` (and
`from_hex("01")`) is `256^31`, not 1. -/
theorem bfFromSlice_short (d : Bytes) (h : d.length ≤ 32) :
    bfFromSlice d = d ++ replicate (32 - d.length) 0 ∧
    ofBE (bfFromSlice d) = ofBE d * 256 ^ (32 - d.length) := by
  have e : bfFromSlice d = d ++ replicate (32 - d.length) 0 := by
    unfold bfFromSlice fit
    have : d ++ replicate 32 0 = (d ++ replicate (32 - d.length) 0) ++ replicate d.length 0 := by
      rw [append_assoc, replicate_append_replicate]
      congr 2
      omega
    rw [this, take_append_of_le_length (by simp; omega), take_of_length_le (by simp; omega)]
  exact ⟨e, by rw [e, ofBE_append_zeros]⟩

example : bfFromSlice [1] = 1 :: replicate 31 0 := by decide
example : ofBE (bfFromSlice [1]) = 256 ^ 31 := by decide
example : (bfFromSlice (replicate 40 7)).length = 32 := by decide

end GV.Props.C20
