import GrinVerif.Lemmas.CrashAofL
import GrinVerif.Props.C09Aof
/-! C09 — the full flush theorem of the byte-level `AppendOnlyFile` model (variable-size path).

`pending es p as` is the file that holds the elements `es` on disk (canonical size file), has been
rewound to `p ≤ |es|` and has the elements `as` appended in memory. `flush_pending`: its flush passes
exactly ten crash points whose durable contents are listed — size file: old → cut to `p` → new; data
file, strictly afterwards: old → cut to `p` → new — and ends with the canonical files of
`es.take p ++ as`. `flush_death_then_open`: a process death at any of them followed by `open` shows the
OLD elements (points 1–6, the size file is rebuilt from the untouched data file), the elements cut at
`p` (points 7–8: the recorded window C09-reorg-kernel-data-window — data truncated in place before
the commit), or the NEW elements (9–10), provided the byte counts do not coincide (`Props/C09Aof.lean`
`open_accepts_stale_data_witness` is the coincidence). This is what `Model/CrashKernel.lean` abstracts:
`sizeFlush` / `dataFlush` on entries are these byte-level equations. -/
namespace GV.Props.C09AofFlush
open GV GV.CrashAof GV.Props.C09Aof

def sizeB (es : List Bytes) : Bytes := entBytes (offs es 0)

def Bounded (es : List Bytes) : Prop := ∀ e ∈ offs es 0, e.1 < 2 ^ 64 ∧ e.2 < 2 ^ 16

def pending (es : List Bytes) (p : Nat) (as : List Bytes) : Aof :=
  { sf := some { s := 10, disk := sizeB es, buf := entBytes (offs as (es.take p).flatten.length),
                 bsp := p, bak := es.length, mmap := some (sizeB es) },
    raw := { s := 0, disk := es.flatten, buf := as.flatten, bsp := p, bak := es.length,
             mmap := some es.flatten } }

theorem sizeB_length (es : List Bytes) : (sizeB es).length = 10 * es.length := by
  simp [sizeB, entBytes_length, offs_length]

theorem sizeB_cut (es : List Bytes) (p : Nat) (hp : p ≤ es.length) :
    setLen (sizeB es) (p * 10) = sizeB (es.take p) := by
  rw [setLen_shrinks _ _ (by rw [sizeB_length]; omega)]
  simp [sizeB, entBytes_take, offs_take]

theorem sizeB_new (es as : List Bytes) (p : Nat) :
    sizeB (es.take p) ++ entBytes (offs as (es.take p).flatten.length) = sizeB (es.take p ++ as) := by
  simp [sizeB, offs_append, entBytes_append]

theorem data_cut (es : List Bytes) (p : Nat) :
    setLen es.flatten (es.take p).flatten.length = (es.take p).flatten := by
  have h : es.flatten = (es.take p).flatten ++ (es.drop p).flatten := by
    rw [← List.flatten_append, List.take_append_drop]
  rw [setLen_shrinks _ _ (by rw [h]; simp)]
  exact flatten_take_prefix es p

/-- the entry the data file's truncation reads back: the end of element `p - 1` -/
theorem end_of_entry (es as : List Bytes) (p : Nat) (hp0 : 0 < p) (hp : p ≤ es.length)
    (hb : Bounded (es.take p ++ as)) (f : Raw) (hs : f.s = 10)
    (hm : f.mmap = some (sizeB (es.take p ++ as))) (hbsp : p ≤ f.bsp) :
    (f.readEntry (p - 1)).map (fun e => e.1 + e.2) = some (es.take p).flatten.length := by
  have hlt : p - 1 < es.length := by omega
  have hx : (es.take p ++ as)[p - 1]? = some es[p - 1] := by
    rw [List.getElem?_append_left (by simp; omega), List.getElem?_take]
    simp [hlt]; omega
  have hg := offs_get (es.take p ++ as) (p - 1) 0 _ hx
  have hbd := hb _ (List.mem_of_getElem? hg)
  rw [readEntry_mapped f (offs (es.take p ++ as) 0) (p - 1) _ hs hm (by omega) hg hbd.1 hbd.2]
  simp only [Option.map_some, Nat.zero_add, Option.some.injEq]
  have t1 : (es.take p ++ as).take (p - 1) = es.take (p - 1) := by
    rw [List.take_append_of_le_length (by simp; omega), List.take_take]
    congr 1; omega
  have t2 : es.take p = es.take (p - 1) ++ [es[p - 1]] := by
    have := List.take_add_one (l := es) (i := p - 1)
    have e : p - 1 + 1 = p := by omega
    rw [e] at this
    rw [this, List.getElem?_eq_getElem hlt]; rfl
  rw [t1, t2, List.flatten_append, List.length_append]
  simp

/-- **Flush of a rewound file with appended elements: the ten crash points, byte for byte.** -/
theorem flush_pending (es as : List Bytes) (p : Nat) (hn : 0 < es.length) (hp : p ≤ es.length)
    (hb : Bounded (es.take p ++ as)) :
    let old : Disk := { size := sizeB es, data := es.flatten }
    let new := es.take p ++ as
    (pending es p as).flush =
      ([("before-truncate@size", old),
        ("after-truncate@size", { old with size := sizeB (es.take p) }),
        ("before-append@size", { old with size := sizeB (es.take p) }),
        ("after-append@size", { old with size := sizeB new }),
        ("after-sync@size", { old with size := sizeB new }),
        ("before-truncate@data", { old with size := sizeB new }),
        ("after-truncate@data", { size := sizeB new, data := (es.take p).flatten }),
        ("before-append@data", { size := sizeB new, data := (es.take p).flatten }),
        ("after-append@data", { size := sizeB new, data := new.flatten }),
        ("after-sync@data", { size := sizeB new, data := new.flatten })],
       { sf := some { s := 10, disk := sizeB new, buf := [], bak := 0, bsp := (sizeB new).length / 10,
                      mmap := if (sizeB new).length = 0 then none else some (sizeB new) },
         raw := { s := 0, disk := new.flatten, buf := [], bak := 0, bsp := (sizeB new).length / 10,
                  mmap := if new.flatten.length = 0 then none else some new.flatten } },
       true) := by
  intro old new
  have hbak : es.length > 0 := hn
  -- the size file's flush
  have hS : ({ s := 10, disk := sizeB es, buf := entBytes (offs as (es.take p).flatten.length),
               bsp := p, bak := es.length, mmap := some (sizeB es) } : Raw).flush =
      ([("before-truncate", sizeB es), ("after-truncate", sizeB (es.take p)),
        ("before-append", sizeB (es.take p)), ("after-append", sizeB new), ("after-sync", sizeB new)],
       { s := 10, disk := sizeB new, buf := [], bak := 0, bsp := (sizeB new).length / 10,
         mmap := if (sizeB new).length = 0 then none else some (sizeB new) }) := by
    unfold Raw.flush
    simp only [hbak, if_true, sizeB_cut es p hp, sizeB_new es as p]
    rfl
  have hlen : (sizeB new).length / 10 = p + as.length := by
    rw [sizeB_length]; simp [new, List.length_take, Nat.min_eq_left hp]
  unfold pending Aof.flush
  simp only [hS, hbak, if_true]
  by_cases hp0 : p = 0
  · subst hp0
    simp only [if_true]
    simp [setLen, old, new, sizeB, Raw.sizeInElmts]
  · have hpos : 0 < p := Nat.pos_of_ne_zero hp0
    have hne : (sizeB new).length ≠ 0 := by rw [sizeB_length]; simp [new]; omega
    have hent := end_of_entry es as p hpos hp hb
      { s := 10, disk := sizeB new, buf := [], bak := 0, bsp := (sizeB new).length / 10,
        mmap := if (sizeB new).length = 0 then none else some (sizeB new) }
      rfl (by simp [hne, new]) (by simp only [hlen]; omega)
    simp only [hp0, if_false, hent, data_cut es p]
    simp [old, new, List.flatten_append, Raw.sizeInElmts]

/-- which elements the data file holds after a death at crash point `k` of that flush -/
theorem flush_death_data (es as : List Bytes) (p : Nat) (hn : 0 < es.length) (hp : p ≤ es.length)
    (hb : Bounded (es.take p ++ as)) (k : Nat) (hk1 : 1 ≤ k) (hk : k ≤ 10) :
    ∃ d, crashAt (pending es p as).flush.1 k = some d ∧
      d.data = (if k ≤ 6 then es else if k ≤ 8 then es.take p else es.take p ++ as).flatten ∧
      (k = 1 → d.size = sizeB es) ∧ (9 ≤ k → d.size = sizeB (es.take p ++ as)) := by
  have h := flush_pending es as p hn hp hb
  simp only at h
  rw [h]
  have : k = 1 ∨ k = 2 ∨ k = 3 ∨ k = 4 ∨ k = 5 ∨ k = 6 ∨ k = 7 ∨ k = 8 ∨ k = 9 ∨ k = 10 := by omega
  rcases this with rfl | rfl | rfl | rfl | rfl | rfl | rfl | rfl | rfl | rfl <;> simp [crashAt]

theorem offsets_eq_offs : ∀ (es : List Bytes) (off : Nat), offsets es off = offs es off := by
  intro es
  induction es with
  | nil => intro off; rfl
  | cons e es ih => intro off; simp [offsets, offs, ih]

/-- ... and what `open` makes of it: whatever the size file holds at that point, unless its sizes
happen to add up to the data file's length it is replaced by the canonical size file of those
elements — the file shows the old elements (k ≤ 6), the elements cut at `p` (k = 7, 8) or the new
ones (k ≥ 9), in full and nothing else -/
theorem flush_death_then_open (parse : Bytes → Option Nat) (hnil : parse [] = none)
    (es as : List Bytes) (p : Nat) (hn : 0 < es.length) (hp : p ≤ es.length)
    (hb : Bounded (es.take p ++ as)) (hc : PrefixCode parse (es ++ as)) (k : Nat) (hk1 : 1 ≤ k) (hk : k ≤ 10) :
    ∃ d X, crashAt (pending es p as).flush.1 k = some d ∧
      X = (if k ≤ 6 then es else if k ≤ 8 then es.take p else es.take p ++ as) ∧ d.data = X.flatten ∧
      ∀ sum, (({ s := 10, disk := d.size } : Raw).init).sumSizes (({ s := 10, disk := d.size } : Raw).init).bsp = some sum →
        sum ≠ d.data.length →
        ∃ a, (openVar parse d).2 = some a ∧ a.disk = { size := sizeB X, data := X.flatten } := by
  obtain ⟨d, hd, hdata, _, _⟩ := flush_death_data es as p hn hp hb k hk1 hk
  refine ⟨d, _, hd, rfl, hdata, ?_⟩
  intro sum hs hne
  have hcX : PrefixCode parse (if k ≤ 6 then es else if k ≤ 8 then es.take p else es.take p ++ as) := by
    intro e he
    apply hc e
    split at he
    · exact List.mem_append_left _ he
    · split at he
      · exact List.mem_append_left _ (List.mem_of_mem_take he)
      · rcases List.mem_append.mp he with h | h
        · exact List.mem_append_left _ (List.mem_of_mem_take h)
        · exact List.mem_append_right _ h
  have := open_rebuilds_canonical parse _ [] d.size hnil hcX sum hs (by simpa [hdata] using hne)
  obtain ⟨a, ha, hdisk⟩ := this
  refine ⟨a, ?_, ?_⟩
  · have e : d = { size := d.size, data := (if k ≤ 6 then es else if k ≤ 8 then es.take p else es.take p ++ as).flatten ++ [] } := by
      cases d; simp at hdata ⊢; exact hdata
    rw [e]; exact ha
  · rw [hdisk]; simp [sizeB, entBytes, offsets_eq_offs]

/-- **Why the "equal sums" view is masked at chain level.** In the states 4–6 of `flush_pending` (size
file new, data file old) the two files agree with the old AND the new content on everything below the
rewind position `p`: cutting the stale pair at any `q ≤ p` — which is what the start-up recovery does,
because `PMMRBackend::sync` flushes the kernel HASH file before the data file, so at these crash
points every head above the fork point fails `validate_roots` and `setup_head` falls back to the
fork point or below — gives exactly the canonical files of `es.take q`. -/
theorem stale_view_cut_below_fork (es as : List Bytes) (p q : Nat) (hp : p ≤ es.length) (hq : q ≤ p) :
    setLen (sizeB (es.take p ++ as)) (q * 10) = sizeB (es.take q) ∧
    setLen es.flatten (es.take q).flatten.length = (es.take q).flatten := by
  refine ⟨?_, data_cut es q⟩
  rw [sizeB_cut _ q (by simp; omega)]
  congr 1
  rw [List.take_append_of_le_length (by simp; omega), List.take_take]
  congr 1; omega

example : Bounded ([[2, 7, 7], [1, 9]].take 1 ++ [[3, 1, 1, 1]]) := by
  intro e he; simp [offs] at he; rcases he with rfl | rfl <;> decide

end GV.Props.C09AofFlush
