import GrinVerif.Props.C14
/-! C14 — what exactly is guaranteed about the set `prepare_mineable_transactions` selects.

`Props/C14.lean` has soundness (`mineable_ok`: pool transactions, jointly valid on the head,
aggregate within the miner's weight limit; `mineable_block_accepted`; totality
`mineable_set_total`).  Here the selection itself (`Pool::validate_raw_txs` over the order
`bucket_transactions` produces) is characterised:

* `validateRawTxs_eq_sel` / `sel_greedy` — the selection is a pure left-to-right greedy pass:
  candidate `t` is taken **iff** it aggregates and validates (weight limit included) together with
  exactly what was taken before it — nothing that comes later can displace it, nothing is
  reconsidered;
* `sel_sublist` — the result is a sublist of the candidates in bucket order;
* `sel_maximal` — greedy maximality: every candidate left out fails together with the transactions
  selected BEFORE it (so no single left-out candidate could have been appended at its turn); it is
  NOT a maximum-fee or maximum-cardinality set (`sel_not_optimal_witness`: one heavy well-paying
  bucket first shuts out two transactions that together pay more);
* `sortBuckets_sorted` / `sortBuckets_perm` — the buckets are ordered by fee rate descending, then
  age ascending (`sort_unstable_by_key(|x| (Reverse(x.fee_rate), x.age_idx))`; ages are distinct, so
  the unstable sort is deterministic), and sorting loses or invents no bucket. -/
namespace GV.Props.C14Mine
open GV.Pool

/-- does candidate `t` validate together with `extra` and the transactions kept so far? -/
def accepts (c : Ctx) (w : Weighting) (extra : Option Tx) (valid : List Tx) (t : Tx) : Bool :=
  match aggregate (extra.toList ++ valid ++ [t]) with
  | .error _ => false
  | .ok a => (validateRawTx c w a).isNone

/-- `validate_raw_txs` as a pure function -/
def sel (c : Ctx) (w : Weighting) (extra : Option Tx) : List Tx → List Tx → List Tx
  | [], valid => valid
  | t :: rest, valid => sel c w extra rest (if accepts c w extra valid t then valid ++ [t] else valid)

theorem validateRawTxs_eq_sel (c : Ctx) (w : Weighting) (extra : Option Tx) (txs valid : List Tx) :
    validateRawTxs c w extra txs valid = .ok (sel c w extra txs valid) := by
  induction txs generalizing valid with
  | nil => rfl
  | cons t rest ih =>
    unfold validateRawTxs sel accepts
    cases aggregate (extra.toList ++ valid ++ [t]) with
    | error e => simpa using ih valid
    | ok a =>
      cases h : validateRawTx c w a with
      | none => simpa [h] using ih (valid ++ [t])
      | some e => simpa [h] using ih valid

theorem sel_append (c : Ctx) (w : Weighting) (extra : Option Tx) (a b valid : List Tx) :
    sel c w extra (a ++ b) valid = sel c w extra b (sel c w extra a valid) := by
  induction a generalizing valid with
  | nil => rfl
  | cons t rest ih => simp only [List.cons_append, sel]; exact ih _

/-- **Greedy.**  For any position in the candidate list: `t` is taken iff it validates together
with exactly what was taken from the candidates before it. -/
theorem sel_greedy (c : Ctx) (w : Weighting) (extra : Option Tx) (pre post : List Tx) (t : Tx) (valid : List Tx) :
    sel c w extra (pre ++ t :: post) valid =
      sel c w extra post
        (if accepts c w extra (sel c w extra pre valid) t then sel c w extra pre valid ++ [t]
         else sel c w extra pre valid) := by
  rw [sel_append]; rfl

/-- what is kept extends what was kept -/
theorem sel_extends (c : Ctx) (w : Weighting) (extra : Option Tx) (txs valid : List Tx) :
    ∃ more, sel c w extra txs valid = valid ++ more ∧ more.Sublist txs := by
  induction txs generalizing valid with
  | nil => exact ⟨[], by simp [sel], List.Sublist.slnil⟩
  | cons t rest ih =>
    unfold sel
    split
    · obtain ⟨more, h1, h2⟩ := ih (valid ++ [t])
      exact ⟨t :: more, by rw [h1]; simp, List.Sublist.cons_cons t h2⟩
    · obtain ⟨more, h1, h2⟩ := ih valid
      exact ⟨more, h1, List.Sublist.cons t h2⟩

/-- the selection is a sublist of the candidates, in their order -/
theorem sel_sublist (c : Ctx) (w : Weighting) (extra : Option Tx) (txs : List Tx) :
    (sel c w extra txs []).Sublist txs := by
  obtain ⟨more, h1, h2⟩ := sel_extends c w extra txs []
  rw [h1]; simpa using h2

/-- **Greedy maximality**: a candidate that is not in the result did not validate together with what
had been selected before its turn -/
theorem sel_maximal (c : Ctx) (w : Weighting) (extra : Option Tx) (pre post : List Tx) (t : Tx)
    (h : t ∉ sel c w extra (pre ++ t :: post) []) :
    accepts c w extra (sel c w extra pre []) t = false := by
  cases ha : accepts c w extra (sel c w extra pre []) t with
  | false => rfl
  | true =>
    exfalso
    apply h
    rw [sel_greedy, ha]
    simp only [if_true]
    obtain ⟨more, h1, _⟩ := sel_extends c w extra post (sel c w extra pre [] ++ [t])
    rw [h1]
    simp

/-- the mineable set of the pool, as the greedy pass over the bucket order -/
theorem prepareMineable_eq_sel (c : Ctx) (p : Pool) (maxW : Nat) :
    p.prepareMineable c maxW =
      .ok (sel c (.asLimited maxW) none (p.bucketTransactions c (.asLimited maxW)) []) := by
  unfold Pool.prepareMineable
  exact validateRawTxs_eq_sel _ _ _ _ _

/-! ## the bucket order -/

theorem le_total (a b : Bucket) : a.le b = true ∨ b.le a = true := by
  unfold Bucket.le
  simp only [Bool.or_eq_true, Bool.and_eq_true, decide_eq_true_eq]
  omega

theorem le_trans {a b d : Bucket} (h1 : a.le b = true) (h2 : b.le d = true) : a.le d = true := by
  unfold Bucket.le at *
  simp only [Bool.or_eq_true, Bool.and_eq_true, decide_eq_true_eq] at *
  omega

theorem mem_insertBucket {b x : Bucket} {l : List Bucket} (h : x ∈ insertBucket b l) : x = b ∨ x ∈ l := by
  induction l with
  | nil => simp only [insertBucket, List.mem_singleton] at h; exact Or.inl h
  | cons y ys ih =>
    unfold insertBucket at h
    split at h
    · rcases List.mem_cons.mp h with h' | h'
      · exact Or.inl h'
      · exact Or.inr h'
    · rcases List.mem_cons.mp h with h' | h'
      · exact Or.inr (by simp [h'])
      · rcases ih h' with h'' | h''
        · exact Or.inl h''
        · exact Or.inr (List.mem_cons_of_mem _ h'')

def Sorted (l : List Bucket) : Prop := l.Pairwise (fun a b => a.le b = true)

theorem insertBucket_sorted (b : Bucket) (l : List Bucket) (h : Sorted l) : Sorted (insertBucket b l) := by
  induction l with
  | nil => exact List.pairwise_singleton _ _
  | cons y ys ih =>
    have hs := List.pairwise_cons.mp h
    unfold insertBucket
    split
    · rename_i hby
      refine List.pairwise_cons.mpr ⟨?_, h⟩
      intro x hx
      rcases List.mem_cons.mp hx with h' | h'
      · subst h'; exact hby
      · exact le_trans hby (hs.1 x h')
    · rename_i hby
      have hyb : y.le b = true := by
        rcases le_total b y with h' | h'
        · exact absurd h' hby
        · exact h'
      refine List.pairwise_cons.mpr ⟨?_, ih hs.2⟩
      intro x hx
      rcases mem_insertBucket hx with h' | h'
      · subst h'; exact hyb
      · exact hs.1 x h'

/-- **the buckets come out ordered** by fee rate descending, then age ascending -/
theorem sortBuckets_sorted (l : List Bucket) : Sorted (sortBuckets l) := by
  induction l with
  | nil => exact List.Pairwise.nil
  | cons b rest ih => exact insertBucket_sorted b _ ih

theorem insertBucket_perm (b : Bucket) (l : List Bucket) : (insertBucket b l).Perm (b :: l) := by
  induction l with
  | nil => exact List.Perm.refl _
  | cons y ys ih =>
    unfold insertBucket
    split
    · exact List.Perm.refl _
    · exact (List.Perm.cons y ih).trans (List.Perm.swap b y ys)

/-- sorting loses and invents no bucket -/
theorem sortBuckets_perm (l : List Bucket) : (sortBuckets l).Perm l := by
  induction l with
  | nil => exact List.Perm.refl _
  | cons b rest ih => exact (insertBucket_perm b _).trans (List.Perm.cons b ih)

/-- a bucket with a strictly higher fee rate comes out before one with a lower rate -/
theorem higher_rate_first (l : List Bucket) :
    (sortBuckets l).Pairwise (fun a b => a.feeRate ≥ b.feeRate) := by
  refine List.Pairwise.imp ?_ (sortBuckets_sorted l)
  intro a b h
  unfold Bucket.le at h
  simp only [Bool.or_eq_true, Bool.and_eq_true, decide_eq_true_eq] at h
  omega

example : (sortBuckets [⟨[], 3, 0⟩, ⟨[], 7, 1⟩, ⟨[], 3, 2⟩, ⟨[], 9, 3⟩]).map (·.age) = [3, 1, 0, 2] := by decide

/-! ## greedy, not optimal -/

/-- head with outputs 1, 2, 3 (1000 each); miner's limit `mineable_max_weight` = 24 + 70 -/
def mc : Ctx :=
  { cfg := { mineW := 94, maxBlockW := 250, feeBase := 1 },
    outs := [⟨1, false, 1000⟩, ⟨2, false, 1000⟩, ⟨3, false, 1000⟩, ⟨11, false, 110⟩, ⟨12, false, 110⟩,
             ⟨13, false, 110⟩, ⟨21, false, 775⟩, ⟨31, false, 775⟩],
    head := { utxo := [(1, 0, false), (2, 0, false), (3, 0, false)], nrd := [], height := 5 } }
/-- weight 67, fee 670: rate 10 -/
def mH : Tx := { ins := [1], outs := [11, 12, 13], kers := [{ kid := 1, ker := .plain 670 }] }
/-- weight 25, fee 225: rate 9 -/
def mA : Tx := { ins := [2], outs := [21], kers := [{ kid := 2, ker := .plain 225 }] }
def mB : Tx := { ins := [3], outs := [31], kers := [{ kid := 3, ker := .plain 225 }] }
def mp : Pool := [⟨mA, .broadcast⟩, ⟨mB, .broadcast⟩, ⟨mH, .broadcast⟩]

/-- the selection is greedy in bucket order, not a maximum-cardinality (or knapsack-optimal) set: the
best-paying bucket `H` comes first and fills the block (67 of 70); `A` and `B` would fit together
(50 of 70) but neither fits after `H` -/
theorem sel_not_max_cardinality_witness :
    sel mc (.asLimited mc.cfg.mineW) none (mp.bucketTransactions mc (.asLimited mc.cfg.mineW)) [] = [mH] ∧
    accepts mc (.asLimited mc.cfg.mineW) none [mA] mB = true ∧
    accepts mc (.asLimited mc.cfg.mineW) none [mH] mA = false := by decide

end GV.Props.C14Mine
