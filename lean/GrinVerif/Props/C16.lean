import GrinVerif.Lemmas.SegTree
import GrinVerif.Lemmas.SegNoPanic
import GrinVerif.Lemmas.SegExtra
import GrinVerif.Lemmas.SegComplete
import GrinVerif.Lemmas.SegPeaks
import GrinVerif.Lemmas.SegLeafless
import GrinVerif.Lemmas.SegAncestor
import GrinVerif.Lemmas.SegDsg
import GrinVerif.Lemmas.SegChunks
import GrinVerif.Lemmas.SegCompleteList
import GrinVerif.Lemmas.SegHashExtra
import GrinVerif.Lemmas.SegPrunedList
import GrinVerif.Lemmas.SegFupViews
/-! # C16 — state segments are sound; state sync never finalises other roots

Property theorems only (helper lemmas live in `Lemmas/Seg*.lean`; model `Model/Seg.lean`).

Reading guide.  `Segment.validate hf s size bm root` is the model of `Segment::validate`
(`validateWith` of `validate_with`, the merged output root); `segReads hf s size bm` is the list
of everything the computation of the segment root *reads* of the segment, in order: `Ev.leaf pos
data` for every leaf whose data is required and `Ev.hash pos h` for every hash looked up through
`get_hash`; `proofLen id size` is the number of proof hashes `reconstruct_root` consumes.
`Inj hf` is what collision resistance of the two hash shapes gives (for equal index). -/
namespace GV.Props.C16
open GV GV.Pmmr GV.Seg

section Finalise
variable {H : Type} [DecidableEq H]

/-- `validate_complete_state` finalises (commits the new body head) only when the roots of the
assembled txhashset equal the roots of the archive header — whatever segments were applied and
whatever the later validations say. -/
theorem never_finalise_wrong_roots (assembled hdr : Roots H) (full stopped : Bool)
    (h : validateCompleteState assembled hdr full stopped = .finalised) :
    assembled = hdr := by
  unfold validateCompleteState at h
  by_cases hr : rootsValidate assembled hdr = true
  · simp only [rootsValidate, Bool.and_eq_true, decide_eq_true_eq] at hr
    cases assembled; cases hdr; simp_all
  · simp [hr] at h

/-- … and then only if the full validation succeeded and the node was not stopped. -/
theorem finalise_iff (assembled hdr : Roots H) (full stopped : Bool) :
    validateCompleteState assembled hdr full stopped = .finalised ↔
      assembled = hdr ∧ full = true ∧ stopped = false := by
  constructor
  · intro h
    refine ⟨never_finalise_wrong_roots _ _ _ _ h, ?_, ?_⟩
    · unfold validateCompleteState at h; revert h; cases full <;> cases stopped <;> cases rootsValidate assembled hdr <;> simp
    · unfold validateCompleteState at h; revert h; cases full <;> cases stopped <;> cases rootsValidate assembled hdr <;> simp
  · rintro ⟨rfl, rfl, rfl⟩
    simp [validateCompleteState, rootsValidate]

-- non-vacuity: equal roots + successful validation finalise; a differing kernel root never does
example : validateCompleteState (⟨1, 2, 3⟩ : Roots Nat) ⟨1, 2, 3⟩ true false = .finalised := by decide
example : validateCompleteState (⟨1, 2, 3⟩ : Roots Nat) ⟨1, 2, 4⟩ true false = .invalidRoot := by decide

end Finalise

variable {α H : Type}

/-- the free term algebra of the two hash shapes: the canonical injective "hash function" -/
inductive HTerm (α : Type)
  | leaf (idx : Nat) (x : α)
  | node (idx : Nat) (l r : HTerm α)

-- non-vacuity of `Inj`: the hypothesis of the soundness theorems is satisfiable
example : Inj (⟨HTerm.leaf, HTerm.node⟩ : HashFn Nat (HTerm Nat)) :=
  ⟨fun _ _ _ h => by injection h, fun _ _ _ _ _ h => by injection h with _ h1 h2; exact ⟨h1, h2⟩⟩

/-! ## Nothing panics (repaired `Segment::root`, commit 22ca8fd14) -/

/-- `Segment::validate` returns `Ok` or a `SegmentError` for every segment, identifier (any
`height : u8`, `idx : u64`, including those whose range is empty, lies outside the MMR or is
computed with wrapped arithmetic), MMR size and bitmap: it never panics. -/
theorem segment_validate_no_panic (hf : HashFn α H) [DecidableEq H] (s : Segment α H) (size : Nat)
    (bm : Option (Nat → Bool)) (mmrRoot : H) : s.validate hf size bm mmrRoot ≠ .panic :=
  validate_no_panic hf s size bm mmrRoot

theorem segment_validate_with_no_panic (hf : HashFn α H) [DecidableEq H] (s : Segment α H)
    (size : Nat) (bm : Option (Nat → Bool)) (mmrRoot : H) (hlp : Nat) (other : H) (left : Bool) :
    s.validateWith hf size bm mmrRoot hlp other left ≠ .panic :=
  validateWith_no_panic hf s size bm mmrRoot hlp other left

theorem segment_first_unpruned_parent_no_panic (hf : HashFn α H) (s : Segment α H) (size : Nat)
    (bm : Option (Nat → Bool)) : s.firstUnprunedParent hf size bm ≠ .panic :=
  firstUnprunedParent_no_panic hf s size bm

/-! ## Segments without leaves need a bitmap

`Segment::root` takes the `leaf_data.is_empty()`-style route (root `None`, then
`first_unpruned_parent` looks for a hash of the segment or of a parent) only for a prunable MMR,
i.e. with `bitmap = Some(..)`.  With `bitmap = None` (kernel segments, bitmap segments) every leaf
of the range is required, so a segment that carries no leaves — whatever hashes and proof it
carries — is answered with an error by all four stateless checks; nothing panics and nothing is
accepted. -/

/-- **pruned_segment_requires_bitmap.**  What the real code answers for a segment without leaves
when `bitmap = None`, for *every* identifier (any `height : u8`, `idx : u64`), MMR size, hash list
and proof:
* `root` is never `Ok(None)` and none of `root` / `first_unpruned_parent` / `validate` /
  `validate_with` panics (the `bitmap.unwrap()` of `first_unpruned_parent` is not reached);
* if the segment exists in the MMR (`segment_unpruned_size ≠ 0`, the guard of repair 362e7d94e)
  and the position range starts with a leaf position `p` (it does for every range computed without
  wrap-around: `first = insertion_to_pmmr_index(leaf_offset)`; see the `FullId` corollary), all four
  answer exactly `MissingLeaf(p)` — before any hash of the segment or of the proof is looked at;
* if the segment does not exist in the MMR or its position range is empty, `root` (hence all
  four) answers `NonExistent`.
In particular `validate` never returns `Ok` for such a segment with a non-empty range. -/
theorem pruned_segment_requires_bitmap (hf : HashFn α H) [DecidableEq H] (s : Segment α H) (size : Nat)
    (mmrRoot : H) (hlp : Nat) (other : H) (left : Bool)
    (hno : s.leafPos = [] ∨ s.leafData = []) :
    (s.root hf size none ≠ .ok none ∧ s.root hf size none ≠ .panic ∧
      s.firstUnprunedParent hf size none ≠ .panic ∧ s.validate hf size none mmrRoot ≠ .panic ∧
      s.validateWith hf size none mmrRoot hlp other left ≠ .panic) ∧
    (∀ p ps, s.id.unprunedSize size ≠ 0 → s.id.positions size = p :: ps → height p = 0 →
      s.root hf size none = .err (.missingLeaf p) ∧
      s.firstUnprunedParent hf size none = .err (.missingLeaf p) ∧
      s.validate hf size none mmrRoot = .err (.missingLeaf p) ∧
      s.validateWith hf size none mmrRoot hlp other left = .err (.missingLeaf p)) ∧
    (s.id.unprunedSize size = 0 ∨ s.id.positions size = [] →
      s.root hf size none = .err .nonExistent ∧
      s.validate hf size none mmrRoot = .err .nonExistent) := by
  refine ⟨⟨?_, ?_, firstUnprunedParent_no_panic hf s size none, validate_no_panic hf s size none mmrRoot,
    validateWith_no_panic hf s size none mmrRoot hlp other left⟩, ?_, ?_⟩
  · by_cases hz : s.id.unprunedSize size = 0
    · rw [root_of_empty hf s size none hz]; simp
    · rw [root_of_nonempty hf s size none hz]; exact rootWith_none_some hf s size _ _ _
  · by_cases hz : s.id.unprunedSize size = 0
    · rw [root_of_empty hf s size none hz]; simp
    · rw [root_of_nonempty hf s size none hz]; exact rootWith_no_panic hf s none size _ _ _
  · intro p ps hex hpos hp
    exact leafless_no_bitmap hf s size mmrRoot hlp other left p ps hno hex hpos hp
  · intro he
    have hr : s.root hf size none = .err .nonExistent := by
      by_cases hz : s.id.unprunedSize size = 0
      · exact root_of_empty hf s size none hz
      · rcases he with he | he
        · exact absurd he hz
        · rw [root_of_nonempty hf s size none hz, he, peaksIn_of_empty_range s.id size he]
          exact rootWith_empty_range hf s size none _
    refine ⟨hr, ?_⟩
    unfold Segment.validate Segment.firstUnprunedParent
    rw [hr]; rfl

/-- … for a full segment (`FullId`: the identifier arithmetic is exact) the range starts at the
leaf position `insertion_to_pmmr_index(idx · 2^height)`, so a full segment without leaves is
answered `MissingLeaf` of exactly that position: a completely pruned kernel segment "one hash and a
proof" can never validate. -/
theorem pruned_full_segment_requires_bitmap (hf : HashFn α H) [DecidableEq H] (s : Segment α H)
    (size : Nat) (mmrRoot : H) (hlp : Nat) (other : H) (left : Bool)
    (hno : s.leafPos = [] ∨ s.leafData = []) (v : FullId s.id size) :
    s.root hf size none = .err (.missingLeaf (mmr (s.id.idx * 2 ^ s.id.height))) ∧
    s.firstUnprunedParent hf size none = .err (.missingLeaf (mmr (s.id.idx * 2 ^ s.id.height))) ∧
    s.validate hf size none mmrRoot = .err (.missingLeaf (mmr (s.id.idx * 2 ^ s.id.height))) ∧
    s.validateWith hf size none mmrRoot hlp other left =
      .err (.missingLeaf (mmr (s.id.idx * 2 ^ s.id.height))) := by
  obtain ⟨ps, hpos, hp⟩ := full_positions_head s.id size v
  exact leafless_no_bitmap hf s size mmrRoot hlp other left _ ps hno
    (unprunedSize_ne_zero_of_full s.id size (full_arith s.id size v).2.2.1) hpos hp

/-- Non-vacuity: segment (height 1, idx 1) of the 7-leaf MMR (size 11, range 3..=5) carrying one
hash at its last position and one proof hash, no leaves: `FullId` holds, and without a bitmap
`validate` answers `MissingLeaf(3)`.  (With a bitmap that marks nothing in the range the same shape
is accepted when hash and proof are genuine: shown on the real code by the `leafless` run.) -/
example :
    let hsum : HashFn Nat Nat := ⟨fun _ x => x, fun _ l r => l + r⟩
    let s : Segment Nat Nat :=
      { id := ⟨1, 1⟩, hashPos := [5], hashes := [42], leafPos := [], leafData := [], proof := [7] }
    s.validate hsum 11 none 49 = .err (.missingLeaf 3) := by
  intro hsum s
  have h : nLeaves 11 = 7 := by
    have := GV.Props.C07.nLeaves_at_leaf_boundary 7
    have e : mmr 7 = 11 := by simp [mmr, popcount]
    rw [e] at this; exact this
  have v : FullId s.id 11 :=
    ⟨by show 1 < 64; omega, by rw [h]; show (1 + 1) * 2 ^ 1 ≤ 7; omega, by rw [h]; omega⟩
  have e3 : mmr (s.id.idx * 2 ^ s.id.height) = 3 := by
    show mmr (1 * 2 ^ 1) = 3
    simp [mmr, popcount]
  have := (pruned_full_segment_requires_bitmap hsum s 11 49 0 0 false (Or.inl rfl) v).2.2.1
  rw [e3] at this
  exact this

/-! ## A pruned-subtree hash covers spent leaves only -/

/-- **pruned_parent_covers_only_spent.**  Take a segment that has no root of its own under the
bitmap `b` (`root` returns `Ok(None)`: the completely pruned / leafless route) and that
`validate_with` accepts.  Then `first_unpruned_parent` returned a hash `h` the segment carries at
some position `a`, and either `a` is the segment's own last position, or `a` is an ancestor on the
family branch of that position and the bitmap has **no bit set in the whole leaf range of `a`**
(`n_leaves(1 + leftmost(a)) - 1 ..  min(n_leaves(1 + rightmost(a)), n_leaves(mmr_size))`, both
ends of the subtree included; indices as the `as u32` casts of the code see them).  So the hash of
a pruned subtree can never stand in for a leaf the bitmap marks unspent. -/
theorem pruned_parent_covers_only_spent (hf : HashFn α H) [DecidableEq H] (s : Segment α H) (size : Nat)
    (b : Nat → Bool) (mmrRoot : H) (hlp : Nat) (other : H) (left : Bool)
    (hroot : s.root hf size (some b) = .ok none)
    (hacc : s.validateWith hf size (some b) mmrRoot hlp other left = .ok ()) :
    ∃ h a, s.firstUnprunedParent hf size (some b) = .ok (h, 1 + a) ∧ s.getHash a = .ok h ∧
      (a = (s.id.posRange size).2 ∨
        ((∃ x ∈ familyBranch (s.id.posRange size).2 size, x.1 = a) ∧
          ∀ i, (subtreeLeafRange a (nLeaves size)).1 % 2 ^ 32 ≤ i →
            i < (subtreeLeafRange a (nLeaves size)).2 % 2 ^ 32 → b i = false)) := by
  obtain ⟨⟨h, u⟩, hx⟩ := fup_ok_of_validateWith hf s size (some b) mmrRoot hlp other left hacc
  have hl : fupLoop s b (nLeaves size) (s.id.posRange size).2
      (familyBranch (s.id.posRange size).2 size) = .ok (h, u) := by
    unfold Segment.firstUnprunedParent at hx
    rw [hroot] at hx
    exact hx
  obtain ⟨hg, hcases⟩ := fupLoop_ok s b (nLeaves size) _ _ h u hl
  rcases hcases with he | ⟨y, hy, hu, hcard⟩
  · refine ⟨h, (s.id.posRange size).2, by rw [hx, he], ?_, Or.inl rfl⟩
    rw [he] at hg; simpa using hg
  · refine ⟨h, y.1, by rw [hx, hu], ?_, Or.inr ⟨⟨y, hy, rfl⟩, rangeCard_zero b _ _ hcard⟩⟩
    rw [hu] at hg; simpa using hg

/-- the same for `validate` (rangeproof segments) -/
theorem pruned_parent_covers_only_spent_validate (hf : HashFn α H) [DecidableEq H] (s : Segment α H)
    (size : Nat) (b : Nat → Bool) (mmrRoot : H)
    (hroot : s.root hf size (some b) = .ok none)
    (hacc : s.validate hf size (some b) mmrRoot = .ok ()) :
    ∃ h a, s.firstUnprunedParent hf size (some b) = .ok (h, 1 + a) ∧ s.getHash a = .ok h ∧
      (a = (s.id.posRange size).2 ∨
        ((∃ x ∈ familyBranch (s.id.posRange size).2 size, x.1 = a) ∧
          ∀ i, (subtreeLeafRange a (nLeaves size)).1 % 2 ^ 32 ≤ i →
            i < (subtreeLeafRange a (nLeaves size)).2 % 2 ^ 32 → b i = false)) := by
  obtain ⟨⟨h, u⟩, hx⟩ := fup_ok_of_validate hf s size (some b) mmrRoot hacc
  have hl : fupLoop s b (nLeaves size) (s.id.posRange size).2
      (familyBranch (s.id.posRange size).2 size) = .ok (h, u) := by
    unfold Segment.firstUnprunedParent at hx
    rw [hroot] at hx
    exact hx
  obtain ⟨hg, hcases⟩ := fupLoop_ok s b (nLeaves size) _ _ h u hl
  rcases hcases with he | ⟨y, hy, hu, hcard⟩
  · refine ⟨h, (s.id.posRange size).2, by rw [hx, he], ?_, Or.inl rfl⟩
    rw [he] at hg; simpa using hg
  · refine ⟨h, y.1, by rw [hx, hu], ?_, Or.inr ⟨⟨y, hy, rfl⟩, rangeCard_zero b _ _ hcard⟩⟩
    rw [hu] at hg; simpa using hg

-- non-vacuity of the hypotheses (a leafless segment with `root = Ok(None)` that `validate_with`
-- accepts through an ancestor 1..6 levels up, peaks included): 12 248 such segments are accepted by
-- the real code and by the model in every `ancestor` run of the harness (bitmap with no bit under the
-- ancestor), and every one of the 61 000 variants with one bit set under the ancestor is refused.

/-! ## The desegmenter's cache never blocks the next required segment

Model: `Seg.Dsg` (per-tree bookkeeping of `chain/src/txhashset/desegmenter.rs`).  `Dsg.At t (some k)`:
the local MMR of the tree ends where segment `k` of the asked height starts (or at the genesis
leaf, `k = 0`); `Dsg.OwnCache t`: every cached segment has the asked height — any indices, in any
order: segments far ahead, duplicates, late duplicates of segments applied long ago.  Since the
repair 11f03601e `add_*_segment` refuses a segment of any other height (`Tree.receive`), so
`OwnCache` is an invariant of every arrival sequence, not a hypothesis about the peers. -/

/-- **apply_progress.**  If the next required segment is cached, `apply_next_segments` applies it —
whatever else is cached, duplicates of applied segments included: the tree asks for exactly
segment `k`, and after the call the local MMR has strictly more leaves, at least up to the end of
segment `k`. -/
theorem apply_progress (t : Dsg.Tree) (k : Nat) (ha : Dsg.At t (some k)) (hown : Dsg.OwnCache t)
    (hc : ∃ c ∈ t.cache, c.idx = k) :
    t.next = some k ∧ t.leaves < (t.step .apply).leaves ∧
      min ((k + 1) * 2 ^ t.h) t.total ≤ (t.step .apply).leaves :=
  ⟨Dsg.next_of_at t k ha, (Dsg.step_apply_progress t k ha hown hc).1,
    (Dsg.step_apply_progress t k ha hown hc).2⟩

/-- **cache_never_blocks.**  By induction over arrival sequences: start from any tree in a regular
state and let *any* sequence of events happen — validated segments of **any height and index**
arriving in any order, any number of times, before or after they were applied (those of another
height are refused, `Tree.receive`), interleaved with any number of `apply_next_segments` calls.
The tree stays in a regular state, never loses leaves, and is then either complete or asks for a
segment `k` such that delivering `k` and applying makes progress. -/
theorem cache_never_blocks (t : Dsg.Tree) (evs : List Dsg.Ev) (hi : Dsg.Inv t) :
    Dsg.Inv (t.run evs) ∧ t.leaves ≤ (t.run evs).leaves ∧
      ((t.run evs).leaves = (t.run evs).total ∨
        ∃ k, (t.run evs).next = some k ∧
          (t.run evs).leaves < (((t.run evs).step (.add ⟨(t.run evs).h, k⟩)).step .apply).leaves) := by
  obtain ⟨i, l, _, _, _⟩ := Dsg.run_inv evs t hi
  refine ⟨i, l, ?_⟩
  by_cases hd : (t.run evs).leaves = (t.run evs).total
  · exact Or.inl hd
  · right
    obtain ⟨_, _, _, _, hprog⟩ := Dsg.deliverNext_spec (t.run evs) i
    have := hprog hd
    unfold Dsg.deliverNext at this
    cases hn : (t.run evs).next with
    | none => rw [hn] at this; exact absurd this (Nat.lt_irrefl _)
    | some k =>
      rw [hn] at this
      refine ⟨k, rfl, ?_⟩
      have e : (t.run evs).step (.add ⟨(t.run evs).h, k⟩) = (t.run evs).add ⟨(t.run evs).h, k⟩ := by
        simp [Dsg.Tree.step, Dsg.Tree.receive]
      rw [e]; exact this

/-- … hence an honest peer that answers every request completes the tree — the bitmap tree for
every chunk count ≥ 1 (one chunk included), the other trees for every leaf count — in at most
`total − leaves` rounds of (deliver what is asked, apply), whatever else arrived before. -/
theorem honest_peer_completes (t : Dsg.Tree) (evs : List Dsg.Ev) (hi : Dsg.Inv t) (n : Nat)
    (hn : t.total - t.leaves ≤ n) :
    (Dsg.rounds n (t.run evs)).leaves = t.total := by
  obtain ⟨i, l, _, ht, _⟩ := Dsg.run_inv evs t hi
  rw [← ht]
  exact Dsg.rounds_complete n (t.run evs) i (by rw [ht]; omega)

/-- A valid segment of a height the desegmenter did not ask for is refused and changes nothing
(`Error::InvalidSegmentHeight`, repair 11f03601e; regression probe
`desegmenter-foreign-height-segment-applied`). -/
theorem foreign_height_segment_refused (t : Dsg.Tree) (id : Ident) (valid : Bool)
    (h : id.height ≠ t.h) : t.receive id valid = (t, false) :=
  Dsg.receive_foreign t id valid h

/-- the fresh bitmap tree is in a regular state for every chunk count ≥ 1 and every asked height:
the hypothesis `Inv` of the theorems above holds at the start of every sync -/
theorem fresh_bitmap_tree_regular (h chunks : Nat) (hc : 1 ≤ chunks) :
    Dsg.Inv ⟨.bitmap, h, chunks, 0, []⟩ :=
  ⟨fun c hc' => (by cases hc'), ⟨some 0, Dsg.At.boundary 0 (by simp) (by simp; omega) (Or.inl rfl)⟩⟩

/-- … and so are the output / rangeproof / kernel trees of a fresh chain (genesis leaf) for every
asked height ≥ 1 and more than one leaf at the archive header -/
theorem fresh_main_tree_regular (fl : Dsg.Flavor) (hfl : fl ≠ .bitmap) (h total : Nat) (hh : 1 ≤ h)
    (ht : 1 < total) : Dsg.Inv ⟨fl, h, total, 1, []⟩ :=
  ⟨fun c hc' => (by cases hc'), ⟨some 0, Dsg.At.genesis hfl rfl hh ht⟩⟩

/-- Non-vacuity: the kernel tree of a fresh chain (genesis leaf, 142 kernels, asked height 1 → 71
segments) is in a regular state; after late duplicates of segments 0 and 1, an early segment 40,
a valid segment of another height with the required idx (refused) and two applies it has 4 leaves
and asks for segment 2. -/
example :
    let t : Dsg.Tree := ⟨.kernel, 1, 142, 1, []⟩
    let evs : List Dsg.Ev := [.add ⟨1, 0⟩, .add ⟨1, 40⟩, .add ⟨3, 0⟩, .add ⟨1, 1⟩, .apply, .add ⟨1, 0⟩,
      .add ⟨2, 2⟩, .add ⟨1, 1⟩, .apply]
    Dsg.Inv t ∧ (t.run evs).leaves = 4 ∧ (t.run evs).next = some 2 ∧
      (t.run evs).cache = [⟨1, 40⟩, ⟨1, 0⟩, ⟨1, 1⟩] :=
  ⟨fresh_main_tree_regular .kernel (by decide) 1 142 (by decide) (by decide), by decide, by decide, by decide⟩

/-- **single_chunk_requested** (repair d6b49984d; before it the request list was empty and the sync
stalled — regression probe `desegmenter-bitmap-segment-never-requested`).  With a one-chunk bitmap
(≤ 1024 outputs at the archive header) and the shipped heights (9, 11, 11, 11) the desegmenter asks
for exactly the bitmap segment (9, 0); once it arrived and two `apply_next_segments` calls ran, the
bitmap is final and the three main trees are asked for.  Kernel-evaluated on the model; the request
lists are compared with the real ones after every step by the `assembly` run.  (Every chunk count:
`honest_peer_completes` with `fresh_bitmap_tree_regular`.) -/
theorem single_chunk_requested :
    let s := Dsg.State.new 9 11 11 11 1 193 142
    s.bitmap.next = some 0 ∧ s.want 15 = [(0, ⟨9, 0⟩)] ∧ s.apply.want 15 = [(0, ⟨9, 0⟩)] ∧
      (let s1 := { s with bitmap := (s.bitmap.receive ⟨9, 0⟩ true).1 }
       s1.want 15 = [] ∧ s1.apply.bitmap.leaves = 1 ∧ s1.apply.apply.bitmapDone = true ∧
         s1.apply.apply.want 15 = [(1, ⟨11, 0⟩), (2, ⟨11, 0⟩), (3, ⟨11, 0⟩)]) := by
  decide +kernel

/-- the same at the start of a sync for every chunk count 1..40 and asked heights 0..3: the first
request is never empty and starts with bitmap segment 0 (bounded sweep, kernel-evaluated — an
illustration of the model, not a theorem about all sizes) -/
example : ∀ chunks ∈ List.range' 1 40, ∀ h ∈ List.range 4,
    ((Dsg.State.new h 11 11 11 chunks 193 142).want 15).head? = some (0, ⟨h, 0⟩) := by
  decide +kernel

/-! ## The bitmap MMR at chunk boundaries

What the receiving side computes from the archive header alone (`calc_bitmap_mmr_sizes`) against
what the serving side's `BitmapAccumulator::init` builds over the leaf set. -/

/-- **number of chunks = ⌈n / 1024⌉**: `expectedChunks n` chunks of 1024 bits cover `n` leaf
positions and one fewer does not; in particular exactly `k` at `n = 1024·k` and `k + 1` at
`n = 1024·k + 1`, and none for an empty output MMR. -/
theorem bitmap_chunk_count (n k : Nat) :
    n ≤ 1024 * Dsg.expectedChunks n ∧ (1 ≤ n → 1024 * (Dsg.expectedChunks n - 1) < n) ∧
    Dsg.expectedChunks (1024 * k) = k ∧ Dsg.expectedChunks (1024 * k + 1) = k + 1 ∧
    Dsg.expectedChunks 0 = 0 :=
  ⟨(Dsg.expectedChunks_spec n).1, (Dsg.expectedChunks_spec n).2, Dsg.expectedChunks_mul k,
    Dsg.expectedChunks_mul_succ k, by decide⟩

/-- **the accumulator over `n` leaf positions has exactly that many leaves**: the loop of
`BitmapAccumulator::init` (`Dsg.accLoop`, transliterated with its `if chunk.any()` at the end) run
over any list of set leaf indices — any order, duplicates allowed — that contains the last leaf
`n − 1` appends exactly `⌈n / 1024⌉` chunks, the number `Desegmenter::calc_bitmap_mmr_sizes`
expects.  (The last leaves of an archive header are the outputs of the archive block itself,
unspent at that header.) -/
theorem accumulator_has_expected_chunks (idxs : List Nat) (n : Nat) (hn : 1 ≤ n)
    (hlast : n - 1 ∈ idxs) : Dsg.accChunkCount idxs n = Dsg.expectedChunks n :=
  Dsg.accChunkCount_eq idxs n hn hlast

/-- … in general the accumulator has `max set index / 1024 + 1` chunks (none for an empty leaf
set): fewer than the receiving side expects exactly when the whole last expected chunk is spent. -/
theorem accumulator_chunks_general (idxs : List Nat) (n : Nat) :
    Dsg.accChunkCount idxs n =
      if idxs.filter (· < n) = [] then 0 else Dsg.lmax (idxs.filter (· < n)) / 1024 + 1 :=
  Dsg.accChunkCount_general idxs n

/-- the bitmap tree of the desegmenter made for any archive header with at least one output is in
a regular state, so `cache_never_blocks` / `honest_peer_completes` apply at every chunk count -/
theorem header_bitmap_tree_regular (hb ho hr hk outs kers : Nat) (h : 1 ≤ outs) :
    Dsg.Inv (Dsg.State.ofHeader hb ho hr hk outs kers).bitmap :=
  fresh_bitmap_tree_regular hb (Dsg.expectedChunks outs) (by unfold Dsg.expectedChunks; omega)

-- the boundary values of the sweep (kernel-evaluated): chunk count and bitmap MMR size
example : [1, 1023, 1024, 1025, 2047, 2048, 2049, 4096, 4097].map Dsg.expectedChunks =
      [1, 1, 1, 2, 2, 2, 3, 4, 5] ∧
    [0, 1024, 1025, 2049, 4096, 4097].map Dsg.expectedBitmapSize = [0, 1, 3, 4, 7, 8] ∧
    Dsg.accChunkCount [0, 5, 1024, 3000, 2048] 3001 = 3 ∧ Dsg.accChunkCount [0, 5] 2049 = 1 := by
  decide +kernel

/-! ## A segment that does not exist in the MMR is refused (repair 362e7d94e) -/

/-- **nonexistent_segment_refused.**  A segment whose identifier lies beyond the MMR — no leaf of
its range exists in an MMR of the given size (`segment_unpruned_size(mmr_size) = 0`: the leaf offset
`idx · 2^height` is at or beyond `n_leaves(mmr_size)`), **in particular every segment against the
empty MMR** (`mmr_size = 0`) — is refused with `NonExistent` by `root`, `first_unpruned_parent`,
`validate` and `validate_with`, whatever leaves, hashes and proof it carries and whatever the
bitmap: the position range is never computed, let alone walked (before the repair the range of the
empty MMR was `0..=2^64−1`). -/
theorem nonexistent_segment_refused (hf : HashFn α H) [DecidableEq H] (s : Segment α H) (size : Nat)
    (bm : Option (Nat → Bool)) (mmrRoot : H) (hlp : Nat) (other : H) (left : Bool)
    (h : s.id.unprunedSize size = 0) :
    s.root hf size bm = .err .nonExistent ∧
    s.firstUnprunedParent hf size bm = .err .nonExistent ∧
    s.validate hf size bm mmrRoot = .err .nonExistent ∧
    s.validateWith hf size bm mmrRoot hlp other left = .err .nonExistent := by
  have hr := root_of_empty hf s size bm h
  have hfup : s.firstUnprunedParent hf size bm = .err .nonExistent := by
    unfold Segment.firstUnprunedParent; rw [hr]; rfl
  refine ⟨hr, hfup, ?_, ?_⟩
  · unfold Segment.validate; rw [hfup]; rfl
  · unfold Segment.validateWith; rw [hfup]; rfl

/-- … the hypothesis spelled out: the identifier lies beyond the MMR iff the (wrapping) leaf offset
is at or beyond the number of leaves; every identifier lies beyond the empty MMR. -/
theorem beyond_mmr_iff (id : Ident) (size : Nat) :
    (id.unprunedSize size = 0 ↔ nLeaves size ≤ id.leafOffset) ∧ id.unprunedSize 0 = 0 := by
  have hc := capacity_pos id
  constructor
  · unfold Ident.unprunedSize satSub; omega
  · have h0 : nLeaves 0 = 0 := by
      have := GV.Props.C07.nLeaves_at_leaf_boundary 0
      have e : mmr 0 = 0 := by simp [mmr, popcount]
      rw [e] at this; exact this
    unfold Ident.unprunedSize satSub; rw [h0]; omega

/-- Non-vacuity: a segment with leaves, hashes and a proof, identifier (1, 0): refused with
`NonExistent` against the empty MMR, with and without a bitmap; identifier (0, 9) of the 7-leaf MMR
(size 11, leaves 0..6) likewise. -/
example :
    let hsum : HashFn Nat Nat := ⟨fun _ x => x, fun _ l r => l + r⟩
    let s : Segment Nat Nat :=
      { id := ⟨1, 0⟩, hashPos := [2], hashes := [42], leafPos := [0, 1], leafData := [5, 6], proof := [7] }
    s.validate hsum 0 none 49 = .err .nonExistent ∧
    s.validateWith hsum 0 (some fun _ => true) 49 3 8 true = .err .nonExistent ∧
    Segment.validate hsum { s with id := ⟨0, 9⟩ } 11 none 49 = .err .nonExistent := by
  intro hsum s
  have h7 : nLeaves 11 = 7 := by
    have := GV.Props.C07.nLeaves_at_leaf_boundary 7
    have e : mmr 7 = 11 := by simp [mmr, popcount]
    rw [e] at this; exact this
  refine ⟨(nonexistent_segment_refused hsum s 0 none 49 0 0 false (beyond_mmr_iff s.id 0).2).2.2.1,
    (nonexistent_segment_refused hsum s 0 _ 49 3 8 true (beyond_mmr_iff s.id 0).2).2.2.2, ?_⟩
  refine (nonexistent_segment_refused hsum { s with id := ⟨0, 9⟩ } 11 none 49 0 0 false ?_).2.2.1
  rw [(beyond_mmr_iff ⟨0, 9⟩ 11).1, h7]
  decide

/-! ## Soundness: what validation reads is determined by the root -/

/-- **Segment soundness (full segments).**  Fix an MMR size, a bitmap (or none) and a root.
If a full segment `s1` (one that has a root of its own, i.e. is not completely pruned) and any
other segment `s2` with the same identifier are both accepted by `validate`, then they agree on
every leaf (position and data) and every hash (position and value) the reconstruction reads and
on every proof hash it consumes.  Hence: take `s1` = the segment a node produced
(`segment_complete…`); changing any leaf data or position, any hash the reconstruction depends
on, or any consumed proof hash makes validation fail. -/
theorem segment_sound (hf : HashFn α H) [DecidableEq H] (inj : Inj hf) (s1 s2 : Segment α H)
    (hid : s1.id = s2.id) (size : Nat) (bm : Option (Nat → Bool)) (v : FullId s1.id size)
    (mmrRoot r1 : H) (hroot : s1.root hf size bm = .ok (some r1))
    (h1 : s1.validate hf size bm mmrRoot = .ok ()) (h2 : s2.validate hf size bm mmrRoot = .ok ()) :
    segReads hf s1 size bm = segReads hf s2 size bm ∧
    s1.proof.take (proofLen s1.id size) = s2.proof.take (proofLen s1.id size) :=
  validate_inj hf inj s1 s2 hid size bm (wellFormed_full s1.id size v) mmrRoot r1 hroot h1 h2

/-- the same for `validate_with` (output MMR: the PMMR root is hashed once more with the bitmap
root; bitmap MMR: with the output PMMR root) -/
theorem segment_sound_with (hf : HashFn α H) [DecidableEq H] (inj : Inj hf) (s1 s2 : Segment α H)
    (hid : s1.id = s2.id) (size : Nat) (bm : Option (Nat → Bool)) (v : FullId s1.id size)
    (mmrRoot r1 : H) (hlp : Nat) (other : H) (left : Bool)
    (hroot : s1.root hf size bm = .ok (some r1))
    (h1 : s1.validateWith hf size bm mmrRoot hlp other left = .ok ())
    (h2 : s2.validateWith hf size bm mmrRoot hlp other left = .ok ()) :
    segReads hf s1 size bm = segReads hf s2 size bm ∧
    s1.proof.take (proofLen s1.id size) = s2.proof.take (proofLen s1.id size) :=
  validateWith_inj hf inj s1 s2 hid size bm (wellFormed_full s1.id size v) mmrRoot r1 hlp other left
    hroot h1 h2

/-- Contrapositive, the form the property is phrased in: once one segment is accepted, a segment
with the same identifier that differs in anything read (or in a consumed proof hash) is rejected. -/
theorem tampered_segment_rejected (hf : HashFn α H) [DecidableEq H] (inj : Inj hf)
    (s1 s2 : Segment α H) (hid : s1.id = s2.id) (size : Nat) (bm : Option (Nat → Bool))
    (v : FullId s1.id size) (mmrRoot r1 : H) (hroot : s1.root hf size bm = .ok (some r1))
    (h1 : s1.validate hf size bm mmrRoot = .ok ())
    (hdiff : segReads hf s1 size bm ≠ segReads hf s2 size bm ∨
      s1.proof.take (proofLen s1.id size) ≠ s2.proof.take (proofLen s1.id size)) :
    s2.validate hf size bm mmrRoot ≠ .ok () := by
  intro h2
  obtain ⟨a, b⟩ := segment_sound hf inj s1 s2 hid size bm v mmrRoot r1 hroot h1 h2
  rcases hdiff with h | h
  · exact h a
  · exact h b

/-- **Soundness for any identifier whose range is a well-formed post-order range**
(`WellFormedRange`: the loop of `root` leaves exactly the entries the end of `root` consumes —
a fact about `(id, size)` alone).  The general form behind `segment_sound` (full segments, any
size) and `segment_sound_any_id` (every identifier that intersects an MMR of valid size, the final
not full segment included: `segment_well_formed`).  (Formerly `segment_sound_partial`: nothing is partial here, the former gap
`final_segment_range` is closed by `final_segment_well_formed`; this is the MORE general statement.) -/
theorem segment_sound_well_formed_range (hf : HashFn α H) [DecidableEq H] (inj : Inj hf) (s1 s2 : Segment α H)
    (hid : s1.id = s2.id) (size : Nat) (bm : Option (Nat → Bool)) (wf : WellFormedRange s1.id size)
    (mmrRoot r1 : H) (hroot : s1.root hf size bm = .ok (some r1))
    (h1 : s1.validate hf size bm mmrRoot = .ok ()) (h2 : s2.validate hf size bm mmrRoot = .ok ()) :
    segReads hf s1 size bm = segReads hf s2 size bm ∧
    s1.proof.take (proofLen s1.id size) = s2.proof.take (proofLen s1.id size) :=
  validate_inj hf inj s1 s2 hid size bm wf mmrRoot r1 hroot h1 h2

/-! ### The final, not full segment (former named gap `final_segment_range`)

`FinalId id N`: `height < 64`, `idx·2^height < N < (idx+1)·2^height`, `N < 2^62` — the last segment
of an MMR with `N` leaves whenever `2^height ∤ N`.  `FitId id N`: `height < 64`, `idx·2^height < N`,
`N < 2^62` — every identifier whose range intersects the MMR (full or final). -/

/-- The identifier arithmetic of the final segment is exact: it is not full, its range is
`[insertion_to_pmmr_index(idx·2^height), size − 1]`, and that range is tiled, in post-order, by the
subtrees of the peaks of the MMR that lie inside it (`tiles` of the low part of the forest), which
are exactly the peaks `Segment::root` bags (`peaksIn`, right to left). -/
theorem final_segment_range (id : Ident) (N : Nat) (v : FinalId id N) :
    id.full (mmr N) = false ∧
    id.posRange (mmr N) = (mmr (id.idx * 2 ^ id.height), mmr N - 1) ∧
    id.positions (mmr N) =
      tiles (Co.forestFrom id.height (id.idx * 2 ^ id.height) (finalLeaves id N)) ∧
    id.peaksIn (mmr N) =
      ((Co.forestFrom id.height (id.idx * 2 ^ id.height) (finalLeaves id N)).map Co.cpos).reverse ∧
    (∃ Lh, Co.forest N = Lh ++ Co.forestFrom id.height (id.idx * 2 ^ id.height) (finalLeaves id N)) :=
  ⟨(final_arith id N v).2.2.2.1, (final_arith id N v).2.2.2.2, final_positions id N v,
    final_peaksIn id N v, (final_forest id N v).imp fun _ h => h.1⟩

/-- **final_segment_well_formed.**  The last, not full segment of every MMR size: the loop of
`Segment::root` never runs the stack empty and leaves exactly one entry per peak inside the range —
what the bagging loop at the end consumes. -/
theorem final_segment_well_formed (id : Ident) (N : Nat) (v : FinalId id N) :
    WellFormedRange id (mmr N) := wellFormed_final id N v

/-- … hence every identifier whose range intersects the MMR has a well-formed range. -/
theorem segment_well_formed (id : Ident) (N : Nat) (v : FitId id N) :
    WellFormedRange id (mmr N) := wellFormed_fit id N v

/-- **Segment soundness for every identifier that intersects the MMR** (full segments and the
final, not full one; no hypothesis about the range any more).  `N` = number of leaves of the MMR,
`mmr N` its size.  If a segment `s1` that has a root of its own and any other segment `s2` with
the same identifier are both accepted, they agree on every leaf (position and data) and every hash
(position and value) the reconstruction reads and on every proof hash it consumes. -/
theorem segment_sound_any_id (hf : HashFn α H) [DecidableEq H] (inj : Inj hf) (s1 s2 : Segment α H)
    (hid : s1.id = s2.id) (N : Nat) (bm : Option (Nat → Bool)) (v : FitId s1.id N)
    (mmrRoot r1 : H) (hroot : s1.root hf (mmr N) bm = .ok (some r1))
    (h1 : s1.validate hf (mmr N) bm mmrRoot = .ok ()) (h2 : s2.validate hf (mmr N) bm mmrRoot = .ok ()) :
    segReads hf s1 (mmr N) bm = segReads hf s2 (mmr N) bm ∧
    s1.proof.take (proofLen s1.id (mmr N)) = s2.proof.take (proofLen s1.id (mmr N)) :=
  validate_inj hf inj s1 s2 hid (mmr N) bm (wellFormed_fit s1.id N v) mmrRoot r1 hroot h1 h2

theorem segment_sound_with_any_id (hf : HashFn α H) [DecidableEq H] (inj : Inj hf) (s1 s2 : Segment α H)
    (hid : s1.id = s2.id) (N : Nat) (bm : Option (Nat → Bool)) (v : FitId s1.id N)
    (mmrRoot r1 : H) (hlp : Nat) (other : H) (left : Bool)
    (hroot : s1.root hf (mmr N) bm = .ok (some r1))
    (h1 : s1.validateWith hf (mmr N) bm mmrRoot hlp other left = .ok ())
    (h2 : s2.validateWith hf (mmr N) bm mmrRoot hlp other left = .ok ()) :
    segReads hf s1 (mmr N) bm = segReads hf s2 (mmr N) bm ∧
    s1.proof.take (proofLen s1.id (mmr N)) = s2.proof.take (proofLen s1.id (mmr N)) :=
  validateWith_inj hf inj s1 s2 hid (mmr N) bm (wellFormed_fit s1.id N v) mmrRoot r1 hlp other left
    hroot h1 h2

/-- contrapositive for every identifier that intersects the MMR -/
theorem tampered_segment_rejected_any_id (hf : HashFn α H) [DecidableEq H] (inj : Inj hf)
    (s1 s2 : Segment α H) (hid : s1.id = s2.id) (N : Nat) (bm : Option (Nat → Bool))
    (v : FitId s1.id N) (mmrRoot r1 : H) (hroot : s1.root hf (mmr N) bm = .ok (some r1))
    (h1 : s1.validate hf (mmr N) bm mmrRoot = .ok ())
    (hdiff : segReads hf s1 (mmr N) bm ≠ segReads hf s2 (mmr N) bm ∨
      s1.proof.take (proofLen s1.id (mmr N)) ≠ s2.proof.take (proofLen s1.id (mmr N))) :
    s2.validate hf (mmr N) bm mmrRoot ≠ .ok () := by
  intro h2
  obtain ⟨a, b⟩ := segment_sound_any_id hf inj s1 s2 hid N bm v mmrRoot r1 hroot h1 h2
  rcases hdiff with h | h
  · exact h a
  · exact h b

-- non-vacuity: the 11-leaf MMR (size 19): (height 2, idx 2) is its final segment (leaves 8..10,
-- peaks 17 and 18 inside), (height 1, idx 5) the final one-leaf segment, (height 1, idx 2) and
-- (height 2, idx 1) are full
example : FinalId ⟨2, 2⟩ 11 ∧ FinalId ⟨1, 5⟩ 11 ∧ FitId ⟨2, 2⟩ 11 ∧ FitId ⟨1, 2⟩ 11 ∧ FitId ⟨2, 1⟩ 11 :=
  ⟨⟨by decide, by decide, by decide, by decide⟩, ⟨by decide, by decide, by decide, by decide⟩,
    ⟨by decide, by decide, by decide⟩, ⟨by decide, by decide, by decide⟩,
    ⟨by decide, by decide, by decide⟩⟩

/-- Completely pruned segments carry one hash, their first unpruned parent.  If two accepted
ones carry it at the same position, the hash and the consumed proof hashes are equal.
(Two accepted segments may carry it at *different* levels of the branch; then one hash is the
other hashed with proof hashes — not an elementwise equality; not stated.) -/
theorem segment_sound_pruned (hf : HashFn α H) [DecidableEq H] (inj : Inj hf) (s1 s2 : Segment α H)
    (hid : s1.id = s2.id) (size : Nat) (bm : Option (Nat → Bool)) (mmrRoot p1 p2 : H) (u : Nat)
    (f1 : s1.firstUnprunedParent hf size bm = .ok (p1, u))
    (f2 : s2.firstUnprunedParent hf size bm = .ok (p2, u))
    (h1 : s1.validate hf size bm mmrRoot = .ok ()) (h2 : s2.validate hf size bm mmrRoot = .ok ()) :
    p1 = p2 ∧
    s1.proof.take (consumed size (s1.id.posRange size).1 (s1.id.posRange size).2 u) =
      s2.proof.take (consumed size (s1.id.posRange size).1 (s1.id.posRange size).2 u) :=
  validate_inj_pruned hf inj s1 s2 hid size bm mmrRoot p1 p2 u f1 f2 h1 h2

/-! ## A leaf the bitmap marks unspent cannot be omitted -/

/-- the bitmap marking a leaf (or its sibling) makes its data required -/
theorem required_of_marked (b : Nat → Bool) (size pos0 : Nat)
    (h : b ((nLeaves (pos0 + 1) - 1) % 2 ^ 32) = true) : required (some b) size pos0 = true := by
  simp [required, h]

/-- with no bitmap (kernel MMR, bitmap MMR) every leaf is required -/
theorem required_no_bitmap (size pos0 : Nat) : required none size pos0 = true := rfl

/-- **Every required leaf of the range must be present**: if `validate` accepts, then for every
leaf position of the segment's range whose data is required (no bitmap; or the bitmap marks the
leaf or its sibling unspent; or it is the last position of the MMR) the segment holds an entry
`(pos, data)` in its leaf list, and that entry is what was hashed.  (Any identifier, any size.) -/
theorem unspent_leaf_must_be_present (hf : HashFn α H) [DecidableEq H] (s : Segment α H) (size : Nat)
    (bm : Option (Nat → Bool)) (mmrRoot : H) (h : s.validate hf size bm mmrRoot = .ok ())
    (p : Nat) (hp : p ∈ s.id.positions size) (hleaf : height p = 0)
    (hreq : required bm size p = true) :
    ∃ x, (p, x) ∈ s.leafPos.zip s.leafData ∧ Ev.leaf p x ∈ segReads hf s size bm := by
  obtain ⟨x0, hx0⟩ := fup_ok_of_validate hf s size bm mmrRoot h
  obtain ⟨o, ho⟩ := root_ok_of_fup_ok hf s size bm x0 hx0
  have ho := (root_ok_rootWith hf s size bm o ho).2
  unfold segReads
  exact rootWith_required hf s bm size _ _ _ o ho p hp hleaf hreq

/-! ## Redundant extra hashes are not rejected -/

/-- Hashes appended to the proof after the ones `reconstruct_root` consumes are ignored:
an accepted segment stays accepted (matches the caveat in the property text; such segments are
covered by the final-state clause, `never_finalise_wrong_roots`). -/
theorem redundant_proof_hashes_not_rejected (hf : HashFn α H) [DecidableEq H] (s : Segment α H)
    (extra : List H) (size : Nat) (bm : Option (Nat → Bool)) (mmrRoot : H)
    (h : s.validate hf size bm mmrRoot = .ok ()) :
    Segment.validate hf { s with proof := s.proof ++ extra } size bm mmrRoot = .ok () :=
  validate_extra_proof_hashes hf s extra size bm mmrRoot h

/-- **Redundant extra hash entries are not rejected** (the caveat of the property text, for all
segments).  Append any hash entries `(ep, eh)` to a segment (`get_hash` returns the first match,
so an appended entry at a position the segment already holds is shadowed):
* a successful `root` keeps its result — whatever is appended, at whatever positions;
* `validate` stays `Ok` whenever the segment has a root of its own (leaf data present), with no
  condition on the appended entries at all;
* for a segment *without* a root of its own (completely pruned: `root = Ok(None)`), the only
  computation in which a failed lookup is not an error, `validate` stays `Ok` provided every
  appended position is already held by the segment or is neither the segment's last position nor
  a parent on its family branch (the positions `first_unpruned_parent` asks for on its way up).
(The side condition is needed: an arbitrary hash appended *at* the last position of a completely
pruned segment that carries a higher parent is found first and changes the reconstructed root.) -/
theorem redundant_hash_entries_not_rejected (hf : HashFn α H) [DecidableEq H] (s : Segment α H)
    (ep : List Nat) (eh : List H) (hlen : s.hashPos.length = s.hashes.length) (size : Nat)
    (bm : Option (Nat → Bool)) (mmrRoot : H)
    (hnew : s.root hf size bm = .ok none → ∀ e ∈ ep, (∃ h, s.getHash e = .ok h) ∨
      (e ≠ (s.id.posRange size).2 ∧ ∀ y ∈ familyBranch (s.id.posRange size).2 size, y.1 ≠ e)) :
    (∀ o, s.root hf size bm = .ok o → (addHashes s ep eh).root hf size bm = .ok o) ∧
    (s.validate hf size bm mmrRoot = .ok () →
      (addHashes s ep eh).validate hf size bm mmrRoot = .ok ()) ∧
    (∀ hlp other left, s.validateWith hf size bm mmrRoot hlp other left = .ok () →
      (addHashes s ep eh).validateWith hf size bm mmrRoot hlp other left = .ok ()) := by
  have ext := addHashes_ext s ep eh hlen
  have hwalk : s.root hf size bm = .ok none →
      ∀ q, q = (s.id.posRange size).2 ∨ (∃ y ∈ familyBranch (s.id.posRange size).2 size, y.1 = q) →
        (addHashes s ep eh).getHash q = s.getHash q :=
    fun hr => addHashes_walk s ep eh hlen _ size (hnew hr)
  exact ⟨fun o ho => root_ext hf s _ ext size bm o ho,
    fun h => validate_ext hf s _ ext rfl size bm mmrRoot hwalk h,
    fun hlp other left h => validateWith_ext hf s _ ext rfl size bm mmrRoot hlp other left hwalk h⟩

/-- … in particular a segment with a root of its own (every segment that carries leaf data the
bitmap requires; every kernel / bitmap segment) stays accepted whatever hash entries are added. -/
theorem redundant_hash_entries_not_rejected_rooted (hf : HashFn α H) [DecidableEq H] (s : Segment α H)
    (ep : List Nat) (eh : List H) (hlen : s.hashPos.length = s.hashes.length) (size : Nat)
    (bm : Option (Nat → Bool)) (mmrRoot r : H) (hroot : s.root hf size bm = .ok (some r))
    (h : s.validate hf size bm mmrRoot = .ok ()) :
    (addHashes s ep eh).root hf size bm = .ok (some r) ∧
    (addHashes s ep eh).validate hf size bm mmrRoot = .ok () := by
  obtain ⟨h1, h2, _⟩ := redundant_hash_entries_not_rejected hf s ep eh hlen size bm mmrRoot
    (fun hn => by rw [hroot] at hn; cases hn)
  exact ⟨h1 _ hroot, h2 h⟩

-- non-vacuity: the honest final segment (height 2, idx 2) of the 11-leaf MMR with three arbitrary
-- hash entries appended (inside the range, on the family branch, outside the MMR) is still accepted
example : ∃ s r, fromPmmr (Co.termHF Nat)
      (vecView (Spec.Mmr.hashes (Co.termHF Nat) [10, 11, 12, 13, 14, 15, 16, 17, 18, 19, 20])
        [10, 11, 12, 13, 14, 15, 16, 17, 18, 19, 20]) ⟨2, 2⟩ false = .ok s ∧
    Spec.Mmr.root (Co.termHF Nat) [10, 11, 12, 13, 14, 15, 16, 17, 18, 19, 20] = some r ∧
    (addHashes s [16, 18, 40] [.leaf 0 0, .leaf 1 1, .leaf 2 2]).validate (Co.termHF Nat) (mmr 11) none r
      = .ok () := by
  obtain ⟨s, r, sr, h1, h2, _, _, hp, hh, _, hroot, _, hv, _⟩ :=
    segment_complete_list (Co.termHF Nat) [10, 11, 12, 13, 14, 15, 16, 17, 18, 19, 20] ⟨2, 2⟩
      ⟨by decide, by decide, by decide⟩
  exact ⟨s, r, h1, h2, (redundant_hash_entries_not_rejected_rooted (Co.termHF Nat) s _ _
    (by rw [hp, hh]; rfl) (mmr 11) none r sr hroot hv).2⟩

/-! ## Completeness (unpruned MMR, no bitmap: kernel and bitmap MMRs, and any unpruned source)

The MMR is the hash vector of the defining construction, `Spec.Mmr.hashes hf xs` — by C07
`push_root` exactly what pushing `xs` one by one onto an empty Vec backend builds; the node law
(leaf hash = hash of the element, parent hash = hash of its children) is *discharged* from the
`(n, h)` coordinates of C07 (`hAt_leafLaw`, `hAt_nodeLaw`), not assumed.  `vecView hashes xs` is
the `ReadonlyPMMR` over that backend.  `expectedLeaves xs ps`: `(q, xs[j])` for every position `q`
of `ps` that is the position of leaf `j`; `expectedSegRoot`: the committed hash at the last
position of a full segment, the peaks inside the range bagged right to left otherwise. -/

/-- **segment_complete.**  For every list of elements `xs`, every identifier `id` whose range
intersects the MMR of `xs` (`height < 64`, first leaf `idx·2^height < |xs| < 2^62`: full segments
*and* the final, not full one):
* `from_pmmr(id, .., prunable = false)` succeeds; the segment carries no hashes and exactly the
  expected leaf list;
* its `root` is the hash of its subtree root, resp. the bagged peaks of the final segment;
* its `SegmentProof` reconstructs the MMR root from that segment root, consuming every hash;
* hence `validate(size, None, root)` is `Ok`, and so is `validate_with` against the root merged
  with any other root on either side. -/
theorem segment_complete (hf : HashFn α H) [DecidableEq H] (xs : List α) (id : Ident)
    (fit : FitId id xs.length) :
    ∃ s r sr, fromPmmr hf (vecView (Spec.Mmr.hashes hf xs) xs) id false = .ok s ∧
      Spec.Mmr.root hf xs = some r ∧
      expectedSegRoot hf (Spec.Mmr.hashes hf xs) id = some sr ∧
      s.id = id ∧ s.hashPos = [] ∧ s.hashes = [] ∧
      s.leafPos.zip s.leafData = expectedLeaves xs (id.positions (mmr xs.length)) ∧
      s.root hf (mmr xs.length) none = .ok (some sr) ∧
      reconstructRoot hf s.proof (mmr xs.length) (id.posRange (mmr xs.length)).1
        (id.posRange (mmr xs.length)).2 sr (1 + (id.posRange (mmr xs.length)).2) = .ok (r, []) ∧
      s.validate hf (mmr xs.length) none r = .ok () ∧
      ∀ hlp other left, s.validateWith hf (mmr xs.length) none
        (if left then hf.node hlp other r else hf.node hlp r other) hlp other left = .ok () :=
  segment_complete_list hf xs id fit

/-- the same on the state of the model of `PMMR::push` itself: `hs` is what pushing `xs` built,
`r` what `root()` returns on it -/
theorem segment_complete_pushed (hf : HashFn α H) [DecidableEq H] (xs : List α) (hs : List H)
    (hpush : pushAll hf [] xs = some hs) (r : H) (hroot : Pmmr.root hf hs = .ok r) (id : Ident)
    (fit : FitId id xs.length) :
    ∃ s, fromPmmr hf (vecView hs xs) id false = .ok s ∧ s.validate hf hs.length none r = .ok () := by
  have hb : xs.length ≤ 2 ^ 65 := by have := fit.small; omega
  obtain ⟨h1, h2, _⟩ := GV.Props.C07.push_root hf xs hb
  have hr := (GV.Props.C07.root_pushed hf xs hb hs hpush r).1 hroot
  rw [h1] at hpush
  injection hpush with hpush
  subst hpush
  obtain ⟨s, r', _, hfrom, hr', _, _, _, _, _, _, _, hv, _⟩ := segment_complete hf xs id fit
  rw [hr] at hr'
  injection hr' with hr'
  subst hr'
  exact ⟨s, hfrom, by rw [h2]; exact hv⟩

/-- **Completeness + soundness**: against the root of the MMR of `xs`, every accepted segment with
identifier `id` reads exactly what the honest segment reads — the leaves `expectedLeaves xs …` at
their positions — and consumes the honest proof.  (No bitmap; collision-free hashes.) -/
theorem accepted_segment_is_honest (hf : HashFn α H) [DecidableEq H] (inj : Inj hf) (xs : List α)
    (id : Ident) (fit : FitId id xs.length) (s2 : Segment α H) (hid : s2.id = id) (r : H)
    (hr : Spec.Mmr.root hf xs = some r) (h2 : s2.validate hf (mmr xs.length) none r = .ok ()) :
    ∃ s, fromPmmr hf (vecView (Spec.Mmr.hashes hf xs) xs) id false = .ok s ∧
      segReads hf s (mmr xs.length) none = segReads hf s2 (mmr xs.length) none ∧
      s.proof.take (proofLen id (mmr xs.length)) = s2.proof.take (proofLen id (mmr xs.length)) := by
  obtain ⟨s, r', sr, hfrom, hr', _, hsid, _, _, _, hsroot, _, hv, _⟩ := segment_complete hf xs id fit
  rw [hr] at hr'
  injection hr' with hr'
  subst hr'
  have := segment_sound_any_id hf inj s s2 (by rw [hsid, hid]) xs.length none (by rw [hsid]; exact fit)
    r sr hsroot hv h2
  rw [hsid] at this
  exact ⟨s, hfrom, this⟩

-- non-vacuity: the 11-leaf MMR over free terms (size 19); the final segment (height 2, idx 2:
-- leaves 8, 9, 10, peaks 17 and 18), a full height-1 and a full height-2 segment: generated,
-- and accepted against the root
example : ∀ id ∈ [(⟨2, 2⟩ : Ident), ⟨1, 2⟩, ⟨2, 1⟩, ⟨1, 5⟩, ⟨0, 10⟩, ⟨4, 0⟩],
    ∃ s r, fromPmmr (Co.termHF Nat)
        (vecView (Spec.Mmr.hashes (Co.termHF Nat) [10, 11, 12, 13, 14, 15, 16, 17, 18, 19, 20])
          [10, 11, 12, 13, 14, 15, 16, 17, 18, 19, 20]) id false = .ok s ∧
      Spec.Mmr.root (Co.termHF Nat) [10, 11, 12, 13, 14, 15, 16, 17, 18, 19, 20] = some r ∧
      s.validate (Co.termHF Nat) (mmr 11) none r = .ok () := by
  intro id hid
  have fit : FitId id 11 := by
    simp only [List.mem_cons, List.mem_nil_iff, or_false] at hid
    rcases hid with rfl | rfl | rfl | rfl | rfl | rfl <;> exact ⟨by decide, by decide, by decide⟩
  obtain ⟨s, r, _, h1, h2, _, _, _, _, _, _, _, h3, _⟩ :=
    segment_complete (Co.termHF Nat) [10, 11, 12, 13, 14, 15, 16, 17, 18, 19, 20] id fit
  exact ⟨s, r, h1, h2, h3⟩

/-! ## Completeness with a bitmap (output / rangeproof MMRs: spent, pruned, compacted sources)

`PrunedView hf f N b V` (`Lemmas/SegPruned.lean`) characterises what the `ReadonlyPMMR` of a store
in a state reachable through its usage protocol answers, together with the bitmap `b` of unspent
leaf indices (`N < 2^32` leaves): everything on file is genuine; a leaf on file has its data, and a
leaf off file has none (`data_compacted`: `get_from_file` and `get_data_from_file` both start with
the `is_compacted` test); inner positions are read through `get_from_file`; peaks are on file; and
a position is off file only strictly inside a compacted subtree — if an inner node or one of its
children is off file, both children are off file and no leaf below the node is marked unspent
(`compacted`).  `get_hash` of a *leaf* is not constrained (spent leaves are hidden by the leaf set).

`segment_complete_pruned`: for every such view and every identifier of **height ≥ 1** whose range
intersects the MMR: `∃ s, from_pmmr(id, V, prunable = true) = Ok(s) ∧ validate(size, Some(bitmap),
root) = Ok` (and `validate_with`).  Three cases:
* the full segment whose subtree root is on file — live, partly compacted, or completely spent but
  not yet compacted below its root (`pruned_full_segment_root`);
* the final, not full segment, in every prune state (spent peaks are loaded from the hashes);
* the **completely compacted full segment** (`compacted_full_segment`): its last position lies
  strictly inside a compacted subtree, so `from_pmmr` finds neither data nor hashes in the range,
  takes its "fully pruned segment" branch and ships exactly one hash — the first position `a` of
  the family branch that is on file — with a proof that starts above `a`; `Segment::root` answers
  `Ok(None)` (no leaf of the range is required: none is marked, each has its sibling in the range,
  none is the last position); `first_unpruned_parent` walks up the family branch — the segment has
  no hash at the positions below `a`, and the bitmap cardinality under every ancestor up to and
  including `a` is 0 by `compacted` applied at `a`, whose child on the branch is off file (the
  walk-up lemma, `fupLoop_walk`) — and returns the hash at `a`, from which the proof re-bags the
  MMR root.
What stays excluded, and why:
* *height 0* — the statement is **false** for the code: a single-leaf segment whose leaf and
  sibling are both spent has no root of its own (`root = Ok(None)`) and carries its data, not its
  hash, so `first_unpruned_parent` walks up and ends in `MissingHash`; over a real store
  `SegmentProof::generate` already fails with `MissingHash(sibling)` because `get_hash` hides the
  spent sibling leaf.  Concretely: the 2-leaf MMR (size 3), both leaves spent, nothing compacted,
  identifier (height 0, idx 0).  The harness reproduces it on the real code (class
  `height0-both-unmarked`, compared with the model only).  Heights 0 are never requested
  (`pibd_params`: 9 / 11), so this is a latent defect, not a live one.
The field `data_compacted` is needed: `pruned_view_needs_data_compacted` below. -/

/-- **segment_complete_pruned.**  Completeness with a bitmap, every prune state: for every view of
a pruned / compacted store (`PrunedView`, with the bitmap `b` of unspent leaves) and every
identifier of height ≥ 1 whose range intersects the MMR, the honest segment
`from_pmmr(id, V, prunable = true)` exists and `validate(size, Some(b), root)` accepts it, and so
does `validate_with` against the root merged with any other root on either side.  (Height 0: the
statement is false for the code — see the comment above.) -/
theorem segment_complete_pruned (hf : HashFn α H) [DecidableEq H] (f : Nat → α) (N : Nat)
    (b : Nat → Bool) (V : View α H) (pv : PrunedView hf f N b V) (id : Ident) (fit : FitId id N)
    (hg : 1 ≤ id.height) :
    ∃ s r, fromPmmr hf V id true = .ok s ∧ rootOf hf f N = some r ∧ s.id = id ∧
      s.validate hf (mmr N) (some b) r = .ok () ∧
      ∀ hlp other left, s.validateWith hf (mmr N) (some b)
        (if left then hf.node hlp other r else hf.node hlp r other) hlp other left = .ok () :=
  complete_pruned_all hf f N b V pv id fit hg

/-- the special case in which the subtree root of a full segment is on file (hypothesis `_hon`, not
needed any more): formerly `segment_complete_pruned_partial`, a corollary of `segment_complete_pruned` -/
theorem segment_complete_pruned_root_on_file (hf : HashFn α H) [DecidableEq H] (f : Nat → α) (N : Nat)
    (b : Nat → Bool) (V : View α H) (pv : PrunedView hf f N b V) (id : Ident) (fit : FitId id N)
    (hg : 1 ≤ id.height) (_hon : FullId id (mmr N) → V.fromFile (lastOf id) ≠ none) :
    ∃ s r, fromPmmr hf V id true = .ok s ∧ rootOf hf f N = some r ∧ s.id = id ∧
      s.validate hf (mmr N) (some b) r = .ok () ∧
      ∀ hlp other left, s.validateWith hf (mmr N) (some b)
        (if left then hf.node hlp other r else hf.node hlp r other) hlp other left = .ok () :=
  segment_complete_pruned hf f N b V pv id fit hg

/-- **compacted_full_segment.**  The completely compacted full segment (height ≥ 1, subtree root
off file): the honest segment is one hash and no leaves; the hash is the committed hash at `a`,
the first position of the family branch of the segment's last position that is on file (everything
on the branch below `a` is off file); `root` answers `Ok(None)`, `first_unpruned_parent` answers
`(hash at a, 1 + a)`, and `validate` / `validate_with` accept. -/
theorem compacted_full_segment (hf : HashFn α H) [DecidableEq H] (f : Nat → α) (N : Nat)
    (b : Nat → Bool) (V : View α H) (pv : PrunedView hf f N b V) (id : Ident) (v : FullId id (mmr N))
    (hg : 1 ≤ id.height) (hoff : V.fromFile (lastOf id) = none) :
    ∃ a s r, fromPmmr hf V id true = .ok s ∧ rootOf hf f N = some r ∧ s.id = id ∧
      s.hashPos = [a] ∧ s.hashes = [hAt hf f a] ∧ s.leafPos = [] ∧ s.leafData = [] ∧
      (∃ x ∈ familyBranch (lastOf id) (mmr N), x.1 = a) ∧
      (∀ x ∈ familyBranch (lastOf id) (mmr N), x.1 < a → V.fromFile x.1 = none) ∧
      V.fromFile a = some (hAt hf f a) ∧
      s.root hf (mmr N) (some b) = .ok none ∧
      s.firstUnprunedParent hf (mmr N) (some b) = .ok (hAt hf f a, 1 + a) ∧
      s.validate hf (mmr N) (some b) r = .ok () ∧
      ∀ hlp other left, s.validateWith hf (mmr N) (some b)
        (if left then hf.node hlp other r else hf.node hlp r other) hlp other left = .ok () :=
  compacted_full_shape pv id v hg hoff

-- non-vacuity of the hypotheses of `compacted_full_segment`: 11 leaves `10 + i`, the subtree below
-- position 6 compacted, bitmap {5, 8, 9, 10}; the identifier (height 1, idx 0) is full and its
-- subtree root (position 2) is off file
example :
    PrunedView (Co.termHF Nat) (fun i => 10 + i) 11 (fun j => decide (j ∈ [5, 8, 9, 10]))
      (compactBelow (spentView (Co.allHashes (Co.termHF Nat) (fun i => 10 + i) 11)
        ((List.range 11).map fun i => 10 + i) (fun _ => false)) 3 2) ∧
    FullId ⟨1, 0⟩ (mmr 11) ∧
    (compactBelow (spentView (Co.allHashes (Co.termHF Nat) (fun i => 10 + i) 11)
      ((List.range 11).map fun i => 10 + i) (fun _ => false)) 3 2).fromFile (lastOf ⟨1, 0⟩) = none := by
  have h11 : nLeaves (mmr 11) = 11 := GV.Props.C07.nLeaves_at_leaf_boundary 11
  refine ⟨spentView_compactBelow_pruned (Co.termHF Nat) (fun i => 10 + i) 11 _ (fun _ => false)
    (by decide) 3 2 (by decide) (by
      intro j _ h
      have : j = 0 ∨ j = 1 ∨ j = 2 ∨ j = 3 := by omega
      rcases this with rfl | rfl | rfl | rfl <;> decide),
    ⟨by decide, by rw [h11]; decide, by rw [h11]; decide⟩, ?_⟩
  have hb : below 3 2 (lastOf ⟨1, 0⟩) = true := by decide +kernel
  simp only [compactBelow, hb, if_true]

/-- **the walk-up lemma** of `first_unpruned_parent`, on its own: started at the level-`j` ancestor
`anc n j` of leaf `n` with the rest of the family branch (`Co.branchCo`: parents of the levels
`j+1, j+2, …`), if the segment has no hash at the levels `j ..= j+e`, holds `x` at level `j+e+1`,
and the bitmap has no bit in the leaf range of each of the levels `j+1 ..= j+e+1`, the loop
returns `(x, 1 + position of level j+e+1)`. -/
theorem first_unpruned_parent_walk (s : Segment α H) (b : Nat → Bool) (nl n : Nat) (x : H)
    (e j r : Nat)
    (hmiss : ∀ i, i ≤ e → s.getHash (anc n (j + i)) = .err (.missingHash (anc n (j + i))))
    (hget : s.getHash (anc n (j + e + 1)) = .ok x)
    (hcard : ∀ i, i ≤ e → rangeCard b (subtreeLeafRange (anc n (j + i + 1)) nl).1
      (subtreeLeafRange (anc n (j + i + 1)) nl).2 = 0) :
    fupLoop s b nl (anc n j) (Co.branchCo n j (e + 1 + r)) = .ok (x, 1 + anc n (j + e + 1)) :=
  fupLoop_walk s b nl n x e j r hmiss hget hcard

/-- **Why `PrunedView` has the field `data_compacted`** (a fact about the model's record, not about
the code: no store state answers like this, both file reads test `is_compacted` first).  The
record without that field (`PrunedViewWeak`) is satisfied by `keepDataView`: the 4-leaf MMR
(size 7), empty bitmap, positions 0..5 off the hash file, peak 6 on file, but the data of every
leaf still answered.  For it `from_pmmr((height 1, idx 0), prunable = true)` collects leaf data,
does not take the "fully pruned segment" branch, asks `get_hash` for position 5 (the sibling of the
segment root 2) and fails with `MissingHash(5)`: completeness would be false.  Kernel-evaluated. -/
theorem pruned_view_needs_data_compacted :
    PrunedViewWeak (Co.termHF Nat) (fun i => 10 + i) 4 (fun _ => false) keepDataView ∧
    FitId ⟨1, 0⟩ 4 ∧
    fromPmmr (Co.termHF Nat) keepDataView ⟨1, 0⟩ true = .err (.missingHash 5) :=
  keepData_fails

/-- what the honest pruned segment's root and first unpruned parent are, for a full segment whose
subtree root is on file: `Some(committed hash)` iff a leaf below is required (`liveAt`), and in
either case the first unpruned parent is the committed hash at the segment's last position -/
theorem pruned_full_segment_root (hf : HashFn α H) [DecidableEq H] (f : Nat → α) (N : Nat)
    (b : Nat → Bool) (V : View α H) (pv : PrunedView hf f N b V) (id : Ident) (v : FullId id (mmr N))
    (hg : 1 ≤ id.height) (hon : V.fromFile (lastOf id) ≠ none) :
    ∃ s, fromPmmr hf V id true = .ok s ∧
      s.root hf (mmr N) (some b) = .ok (if liveAt (some b) (mmr N) id.height (lastOf id)
        then some (hAt hf f (lastOf id)) else none) ∧
      s.firstUnprunedParent hf (mmr N) (some b) = .ok (hAt hf f (lastOf id), 1 + lastOf id) := by
  obtain ⟨proof, r, h1, _, h3, h4, _, _⟩ := full_complete_pruned pv id v hg hon
  exact ⟨_, h1, h3, h4⟩

/-- **On lists, for sources whose leaves are spent in any pattern** (`removed`: hidden from
`get_hash`, still on file) **and, second part, with one compacted sibling pair** `n0 − 1, n0`
(both unmarked): every segment of height ≥ 1 that intersects the MMR is generated and validates
against *any* bitmap `b` (resp. any bitmap that does not mark the compacted leaves). -/
theorem segment_complete_spent_and_compacted (hf : HashFn α H) [DecidableEq H] (xs : List α)
    (b removed : Nat → Bool) (id : Ident) (fit : FitId id xs.length) (hN : xs.length < 2 ^ 32)
    (hg : 1 ≤ id.height) :
    (∃ s r, fromPmmr hf (spentView (Spec.Mmr.hashes hf xs) xs removed) id true = .ok s ∧
      Spec.Mmr.root hf xs = some r ∧ s.validate hf (mmr xs.length) (some b) r = .ok () ∧
      ∀ hlp other left, s.validateWith hf (mmr xs.length) (some b)
        (if left then hf.node hlp other r else hf.node hlp r other) hlp other left = .ok ()) ∧
    (∀ n0, 1 ≤ trailingOnes n0 → n0 < xs.length → b (n0 - 1) = false → b n0 = false →
      ∃ s r, fromPmmr hf (compactPair (spentView (Spec.Mmr.hashes hf xs) xs removed) n0) id true = .ok s ∧
        Spec.Mmr.root hf xs = some r ∧ s.validate hf (mmr xs.length) (some b) r = .ok () ∧
        ∀ hlp other left, s.validateWith hf (mmr xs.length) (some b)
          (if left then hf.node hlp other r else hf.node hlp r other) hlp other left = .ok ()) :=
  complete_pruned_list hf xs b removed id fit hN hg

-- non-vacuity: the 11-leaf MMR, leaves 0 and 1 spent and compacted (positions 0, 1 off file, the
-- pruned root 2 on file), leaves 4, 6, 7 spent but on file, bitmap = {2, 3, 5, 8, 9, 10}:
-- (1,0) is represented by the hash of the pruned root alone, (2,0) is partly compacted,
-- (1,3) is completely spent but not compacted, (2,2) is the final segment, (3,0) spans everything
example : ∀ id ∈ [(⟨1, 0⟩ : Ident), ⟨2, 0⟩, ⟨1, 3⟩, ⟨2, 2⟩, ⟨3, 0⟩, ⟨1, 5⟩],
    ∃ s r, fromPmmr (Co.termHF Nat)
        (compactPair (spentView (Spec.Mmr.hashes (Co.termHF Nat) [10, 11, 12, 13, 14, 15, 16, 17, 18, 19, 20])
          [10, 11, 12, 13, 14, 15, 16, 17, 18, 19, 20] (fun p => decide (p ∈ [0, 1, 7, 10, 11]))) 1)
        id true = .ok s ∧
      Spec.Mmr.root (Co.termHF Nat) [10, 11, 12, 13, 14, 15, 16, 17, 18, 19, 20] = some r ∧
      s.validate (Co.termHF Nat) (mmr 11) (some fun j => decide (j ∈ [2, 3, 5, 8, 9, 10])) r = .ok () := by
  intro id hid
  have fit : FitId id 11 ∧ 1 ≤ id.height := by
    simp only [List.mem_cons, List.mem_nil_iff, or_false] at hid
    rcases hid with rfl | rfl | rfl | rfl | rfl | rfl <;>
      exact ⟨⟨by decide, by decide, by decide⟩, by decide⟩
  obtain ⟨s, r, h1, h2, h3, _⟩ :=
    (segment_complete_spent_and_compacted (Co.termHF Nat) [10, 11, 12, 13, 14, 15, 16, 17, 18, 19, 20]
      (fun j => decide (j ∈ [2, 3, 5, 8, 9, 10])) (fun p => decide (p ∈ [0, 1, 7, 10, 11])) id fit.1
      (by decide) fit.2).2 1 (by simp [trailingOnes]) (by decide) (by decide) (by decide)
  exact ⟨s, r, h1, h2, h3⟩

/-- **On lists, for sources in which a whole subtree was compacted**: leaves spent in any pattern
(`removed`), every position strictly below the node `(n0, h0)` — the subtree of height `h0` whose
last leaf is `n0` — taken off both files (`compactBelow`; the pruned root stays), no leaf below it
marked in the bitmap.  Every segment of height ≥ 1 that intersects the MMR is generated and
validates; the segments of height < `h0` inside that subtree are completely compacted ones. -/
theorem segment_complete_compacted_subtree (hf : HashFn α H) [DecidableEq H] (xs : List α)
    (b removed : Nat → Bool) (id : Ident) (fit : FitId id xs.length) (hN : xs.length < 2 ^ 32)
    (hg : 1 ≤ id.height) (n0 h0 : Nat) (hn0 : n0 < xs.length)
    (hun : ∀ j, n0 + 1 - 2 ^ h0 ≤ j → j ≤ n0 → b j = false) :
    ∃ s r, fromPmmr hf (compactBelow (spentView (Spec.Mmr.hashes hf xs) xs removed) n0 h0) id true = .ok s ∧
      Spec.Mmr.root hf xs = some r ∧ s.id = id ∧ s.validate hf (mmr xs.length) (some b) r = .ok () ∧
      ∀ hlp other left, s.validateWith hf (mmr xs.length) (some b)
        (if left then hf.node hlp other r else hf.node hlp r other) hlp other left = .ok () :=
  complete_pruned_list_subtree hf xs b removed id fit hN hg n0 h0 hn0 hun

-- non-vacuity: the 11-leaf MMR, leaves 0..3 spent and the whole subtree below position 6 compacted
-- (positions 0..5 off file, the pruned root 6 on file), leaves 4, 6, 7 spent but on file,
-- bitmap = {5, 8, 9, 10}: (1,0) and (1,1) are completely compacted (one hash, at 6), (2,0) is the
-- pruned root itself, (3,0) is partly compacted, (1,3) completely spent but not compacted,
-- (2,2) and (1,5) final segments
example : ∀ id ∈ [(⟨1, 0⟩ : Ident), ⟨1, 1⟩, ⟨2, 0⟩, ⟨3, 0⟩, ⟨1, 3⟩, ⟨2, 2⟩, ⟨1, 5⟩],
    ∃ s r, fromPmmr (Co.termHF Nat)
        (compactBelow (spentView (Spec.Mmr.hashes (Co.termHF Nat) [10, 11, 12, 13, 14, 15, 16, 17, 18, 19, 20])
          [10, 11, 12, 13, 14, 15, 16, 17, 18, 19, 20] (fun p => decide (p ∈ [0, 1, 3, 4, 7, 10, 11]))) 3 2)
        id true = .ok s ∧
      Spec.Mmr.root (Co.termHF Nat) [10, 11, 12, 13, 14, 15, 16, 17, 18, 19, 20] = some r ∧
      s.validate (Co.termHF Nat) (mmr 11) (some fun j => decide (j ∈ [5, 8, 9, 10])) r = .ok () := by
  intro id hid
  have fit : FitId id 11 ∧ 1 ≤ id.height := by
    simp only [List.mem_cons, List.mem_nil_iff, or_false] at hid
    rcases hid with rfl | rfl | rfl | rfl | rfl | rfl | rfl <;>
      exact ⟨⟨by decide, by decide, by decide⟩, by decide⟩
  obtain ⟨s, r, h1, h2, _, h3, _⟩ :=
    segment_complete_compacted_subtree (Co.termHF Nat) [10, 11, 12, 13, 14, 15, 16, 17, 18, 19, 20]
      (fun j => decide (j ∈ [5, 8, 9, 10])) (fun p => decide (p ∈ [0, 1, 3, 4, 7, 10, 11])) id fit.1
      (by decide) fit.2 3 2 (by decide) (by
        intro j _ h
        have : j = 0 ∨ j = 1 ∨ j = 2 ∨ j = 3 := by omega
        rcases this with rfl | rfl | rfl | rfl <;> decide)
  exact ⟨s, r, h1, h2, h3⟩

-- … and what the two completely compacted segments of that example look like (kernel-evaluated on
-- the model): one hash at position 6, no leaves, a proof of two hashes (the sibling 13 of 6 and the
-- bagged peaks 17, 18 to the right); the segment root position 2 resp. 5 is off file
example : ∀ id ∈ [(⟨1, 0⟩ : Ident), ⟨1, 1⟩],
    (match fromPmmr (Co.termHF Nat)
        (compactBelow (spentView (Spec.Mmr.hashes (Co.termHF Nat) [10, 11, 12, 13, 14, 15, 16, 17, 18, 19, 20])
          [10, 11, 12, 13, 14, 15, 16, 17, 18, 19, 20] (fun p => decide (p ∈ [0, 1, 3, 4, 7, 10, 11]))) 3 2)
        id true with
      | .ok s => s.hashPos == [6] && s.leafPos == [] && s.leafData == [] && s.proof.length == 2
      | _ => false) = true := by
  decide +kernel

/-! ### The segment-root part alone, relative to an abstract node law (kept: it also covers hash
vectors that were not built by `push`, e.g. what `PMMR::validate` accepted) -/

/-- **Completeness of the segment root (full, unpruned segment), relative to the node law**:
if `hsAt` satisfies the MMR node law (leaf hash = hash of the leaf data, parent hash = hash of
its two children — what `PMMR::validate` checks of the committed MMR) and the segment carries
the data of every leaf of its range, then `Segment::root` returns the committed hash at the
segment's last position.  (`segment_complete` discharges the two laws for the vector `push` builds;
formerly named `segment_complete_partial` — it is the general form, not a weaker one.) -/
theorem segment_root_complete_node_law (hf : HashFn α H) (s : Segment α H) (size : Nat)
    (hsAt : Nat → H) (dataAt : Nat → α)
    (leafLaw : ∀ q, height q = 0 → hsAt q = hf.leaf q (dataAt q))
    (nodeLaw : ∀ q k, height q = k + 1 → hsAt q = hf.node q (hsAt (q - 2 ^ (k + 1))) (hsAt (q - 1)))
    (v : FullId s.id size) (rest : List (Nat × α))
    (hleaves : s.leafPos.zip s.leafData = leavesOf dataAt (s.id.positions size) ++ rest) :
    s.root hf size none = .ok (some (hsAt (lastOf s.id))) :=
  root_complete_full hf s size hsAt dataAt leafLaw nodeLaw v rest hleaves

/-- … and then every segment with the same identifier that has the same root carries exactly
that leaf data: soundness of the segment root against the committed MMR. -/
theorem segment_root_binds_leaves (hf : HashFn α H) (inj : Inj hf) (s0 s : Segment α H)
    (hid : s0.id = s.id) (size : Nat) (hsAt : Nat → H) (dataAt : Nat → α)
    (leafLaw : ∀ q, height q = 0 → hsAt q = hf.leaf q (dataAt q))
    (nodeLaw : ∀ q k, height q = k + 1 → hsAt q = hf.node q (hsAt (q - 2 ^ (k + 1))) (hsAt (q - 1)))
    (v : FullId s0.id size) (rest : List (Nat × α))
    (hleaves : s0.leafPos.zip s0.leafData = leavesOf dataAt (s0.id.positions size) ++ rest)
    (hs : s.root hf size none = .ok (some (hsAt (lastOf s0.id)))) :
    segReads hf s0 size none = segReads hf s size none :=
  (root_inj hf inj s0 s hid size none (wellFormed_full s0.id size v) _ _
    (root_complete_full hf s0 size hsAt dataAt leafLaw nodeLaw v rest hleaves) hs).2 rfl

/-! ## Identifier arithmetic of full segments -/

/-- For a full segment (`height < 64`, the block of `2^height` leaves inside the MMR, leaf count
below `2^62`) the wrapped u64 arithmetic of `segment_pos_range` is exact: the range is the
post-order range of the subtree of height `height` above leaves `idx·2^height …`, and its last
position has exactly that height. -/
theorem full_segment_range (id : Ident) (size : Nat) (v : FullId id size) :
    id.full size = true ∧
    id.posRange size = (mmr (id.idx * 2 ^ id.height), lastOf id) ∧
    id.positions size = treeRange id.height (lastOf id) ∧
    height (lastOf id) = id.height ∧
    (id.positions size).length = 2 ^ (id.height + 1) - 1 := by
  obtain ⟨_, _, hf, hr⟩ := full_arith id size v
  refine ⟨hf, hr, full_positions id size v, height_lastOf id, ?_⟩
  rw [full_positions id size v]
  simp [treeRange]

/-- the loop of `Segment::root` over a full segment's range never runs the stack empty and leaves
exactly one entry (its subtree root) -/
theorem full_segment_well_formed (id : Ident) (size : Nat) (v : FullId id size) :
    WellFormedRange id size := wellFormed_full id size v

/-! ## The expected size of the bitmap MMR (`Desegmenter::calc_bitmap_mmr_sizes`) -/

/-- For every leaf count `n ≥ 1` the last peak of the MMR with `n` leaves is its last position,
so `1 + peaks(insertion_to_pmmr_index(n)).last()` (the expression used before the repair
769a13f24, which panicked for `n = 1` through its eagerly evaluated fallback) equals
`insertion_to_pmmr_index(n)` (the repaired expression). -/
theorem bitmap_mmr_size_expression (n : Nat) (hn : 1 ≤ n) :
    (peaks (insertionToPmmrIndex n)).getLast?.map (1 + ·) = some (insertionToPmmrIndex n) :=
  one_add_last_peak n hn

-- non-vacuity: one chunk (n = 1): the MMR of size 1 has the single peak 0
example : (peaks 1).getLast?.map (1 + ·) = some 1 := by
  have := bitmap_mmr_size_expression 1 (Nat.le_refl 1)
  have e : insertionToPmmrIndex 1 = 1 := by simp [insertionToPmmrIndex, mmr, popcount]
  rw [e] at this; exact this

-- non-vacuity: segment (height 1, idx 1) of a 7-leaf MMR (size 11) is full; its range is 3..=5
example : FullId ⟨1, 1⟩ 11 := by
  have h : nLeaves 11 = 7 := by
    have := GV.Props.C07.nLeaves_at_leaf_boundary 7
    have e : mmr 7 = 11 := by simp [mmr, popcount]
    rw [e] at this; exact this
  exact ⟨by show 1 < 64; omega, by rw [h]; show (1 + 1) * 2 ^ 1 ≤ 7; omega, by rw [h]; omega⟩

/-! ## Height-0 segments (one leaf per segment) — where completeness holds and where it does not

Without a bitmap (`segment_complete`, `FitId` allows height 0) every honest height-0 segment of an
unpruned MMR validates.  WITH a bitmap the exact statement is

    validate(from_pmmr((0, i), V, prunable), size, Some(b), root) = Ok
      ↔  required (some b) size (mmr i)          -- b i ∨ b (sibling of i) ∨ mmr i = size − 1

for a source on which nothing in the range is compacted: if the leaf is not required, `Segment::root`
answers `Ok(None)` (the one-leaf range has no root of its own), `first_unpruned_parent` walks up
from a segment that carries the leaf's DATA but no hash, and ends in `MissingHash(parent)`.  The
direction "required → accepted" for every `i` and the refusal for every unrequired `i` are NOT
proven in general (the lemmas of `Lemmas/SegPruned*.lean` use `1 ≤ height` for "every leaf has its
sibling inside the range"); what is proven is the witness below — the smallest instance of the
refusal — and the accepted neighbours of it.  The seg runs `vec`, `store`, `leafless`, `ancestor`
drive height 0 on the real code (class `height0-both-unmarked` compared with the model). -/

/-- a hash function over numbers for the concrete height-0 instances -/
def h0HF : HashFn Nat Nat := ⟨fun i x => 7 * x + i + 1, fun i l r => 1000 * l + 31 * r + i⟩

/-- verdict of `validate` on the honest height-0 segment `i` of the unpruned MMR of `xs` -/
def h0Verdict (xs : List Nat) (i : Nat) (b : Nat → Bool) : Option (Res Unit) :=
  match fromPmmr h0HF (vecView (Spec.Mmr.hashes h0HF xs) xs) ⟨0, i⟩ true, Spec.Mmr.root h0HF xs with
  | .ok s, some r => some (s.validate h0HF (mmr xs.length) (some b) r)
  | _, _ => none

/-- **Witness: completeness FAILS at height 0.**  The 2-leaf MMR, both leaves spent, nothing
compacted: the segment `(0, 0)` a node produces for itself is refused with `MissingHash(2)` (the
parent of the two leaves) — by `validate` and already by `first_unpruned_parent`. -/
theorem segment_complete_height0_partial :
    h0Verdict [10, 11] 0 (fun _ => false) = some (.err (.missingHash 2)) ∧
    -- … while it is accepted as soon as the leaf, or its sibling, is unspent, and the lone last leaf
    -- of an odd MMR is accepted although it is spent (it is the last position)
    h0Verdict [10, 11] 0 (fun j => j == 0) = some (.ok ()) ∧
    h0Verdict [10, 11] 0 (fun j => j == 1) = some (.ok ()) ∧
    h0Verdict [10, 11] 1 (fun _ => false) = some (.err (.missingHash 2)) ∧
    h0Verdict [10, 11, 12] 2 (fun _ => false) = some (.ok ()) ∧
    -- in agreement with `required` in every one of these cases
    required (some fun _ => false) 3 (mmr 0) = false ∧ required (some fun j => j == 1) 3 (mmr 0) = true ∧
    required (some fun _ => false) 4 (mmr 2) = true := by
  decide +kernel

end GV.Props.C16
