import GrinVerif.Lemmas.SegTree
import GrinVerif.Lemmas.SegNoPanic
import GrinVerif.Lemmas.SegExtra
import GrinVerif.Lemmas.SegComplete
import GrinVerif.Lemmas.SegPeaks
import GrinVerif.Lemmas.SegLeafless
import GrinVerif.Lemmas.SegAncestor
import GrinVerif.Lemmas.SegDsg
/-! # C16 — state segments are sound; state sync never finalises other roots

Property theorems only (helper lemmas live in `Lemmas/Seg*.lean`; model `Model/Seg.lean`).

Reading guide.  `Segment.validate hf s size bm root` is the model of `Segment::validate`
(`validateWith` of `validate_with`, the merged output root); `segReads hf s size bm` is the list
of everything the computation of the segment root *reads* of the segment, in order: `Ev.leaf pos
data` for every leaf whose data is required and `Ev.hash pos h` for every hash looked up through
`get_hash`; `proofLen id size` is the number of proof hashes `reconstruct_root` consumes.
`Inj hf` is what collision resistance of the two hash shapes gives (for equal index). -/
namespace GV.Props.C16
open GV GV.Pmmr GV.Seg

section Finalise
variable {H : Type} [DecidableEq H]

/-- `validate_complete_state` finalises (commits the new body head) only when the roots of the
assembled txhashset equal the roots of the archive header — whatever segments were applied and
whatever the later validations say. -/
theorem never_finalise_wrong_roots (assembled hdr : Roots H) (full stopped : Bool)
    (h : validateCompleteState assembled hdr full stopped = .finalised) :
    assembled = hdr := by
  unfold validateCompleteState at h
  by_cases hr : rootsValidate assembled hdr = true
  · simp only [rootsValidate, Bool.and_eq_true, decide_eq_true_eq] at hr
    cases assembled; cases hdr; simp_all
  · simp [hr] at h

/-- … and then only if the full validation succeeded and the node was not stopped. -/
theorem finalise_iff (assembled hdr : Roots H) (full stopped : Bool) :
    validateCompleteState assembled hdr full stopped = .finalised ↔
      assembled = hdr ∧ full = true ∧ stopped = false := by
  constructor
  · intro h
    refine ⟨never_finalise_wrong_roots _ _ _ _ h, ?_, ?_⟩
    · unfold validateCompleteState at h; revert h; cases full <;> cases stopped <;> cases rootsValidate assembled hdr <;> simp
    · unfold validateCompleteState at h; revert h; cases full <;> cases stopped <;> cases rootsValidate assembled hdr <;> simp
  · rintro ⟨rfl, rfl, rfl⟩
    simp [validateCompleteState, rootsValidate]

-- non-vacuity: equal roots + successful validation finalise; a differing kernel root never does
example : validateCompleteState (⟨1, 2, 3⟩ : Roots Nat) ⟨1, 2, 3⟩ true false = .finalised := by decide
example : validateCompleteState (⟨1, 2, 3⟩ : Roots Nat) ⟨1, 2, 4⟩ true false = .invalidRoot := by decide

end Finalise

variable {α H : Type}

/-- the free term algebra of the two hash shapes: the canonical injective "hash function" -/
inductive HTerm (α : Type)
  | leaf (idx : Nat) (x : α)
  | node (idx : Nat) (l r : HTerm α)

-- non-vacuity of `Inj`: the hypothesis of the soundness theorems is satisfiable
example : Inj (⟨HTerm.leaf, HTerm.node⟩ : HashFn Nat (HTerm Nat)) :=
  ⟨fun _ _ _ h => by injection h, fun _ _ _ _ _ h => by injection h with _ h1 h2; exact ⟨h1, h2⟩⟩

/-! ## Nothing panics (repaired `Segment::root`, commit 22ca8fd14) -/

/-- `Segment::validate` returns `Ok` or a `SegmentError` for every segment, identifier (any
`height : u8`, `idx : u64`, including those whose range is empty, lies outside the MMR or is
computed with wrapped arithmetic), MMR size and bitmap: it never panics. -/
theorem segment_validate_no_panic (hf : HashFn α H) [DecidableEq H] (s : Segment α H) (size : Nat)
    (bm : Option (Nat → Bool)) (mmrRoot : H) : s.validate hf size bm mmrRoot ≠ .panic :=
  validate_no_panic hf s size bm mmrRoot

theorem segment_validate_with_no_panic (hf : HashFn α H) [DecidableEq H] (s : Segment α H)
    (size : Nat) (bm : Option (Nat → Bool)) (mmrRoot : H) (hlp : Nat) (other : H) (left : Bool) :
    s.validateWith hf size bm mmrRoot hlp other left ≠ .panic :=
  validateWith_no_panic hf s size bm mmrRoot hlp other left

theorem segment_first_unpruned_parent_no_panic (hf : HashFn α H) (s : Segment α H) (size : Nat)
    (bm : Option (Nat → Bool)) : s.firstUnprunedParent hf size bm ≠ .panic :=
  firstUnprunedParent_no_panic hf s size bm

/-! ## Segments without leaves need a bitmap

`Segment::root` takes the `leaf_data.is_empty()`-style route (root `None`, then
`first_unpruned_parent` looks for a hash of the segment or of a parent) only for a prunable MMR,
i.e. with `bitmap = Some(..)`.  With `bitmap = None` (kernel segments, bitmap segments) every leaf
of the range is required, so a segment that carries no leaves — whatever hashes and proof it
carries — is answered with an error by all four stateless checks; nothing panics and nothing is
accepted. -/

/-- **pruned_segment_requires_bitmap.**  What the real code answers for a segment without leaves
when `bitmap = None`, for *every* identifier (any `height : u8`, `idx : u64`), MMR size, hash list
and proof:
* `root` is never `Ok(None)` and none of `root` / `first_unpruned_parent` / `validate` /
  `validate_with` panics (the `bitmap.unwrap()` of `first_unpruned_parent` is not reached);
* if the position range starts with a leaf position `p` (it does for every range computed without
  wrap-around: `first = insertion_to_pmmr_index(leaf_offset)`; see the `FullId` corollary), all four
  answer exactly `MissingLeaf(p)` — before any hash of the segment or of the proof is looked at;
* if the position range is empty, `root` (hence all four) answers `NonExistent`.
In particular `validate` never returns `Ok` for such a segment with a non-empty range. -/
theorem pruned_segment_requires_bitmap (hf : HashFn α H) [DecidableEq H] (s : Segment α H) (size : Nat)
    (mmrRoot : H) (hlp : Nat) (other : H) (left : Bool)
    (hno : s.leafPos = [] ∨ s.leafData = []) :
    (s.root hf size none ≠ .ok none ∧ s.root hf size none ≠ .panic ∧
      s.firstUnprunedParent hf size none ≠ .panic ∧ s.validate hf size none mmrRoot ≠ .panic ∧
      s.validateWith hf size none mmrRoot hlp other left ≠ .panic) ∧
    (∀ p ps, s.id.positions size = p :: ps → height p = 0 →
      s.root hf size none = .err (.missingLeaf p) ∧
      s.firstUnprunedParent hf size none = .err (.missingLeaf p) ∧
      s.validate hf size none mmrRoot = .err (.missingLeaf p) ∧
      s.validateWith hf size none mmrRoot hlp other left = .err (.missingLeaf p)) ∧
    (s.id.positions size = [] → s.root hf size none = .err .nonExistent ∧
      s.validate hf size none mmrRoot = .err .nonExistent) := by
  refine ⟨⟨?_, ?_, firstUnprunedParent_no_panic hf s size none, validate_no_panic hf s size none mmrRoot,
    validateWith_no_panic hf s size none mmrRoot hlp other left⟩, ?_, ?_⟩
  · unfold Segment.root; exact rootWith_none_some hf s size _ _ _
  · unfold Segment.root; exact rootWith_no_panic hf s none size _ _ _
  · intro p ps hpos hp
    exact leafless_no_bitmap hf s size mmrRoot hlp other left p ps hno hpos hp
  · intro he
    have hr : s.root hf size none = .err .nonExistent := by
      unfold Segment.root
      rw [he, peaksIn_of_empty_range s.id size he]
      exact rootWith_empty_range hf s size none _
    refine ⟨hr, ?_⟩
    unfold Segment.validate Segment.firstUnprunedParent
    rw [hr]; rfl

/-- … for a full segment (`FullId`: the identifier arithmetic is exact) the range starts at the
leaf position `insertion_to_pmmr_index(idx · 2^height)`, so a full segment without leaves is
answered `MissingLeaf` of exactly that position: a completely pruned kernel segment "one hash and a
proof" can never validate. -/
theorem pruned_full_segment_requires_bitmap (hf : HashFn α H) [DecidableEq H] (s : Segment α H)
    (size : Nat) (mmrRoot : H) (hlp : Nat) (other : H) (left : Bool)
    (hno : s.leafPos = [] ∨ s.leafData = []) (v : FullId s.id size) :
    s.root hf size none = .err (.missingLeaf (mmr (s.id.idx * 2 ^ s.id.height))) ∧
    s.firstUnprunedParent hf size none = .err (.missingLeaf (mmr (s.id.idx * 2 ^ s.id.height))) ∧
    s.validate hf size none mmrRoot = .err (.missingLeaf (mmr (s.id.idx * 2 ^ s.id.height))) ∧
    s.validateWith hf size none mmrRoot hlp other left =
      .err (.missingLeaf (mmr (s.id.idx * 2 ^ s.id.height))) := by
  obtain ⟨ps, hpos, hp⟩ := full_positions_head s.id size v
  exact leafless_no_bitmap hf s size mmrRoot hlp other left _ ps hno hpos hp

/-- Non-vacuity: segment (height 1, idx 1) of the 7-leaf MMR (size 11, range 3..=5) carrying one
hash at its last position and one proof hash, no leaves: `FullId` holds, and without a bitmap
`validate` answers `MissingLeaf(3)`.  (With a bitmap that marks nothing in the range the same shape
is accepted when hash and proof are genuine: shown on the real code by the `leafless` run.) -/
example :
    let hsum : HashFn Nat Nat := ⟨fun _ x => x, fun _ l r => l + r⟩
    let s : Segment Nat Nat :=
      { id := ⟨1, 1⟩, hashPos := [5], hashes := [42], leafPos := [], leafData := [], proof := [7] }
    s.validate hsum 11 none 49 = .err (.missingLeaf 3) := by
  intro hsum s
  have h : nLeaves 11 = 7 := by
    have := GV.Props.C07.nLeaves_at_leaf_boundary 7
    have e : mmr 7 = 11 := by simp [mmr, popcount]
    rw [e] at this; exact this
  have v : FullId s.id 11 :=
    ⟨by show 1 < 64; omega, by rw [h]; show (1 + 1) * 2 ^ 1 ≤ 7; omega, by rw [h]; omega⟩
  have e3 : mmr (s.id.idx * 2 ^ s.id.height) = 3 := by
    show mmr (1 * 2 ^ 1) = 3
    simp [mmr, popcount]
  have := (pruned_full_segment_requires_bitmap hsum s 11 49 0 0 false (Or.inl rfl) v).2.2.1
  rw [e3] at this
  exact this

/-! ## A pruned-subtree hash covers spent leaves only -/

/-- **pruned_parent_covers_only_spent.**  Take a segment that has no root of its own under the
bitmap `b` (`root` returns `Ok(None)`: the completely pruned / leafless route) and that
`validate_with` accepts.  Then `first_unpruned_parent` returned a hash `h` the segment carries at
some position `a`, and either `a` is the segment's own last position, or `a` is an ancestor on the
family branch of that position and the bitmap has **no bit set in the whole leaf range of `a`**
(`n_leaves(1 + leftmost(a)) - 1 ..  min(n_leaves(1 + rightmost(a)), n_leaves(mmr_size))`, both
ends of the subtree included; indices as the `as u32` casts of the code see them).  So the hash of
a pruned subtree can never stand in for a leaf the bitmap marks unspent. -/
theorem pruned_parent_covers_only_spent (hf : HashFn α H) [DecidableEq H] (s : Segment α H) (size : Nat)
    (b : Nat → Bool) (mmrRoot : H) (hlp : Nat) (other : H) (left : Bool)
    (hroot : s.root hf size (some b) = .ok none)
    (hacc : s.validateWith hf size (some b) mmrRoot hlp other left = .ok ()) :
    ∃ h a, s.firstUnprunedParent hf size (some b) = .ok (h, 1 + a) ∧ s.getHash a = .ok h ∧
      (a = (s.id.posRange size).2 ∨
        ((∃ x ∈ familyBranch (s.id.posRange size).2 size, x.1 = a) ∧
          ∀ i, (subtreeLeafRange a (nLeaves size)).1 % 2 ^ 32 ≤ i →
            i < (subtreeLeafRange a (nLeaves size)).2 % 2 ^ 32 → b i = false)) := by
  obtain ⟨⟨h, u⟩, hx⟩ := fup_ok_of_validateWith hf s size (some b) mmrRoot hlp other left hacc
  have hl : fupLoop s b (nLeaves size) (s.id.posRange size).2
      (familyBranch (s.id.posRange size).2 size) = .ok (h, u) := by
    unfold Segment.firstUnprunedParent at hx
    rw [hroot] at hx
    exact hx
  obtain ⟨hg, hcases⟩ := fupLoop_ok s b (nLeaves size) _ _ h u hl
  rcases hcases with he | ⟨y, hy, hu, hcard⟩
  · refine ⟨h, (s.id.posRange size).2, by rw [hx, he], ?_, Or.inl rfl⟩
    rw [he] at hg; simpa using hg
  · refine ⟨h, y.1, by rw [hx, hu], ?_, Or.inr ⟨⟨y, hy, rfl⟩, rangeCard_zero b _ _ hcard⟩⟩
    rw [hu] at hg; simpa using hg

/-- the same for `validate` (rangeproof segments) -/
theorem pruned_parent_covers_only_spent_validate (hf : HashFn α H) [DecidableEq H] (s : Segment α H)
    (size : Nat) (b : Nat → Bool) (mmrRoot : H)
    (hroot : s.root hf size (some b) = .ok none)
    (hacc : s.validate hf size (some b) mmrRoot = .ok ()) :
    ∃ h a, s.firstUnprunedParent hf size (some b) = .ok (h, 1 + a) ∧ s.getHash a = .ok h ∧
      (a = (s.id.posRange size).2 ∨
        ((∃ x ∈ familyBranch (s.id.posRange size).2 size, x.1 = a) ∧
          ∀ i, (subtreeLeafRange a (nLeaves size)).1 % 2 ^ 32 ≤ i →
            i < (subtreeLeafRange a (nLeaves size)).2 % 2 ^ 32 → b i = false)) := by
  obtain ⟨⟨h, u⟩, hx⟩ := fup_ok_of_validate hf s size (some b) mmrRoot hacc
  have hl : fupLoop s b (nLeaves size) (s.id.posRange size).2
      (familyBranch (s.id.posRange size).2 size) = .ok (h, u) := by
    unfold Segment.firstUnprunedParent at hx
    rw [hroot] at hx
    exact hx
  obtain ⟨hg, hcases⟩ := fupLoop_ok s b (nLeaves size) _ _ h u hl
  rcases hcases with he | ⟨y, hy, hu, hcard⟩
  · refine ⟨h, (s.id.posRange size).2, by rw [hx, he], ?_, Or.inl rfl⟩
    rw [he] at hg; simpa using hg
  · refine ⟨h, y.1, by rw [hx, hu], ?_, Or.inr ⟨⟨y, hy, rfl⟩, rangeCard_zero b _ _ hcard⟩⟩
    rw [hu] at hg; simpa using hg

-- non-vacuity of the hypotheses (a leafless segment with `root = Ok(None)` that `validate_with`
-- accepts through an ancestor 1..6 levels up, peaks included): 12 248 such segments are accepted by
-- the real code and by the model in every `ancestor` run of the harness (bitmap with no bit under the
-- ancestor), and every one of the 61 000 variants with one bit set under the ancestor is refused.

/-! ## The desegmenter's cache never blocks the next required segment

Model: `Seg.Dsg` (per-tree bookkeeping of `chain/src/txhashset/desegmenter.rs`).  `Dsg.At t (some k)`:
the local MMR of the tree ends where segment `k` of the asked height starts (or at the genesis
leaf, `k = 0`); `Dsg.OwnCache t`: every cached segment has the asked height — any indices, in any
order: segments far ahead, duplicates, late duplicates of segments applied long ago.  Since the
repair 11f03601e `add_*_segment` refuses a segment of any other height (`Tree.receive`), so
`OwnCache` is an invariant of every arrival sequence, not a hypothesis about the peers. -/

/-- **apply_progress.**  If the next required segment is cached, `apply_next_segments` applies it —
whatever else is cached, duplicates of applied segments included: the tree asks for exactly
segment `k`, and after the call the local MMR has strictly more leaves, at least up to the end of
segment `k`. -/
theorem apply_progress (t : Dsg.Tree) (k : Nat) (ha : Dsg.At t (some k)) (hown : Dsg.OwnCache t)
    (hc : ∃ c ∈ t.cache, c.idx = k) :
    t.next = some k ∧ t.leaves < (t.step .apply).leaves ∧
      min ((k + 1) * 2 ^ t.h) t.total ≤ (t.step .apply).leaves :=
  ⟨Dsg.next_of_at t k ha, (Dsg.step_apply_progress t k ha hown hc).1,
    (Dsg.step_apply_progress t k ha hown hc).2⟩

/-- **cache_never_blocks.**  By induction over arrival sequences: start from any tree in a regular
state and let *any* sequence of events happen — validated segments of **any height and index**
arriving in any order, any number of times, before or after they were applied (those of another
height are refused, `Tree.receive`), interleaved with any number of `apply_next_segments` calls.
The tree stays in a regular state, never loses leaves, and is then either complete or asks for a
segment `k` such that delivering `k` and applying makes progress. -/
theorem cache_never_blocks (t : Dsg.Tree) (evs : List Dsg.Ev) (hi : Dsg.Inv t) :
    Dsg.Inv (t.run evs) ∧ t.leaves ≤ (t.run evs).leaves ∧
      ((t.run evs).leaves = (t.run evs).total ∨
        ∃ k, (t.run evs).next = some k ∧
          (t.run evs).leaves < (((t.run evs).step (.add ⟨(t.run evs).h, k⟩)).step .apply).leaves) := by
  obtain ⟨i, l, _, _, _⟩ := Dsg.run_inv evs t hi
  refine ⟨i, l, ?_⟩
  by_cases hd : (t.run evs).leaves = (t.run evs).total
  · exact Or.inl hd
  · right
    obtain ⟨_, _, _, _, hprog⟩ := Dsg.deliverNext_spec (t.run evs) i
    have := hprog hd
    unfold Dsg.deliverNext at this
    cases hn : (t.run evs).next with
    | none => rw [hn] at this; exact absurd this (Nat.lt_irrefl _)
    | some k =>
      rw [hn] at this
      refine ⟨k, rfl, ?_⟩
      have e : (t.run evs).step (.add ⟨(t.run evs).h, k⟩) = (t.run evs).add ⟨(t.run evs).h, k⟩ := by
        simp [Dsg.Tree.step, Dsg.Tree.receive]
      rw [e]; exact this

/-- … hence an honest peer that answers every request completes the tree — the bitmap tree for
every chunk count ≥ 1 (one chunk included), the other trees for every leaf count — in at most
`total − leaves` rounds of (deliver what is asked, apply), whatever else arrived before. -/
theorem honest_peer_completes (t : Dsg.Tree) (evs : List Dsg.Ev) (hi : Dsg.Inv t) (n : Nat)
    (hn : t.total - t.leaves ≤ n) :
    (Dsg.rounds n (t.run evs)).leaves = t.total := by
  obtain ⟨i, l, _, ht, _⟩ := Dsg.run_inv evs t hi
  rw [← ht]
  exact Dsg.rounds_complete n (t.run evs) i (by rw [ht]; omega)

/-- A valid segment of a height the desegmenter did not ask for is refused and changes nothing
(`Error::InvalidSegmentHeight`, repair 11f03601e; regression probe
`desegmenter-foreign-height-segment-applied`). -/
theorem foreign_height_segment_refused (t : Dsg.Tree) (id : Ident) (valid : Bool)
    (h : id.height ≠ t.h) : t.receive id valid = (t, false) :=
  Dsg.receive_foreign t id valid h

/-- the fresh bitmap tree is in a regular state for every chunk count ≥ 1 and every asked height:
the hypothesis `Inv` of the theorems above holds at the start of every sync -/
theorem fresh_bitmap_tree_regular (h chunks : Nat) (hc : 1 ≤ chunks) :
    Dsg.Inv ⟨.bitmap, h, chunks, 0, []⟩ :=
  ⟨fun c hc' => (by cases hc'), ⟨some 0, Dsg.At.boundary 0 (by simp) (by simp; omega) (Or.inl rfl)⟩⟩

/-- … and so are the output / rangeproof / kernel trees of a fresh chain (genesis leaf) for every
asked height ≥ 1 and more than one leaf at the archive header -/
theorem fresh_main_tree_regular (fl : Dsg.Flavor) (hfl : fl ≠ .bitmap) (h total : Nat) (hh : 1 ≤ h)
    (ht : 1 < total) : Dsg.Inv ⟨fl, h, total, 1, []⟩ :=
  ⟨fun c hc' => (by cases hc'), ⟨some 0, Dsg.At.genesis hfl rfl hh ht⟩⟩

/-- Non-vacuity: the kernel tree of a fresh chain (genesis leaf, 142 kernels, asked height 1 → 71
segments) is in a regular state; after late duplicates of segments 0 and 1, an early segment 40,
a valid segment of another height with the required idx (refused) and two applies it has 4 leaves
and asks for segment 2. -/
example :
    let t : Dsg.Tree := ⟨.kernel, 1, 142, 1, []⟩
    let evs : List Dsg.Ev := [.add ⟨1, 0⟩, .add ⟨1, 40⟩, .add ⟨3, 0⟩, .add ⟨1, 1⟩, .apply, .add ⟨1, 0⟩,
      .add ⟨2, 2⟩, .add ⟨1, 1⟩, .apply]
    Dsg.Inv t ∧ (t.run evs).leaves = 4 ∧ (t.run evs).next = some 2 ∧
      (t.run evs).cache = [⟨1, 40⟩, ⟨1, 0⟩, ⟨1, 1⟩] :=
  ⟨fresh_main_tree_regular .kernel (by decide) 1 142 (by decide) (by decide), by decide, by decide, by decide⟩

/-- **single_chunk_requested** (repair d6b49984d; before it the request list was empty and the sync
stalled — regression probe `desegmenter-bitmap-segment-never-requested`).  With a one-chunk bitmap
(≤ 1024 outputs at the archive header) and the shipped heights (9, 11, 11, 11) the desegmenter asks
for exactly the bitmap segment (9, 0); once it arrived and two `apply_next_segments` calls ran, the
bitmap is final and the three main trees are asked for.  Kernel-evaluated on the model; the request
lists are compared with the real ones after every step by the `assembly` run.  (Every chunk count:
`honest_peer_completes` with `fresh_bitmap_tree_regular`.) -/
theorem single_chunk_requested :
    let s := Dsg.State.new 9 11 11 11 1 193 142
    s.bitmap.next = some 0 ∧ s.want 15 = [(0, ⟨9, 0⟩)] ∧ s.apply.want 15 = [(0, ⟨9, 0⟩)] ∧
      (let s1 := { s with bitmap := (s.bitmap.receive ⟨9, 0⟩ true).1 }
       s1.want 15 = [] ∧ s1.apply.bitmap.leaves = 1 ∧ s1.apply.apply.bitmapDone = true ∧
         s1.apply.apply.want 15 = [(1, ⟨11, 0⟩), (2, ⟨11, 0⟩), (3, ⟨11, 0⟩)]) := by
  decide +kernel

/-- the same at the start of a sync for every chunk count 1..40 and asked heights 0..3: the first
request is never empty and starts with bitmap segment 0 (bounded sweep, kernel-evaluated — an
illustration of the model, not a theorem about all sizes) -/
example : ∀ chunks ∈ List.range' 1 40, ∀ h ∈ List.range 4,
    ((Dsg.State.new h 11 11 11 chunks 193 142).want 15).head? = some (0, ⟨h, 0⟩) := by
  decide +kernel

/-! ## Soundness: what validation reads is determined by the root -/

/-- **Segment soundness (full segments).**  Fix an MMR size, a bitmap (or none) and a root.
If a full segment `s1` (one that has a root of its own, i.e. is not completely pruned) and any
other segment `s2` with the same identifier are both accepted by `validate`, then they agree on
every leaf (position and data) and every hash (position and value) the reconstruction reads and
on every proof hash it consumes.  Hence: take `s1` = the segment a node produced
(`segment_complete…`); changing any leaf data or position, any hash the reconstruction depends
on, or any consumed proof hash makes validation fail. -/
theorem segment_sound (hf : HashFn α H) [DecidableEq H] (inj : Inj hf) (s1 s2 : Segment α H)
    (hid : s1.id = s2.id) (size : Nat) (bm : Option (Nat → Bool)) (v : FullId s1.id size)
    (mmrRoot r1 : H) (hroot : s1.root hf size bm = .ok (some r1))
    (h1 : s1.validate hf size bm mmrRoot = .ok ()) (h2 : s2.validate hf size bm mmrRoot = .ok ()) :
    segReads hf s1 size bm = segReads hf s2 size bm ∧
    s1.proof.take (proofLen s1.id size) = s2.proof.take (proofLen s1.id size) :=
  validate_inj hf inj s1 s2 hid size bm (wellFormed_full s1.id size v) mmrRoot r1 hroot h1 h2

/-- the same for `validate_with` (output MMR: the PMMR root is hashed once more with the bitmap
root; bitmap MMR: with the output PMMR root) -/
theorem segment_sound_with (hf : HashFn α H) [DecidableEq H] (inj : Inj hf) (s1 s2 : Segment α H)
    (hid : s1.id = s2.id) (size : Nat) (bm : Option (Nat → Bool)) (v : FullId s1.id size)
    (mmrRoot r1 : H) (hlp : Nat) (other : H) (left : Bool)
    (hroot : s1.root hf size bm = .ok (some r1))
    (h1 : s1.validateWith hf size bm mmrRoot hlp other left = .ok ())
    (h2 : s2.validateWith hf size bm mmrRoot hlp other left = .ok ()) :
    segReads hf s1 size bm = segReads hf s2 size bm ∧
    s1.proof.take (proofLen s1.id size) = s2.proof.take (proofLen s1.id size) :=
  validateWith_inj hf inj s1 s2 hid size bm (wellFormed_full s1.id size v) mmrRoot r1 hlp other left
    hroot h1 h2

/-- Contrapositive, the form the property is phrased in: once one segment is accepted, a segment
with the same identifier that differs in anything read (or in a consumed proof hash) is rejected. -/
theorem tampered_segment_rejected (hf : HashFn α H) [DecidableEq H] (inj : Inj hf)
    (s1 s2 : Segment α H) (hid : s1.id = s2.id) (size : Nat) (bm : Option (Nat → Bool))
    (v : FullId s1.id size) (mmrRoot r1 : H) (hroot : s1.root hf size bm = .ok (some r1))
    (h1 : s1.validate hf size bm mmrRoot = .ok ())
    (hdiff : segReads hf s1 size bm ≠ segReads hf s2 size bm ∨
      s1.proof.take (proofLen s1.id size) ≠ s2.proof.take (proofLen s1.id size)) :
    s2.validate hf size bm mmrRoot ≠ .ok () := by
  intro h2
  obtain ⟨a, b⟩ := segment_sound hf inj s1 s2 hid size bm v mmrRoot r1 hroot h1 h2
  rcases hdiff with h | h
  · exact h a
  · exact h b

/-- **Soundness for any identifier whose range is a well-formed post-order range**
(`WellFormedRange`: the loop of `root` leaves exactly the entries the end of `root` consumes —
a fact about `(id, size)` alone, proven for full segments by `wellFormed_full`).
Full statement intended: for *every* identifier with a non-empty range, i.e. also the final,
not full segment.  Missing for that: the decomposition of the final range `[first, size-1]` into
the subtrees of the peaks it contains (peaks arithmetic).  Named gap: `final_segment_range`. -/
theorem segment_sound_partial (hf : HashFn α H) [DecidableEq H] (inj : Inj hf) (s1 s2 : Segment α H)
    (hid : s1.id = s2.id) (size : Nat) (bm : Option (Nat → Bool)) (wf : WellFormedRange s1.id size)
    (mmrRoot r1 : H) (hroot : s1.root hf size bm = .ok (some r1))
    (h1 : s1.validate hf size bm mmrRoot = .ok ()) (h2 : s2.validate hf size bm mmrRoot = .ok ()) :
    segReads hf s1 size bm = segReads hf s2 size bm ∧
    s1.proof.take (proofLen s1.id size) = s2.proof.take (proofLen s1.id size) :=
  validate_inj hf inj s1 s2 hid size bm wf mmrRoot r1 hroot h1 h2

/-- Completely pruned segments carry one hash, their first unpruned parent.  If two accepted
ones carry it at the same position, the hash and the consumed proof hashes are equal.
(Two accepted segments may carry it at *different* levels of the branch; then one hash is the
other hashed with proof hashes — not an elementwise equality; not stated.) -/
theorem segment_sound_pruned (hf : HashFn α H) [DecidableEq H] (inj : Inj hf) (s1 s2 : Segment α H)
    (hid : s1.id = s2.id) (size : Nat) (bm : Option (Nat → Bool)) (mmrRoot p1 p2 : H) (u : Nat)
    (f1 : s1.firstUnprunedParent hf size bm = .ok (p1, u))
    (f2 : s2.firstUnprunedParent hf size bm = .ok (p2, u))
    (h1 : s1.validate hf size bm mmrRoot = .ok ()) (h2 : s2.validate hf size bm mmrRoot = .ok ()) :
    p1 = p2 ∧
    s1.proof.take (consumed size (s1.id.posRange size).1 (s1.id.posRange size).2 u) =
      s2.proof.take (consumed size (s1.id.posRange size).1 (s1.id.posRange size).2 u) :=
  validate_inj_pruned hf inj s1 s2 hid size bm mmrRoot p1 p2 u f1 f2 h1 h2

/-! ## A leaf the bitmap marks unspent cannot be omitted -/

/-- the bitmap marking a leaf (or its sibling) makes its data required -/
theorem required_of_marked (b : Nat → Bool) (size pos0 : Nat)
    (h : b ((nLeaves (pos0 + 1) - 1) % 2 ^ 32) = true) : required (some b) size pos0 = true := by
  simp [required, h]

/-- with no bitmap (kernel MMR, bitmap MMR) every leaf is required -/
theorem required_no_bitmap (size pos0 : Nat) : required none size pos0 = true := rfl

/-- **Every required leaf of the range must be present**: if `validate` accepts, then for every
leaf position of the segment's range whose data is required (no bitmap; or the bitmap marks the
leaf or its sibling unspent; or it is the last position of the MMR) the segment holds an entry
`(pos, data)` in its leaf list, and that entry is what was hashed.  (Any identifier, any size.) -/
theorem unspent_leaf_must_be_present (hf : HashFn α H) [DecidableEq H] (s : Segment α H) (size : Nat)
    (bm : Option (Nat → Bool)) (mmrRoot : H) (h : s.validate hf size bm mmrRoot = .ok ())
    (p : Nat) (hp : p ∈ s.id.positions size) (hleaf : height p = 0)
    (hreq : required bm size p = true) :
    ∃ x, (p, x) ∈ s.leafPos.zip s.leafData ∧ Ev.leaf p x ∈ segReads hf s size bm := by
  obtain ⟨x0, hx0⟩ := fup_ok_of_validate hf s size bm mmrRoot h
  obtain ⟨o, ho⟩ := root_ok_of_fup_ok hf s size bm x0 hx0
  unfold Segment.root at ho
  unfold segReads
  exact rootWith_required hf s bm size _ _ _ o ho p hp hleaf hreq

/-! ## Redundant extra hashes are not rejected -/

/-- Hashes appended to the proof after the ones `reconstruct_root` consumes are ignored:
an accepted segment stays accepted (matches the caveat in the property text; such segments are
covered by the final-state clause, `never_finalise_wrong_roots`). -/
theorem redundant_proof_hashes_not_rejected (hf : HashFn α H) [DecidableEq H] (s : Segment α H)
    (extra : List H) (size : Nat) (bm : Option (Nat → Bool)) (mmrRoot : H)
    (h : s.validate hf size bm mmrRoot = .ok ()) :
    Segment.validate hf { s with proof := s.proof ++ extra } size bm mmrRoot = .ok () :=
  validate_extra_proof_hashes hf s extra size bm mmrRoot h

/-! ## Completeness

Full statement intended (`segment_complete`):

    theorem segment_complete (d : List α) (hs : List H) (hpush : pushAll hf [] d = some hs)
        (r : H) (hroot : Pmmr.root hf hs = .ok r) (id : Ident)
        (hne : id.unprunedSize hs.length ≠ 0) (hsmall : d.length < 2 ^ 62) (hh : id.height < 64) :
        ∃ s, fromPmmr hf (vecView hs d) id false = .ok s ∧ s.validate hf hs.length none r = .ok ()

(and its prunable variant over any view in which the data of every leaf the bitmap requires and
the hash of every maximal pruned subtree are on file).  Not proven.  What is missing:
(a) the node law of the hash vector `pushAll` builds (every parent is the hash of its children) —
`pushLoop` invariant; (b) `fromPmmr` over `vecView` yields the leaf list `leavesOf …`;
(c) the Merkle-path part: `reconstructRoot (generate …)` re-bags to `Pmmr.root` (family-branch and
peaks arithmetic); (d) the final, not full segment.  Proven below: the segment-root part for
full unpruned segments, relative to (a) as an explicit hypothesis.  Completeness is otherwise
established by the correspondence run on the real code (every size ≤ 150/300 × heights 0..4 ×
all indices × prune states: honest segment accepted). -/

/-- **Completeness of the segment root (full, unpruned segment), relative to the node law**:
if `hsAt` satisfies the MMR node law (leaf hash = hash of the leaf data, parent hash = hash of
its two children — what `PMMR::validate` checks of the committed MMR) and the segment carries
the data of every leaf of its range, then `Segment::root` returns the committed hash at the
segment's last position.  Named gap to `segment_complete`: (a)–(d) above. -/
theorem segment_complete_partial (hf : HashFn α H) (s : Segment α H) (size : Nat)
    (hsAt : Nat → H) (dataAt : Nat → α)
    (leafLaw : ∀ q, height q = 0 → hsAt q = hf.leaf q (dataAt q))
    (nodeLaw : ∀ q k, height q = k + 1 → hsAt q = hf.node q (hsAt (q - 2 ^ (k + 1))) (hsAt (q - 1)))
    (v : FullId s.id size) (rest : List (Nat × α))
    (hleaves : s.leafPos.zip s.leafData = leavesOf dataAt (s.id.positions size) ++ rest) :
    s.root hf size none = .ok (some (hsAt (lastOf s.id))) :=
  root_complete_full hf s size hsAt dataAt leafLaw nodeLaw v rest hleaves

/-- … and then every segment with the same identifier that has the same root carries exactly
that leaf data: soundness of the segment root against the committed MMR. -/
theorem segment_root_binds_leaves (hf : HashFn α H) (inj : Inj hf) (s0 s : Segment α H)
    (hid : s0.id = s.id) (size : Nat) (hsAt : Nat → H) (dataAt : Nat → α)
    (leafLaw : ∀ q, height q = 0 → hsAt q = hf.leaf q (dataAt q))
    (nodeLaw : ∀ q k, height q = k + 1 → hsAt q = hf.node q (hsAt (q - 2 ^ (k + 1))) (hsAt (q - 1)))
    (v : FullId s0.id size) (rest : List (Nat × α))
    (hleaves : s0.leafPos.zip s0.leafData = leavesOf dataAt (s0.id.positions size) ++ rest)
    (hs : s.root hf size none = .ok (some (hsAt (lastOf s0.id)))) :
    segReads hf s0 size none = segReads hf s size none :=
  (root_inj hf inj s0 s hid size none (wellFormed_full s0.id size v) _ _
    (root_complete_full hf s0 size hsAt dataAt leafLaw nodeLaw v rest hleaves) hs).2 rfl

/-! ## Identifier arithmetic of full segments -/

/-- For a full segment (`height < 64`, the block of `2^height` leaves inside the MMR, leaf count
below `2^62`) the wrapped u64 arithmetic of `segment_pos_range` is exact: the range is the
post-order range of the subtree of height `height` above leaves `idx·2^height …`, and its last
position has exactly that height. -/
theorem full_segment_range (id : Ident) (size : Nat) (v : FullId id size) :
    id.full size = true ∧
    id.posRange size = (mmr (id.idx * 2 ^ id.height), lastOf id) ∧
    id.positions size = treeRange id.height (lastOf id) ∧
    height (lastOf id) = id.height ∧
    (id.positions size).length = 2 ^ (id.height + 1) - 1 := by
  obtain ⟨_, _, hf, hr⟩ := full_arith id size v
  refine ⟨hf, hr, full_positions id size v, height_lastOf id, ?_⟩
  rw [full_positions id size v]
  simp [treeRange]

/-- the loop of `Segment::root` over a full segment's range never runs the stack empty and leaves
exactly one entry (its subtree root) -/
theorem full_segment_well_formed (id : Ident) (size : Nat) (v : FullId id size) :
    WellFormedRange id size := wellFormed_full id size v

/-! ## The expected size of the bitmap MMR (`Desegmenter::calc_bitmap_mmr_sizes`) -/

/-- For every leaf count `n ≥ 1` the last peak of the MMR with `n` leaves is its last position,
so `1 + peaks(insertion_to_pmmr_index(n)).last()` (the expression used before the repair
769a13f24, which panicked for `n = 1` through its eagerly evaluated fallback) equals
`insertion_to_pmmr_index(n)` (the repaired expression). -/
theorem bitmap_mmr_size_expression (n : Nat) (hn : 1 ≤ n) :
    (peaks (insertionToPmmrIndex n)).getLast?.map (1 + ·) = some (insertionToPmmrIndex n) :=
  one_add_last_peak n hn

-- non-vacuity: one chunk (n = 1): the MMR of size 1 has the single peak 0
example : (peaks 1).getLast?.map (1 + ·) = some 1 := by
  have := bitmap_mmr_size_expression 1 (Nat.le_refl 1)
  have e : insertionToPmmrIndex 1 = 1 := by simp [insertionToPmmrIndex, mmr, popcount]
  rw [e] at this; exact this

-- non-vacuity: segment (height 1, idx 1) of a 7-leaf MMR (size 11) is full; its range is 3..=5
example : FullId ⟨1, 1⟩ 11 := by
  have h : nLeaves 11 = 7 := by
    have := GV.Props.C07.nLeaves_at_leaf_boundary 7
    have e : mmr 7 = 11 := by simp [mmr, popcount]
    rw [e] at this; exact this
  exact ⟨by show 1 < 64; omega, by rw [h]; show (1 + 1) * 2 ^ 1 ≤ 7; omega, by rw [h]; omega⟩

end GV.Props.C16
