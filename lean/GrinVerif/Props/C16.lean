import GrinVerif.Model.Seg
/-! # C16 — state segments are sound; state sync never finalises other roots

Property theorems only (helper lemmas live in `Lemmas/Seg*.lean`). -/
namespace GV.Props.C16
open GV GV.Pmmr GV.Seg

variable {H : Type} [DecidableEq H]

/-- `validate_complete_state` finalises (commits the new body head) only when the roots of the
assembled txhashset equal the roots of the archive header — whatever segments were applied and
whatever the later validations say. -/
theorem never_finalise_wrong_roots (assembled hdr : Roots H) (full stopped : Bool)
    (h : validateCompleteState assembled hdr full stopped = .finalised) :
    assembled = hdr := by
  unfold validateCompleteState at h
  by_cases hr : rootsValidate assembled hdr = true
  · simp only [rootsValidate, Bool.and_eq_true, decide_eq_true_eq] at hr
    cases assembled; cases hdr; simp_all
  · simp [hr] at h

/-- … and then only if the full validation succeeded and the node was not stopped. -/
theorem finalise_iff (assembled hdr : Roots H) (full stopped : Bool) :
    validateCompleteState assembled hdr full stopped = .finalised ↔
      assembled = hdr ∧ full = true ∧ stopped = false := by
  constructor
  · intro h
    refine ⟨never_finalise_wrong_roots _ _ _ _ h, ?_, ?_⟩
    · unfold validateCompleteState at h; revert h; cases full <;> cases stopped <;> cases rootsValidate assembled hdr <;> simp
    · unfold validateCompleteState at h; revert h; cases full <;> cases stopped <;> cases rootsValidate assembled hdr <;> simp
  · rintro ⟨rfl, rfl, rfl⟩
    simp [validateCompleteState, rootsValidate]

-- non-vacuity: equal roots + successful validation finalise; a differing kernel root never does
example : validateCompleteState (⟨1, 2, 3⟩ : Roots Nat) ⟨1, 2, 3⟩ true false = .finalised := by decide
example : validateCompleteState (⟨1, 2, 3⟩ : Roots Nat) ⟨1, 2, 4⟩ true false = .invalidRoot := by decide

end GV.Props.C16
