import GrinVerif.Lemmas.KeysSig
/-! # C20 — signatures and the master-key mask

Theorems about `Model/KeysSig.lean`: the linear algebra of the multi-party kernel signature in the
exponent (what `calculate_partial_sig` / `add_signatures` / `verify_partial_sig` /
`verify_completed_sig` rely on), and `mask_master_key` as an involution.  That the real
secp256k1-zkp functions satisfy these equations is sampled by the `sigs` run (trusted base). -/
namespace GV.Props.C20
open GV GV.Keys List

/-- a signer's partial signature satisfies the verification equation under the signer's own key and
nonce — whatever the challenge -/
theorem partial_sig_verifies (e x k : Nat) : sigVerifies e (partialSig e x k) k x = true := by
  simp [sigVerifies, partialSig]

/-- **the completed signature verifies under the summed key and the summed nonce**: for any number
of signers with any keys and nonces and any shared challenge, `add_signatures` of all partial
signatures satisfies `s·G = R_sum + e·P_sum`. -/
theorem completed_sig_verifies (e : Nat) (signers : List (Nat × Nat)) :
    sigVerifies e (addSignatures (partialSigs e signers)) (signers.map (·.2)).sum (signers.map (·.1)).sum = true := by
  simp only [sigVerifies, addSignatures, Nat.mod_mod, beq_iff_eq]
  exact sum_partials e signers

/-- **the order in which the partial signatures are added does not matter** -/
theorem add_signatures_perm {a b : List Nat} (p : a ~ b) : addSignatures a = addSignatures b := by
  simp [addSignatures, p.sum_nat]

/-- **a missing partial signature is noticed**: leaving out one signer's part (first in the list)
makes the sum fail the equation for the full signer set, unless that part is ≡ 0. -/
theorem missing_partial_fails (e : Nat) (s : Nat × Nat) (rest : List (Nat × Nat))
    (h : partialSig e s.1 s.2 ≠ 0) :
    sigVerifies e (addSignatures (partialSigs e rest)) ((s :: rest).map (·.2)).sum ((s :: rest).map (·.1)).sum = false := by
  have full := sum_partials e (s :: rest)
  simp only [sigVerifies, addSignatures, Nat.mod_mod]
  cases hb : ((partialSigs e rest).sum % N == (((s :: rest).map (·.2)).sum + e * ((s :: rest).map (·.1)).sum) % N)
  · rfl
  · exfalso
    have hb' : (partialSigs e rest).sum % N = (((s :: rest).map (·.2)).sum + e * ((s :: rest).map (·.1)).sum) % N :=
      beq_iff_eq.1 hb
    rw [← full] at hb'
    have hlt : partialSig e s.1 s.2 < N := Nat.mod_lt _ Npos
    have : (partialSigs e (s :: rest)).sum = partialSig e s.1 s.2 + (partialSigs e rest).sum := by
      simp [partialSigs]
    rw [this] at hb'
    exact add_mod_ne (Nat.pos_of_ne_zero h) hlt hb'.symm

/-- non-vacuity: two signers, challenge 7 -/
example : sigVerifies 7 (addSignatures (partialSigs 7 [(3, 11), (5, 13)])) (11 + 13) (3 + 5) = true := by decide
example : sigVerifies 7 (addSignatures (partialSigs 7 [(5, 13)])) (11 + 13) (3 + 5) = false := by decide

/-- **masking the master key twice with the same mask restores it** (any byte strings of equal
length; bytes below 256 not even needed) -/
theorem mask_twice_restores : ∀ (master mask : List Nat), master.length = mask.length →
    maskMasterKey (maskMasterKey master mask) mask = master
  | [], [], _ => rfl
  | a :: as, b :: bs, h => by
    have ih := mask_twice_restores as bs (by simpa using h)
    simp only [maskMasterKey, zipWith_cons_cons] at ih ⊢
    rw [ih, Nat.xor_assoc, Nat.xor_self, Nat.xor_zero]
  | [], _ :: _, h => by simp at h
  | _ :: _, [], h => by simp at h

/-- the mask keeps the length (32 bytes stay 32 bytes) -/
theorem mask_length (master mask : List Nat) (h : master.length = mask.length) :
    (maskMasterKey master mask).length = master.length := by
  simp [maskMasterKey, h]

example : maskMasterKey [0x12, 0xff, 0] [0xf0, 0x0f, 7] = [0xe2, 0xf0, 7] := by decide

end GV.Props.C20
