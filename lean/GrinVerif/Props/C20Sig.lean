import GrinVerif.Lemmas.KeysSig
/-! # C20 — signatures and the master-key mask

Theorems about `Model/KeysSig.lean`: the linear algebra of the multi-party kernel signature in the
exponent (what `calculate_partial_sig` / `add_signatures` / `verify_partial_sig` /
`verify_completed_sig` rely on), and `mask_master_key` as an involution.  That the real
secp256k1-zkp functions satisfy these equations is sampled by the `sigs` run (trusted base). -/
namespace GV.Props.C20
open GV GV.Keys List

/-- a signer's partial signature satisfies the verification equation under the signer's own key and
nonce — whatever the challenge -/
theorem partial_sig_verifies (e x k : Nat) : sigVerifies e (partialSig e x k) k x = true := by
  simp [sigVerifies, partialSig]

/-- **the completed signature verifies under the summed key and the summed nonce**: for any number
of signers with any keys and nonces and any shared challenge, `add_signatures` of all partial
signatures satisfies `s·G = R_sum + e·P_sum`. -/
theorem completed_sig_verifies (e : Nat) (signers : List (Nat × Nat)) :
    sigVerifies e (addSignatures (partialSigs e signers)) (signers.map (·.2)).sum (signers.map (·.1)).sum = true := by
  simp only [sigVerifies, addSignatures, Nat.mod_mod, beq_iff_eq]
  exact sum_partials e signers

/-- **the order in which the partial signatures are added does not matter** -/
theorem add_signatures_perm {a b : List Nat} (p : a ~ b) : addSignatures a = addSignatures b := by
  simp [addSignatures, p.sum_nat]

/-- **a missing partial signature is noticed**: leaving out one signer's part (first in the list)
makes the sum fail the equation for the full signer set, unless that part is ≡ 0. -/
theorem missing_partial_fails (e : Nat) (s : Nat × Nat) (rest : List (Nat × Nat))
    (h : partialSig e s.1 s.2 ≠ 0) :
    sigVerifies e (addSignatures (partialSigs e rest)) ((s :: rest).map (·.2)).sum ((s :: rest).map (·.1)).sum = false := by
  have full := sum_partials e (s :: rest)
  simp only [sigVerifies, addSignatures, Nat.mod_mod]
  cases hb : ((partialSigs e rest).sum % N == (((s :: rest).map (·.2)).sum + e * ((s :: rest).map (·.1)).sum) % N)
  · rfl
  · exfalso
    have hb' : (partialSigs e rest).sum % N = (((s :: rest).map (·.2)).sum + e * ((s :: rest).map (·.1)).sum) % N :=
      beq_iff_eq.1 hb
    rw [← full] at hb'
    have hlt : partialSig e s.1 s.2 < N := Nat.mod_lt _ Npos
    have : (partialSigs e (s :: rest)).sum = partialSig e s.1 s.2 + (partialSigs e rest).sum := by
      simp [partialSigs]
    rw [this] at hb'
    exact add_mod_ne (Nat.pos_of_ne_zero h) hlt hb'.symm

/-- non-vacuity: two signers, challenge 7 -/
example : sigVerifies 7 (addSignatures (partialSigs 7 [(3, 11), (5, 13)])) (11 + 13) (3 + 5) = true := by decide
example : sigVerifies 7 (addSignatures (partialSigs 7 [(5, 13)])) (11 + 13) (3 + 5) = false := by decide

/-- scalar subtraction mod n undoes addition -/
theorem sub_add_cancel_mod (p S : Nat) : subtractSignature ((p + S) % N) p = S % N := by
  unfold subtractSignature
  have hN : 0 < N := Npos
  have hp : p % N < N := Nat.mod_lt _ hN
  rw [Nat.mod_mod]
  by_cases h0 : p % N = 0
  · have e1 : (p + S) % N = S % N := by rw [Nat.add_mod, h0, Nat.zero_add, Nat.mod_mod]
    rw [h0, e1, Nat.sub_zero, Nat.mod_self, Nat.add_zero, Nat.mod_mod]
  · rw [Nat.mod_eq_of_lt (show N - p % N < N by omega)]
    have e : ((p + S) % N + (N - p % N)) % N = ((p + S) + (N - p % N)) % N := by
      rw [Nat.mod_add_mod]
    rw [e]
    have d : p = N * (p / N) + p % N := (Nat.div_add_mod p N).symm
    have e2 : p + S + (N - p % N) = S + N * (p / N + 1) := by
      rw [Nat.mul_add, Nat.mul_one]; omega
    rw [e2, Nat.add_mul_mod_self_left]

/-- **`subtract_signature` undoes `add_signatures`**: taking one signer's partial signature out of
the completed signature leaves exactly the sum of the other partial signatures — any number of
signers, any keys, nonces and challenge. -/
theorem subtract_inverts_add (p : Nat) (rest : List Nat) :
    subtractSignature (addSignatures (p :: rest)) p = addSignatures rest := by
  simp only [addSignatures, sum_cons]
  exact sub_add_cancel_mod p rest.sum

/-- … and adding it back restores the completed signature -/
theorem subtract_then_add_restores (p : Nat) (rest : List Nat) :
    addSignatures [subtractSignature (addSignatures (p :: rest)) p, p] = addSignatures (p :: rest) := by
  rw [subtract_inverts_add]
  simp only [addSignatures, sum_cons, sum_nil, Nat.add_zero]
  rw [Nat.mod_add_mod, Nat.add_comm]

/-- **what is left after subtracting signer `s` verifies as the joint partial signature of the other
signers**: `(completed − partial_s)·G = R_rest + e·P_rest` with the summed keys and nonces of the
rest. -/
theorem subtracted_sig_verifies (e : Nat) (s : Nat × Nat) (rest : List (Nat × Nat)) :
    sigVerifies e (subtractSignature (addSignatures (partialSigs e (s :: rest))) (partialSig e s.1 s.2))
      (rest.map (·.2)).sum (rest.map (·.1)).sum = true := by
  have h : partialSigs e (s :: rest) = partialSig e s.1 s.2 :: partialSigs e rest := by simp [partialSigs]
  rw [h, subtract_inverts_add]
  exact completed_sig_verifies e rest

/-- … and it does NOT verify under the subtracted signer's own key and nonce unless it happens to
coincide with that signer's partial signature mod n (two signers: `k₂ + e·x₂ ≡ k₁ + e·x₁`). -/
theorem subtracted_sig_other_signer (e : Nat) (s t : Nat × Nat)
    (h : partialSig e t.1 t.2 ≠ partialSig e s.1 s.2) :
    sigVerifies e (subtractSignature (addSignatures (partialSigs e [s, t])) (partialSig e s.1 s.2)) s.2 s.1 = false := by
  have h2 : partialSigs e [s, t] = partialSig e s.1 s.2 :: [partialSig e t.1 t.2] := by simp [partialSigs]
  rw [h2, subtract_inverts_add]
  simp only [addSignatures, sum_cons, sum_nil, Nat.add_zero, sigVerifies, Nat.mod_mod]
  have ht : partialSig e t.1 t.2 % N = partialSig e t.1 t.2 := Nat.mod_eq_of_lt (Nat.mod_lt _ Npos)
  rw [ht]
  cases hb : (partialSig e t.1 t.2 == (s.2 + e * s.1) % N)
  · rfl
  · exact absurd (beq_iff_eq.1 hb) (by simpa [partialSig] using h)

example : subtractSignature (addSignatures (partialSigs 7 [(3, 11), (5, 13)])) (partialSig 7 3 11) = partialSig 7 5 13 := by decide
example : sigVerifies 7 (subtractSignature (addSignatures (partialSigs 7 [(3, 11), (5, 13), (9, 2)])) (partialSig 7 3 11))
    (13 + 2) (5 + 9) = true := by decide

/-- **exactly when `ExtKeychain::sign_with_blinding` panics**: iff the blinding factor is the
all-zero one; it is an `Err` iff the 32 bytes are no scalar (≥ n), and signs otherwise — the panic
is an explicit outcome of the model, compared on the real code (`signb` lines).  (An observation
about the code, not a violation of C20: the builder never signs with the zero factor.) -/
theorem sign_with_blinding_outcomes (b : Nat) :
    (ksignBlinding b = .panic ↔ b = 0) ∧ (ksignBlinding b = .err ↔ N ≤ b) ∧
    (ksignBlinding b = .ok () ↔ 0 < b ∧ b < N) := by
  unfold ksignBlinding bfSecretKey
  by_cases h0 : b = 0
  · subst h0; simp [N]
  · by_cases h1 : b < N
    · simp [h0, h1]; omega
    · simp [h0, h1]; omega

/-- `aggsig::sign_with_blinding` never panics: `Err` iff the bytes are no scalar, the zero factor signs -/
theorem aggsig_sign_with_blinding_outcomes (b : Nat) :
    aggsigSignBlinding b ≠ .panic ∧ (aggsigSignBlinding b = .err ↔ N ≤ b) := by
  unfold aggsigSignBlinding bfSecretKey
  by_cases h0 : b = 0
  · subst h0; simp [N]
  · by_cases h1 : b < N
    · simp [h0, h1]
    · simp [h0, h1]; omega

example : ksignBlinding 0 = .panic ∧ ksignBlinding 1 = .ok () ∧ ksignBlinding N = .err := by
  refine ⟨(sign_with_blinding_outcomes 0).1.2 rfl, (sign_with_blinding_outcomes 1).2.2.2 (by decide),
    (sign_with_blinding_outcomes N).2.1.2 (Nat.le_refl _)⟩

/-- **masking the master key twice with the same mask restores it** (any byte strings of equal
length; bytes below 256 not even needed) -/
theorem mask_twice_restores : ∀ (master mask : List Nat), master.length = mask.length →
    maskMasterKey (maskMasterKey master mask) mask = master
  | [], [], _ => rfl
  | a :: as, b :: bs, h => by
    have ih := mask_twice_restores as bs (by simpa using h)
    simp only [maskMasterKey, zipWith_cons_cons] at ih ⊢
    rw [ih, Nat.xor_assoc, Nat.xor_self, Nat.xor_zero]
  | [], _ :: _, h => by simp at h
  | _ :: _, [], h => by simp at h

/-- the mask keeps the length (32 bytes stay 32 bytes) -/
theorem mask_length (master mask : List Nat) (h : master.length = mask.length) :
    (maskMasterKey master mask).length = master.length := by
  simp [maskMasterKey, h]

example : maskMasterKey [0x12, 0xff, 0] [0xf0, 0x0f, 7] = [0xe2, 0xf0, 7] := by decide

end GV.Props.C20
