import GrinVerif.Gen.PipeShapeChain
import GrinVerif.Props.XlateShapeLib
import GrinVerif.Model.ConsNet
/-! # C04 — the header-side "already known" exits: regenerated shape of `pipe::process_block_header`
= the order of the hand model `Cons.nodeProcessBlockHeader`

(The current source has no `check_header_known`; the header-side known tests are the two early `Ok`s
of `process_block_header`: `check_known(header, &head, ctx).is_err()` — `check_known_head`, then
`check_known_store` under the work condition — and "hash already in the header store with no more
work than `header_head`".)  Decided obligations on `Gen/PipeShapeChain.lean` (regenerated from
`chain/src/pipe.rs` on every run) and the matching statements about the model, for all inputs. -/
namespace GV.Props.C04Shape
open GV GV.Cons GV.Gen.PipeShape GV.Props.XlateShape

theorem shapes_read : readOk pipe_process_block_header = true ∧ readOk pipe_check_known_head = true := by decide

/-- (a) both known tests precede `validate_header`, which precedes every header-MMR / store step:
the error spine of `process_block_header`, in order -/
theorem process_block_header_spine :
    spine pipe_process_block_header =
      ["head", "get_previous_header", "header_head", "validate_header",
       "rewind_and_apply_header_fork", "validate_root", "apply_header", "header_extending",
       "add_block_header", "update_header_head"] := by decide

/-- (b) exactly two early `Ok(())` exits, under exactly these conditions, in this order -/
theorem process_block_header_early_oks :
    earlyOks pipe_process_block_header =
      [["check_known($0, &$2, $1).is_err()"],
       ["$1.batch.get_block_header(&$0.hash()) ~ Ok(_)", "!(has_more_work(&$5, &$4))"]] := by decide

/-- the first known test comes after nothing but the read of `head` -/
theorem first_known_test_position : spineBeforeFirstEarlyOk pipe_process_block_header = ["head"] := by decide

/-- (c) nothing is written before the second known test either: the steps in front of it are the
three store READS and the first early exit; `validate_header` and every writing step
(`apply_header`, `add_block_header`, `update_header_head`) come after it -/
theorem nothing_written_before_known_tests :
    ((pipe_process_block_header.steps.takeWhile
        (fun s => !(s.kind == .okEarly && s.guard.length == 2))).map (·.name)) =
      ["head", "", "get_previous_header", "header_head"] ∧
    (["validate_header", "apply_header", "add_block_header", "update_header_head", "header_extending"].all
      fun w => !((pipe_process_block_header.steps.takeWhile
        (fun s => !(s.kind == .okEarly && s.guard.length == 2))).map (·.name)).contains w) = true := by
  decide

/-- `check_known_head`: one explicit error, `Unfit`, under "hash is the head's or the head's parent's" -/
theorem check_known_head_shape :
    fails pipe_check_known_head = [("Unfit", "(($2 == $1.last_block_h) || ($2 == $1.prev_block_h))")] ∧
    spine pipe_check_known_head = ["Unfit"] := by decide

/-! ### the model exits the same way, for every node state -/

/-- first early exit: a header `check_known` refuses is answered `Ok` and the node is unchanged -/
theorem model_known_exits_ok_unchanged (n : HNode) (opts : Opts) (f : FHdr) (e : NErr)
    (h : checkKnown n f = .error e) : nodeProcessBlockHeader n opts f = .ok n := by
  unfold nodeProcessBlockHeader; rw [h]

/-- between the two exits only the parent lookup can fail (`get_previous_header`: `Orphan`) -/
theorem model_orphan_between_exits (n : HNode) (opts : Opts) (f : FHdr)
    (h : checkKnown n f = .ok ()) (hp : getHdr n.hdrs f.prevHash = none) :
    nodeProcessBlockHeader n opts f = .error (.hdr .Orphan) := by
  unfold nodeProcessBlockHeader; rw [h, hp]

/-- second early exit: a header whose hash is stored with no more work than `header_head` is
answered `Ok`, node unchanged, WITHOUT `validate_header` — whatever the delivered copy's fields -/
theorem model_stored_exits_ok_unchanged (n : HNode) (opts : Opts) (f prev ex : FHdr)
    (h : checkKnown n f = .ok ()) (hp : getHdr n.hdrs f.prevHash = some prev)
    (hs : getHdr n.hdrs f.hash = some ex) (hw : ¬ ex.h.totalDiff > n.headerHead.totalDiff) :
    nodeProcessBlockHeader n opts f = .ok n := by
  unfold nodeProcessBlockHeader; rw [h, hp, hs]; simp only; rw [if_neg hw]

/-- otherwise the header goes through validation and application (`pbhApply`) -/
theorem model_otherwise_validates (n : HNode) (opts : Opts) (f prev : FHdr)
    (h : checkKnown n f = .ok ()) (hp : getHdr n.hdrs f.prevHash = some prev)
    (hs : getHdr n.hdrs f.hash = none) :
    nodeProcessBlockHeader n opts f = pbhApply n opts f prev := by
  unfold nodeProcessBlockHeader; rw [h, hp, hs]

end GV.Props.C04Shape
