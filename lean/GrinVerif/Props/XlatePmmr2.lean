import GrinVerif.Model.Pmmr
import GrinVerif.Gen.FnsPmmr
import GrinVerif.Lemmas.XlatePmmr2
import GrinVerif.Props.XlatePmmr
/-! # Translated `peaks`, `bintree_leaf_pos_iter`, `bintree_pos_iter` of `core/src/core/pmmr/pmmr.rs`
= hand-written model (`Model/Pmmr.lean`)

Continuation of `Props/XlatePmmr.lean` for the three iterator-based functions of `pmmr.rs` that
`tools/rs2lean.py` translates since it knows `Iterator::scan / map / collect` and inclusive ranges
(`Gen/FnsPmmr.lean`: `Fns.peaks` with `Fns.peaks_closure1` and `scanOpt` of `Gen/FnsPrelude.lean`,
`Fns.bintree_leaf_pos_iter`, `Fns.bintree_pos_iter`; an iterator is the `List` of the items it yields).
Same reading as there: the generated definitions have release-build u64 semantics, the model is on
unbounded `Nat`; each `_eq` theorem is for every input of the stated range, each `_ok` theorem says the
Rust function returns normally there. -/

namespace GV.Props.XlatePmmr2
open GV GV.Pmmr GV.Pmmr.Co GV.Xlate GV.Xlate2
open GV.Gen
open GV.Props.XlatePmmr

/-! ## `peaks` -/

/-- `peaks(size)` for every u64 `size`: the peak sizes are positive and add up to at most `size`,
so neither `*acc += x` nor `x - 1` wraps -/
theorem peaks_eq (size : Nat) (h : size < 2^64) : Fns.peaks size = Pmmr.peaks size := by
  unfold Fns.peaks Pmmr.peaks
  rw [peak_sizes_height_eq size h]
  have hs := peakSizesHeight_sum size
  by_cases hz : (peakSizesHeight size).2 = 0
  · simp only [hz, beq_self_eq_true, if_true]
    exact scan_eq _ 0 (peakSizesHeight_pos size) (by omega)
  · simp [hz]

theorem peaks_ok (size : Nat) (h : size < 2^64) : Fns.peaks_ok size = true := by
  simp [Fns.peaks_ok, peak_sizes_height_ok size h]

/-- the lemma behind `peaks_eq`, for any list: the translated `scan … map` is `scanPeaks` when all
entries are positive and the total fits a u64 -/
theorem peaks_scan_eq (l : List Nat) (acc : Nat) (hpos : ∀ x ∈ l, 1 ≤ x) (hsum : acc + l.sum < 2^64) :
    List.map (fun x => subW x 1) (Fns.scanOpt Fns.peaks_closure1 acc l) = scanPeaks acc l :=
  scan_eq l acc hpos hsum

/-- … and the hypotheses are needed: a zero entry makes `x - 1` wrap to `u64::MAX` in the code
(the model's truncated subtraction gives 0) -/
theorem peaks_scan_zero_entry :
    List.map (fun x => subW x 1) (Fns.scanOpt Fns.peaks_closure1 0 [0]) = [2^64 - 1]
      ∧ scanPeaks 0 [0] = [0] := by
  have h1 : addW 0 0 = 0 := by unfold addW; omega
  have h2 : subW 0 1 = 2^64 - 1 := by unfold subW; omega
  simp only [Fns.scanOpt, Fns.peaks_closure1, scanPeaks, h1, h2, List.map_cons, List.map_nil]
  exact ⟨trivial, trivial⟩

/-- 11 = 7 + 3 + 1 (three peaks); 12 is not a valid MMR size -/
example : Fns.peaks 11 = [6, 9, 10] ∧ Fns.peaks 12 = [] ∧ Fns.peaks_ok 11 = true := by
  rw [peaks_eq 11 (by omega), peaks_eq 12 (by omega), peaks_ok 11 (by omega)]
  simp [Pmmr.peaks, peakSizesHeight, bitLen, greedySizes, scanPeaks]

/-! ## `bintree_leftmost` on the last two u64 positions

`Props/XlatePmmr.lean` proves `bintree_leftmost_eq` for `pos0 + 2 < 2^64` (sufficient).  It holds for
every u64: at `pos0 = 2^64 - 2` (height 63) and `2^64 - 1` (a leaf) the wrap of `pos0 + 2` and the
wrap / masking of `2 << height` cancel in the wrapping subtraction. -/

/-- `bintree_leftmost(pos0)` for every u64 `pos0` -/
theorem bintree_leftmost_eq_u64 (pos : Nat) (h : pos < 2^64) :
    Fns.bintree_leftmost pos = bintreeLeftmost pos := by
  unfold Fns.bintree_leftmost bintreeLeftmost
  simp only [bintree_postorder_height_eq pos h]
  have b := (pmh_bounds pos).1
  have hh : (peakMapHeight pos).2 < 64 := height_lt_64 h
  unfold height shlW
  rw [Nat.mod_eq_of_lt hh]
  have hP : 2^(peakMapHeight pos).2 ≤ 2^63 := Nat.pow_le_pow_right (by omega) (by omega)
  have hP1 := two_pow_pos (peakMapHeight pos).2
  generalize 2^(peakMapHeight pos).2 = P at *
  unfold addW subW; omega

/-- the subtree below a u64 position starts at a u64 position -/
theorem bintreeLeftmost_le (pos : Nat) : bintreeLeftmost pos ≤ pos := by
  have hP1 := two_pow_pos (height pos)
  unfold bintreeLeftmost; omega

/-! ## `bintree_pos_iter` -/

/-- `bintree_pos_iter(pos0)` = the positions `leftmost ..= pos0` (no model function: stated as the
closed form), for every u64 `pos0` -/
theorem bintree_pos_iter_eq (pos : Nat) (h : pos < 2^64) :
    Fns.bintree_pos_iter pos
      = List.range' (bintreeLeftmost pos) (pos + 1 - bintreeLeftmost pos) := by
  unfold Fns.bintree_pos_iter
  simp only [bintree_leftmost_eq_u64 pos h]

/-- the same list as `bintree_range(pos0)` (model `bintreeRange`: start, end-exclusive) -/
theorem bintree_pos_iter_eq_range (pos : Nat) (h : pos < 2^64) :
    Fns.bintree_pos_iter pos
      = List.range' (bintreeRange pos).1 ((bintreeRange pos).2 - (bintreeRange pos).1) := by
  rw [bintree_pos_iter_eq pos h]; rfl

/-- it has `2^(height+1) - 1` entries and ends in `pos0` -/
theorem bintree_pos_iter_length (pos : Nat) (h : pos < 2^64) :
    (Fns.bintree_pos_iter pos).length = 2 * 2^(height pos) - 1 := by
  rw [bintree_pos_iter_eq pos h, List.length_range']
  have b := (pmh_bounds pos).1
  unfold bintreeLeftmost height; omega

theorem bintree_pos_iter_ok (pos : Nat) (h : pos < 2^64) : Fns.bintree_pos_iter_ok pos = true := by
  simp [Fns.bintree_pos_iter_ok, bintree_leftmost_ok pos h]

example : Fns.bintree_pos_iter 9 = [7, 8, 9] ∧ Fns.bintree_pos_iter 7 = [7] := by
  have m5 : mmr 5 = 8 := by simp [mmr, popcount]
  have t5 : trailingOnes 5 = 1 := by simp [trailingOnes]
  have p := peakMapHeight_co 5 1 (by omega); rw [m5] at p
  have m4 : mmr 4 = 7 := by simp [mmr, popcount]
  have p7 := peakMapHeight_co 4 0 (by omega); rw [m4] at p7
  rw [bintree_pos_iter_eq 9 (by omega), bintree_pos_iter_eq 7 (by omega)]
  simp [bintreeLeftmost, height, p, p7, List.range']

/-! ## `bintree_leaf_pos_iter` -/

theorem subW_lt (a b : Nat) : subW a b < 2^64 := by
  unfold subW; exact Nat.mod_lt _ (Nat.pow_pos (by omega))

/-- `bintree_leaf_pos_iter(pos0)` for every u64 `pos0`: the leaf indices `start ..= end` of u64
positions are at most `2^63`, where `insertion_to_pmmr_index` agrees with the model.

Proof-engineering note: the body of `Fns.bintree_leaf_pos_iter` is (after its `let`s) a `match` on
`pmmr_leaf_to_insertion_index (bintree_leftmost pos0)`.  `unfold` / `delta` / `rw [Fns.bintree_leaf_pos_iter]`
on the *applied* constant make the kernel compare `Fns.bintree_leaf_pos_iter pos` with a matcher
application; it unfolds the matcher first (matchers are abbreviations) and then evaluates the
discriminant — wrapping arithmetic on a free variable — to weak head normal form, which runs for
minutes into `deep recursion`.  Unfolding the *unapplied* constant (`F = Fns.bintree_leaf_pos_iter`,
`delta … at`) compares a constant with a lambda instead: the constant is unfolded and the two bodies
are syntactically equal. -/
theorem bintree_leaf_pos_iter_eq (pos : Nat) (h : pos < 2^64) :
    Fns.bintree_leaf_pos_iter pos = bintreeLeafPosIter pos := by
  have key : ∀ (F : Nat → List Nat), F = Fns.bintree_leaf_pos_iter →
      F pos = bintreeLeafPosIter pos := by
    intro F hF
    delta Fns.bintree_leaf_pos_iter at hF
    subst hF
    show _ = _
    unfold bintreeLeafPosIter
    have hl : bintreeLeftmost pos < 2^64 := by have := bintreeLeftmost_le pos; omega
    have hr : bintreeRightmost pos < 2^64 := by unfold bintreeRightmost; omega
    simp only [bintree_leftmost_eq_u64 pos h, bintree_rightmost_eq pos h,
      pmmr_leaf_to_insertion_index_eq _ hl, pmmr_leaf_to_insertion_index_eq _ hr]
    cases hs : pmmrLeafToInsertionIndex (bintreeLeftmost pos) with
    | none => simp
    | some s =>
      cases he : pmmrLeafToInsertionIndex (bintreeRightmost pos) with
      | none => simp
      | some e =>
        have hb := pmh_fst_le hr
        have hle : e ≤ 2^63 := by
          unfold pmmrLeafToInsertionIndex at he
          simp only at he
          split at he
          · injection he with he; omega
          · cases he
        exact map_range'_eq Fns.insertion_to_pmmr_index insertionToPmmrIndex s (e + 1 - s)
          (fun i hi => insertion_to_pmmr_index_eq (s + i) (by omega))
  exact key _ rfl

theorem bintree_leaf_pos_iter_ok (pos : Nat) (h : pos < 2^64) :
    Fns.bintree_leaf_pos_iter_ok pos = true := by
  unfold Fns.bintree_leaf_pos_iter_ok
  have hl : Fns.bintree_leftmost pos < 2^64 := subW_lt _ _
  have hr : Fns.bintree_rightmost pos < 2^64 := subW_lt _ _
  simp only [bintree_leftmost_ok pos h, bintree_rightmost_ok pos h,
    pmmr_leaf_to_insertion_index_ok _ hl, pmmr_leaf_to_insertion_index_ok _ hr, Bool.and_self]

/-- the leaves below node 6 (height 2) are at 0, 1, 3, 4; below 9 (height 1): 7, 8 -/
example : Fns.bintree_leaf_pos_iter 6 = [0, 1, 3, 4] ∧ Fns.bintree_leaf_pos_iter 9 = [7, 8] := by
  have m3 : mmr 3 = 4 := by simp [mmr, popcount]
  have m4 : mmr 4 = 7 := by simp [mmr, popcount]
  have m5 : mmr 5 = 8 := by simp [mmr, popcount]
  have m2 : mmr 2 = 3 := by simp [mmr, popcount]
  have m1 : mmr 1 = 1 := by simp [mmr, popcount]
  have t3 : trailingOnes 3 = 2 := by simp [trailingOnes]
  have t5 : trailingOnes 5 = 1 := by simp [trailingOnes]
  have p6 := peakMapHeight_co 3 2 (by omega); rw [m3] at p6
  have p9 := peakMapHeight_co 5 1 (by omega); rw [m5] at p9
  have p0 := peakMapHeight_co 0 0 (by omega); rw [mmr_zero] at p0
  have p4 := peakMapHeight_co 3 0 (by omega); rw [m3] at p4
  have p7 := peakMapHeight_co 4 0 (by omega); rw [m4] at p7
  have p8 := peakMapHeight_co 5 0 (by omega); rw [m5] at p8
  rw [bintree_leaf_pos_iter_eq 6 (by omega), bintree_leaf_pos_iter_eq 9 (by omega)]
  simp [bintreeLeafPosIter, bintreeLeftmost, bintreeRightmost, height, p6, p9,
    pmmrLeafToInsertionIndex, p0, p4, p7, p8, insertionToPmmrIndex, List.range, List.range.loop,
    mmr_zero, m1, m2, m3, m4, m5]

/-- the last u64 position `2^64 - 1` is leaf number `2^63`: all three functions agree with the
model there although `pos0 + 2` wraps -/
example : Fns.bintree_leftmost (2^64 - 1) = 2^64 - 1 ∧ Fns.bintree_pos_iter (2^64 - 1) = [2^64 - 1]
    ∧ Fns.bintree_leaf_pos_iter (2^64 - 1) = [2^64 - 1] := by
  have pc : popcount (2^63) = 1 := by simp [popcount]
  have m : mmr (2^63) = 2^64 - 1 := by unfold mmr; rw [pc]
  have p := peakMapHeight_leaf (2^63); rw [m] at p
  have hh : height (2^64 - 1) = 0 := by simp [height, p]
  have hl : bintreeLeftmost (2^64 - 1) = 2^64 - 1 := by unfold bintreeLeftmost; rw [hh]
  have hr : bintreeRightmost (2^64 - 1) = 2^64 - 1 := by unfold bintreeRightmost; rw [hh]
  have hi : pmmrLeafToInsertionIndex (2^64 - 1) = some (2^63) := by
    simp [pmmrLeafToInsertionIndex, p]
  refine ⟨?_, ?_, ?_⟩
  · rw [bintree_leftmost_eq_u64 _ (by omega), hl]
  · rw [bintree_pos_iter_eq _ (by omega), hl]; rfl
  · rw [bintree_leaf_pos_iter_eq _ (by omega)]
    unfold bintreeLeafPosIter
    rw [hl, hr, hi]
    simp [insertionToPmmrIndex, m, List.range, List.range.loop]

end GV.Props.XlatePmmr2
