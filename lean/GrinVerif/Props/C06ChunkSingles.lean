import GrinVerif.Props.C06ChunkPath
import GrinVerif.Props.C03Known
/-! The last step of "accepted as a chunk iff accepted one by one": the FOLD of the single-header
path (`processHeaderK`) over a chunk of fresh headers succeeds iff the per-header loop of the chunk
path (`validateChunk`) does and no header carries a root fault (`singles_iff`); with
`chunk_accepted_iff_no_root_fault` (Props/C06ChunkPath.lean): `chunk_accepted_iff_each_singly`. -/
namespace GV.Props.C06Chunk
open GV GV.Chain

/-- the headers of a chunk delivered one by one through `Chain::process_block_header` -/
def singles (p : Params) : Node → List Blk → Except Err Node
  | n, [] => .ok n
  | n, b :: bs => match processHeaderK p [] n b with
    | .error e => .error e
    | .ok n' => singles p n' bs

/-- what a fresh header that passes does to the node -/
def upd (m : Node) (b : Blk) : Node :=
  { m with headers := m.headers ++ [b.id], hhead := if b.work > m.workOf m.hhead then b.id else m.hhead }

theorem validateHeaderPre_congr {m m' : Node} (hh : m.headers = m'.headers) (hb : m.blks = m'.blks)
    (p : Params) (b : Blk) : validateHeaderPre p m b = validateHeaderPre p m' b := by
  unfold validateHeaderPre
  simp only [hh, heightOf_congr hb, blk_congr hb]

/-- the single-header path on a FRESH header (not known as a full block, not in the header store):
the header rules, then the root check, then the header is saved -/
theorem processHeaderK_fresh (p : Params) (m : Node) (b : Blk) (hck : checkKnown m b = none)
    (hnh : b.id ∉ m.headers) :
    processHeaderK p [] m b = (match validateHeaderPre p m b with
      | some e => .error e
      | none => match hasTag b "hdr:" with
        | some e => .error e
        | none => .ok (upd m b)) := by
  have hc : m.headers.contains b.id = false := by simpa using hnh
  unfold processHeaderK
  rw [hck]
  simp only [Option.isSome_none, Bool.false_eq_true, if_false]
  cases hp : b.parent with
  | none => simp [validateHeaderPre, hp]
  | some par =>
    simp only
    by_cases hpar : (!m.headers.contains par) = true
    · rw [if_pos hpar]
      have hpn : ¬ par ∈ m.headers := by simpa using hpar
      simp [validateHeaderPre, hp, hpn]
    · rw [if_neg hpar]
      simp only [hc, Bool.false_eq_true, false_and, if_false, List.contains_nil, C03Known.forkDenied_nil]
      cases validateHeaderPre p m b with
      | some e => rfl
      | none =>
        simp only
        cases hasTag b "hdr:" with
        | some e => rfl
        | none => rfl

/-- **one by one = the chunk's per-header loop + no root fault**, for fresh headers: `m` is the node
of the single-header path, `m'` the node of the chunk's loop (same header store and definitions;
the header head may differ) -/
theorem singles_iff (p : Params) (bs : List Blk) : ∀ (m m' : Node),
    m.headers = m'.headers → m.blks = m'.blks →
    (∀ b ∈ bs, checkKnown m b = none) → (∀ b ∈ bs, b.id ∉ m.headers) → (bs.map (·.id)).Nodup →
    ((∃ r, singles p m bs = .ok r) ↔
      ((∃ r, validateChunk p [] m' bs = .ok r) ∧ ∀ b ∈ bs, hasTag b "hdr:" = none)) := by
  induction bs with
  | nil =>
    intro m m' _ _ _ _ _
    simp [singles, validateChunk]
  | cons b bs ih =>
    intro m m' hh hb hck hnh hnd
    have hck0 := hck b (by simp)
    have hnh0 := hnh b (by simp)
    have hc' : m'.headers.contains b.id = false := by rw [← hh]; simpa using hnh0
    unfold singles validateChunk
    rw [processHeaderK_fresh p m b hck0 hnh0, ← validateHeaderPre_congr hh hb p b]
    simp only [List.contains_nil, Bool.false_eq_true, if_false, hc']
    cases validateHeaderPre p m b with
    | some e => simp
    | none =>
      simp only
      cases ht : hasTag b "hdr:" with
      | some e =>
        simp only
        constructor
        · intro ⟨r, hr⟩; cases hr
        · intro ⟨_, h2⟩
          have := h2 b (by simp)
          rw [ht] at this; cases this
      | none =>
        simp only
        have hnd' := List.nodup_cons.mp hnd
        have := ih (upd m b) { m' with headers := m'.headers ++ [b.id] }
          (by simp [upd, hh]) (by simp [upd, hb])
          (fun x hx => by
            rw [C03Known.checkKnown_congr (n := upd m b) (m := m) rfl rfl rfl x]
            exact hck x (List.mem_cons_of_mem _ hx))
          (fun x hx => by
            simp only [upd, List.mem_append, List.mem_singleton, not_or]
            refine ⟨hnh x (List.mem_cons_of_mem _ hx), ?_⟩
            intro he
            exact hnd'.1 (List.mem_map.mpr ⟨x, hx, he⟩))
          hnd'.2
        rw [this]
        constructor
        · intro ⟨h1, h2⟩
          refine ⟨h1, ?_⟩
          intro x hx
          rcases List.mem_cons.mp hx with h | h
          · subst h; exact ht
          · exact h2 x h
        · intro ⟨h1, h2⟩
          exact ⟨h1, fun x hx => h2 x (List.mem_cons_of_mem _ hx)⟩

/-- **a linked chunk of fresh headers is accepted by `sync_block_headers` iff its headers are
accepted one by one, in order, by `process_block_header`** (no denylist). Fresh: not known as full
blocks, not in the header store, pairwise distinct, off the header chain; `pre` is the own path of
the block the chunk hangs below, whose off-chain blocks passed their root check when stored. -/
theorem chunk_accepted_iff_each_singly (p : Params) (n : Node) (bs pre : List Blk) (p0 : Nat)
    (hpre : IsPath n p0 pre) (hlink : Linked n p0 bs) (hne : bs ≠ [])
    (hheights : ((pre ++ bs).map (·.h)).Nodup)
    (hck : ∀ b ∈ bs, checkKnown n b = none) (hnh : ∀ b ∈ bs, b.id ∉ n.headers)
    (hnd : (bs.map (·.id)).Nodup)
    (hfresh : ∀ b ∈ bs, ((n.headerAtHeight b.h).map (·.id) == some b.id) = false)
    (hold : ∀ b ∈ pre, ((n.headerAtHeight b.h).map (·.id) == some b.id) = false → hasTag b "hdr:" = none) :
    (∃ n', processHeadersK p [] n bs = .ok n') ↔ (∃ r, singles p n bs = .ok r) := by
  rw [singles_iff p bs n n rfl rfl hck hnh hnd]
  constructor
  · intro ⟨n', h⟩
    obtain ⟨last, hl⟩ : ∃ last, bs.getLast? = some last := by
      cases hg : bs.getLast? with
      | none => exact absurd (List.getLast?_eq_none_iff.mp hg) hne
      | some l => exact ⟨l, rfl⟩
    obtain ⟨n1, hv, _⟩ := accepted_chunk_fork_headers_clean p [] n n' bs last hl h
    exact ⟨⟨n1, hv⟩, (chunk_accepted_iff_no_root_fault p n n1 bs pre p0 hpre hlink hne hheights hv hfresh hold).mp ⟨n', h⟩⟩
  · intro ⟨⟨n1, hv⟩, ht⟩
    exact (chunk_accepted_iff_no_root_fault p n n1 bs pre p0 hpre hlink hne hheights hv hfresh hold).mpr ht

end GV.Props.C06Chunk
