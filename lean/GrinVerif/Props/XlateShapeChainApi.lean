import GrinVerif.Gen.PipeShapeChainApi
import GrinVerif.Props.XlateShapeLib
/-! # Obligations about the validation pipelines (ChainApi), stated over the REGENERATED shape tables

`Gen/PipeShapeChainApi.lean` is rewritten on every check run from the current Rust source by
tools/gen_pipeshape.py.  For every function:
* `<fn>_order`  — the ORDER of the steps that can end it with an error (`?`-propagated calls, explicit
  `Err`, tail expression), by callee / error variant: a dropped, added, duplicated or moved check breaks it;
* `<fn>_propagated` — no call to a validation function (`XlateShape.watch`) has its result discarded
  (a `?` replaced by `let _ =` / `.ok();` / a bare statement breaks `_order` and this), and the list of all
  discarded calls (side-effecting helpers) is as reviewed;
* `<fn>_early_ok` — the conditions under which it returns `Ok` early, and the checks that come BEFORE the
  first early return (a new early return, or one moved in front of a check, breaks it);
* `<fn>_errors` — the explicit error variants with the innermost condition they sit under, and the variants
  introduced by `map_err` (a check weakened by changing its condition or wrapped in a new guard breaks it;
  `_depth` records the nesting depth of every step).
All are closed by `decide`.  They do not mention arguments or local names (the exact pins in
`Props/XlateShapeChainApiPins.lean` do).  After a REVIEWED change regenerate with
`python3 tools/gen_pipeshape.py --obligations ChainApi`; the ties to the hand models are in
`Props/XlateShapeModel.lean`. -/
namespace GV.Props.XlateShapeChainApi
open GV.Gen.PipeShape GV.Props.XlateShape

set_option maxRecDepth 4000

/-! ### `Chain::process_block (chain/src/chain.rs)` -/
theorem chain_process_block_order : readOk chain_process_block = true ∧ spine chain_process_block =
    ["res"] := by decide
theorem chain_process_block_propagated : discarded watch chain_process_block = [] ∧ calls chain_process_block = ["check_orphans"] := by decide
theorem chain_process_block_early_ok : earlyOks chain_process_block = [] := by decide
theorem chain_process_block_errors : fails chain_process_block = []
    ∧ mapped chain_process_block = [] := by decide
theorem chain_process_block_depth : depths chain_process_block = [0] := by decide
theorem chain_process_block_guard_inputs : guardInputs chain_process_block = ["process_block_single"] := by decide

/-! ### `Chain::is_known (chain/src/chain.rs)` -/
theorem chain_is_known_order : readOk chain_is_known = true ∧ spine chain_is_known =
    ["head", "Unfit", "block_exists", "Unfit"] := by decide
theorem chain_is_known_propagated : discarded watch chain_is_known = [] ∧ calls chain_is_known = [] := by decide
theorem chain_is_known_early_ok : earlyOks chain_is_known = [] := by decide
theorem chain_is_known_errors : fails chain_is_known = [("Unfit", "($1.hash() == $0.hash())"), ("Unfit", "self.block_exists($0.hash())?")]
    ∧ mapped chain_is_known = [] := by decide
theorem chain_is_known_depth : depths chain_is_known = [0, 1, 1, 2] := by decide
theorem chain_is_known_guard_inputs : guardInputs chain_is_known = ["head"] := by decide

/-! ### `Chain::check_orphan (chain/src/chain.rs)` -/
theorem chain_check_orphan_order : readOk chain_check_orphan = true ∧ spine chain_check_orphan =
    ["head", "block_exists", "Orphan"] := by decide
theorem chain_check_orphan_propagated : discarded watch chain_check_orphan = [] ∧ calls chain_check_orphan = ["add"] := by decide
theorem chain_check_orphan_early_ok : earlyOks chain_check_orphan = [["($3 || self.block_exists($0.header.prev_hash)?)"]]
    ∧ spineBeforeFirstEarlyOk chain_check_orphan = ["head", "block_exists"] := by decide
theorem chain_check_orphan_errors : fails chain_check_orphan = [("Orphan", "")]
    ∧ mapped chain_check_orphan = [] := by decide
theorem chain_check_orphan_depth : depths chain_check_orphan = [0, 1, 0] := by decide
theorem chain_check_orphan_guard_inputs : guardInputs chain_check_orphan = ["head", "<bin>"] := by decide

/-! ### `Chain::process_block_single (chain/src/chain.rs)` -/
theorem chain_process_block_single_order : readOk chain_process_block_single = true ∧ spine chain_process_block_single =
    ["process_block_header", "is_known", "check_orphan", "batch", "head", "new_ctx", "process_block", "commit", "get_previous_header"] := by decide
theorem chain_process_block_single_propagated : discarded watch chain_process_block_single = [] ∧ calls chain_process_block_single = ["block_accepted"] := by decide
theorem chain_process_block_single_early_ok : earlyOks chain_process_block_single = [] := by decide
theorem chain_process_block_single_errors : fails chain_process_block_single = []
    ∧ mapped chain_process_block_single = [] := by decide
theorem chain_process_block_single_depth : depths chain_process_block_single = [0, 0, 0, 0, 0, 0, 0, 0, 0] := by decide
theorem chain_process_block_single_guard_inputs : guardInputs chain_process_block_single = [] := by decide

/-! ### `Chain::process_block_header (chain/src/chain.rs)` -/
theorem chain_process_block_header_order : readOk chain_process_block_header = true ∧ spine chain_process_block_header =
    ["batch", "new_ctx", "process_block_header", "commit"] := by decide
theorem chain_process_block_header_propagated : discarded watch chain_process_block_header = [] ∧ calls chain_process_block_header = [] := by decide
theorem chain_process_block_header_early_ok : earlyOks chain_process_block_header = [] := by decide
theorem chain_process_block_header_errors : fails chain_process_block_header = []
    ∧ mapped chain_process_block_header = [] := by decide
theorem chain_process_block_header_depth : depths chain_process_block_header = [0, 0, 0, 0] := by decide
theorem chain_process_block_header_guard_inputs : guardInputs chain_process_block_header = [] := by decide

/-! ### `Chain::sync_block_headers (chain/src/chain.rs)` -/
theorem chain_sync_block_headers_order : readOk chain_sync_block_headers = true ∧ spine chain_sync_block_headers =
    ["batch", "new_ctx", "process_block_headers", "commit"] := by decide
theorem chain_sync_block_headers_propagated : discarded watch chain_sync_block_headers = [] ∧ calls chain_sync_block_headers = [] := by decide
theorem chain_sync_block_headers_early_ok : earlyOks chain_sync_block_headers = [] := by decide
theorem chain_sync_block_headers_errors : fails chain_sync_block_headers = []
    ∧ mapped chain_sync_block_headers = [] := by decide
theorem chain_sync_block_headers_depth : depths chain_sync_block_headers = [0, 0, 0, 0] := by decide
theorem chain_sync_block_headers_guard_inputs : guardInputs chain_sync_block_headers = [] := by decide

/-! ### `Chain::check_orphans (chain/src/chain.rs)` -/
theorem chain_check_orphans_order : readOk chain_check_orphans = true ∧ spine chain_check_orphans =
    [] := by decide
theorem chain_check_orphans_propagated : discarded watch chain_check_orphans = [] ∧ calls chain_check_orphans = [] := by decide
theorem chain_check_orphans_early_ok : earlyOks chain_check_orphans = [] := by decide
theorem chain_check_orphans_errors : fails chain_check_orphans = []
    ∧ mapped chain_check_orphans = [] := by decide
theorem chain_check_orphans_depth : depths chain_check_orphans = [] := by decide
theorem chain_check_orphans_guard_inputs : guardInputs chain_check_orphans = ["<boollit>", "height", "height", "process_block_single", "<boollit>", "height", "<bin>"] := by decide

/-! ### `Chain::reset_chain_head (chain/src/chain.rs)` -/
theorem chain_reset_chain_head_order : readOk chain_reset_chain_head = true ∧ spine chain_reset_chain_head =
    ["batch", "get_block_header", "rewind_and_apply_fork", "save_body_head", "extending", "rewind_and_apply_header_fork", "save_header_head", "header_extending", "commit"] := by decide
theorem chain_reset_chain_head_propagated : discarded watch chain_reset_chain_head = [] ∧ calls chain_reset_chain_head = [] := by decide
theorem chain_reset_chain_head_early_ok : earlyOks chain_reset_chain_head = [] := by decide
theorem chain_reset_chain_head_errors : fails chain_reset_chain_head = []
    ∧ mapped chain_reset_chain_head = [] := by decide
theorem chain_reset_chain_head_depth : depths chain_reset_chain_head = [0, 0, 1, 1, 0, 2, 2, 1, 0] := by decide
theorem chain_reset_chain_head_guard_inputs : guardInputs chain_reset_chain_head = [] := by decide

/-! ### `Chain::validate_tx (chain/src/chain.rs)` -/
theorem chain_validate_tx_order : readOk chain_validate_tx = true ∧ spine chain_validate_tx =
    ["validate_tx_against_utxo", "validate_tx_kernels"] := by decide
theorem chain_validate_tx_propagated : discarded watch chain_validate_tx = [] ∧ calls chain_validate_tx = [] := by decide
theorem chain_validate_tx_early_ok : earlyOks chain_validate_tx = [] := by decide
theorem chain_validate_tx_errors : fails chain_validate_tx = []
    ∧ mapped chain_validate_tx = [] := by decide
theorem chain_validate_tx_depth : depths chain_validate_tx = [0, 0] := by decide
theorem chain_validate_tx_guard_inputs : guardInputs chain_validate_tx = [] := by decide

/-! ### `Chain::verify_coinbase_maturity (chain/src/chain.rs)` -/
theorem chain_verify_coinbase_maturity_order : readOk chain_verify_coinbase_maturity = true ∧ spine chain_verify_coinbase_maturity =
    ["next_block_height", "head", "verify_coinbase_maturity", "utxo_view", "head_header", "rewind_and_apply_fork", "verify_coinbase_maturity", "extending_readonly"] := by decide
theorem chain_verify_coinbase_maturity_propagated : discarded watch chain_verify_coinbase_maturity = [] ∧ calls chain_verify_coinbase_maturity = [] := by decide
theorem chain_verify_coinbase_maturity_early_ok : earlyOks chain_verify_coinbase_maturity = [] := by decide
theorem chain_verify_coinbase_maturity_errors : fails chain_verify_coinbase_maturity = []
    ∧ mapped chain_verify_coinbase_maturity = [] := by decide
theorem chain_verify_coinbase_maturity_depth : depths chain_verify_coinbase_maturity = [0, 0, 2, 1, 1, 1, 1, 0] := by decide
theorem chain_verify_coinbase_maturity_guard_inputs : guardInputs chain_verify_coinbase_maturity = ["<match>"] := by decide

/-! ### `Chain::verify_tx_lock_height (chain/src/chain.rs)` -/
theorem chain_verify_tx_lock_height_order : readOk chain_verify_tx_lock_height = true ∧ spine chain_verify_tx_lock_height =
    ["next_block_height", "TxLockHeight"] := by decide
theorem chain_verify_tx_lock_height_propagated : discarded watch chain_verify_tx_lock_height = [] ∧ calls chain_verify_tx_lock_height = [] := by decide
theorem chain_verify_tx_lock_height_early_ok : earlyOks chain_verify_tx_lock_height = [] := by decide
theorem chain_verify_tx_lock_height_errors : fails chain_verify_tx_lock_height = [("TxLockHeight", "!(($0.lock_height() <= $1))")]
    ∧ mapped chain_verify_tx_lock_height = [] := by decide
theorem chain_verify_tx_lock_height_depth : depths chain_verify_tx_lock_height = [0, 1] := by decide
theorem chain_verify_tx_lock_height_guard_inputs : guardInputs chain_verify_tx_lock_height = ["next_block_height"] := by decide

/-! ### `Chain::set_txhashset_roots (chain/src/chain.rs)` -/
theorem chain_set_txhashset_roots_order : readOk chain_set_txhashset_roots = true ∧ spine chain_set_txhashset_roots =
    ["get_previous_header", "rewind_and_apply_fork", "root", "apply_block", "roots", "extending_readonly"] := by decide
theorem chain_set_txhashset_roots_propagated : discarded watch chain_set_txhashset_roots = [] ∧ calls chain_set_txhashset_roots = [] := by decide
theorem chain_set_txhashset_roots_early_ok : earlyOks chain_set_txhashset_roots = [] := by decide
theorem chain_set_txhashset_roots_errors : fails chain_set_txhashset_roots = []
    ∧ mapped chain_set_txhashset_roots = [] := by decide
theorem chain_set_txhashset_roots_depth : depths chain_set_txhashset_roots = [1, 1, 1, 1, 1, 0] := by decide
theorem chain_set_txhashset_roots_guard_inputs : guardInputs chain_set_txhashset_roots = [] := by decide

/-! ### `Chain::compact (chain/src/chain.rs)` -/
theorem chain_compact_order : readOk chain_compact = true ∧ spine chain_compact =
    ["txhashset_archive_header", "batch", "head_header", "get_header_hash_by_height", "get_block_header", "compact", "remove_historical_blocks", "init_output_pos_index", "init_recent_kernel_pos_index", "commit"] := by decide
theorem chain_compact_propagated : discarded watch chain_compact = [] ∧ calls chain_compact = [] := by decide
theorem chain_compact_early_ok : earlyOks chain_compact = [["(self.tail(), self.head()) ~ (Ok(_), Ok(_))", "($4 > $1.height)"]]
    ∧ spineBeforeFirstEarlyOk chain_compact = [] := by decide
theorem chain_compact_errors : fails chain_compact = []
    ∧ mapped chain_compact = [] := by decide
theorem chain_compact_depth : depths chain_compact = [0, 0, 0, 0, 0, 0, 1, 0, 0, 0] := by decide
theorem chain_compact_guard_inputs : guardInputs chain_compact = ["cut_through_horizon", "saturating_add", "saturating_add"] := by decide

end GV.Props.XlateShapeChainApi
