import GrinVerif.Lemmas.SegZip
/-! # C16 — the state archive ("txhashset zip") path

Property theorems about `Model/SegZip.lean`: `util/src/zip.rs` (`create_zip`, `extract_files`),
`file_list` and the decision logic of `Chain::txhashset_write`; tied to the real code by the run
`seg zip` (every `create_zip` / `extract_files` call on small trees and hand-written archives, the
entry names of the archive `txhashset_read` builds, the verdicts of `txhashset_write`).  Helper
lemmas: `Lemmas/SegZip.lean`.  All theorems hold for every instantiation `nm : Names` of the two
string-to-components functions. -/
namespace GV.Props.C16Zip
open GV GV.SegZip

/-! ## receiving side: `extract_files` -/

/-- **Only listed files are written, at the sanitised form of the LISTED name**: every file found in
the destination after a successful `extract_files` was there before or is the content of the entry
`by_name` finds for a name `x` of the explicit file list, written at `mangled_name(x)` — the
archive chooses neither which files are written nor where. -/
theorem extract_writes_only_listed (nm : Names) (a : List Entry) (files : List String) (d0 d : Dir)
    (h : extractFiles nm a files d0 = .ok d) (p : List String) (c : String) (hp : d.get p = some c) :
    d0.get p = some c ∨
      ∃ x ∈ files, ∃ e ∈ a, e.name = x ∧ p = nm.mangle x ∧ c = e.content ∧ e.crcOk = true := by
  rcases extractFiles_origin nm a files d0 d h p c hp with r | ⟨x, hx, e, hb, hq, hc, hk, _⟩
  · exact Or.inl r
  · obtain ⟨he, hn⟩ := byName_spec a x e hb
    exact Or.inr ⟨x, hx, e, he, hn, by rw [hq, hn], hc, hk⟩

/-- **No path escapes the destination**: a written path consists of `Component::Normal` components
only — no `..`, no `.`, no empty (root) component — and has at least one. -/
theorem extract_paths_stay_inside (nm : Names) (a : List Entry) (files : List String) (d : Dir)
    (h : extractFiles nm a files [] = .ok d) (p : List String) (c : String) (hp : d.get p = some c) :
    p ≠ [] ∧ ∀ comp ∈ p, comp ≠ ".." ∧ comp ≠ "." ∧ comp ≠ "" := by
  rcases extractFiles_origin nm a files [] d h p c hp with r | ⟨x, _, e, _, hq, _, _, hne⟩
  · simp [Dir.get] at r
  · refine ⟨by rw [hq]; exact hne, ?_⟩
    intro comp hc
    rw [hq] at hc
    unfold Names.mangle at hc
    have := (List.mem_filter.mp hc).2
    unfold normal at this
    simp only [Bool.and_eq_true, bne_iff_ne, ne_eq] at this
    exact ⟨this.2, this.1.2, this.1.1⟩

/-- **Entries that are not on the list do not matter**: two archives that answer `by_name` alike
for the listed names are extracted alike — whatever else they contain (extra files, names with
`..`, entries with a wrong CRC). -/
theorem unlisted_entries_ignored (nm : Names) (a b : List Entry) (files : List String) (d : Dir)
    (h : ∀ x ∈ files, byName a x = byName b x) :
    extractFiles nm a files d = extractFiles nm b files d :=
  extractFiles_congr nm a b files d h

/-- in particular entries put in front of an archive never change what is extracted -/
theorem prepended_entries_ignored (nm : Names) (a : List Entry) (extra : Entry) (files : List String)
    (d : Dir) (h : extra.name ∉ files) :
    extractFiles nm (extra :: a) files d = extractFiles nm a files d := by
  apply extractFiles_congr
  intro x hx
  have hc : byName (extra :: a) x =
      match byName a x with
      | some e' => some e'
      | none => if extra.name = x then some extra else none := rfl
  rw [hc]
  cases byName a x with
  | some e => rfl
  | none =>
    have : extra.name ≠ x := fun e => h (e ▸ hx)
    simp only
    rw [if_neg this]

/-! ## serving side: `create_zip` -/

/-- the archive holds exactly the listed files that exist, under their sanitised names, with the
content of the source directory -/
theorem create_holds_listed_existing (nm : Names) (src : Dir) (files : List String) (e : Entry) :
    e ∈ createZip nm src files ↔
      ∃ x ∈ files, src.get (nm.sanitize x) = some e.content ∧ e.name = nm.pathToString x ∧ e.crcOk = true := by
  constructor
  · exact mem_createZip nm src files e
  · rintro ⟨x, hx, hg, hn, hk⟩
    have := createZip_mem nm src files x e.content hx hg
    have he : e = ⟨nm.pathToString x, e.content, true⟩ := by
      cases e; simp_all
    rw [he]; exact this

/-! ## both sides with the same list: the files arrive -/

/-- what a name of the list must satisfy for the transport to be faithful (true for the ten names of
`file_list`; checked on the real functions by the `seg zip mk` / `seg zip x` lines): the name is its
own sanitised form, `mangled_name` of it gives the same components, and these are not empty -/
structure CleanName (nm : Names) (x : String) : Prop where
  self : nm.pathToString x = x
  mangle : nm.mangle x = nm.sanitize x
  nonempty : nm.sanitize x ≠ []

/-- what `extract_files` leaves of an archive made by `create_zip` over the same list: an
invariant of the loop -/
theorem transport_loop (nm : Names) (src : Dir) (files : List String)
    (hc : ∀ x ∈ files, CleanName nm x) :
    ∀ (fs : List String) (d : Dir), (∀ x ∈ fs, x ∈ files) →
      (∀ p c, d.get p = some c → src.get p = some c ∧ ∃ x ∈ files, p = nm.sanitize x) →
      ∃ d', extractFiles nm (createZip nm src files) fs d = .ok d' ∧
        (∀ p c, d'.get p = some c → src.get p = some c ∧ ∃ x ∈ files, p = nm.sanitize x) ∧
        (∀ p c, d.get p = some c → d'.get p = some c) ∧
        (∀ x ∈ fs, ∀ c, src.get (nm.sanitize x) = some c → d'.get (nm.sanitize x) = some c)
  | [], d, _, hd => ⟨d, rfl, hd, fun _ _ h => h, fun x hx => by cases hx⟩
  | x :: xs, d, hsub, hd => by
    have hxf := hsub x List.mem_cons_self
    have hxs : ∀ y ∈ xs, y ∈ files := fun y hy => hsub y (List.mem_cons_of_mem _ hy)
    unfold extractFiles
    cases hb : byName (createZip nm src files) x with
    | none =>
      simp only
      obtain ⟨d', h1, h2, h3, h4⟩ := transport_loop nm src files hc xs d hxs hd
      refine ⟨d', h1, h2, h3, ?_⟩
      intro y hy c hg
      rcases List.mem_cons.mp hy with e | e
      · subst e
        -- the file exists in the source, so `create_zip` put an entry of that name: contradiction
        have hm := createZip_mem nm src files y c hxf hg
        rw [(hc y hxf).self] at hm
        exact absurd rfl (byName_none _ _ hb _ hm)
      · exact h4 y e c hg
    | some e =>
      simp only
      obtain ⟨hmem, hname⟩ := byName_spec _ _ _ hb
      obtain ⟨y, hy, hg, hn, hk⟩ := mem_createZip nm src files e hmem
      -- the entry found has the name of `x`, so it holds the content of the file `x` names
      have hxy : nm.sanitize y = nm.sanitize x := by
        have h1 : nm.pathToString y = x := by rw [← hn, hname]
        have h2 := (hc y hy).self
        have h3 : y = x := by rw [← h2, h1]
        rw [h3]
      have hmx : nm.mangle e.name = nm.sanitize x := by rw [hname]; exact (hc x hxf).mangle
      rw [if_neg (by rw [hmx]; exact (hc x hxf).nonempty)]
      have : (!e.crcOk) = false := by simp [hk]
      rw [this]
      simp only [Bool.false_eq_true, if_false]
      rw [hmx]
      have hg' : src.get (nm.sanitize x) = some e.content := by rw [← hxy]; exact hg
      have hd1 : ∀ p c, (d.put (nm.sanitize x) e.content).get p = some c →
          src.get p = some c ∧ ∃ z ∈ files, p = nm.sanitize z := by
        intro p c hp
        rw [get_put] at hp
        by_cases hq : p = nm.sanitize x
        · rw [if_pos hq] at hp
          simp only [Option.some.injEq] at hp
          subst hq
          exact ⟨by rw [← hp]; exact hg', x, hxf, rfl⟩
        · rw [if_neg hq] at hp
          exact hd p c hp
      obtain ⟨d', h1, h2, h3, h4⟩ := transport_loop nm src files hc xs _ hxs hd1
      refine ⟨d', h1, h2, ?_, ?_⟩
      · intro p c hp
        apply h3
        rw [get_put]
        by_cases hq : p = nm.sanitize x
        · rw [if_pos hq]
          have := (hd p c hp).1
          rw [hq, hg'] at this
          exact this
        · rw [if_neg hq]; exact hp
      · intro z hz c hgz
        rcases List.mem_cons.mp hz with e1 | e1
        · subst e1
          apply h3
          rw [get_put_self]
          rw [hg'] at hgz
          exact hgz
        · exact h4 z e1 c hgz

/-- **The listed files arrive**: an archive made by `create_zip` from a directory and extracted by
`extract_files` with the SAME list (both sides call `file_list(header)`) into an empty directory
reproduces exactly the listed files that existed, with their content, at their own paths — and
nothing else. -/
theorem archive_transports_listed_files (nm : Names) (src : Dir) (files : List String)
    (hc : ∀ x ∈ files, CleanName nm x) :
    ∃ d, extractFiles nm (createZip nm src files) files [] = .ok d ∧
      (∀ x ∈ files, d.get (nm.sanitize x) = src.get (nm.sanitize x)) ∧
      (∀ p c, d.get p = some c → ∃ x ∈ files, p = nm.sanitize x) := by
  obtain ⟨d, h1, h2, _, h4⟩ := transport_loop nm src files hc files [] (fun _ h => h)
    (fun p c h => by simp [Dir.get] at h)
  refine ⟨d, h1, ?_, fun p c h => (h2 p c h).2⟩
  intro x hx
  cases hg : src.get (nm.sanitize x) with
  | some c => exact h4 x hx c hg
  | none =>
    cases hd : d.get (nm.sanitize x) with
    | none => rfl
    | some c =>
      have := (h2 _ c hd).1
      rw [hg] at this; cases this

/-- the hypotheses are satisfiable: two clean names under the simplest instantiation (one
component per name) -/
example : ∃ d, extractFiles ⟨fun s => [s], fun s => [s], fun l => l.headD ""⟩
      (createZip ⟨fun s => [s], fun s => [s], fun l => l.headD ""⟩ [(["a"], "01"), (["c"], "02")] ["a", "b"])
      ["a", "b"] [] = .ok d ∧ d.get ["a"] = some "01" ∧ d.get ["b"] = none := by
  refine ⟨[(["a"], "01")], ?_, ?_, ?_⟩ <;> decide

/-! ## `file_list` -/

/-- ten files: data and hash file of the three MMRs, the prune lists of the two prunable ones (the
kernel MMR has none), and the two leaf sets REWOUND to the header (`pmmr_leaf.bin.<hash>`), not the
serving node's own `pmmr_leaf.bin` -/
theorem file_list_length (h : String) : (fileList h).length = 10 := rfl

theorem file_list_names (h : String) :
    fileList h = [ "kernel/pmmr_data.bin", "kernel/pmmr_hash.bin", "output/pmmr_data.bin",
      "output/pmmr_hash.bin", "output/pmmr_prun.bin", "rangeproof/pmmr_data.bin",
      "rangeproof/pmmr_hash.bin", "rangeproof/pmmr_prun.bin",
      "output/pmmr_leaf.bin." ++ h, "rangeproof/pmmr_leaf.bin." ++ h ] := rfl

/-! ## `Chain::txhashset_write` -/

section Write
variable {H : Type} [DecidableEq H]

/-- **The archive path never installs a state that commits to anything but the header**: the
node's txhashset is replaced only if the extracted state, rewound to the header, has the header's
roots and MMR sizes. -/
theorem zip_never_finalises_wrong_roots (needed known opens kh : Bool) (state hdr : Commit H) (rest : Bool)
    (h : txhashsetWrite needed known opens kh state hdr rest = .replaced) : state = hdr := by
  unfold txhashsetWrite at h
  by_cases hv : commitValidate state hdr = true
  · unfold commitValidate at hv
    exact of_decide_eq_true hv
  · cases needed <;> cases known <;> cases opens <;> cases kh <;> simp_all

/-- … and exactly when the state was needed, the header is known, the archive opens, the kernel
history is the header chain's and everything validates -/
theorem zip_replaced_iff (needed known opens kh : Bool) (state hdr : Commit H) (rest : Bool) :
    txhashsetWrite needed known opens kh state hdr rest = .replaced ↔
      needed = true ∧ known = true ∧ opens = true ∧ kh = true ∧ state = hdr ∧ rest = true := by
  constructor
  · intro h
    have hs := zip_never_finalises_wrong_roots needed known opens kh state hdr rest h
    subst hs
    unfold txhashsetWrite at h
    cases needed <;> cases known <;> cases opens <;> cases kh <;> cases rest <;> simp_all
  · rintro ⟨rfl, rfl, rfl, rfl, rfl, rfl⟩
    simp [txhashsetWrite, commitValidate]

/-- an archive for an unknown header is the only "bannable" outcome, and it is tested after the
"not needed" exit -/
theorem zip_ban_iff (needed known opens kh : Bool) (state hdr : Commit H) (rest : Bool) :
    txhashsetWrite needed known opens kh state hdr rest = .ban ↔ needed = true ∧ known = false := by
  unfold txhashsetWrite
  cases needed <;> cases known <;> cases opens <;> cases kh <;> cases rest <;>
    by_cases hv : commitValidate state hdr = true <;> simp_all

example : txhashsetWrite true true true true (⟨1, 2, 3, 7, 4⟩ : Commit Nat) ⟨1, 2, 3, 7, 4⟩ true = .replaced := by
  decide
example : txhashsetWrite true true true true (⟨1, 2, 3, 7, 4⟩ : Commit Nat) ⟨1, 2, 9, 7, 4⟩ true = .failed := by
  decide

end Write

end GV.Props.C16Zip
