import GrinVerif.Model.DecVerify
/-! # C11, `MerkleProof::verify` on a decoded proof

The stateless check a Merkle proof from hex / from the wire goes through
(`core/src/core/merkle_proof.rs`), instrumented in `Model/DecVerify.lean`. For ALL inputs — any
`mmr_size` (valid MMR size or not), any claimed position, any path, any element, any hash function:

* no panic site is reachable, and the verdict is the function `GV.Pmmr.verify` that the C07 theorems
  are about (`verify_no_panic`, `verify_verdict_is_pmmr_verify`);
* the memory alive at the deepest point of the recursion is exactly `32·n + 8·p` bytes for a path of
  `n` hashes and `p` peaks — less than the wire length of the proof plus `8·p` (`verify_live`,
  `verify_alloc_bound`);
* the recursion is one `verify_consume` frame per path hash, `n + 2` frames in all (`verify_depth`).
  The stack these frames need is NOT part of the allocation claim: a decoded proof of `n` hashes
  needs a stack `n + 2` frames deep (`MerkleProof::read` does not cap the path), see the assumptions
  of `checks/C11.json`.

When this check was first built the three recursive calls went through `verify`, which cloned the
remaining path and recomputed the peaks at every level: the memory held by the nested frames was
EXACTLY `32·(1 + 2 + … + n) + 8·p·(n + 1)` bytes (`unrepaired_live`), above `c·(wire length) + k`
for every `c`, `k` (`unrepaired_live_superlinear`) — measured on the real code: 2048 hashes = 64 KB
held 67 MB. Repaired in /repo b3a89a045 (verdicts unchanged: `unrepaired_same_verdict`); the model
follows the repaired code, the unrepaired one is kept as `verifyUnrepairedI`, and the `mverify`
stream of the `dec` harness replays the long paths as a regression probe (`ser mvlive` lines: the live
peak of the real call lies between the model's value and the model's value + 8 KiB). -/
namespace GV.Props.C11Verify
open GV GV.Pmmr GV.DecVerify

variable {α H : Type}

theorem findIdx_some_length {l : List Nat} {x i : Nat} (h : findIdx l x = some i) : l.length ≠ 0 := by
  simp only [findIdx] at h
  split at h
  · omega
  · simp at h

/-- `verify_consume` computes the verdict of the PMMR model's `verifyAux`, never `none` -/
theorem consumeI_verdict (hf : HashFn α H) [DecidableEq H] (root : H) (mmrSize : Nat) (pks : List Nat) :
    ∀ (path : List H) (eh : Nat → H) (pos : Nat),
      (consumeI hf root mmrSize pks path eh pos).1 = some (verifyAux hf root mmrSize pks path eh pos) := by
  intro path
  induction path with
  | nil => intro eh pos; rfl
  | cons sib rest ih =>
    intro eh pos
    simp only [consumeI, verifyAux]
    cases hfi : findIdx pks pos with
    | none =>
      simp only
      split
      · exact ih _ _
      · split <;> exact ih _ _
    | some x =>
      simp only
      rw [if_neg (findIdx_some_length hfi)]
      split <;> exact ih _ _

/-- **No panic**: for every proof, element, position, size and hash function. -/
theorem verify_no_panic (hf : HashFn α H) [DecidableEq H] (root : H) (mmrSize : Nat) (path : List H) (e : α) (pos : Nat) :
    (DecVerify.verify hf root mmrSize path e pos).verdict ≠ none := by
  simp only [DecVerify.verify]
  rw [consumeI_verdict]
  simp

/-- the verdict is the one the MMR theorems (C07) speak about -/
theorem verify_verdict_is_pmmr_verify (hf : HashFn α H) [DecidableEq H] (root : H) (mmrSize : Nat)
    (path : List H) (e : α) (pos : Nat) :
    (DecVerify.verify hf root mmrSize path e pos).verdict = some (Pmmr.verify hf root mmrSize path e pos) := by
  simp only [DecVerify.verify, Pmmr.verify]
  exact consumeI_verdict hf root mmrSize _ path _ pos

theorem consumeI_depth (hf : HashFn α H) [DecidableEq H] (root : H) (mmrSize : Nat) (pks : List Nat) :
    ∀ (path : List H) (eh : Nat → H) (pos : Nat),
      (consumeI hf root mmrSize pks path eh pos).2 = path.length + 1 := by
  intro path
  induction path with
  | nil => intro eh pos; rfl
  | cons sib rest ih =>
    intro eh pos
    simp only [consumeI, List.length_cons]
    cases hfi : findIdx pks pos with
    | none =>
      simp only
      split
      · rw [ih]
      · split <;> rw [ih]
    | some x =>
      simp only
      rw [if_neg (findIdx_some_length hfi)]
      split <;> rw [ih]

/-- one `verify_consume` frame per path hash, the last one, and the `verify` frame: a path of `n`
hashes needs a stack `n + 2` frames deep (a stack overflow is an abort, not a panic; outside the
allocation claim). -/
theorem verify_depth (hf : HashFn α H) [DecidableEq H] (root : H) (mmrSize : Nat) (path : List H) (e : α) (pos : Nat) :
    (DecVerify.verify hf root mmrSize path e pos).depth = path.length + 2 := by
  simp only [DecVerify.verify]
  rw [consumeI_depth]

/-- **Live memory, exactly**: the one clone of the path and the peak vector. -/
theorem verify_live (hf : HashFn α H) [DecidableEq H] (root : H) (mmrSize : Nat) (path : List H) (e : α) (pos : Nat) :
    (DecVerify.verify hf root mmrSize path e pos).live = HASH_BYTES * path.length + 8 * (peaks mmrSize).length := rfl

/-- **Allocation bound**: at most the wire length of the proof plus the peak vector — `1·len + 512`
for every size below 2^64 (at most 64 peaks). -/
theorem verify_alloc_bound (hf : HashFn α H) [DecidableEq H] (root : H) (mmrSize : Nat) (path : List H) (e : α) (pos : Nat)
    (hk : (peaks mmrSize).length ≤ 64) :
    (DecVerify.verify hf root mmrSize path e pos).live ≤ 1 * inputLen path.length + 512 := by
  rw [verify_live]
  simp only [inputLen, HASH_BYTES]
  omega

/-! ## the code before b3a89a045 -/

theorem unrepairedI_verdict (hf : HashFn α H) [DecidableEq H] (root : H) (mmrSize : Nat) (pks : List Nat) :
    ∀ (path : List H) (eh : Nat → H) (pos : Nat),
      (verifyUnrepairedI hf root mmrSize pks path eh pos).verdict = some (verifyAux hf root mmrSize pks path eh pos) := by
  intro path
  induction path with
  | nil => intro eh pos; rfl
  | cons sib rest ih =>
    intro eh pos
    simp only [verifyUnrepairedI, verifyAux]
    cases hfi : findIdx pks pos with
    | none =>
      simp only
      split
      · exact ih _ _
      · split <;> exact ih _ _
    | some x =>
      simp only
      rw [if_neg (findIdx_some_length hfi)]
      split <;> exact ih _ _

/-- the repair changed no verdict -/
theorem unrepaired_same_verdict (hf : HashFn α H) [DecidableEq H] (root : H) (mmrSize : Nat) (path : List H) (e : α) (pos : Nat) :
    (verifyUnrepaired hf root mmrSize path e pos).verdict = (DecVerify.verify hf root mmrSize path e pos).verdict := by
  rw [verify_verdict_is_pmmr_verify]
  simp only [verifyUnrepaired, Pmmr.verify]
  exact unrepairedI_verdict hf root mmrSize _ path _ pos

theorem liveOf_succ (n p : Nat) : liveOf (n + 1) p = HASH_BYTES * (n + 1) + 8 * p + liveOf n p := by
  simp only [liveOf, tri, HASH_BYTES]
  have h1 : 8 * p * (n + 1 + 1) = 8 * p * (n + 1) + 8 * p := Nat.mul_succ _ _
  omega

theorem unrepairedI_live (hf : HashFn α H) [DecidableEq H] (root : H) (mmrSize : Nat) (pks : List Nat) :
    ∀ (path : List H) (eh : Nat → H) (pos : Nat),
      (verifyUnrepairedI hf root mmrSize pks path eh pos).live = liveOf path.length pks.length := by
  intro path
  induction path with
  | nil => intro eh pos; simp [verifyUnrepairedI, liveOf, tri]
  | cons sib rest ih =>
    intro eh pos
    simp only [verifyUnrepairedI, List.length_cons]
    rw [liveOf_succ]
    cases hfi : findIdx pks pos with
    | none =>
      simp only
      split
      · rw [ih]
      · split <;> rw [ih]
    | some x =>
      simp only
      rw [if_neg (findIdx_some_length hfi)]
      split <;> rw [ih]

/-- the unrepaired code kept `32·(1+…+n) + 8·p·(n+1)` bytes alive at the bottom of the recursion —
whatever the hashes, positions and verdict were. -/
theorem unrepaired_live (hf : HashFn α H) [DecidableEq H] (root : H) (mmrSize : Nat) (path : List H) (e : α) (pos : Nat) :
    (verifyUnrepaired hf root mmrSize path e pos).live = liveOf path.length (peaks mmrSize).length :=
  unrepairedI_live hf root mmrSize _ path _ pos

theorem two_tri (n : Nat) : 2 * tri n = n * (n + 1) := by
  induction n with
  | zero => rfl
  | succ n ih =>
    simp only [tri]
    have h1 : (n + 1) * (n + 1 + 1) = (n + 1) * (n + 1) + (n + 1) := Nat.mul_succ _ _
    have h2 : (n + 1) * (n + 1) = n * (n + 1) + (n + 1) := Nat.succ_mul _ _
    omega

/-- the allocation bound of the property was false for the unrepaired check, for every constant
factor and every additive constant: a path of `2c + k + 2` hashes exceeded `c·(wire length) + k`,
for every proof of that length, every element, position, size and hash function. -/
theorem unrepaired_live_superlinear (c k : Nat) :
    ∃ n, ∀ (hf : HashFn α H) [DecidableEq H] (root : H) (mmrSize : Nat) (path : List H) (e : α) (pos : Nat),
      path.length = n → (verifyUnrepaired hf root mmrSize path e pos).live > c * inputLen n + k := by
  refine ⟨2 * c + k + 2, ?_⟩
  intro hf _ root mmrSize path e pos hlen
  rw [unrepaired_live, hlen]
  generalize hn : 2 * c + k + 2 = n
  have ht := two_tri n
  have hsq : n * (n + 1) = n * n + n := Nat.mul_succ _ _
  have hnn : n * n = n * (2 * c + k + 2) := by rw [hn]
  have hexp : n * (2 * c + k + 2) = 2 * (n * c) + n * k + 2 * n := by
    have e1 : n * (2 * c) = 2 * (n * c) := Nat.mul_left_comm n 2 c
    have e2 : n * 2 = 2 * n := Nat.mul_comm n 2
    rw [Nat.mul_add, Nat.mul_add, e1, e2]
  have hcn : c * inputLen n = 16 * c + 32 * (n * c) := by
    simp only [inputLen, HASH_BYTES]
    rw [Nat.mul_add, Nat.mul_comm n c, ← Nat.mul_assoc, Nat.mul_comm c 32, Nat.mul_assoc]
    omega
  have hnk : 0 ≤ n * k := Nat.zero_le _
  simp only [liveOf, HASH_BYTES]
  omega

/-! non-vacuity: a concrete proof (toy hash = list concatenation), accepted, depth and live as stated -/

def toyHF : HashFn (List Nat) (List Nat) where
  leaf := fun i e => i :: e
  node := fun i l r => i :: (l ++ r)

/-- the 2-leaf MMR (size 3): leaf 0 with sibling leaf 1 verifies against the root -/
example : DecVerify.verify toyHF (toyHF.node 2 (toyHF.leaf 0 [7]) (toyHF.leaf 1 [8])) 3 [toyHF.leaf 1 [8]] [7] 0
    = { verdict := some true, depth := 3, live := 32 * 1 + 8 * 1 } := by
  simp [DecVerify.verify, consumeI, findIdx, family, isLeftSibling, peakMapHeight, peaks, peakSizesHeight,
    greedy, greedySizes, scanPeaks, bitLen, bitSet, toyHF, HASH_BYTES]
  decide

/-- under the unrepaired code 2048 hashes (a 64 KB proof) kept 67 MB alive -/
example : liveOf 2048 1 = 67158024 := by
  have h := two_tri 2048
  unfold liveOf HASH_BYTES
  generalize tri 2048 = t at h ⊢
  omega

end GV.Props.C11Verify
