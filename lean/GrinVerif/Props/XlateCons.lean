import GrinVerif.Model.Cons
import GrinVerif.Model.PowDiff
import GrinVerif.Model.Keys
import GrinVerif.Model.SerTx
import GrinVerif.Gen.FnsCons
import GrinVerif.Lemmas.XlateArith
/-! # Translated `core/src/consensus.rs` + `core/src/global.rs` = hand-written models

`GV.Gen.Fns.*` (file `Gen/FnsCons.lean`) is regenerated on every check run from the CURRENT Rust
source by `tools/rs2lean.py`.  `global::get_chain_type()` is the extra leading parameter
`chain_type : Fns.ChainTypes` (the enum is generated from `enum ChainTypes` of global.rs); `ofCons` /
`ofPow` map the hand models' chain-type enumerations to it.  `…_ok` is the generated condition
"the Rust function returns normally" (here: no division by zero); the hand model's `none` (panic)
outcome is tied to it. -/

namespace GV.Props.XlateCons
open GV GV.Gen GV.Xlate

/-- `Model/Cons.lean`'s chain type as the generated `ChainTypes` -/
def ofCons : GV.Cons.ChainType → Fns.ChainTypes
  | .mainnet => .Mainnet
  | .testnet => .Testnet
  | .automatedTesting => .AutomatedTesting
  | .userTesting => .UserTesting

/-- `Model/PowSelect.lean`'s chain type as the generated `ChainTypes` -/
def ofPow : GV.Pow.ChainType → Fns.ChainTypes
  | .mainnet => .Mainnet
  | .testnet => .Testnet
  | .automated => .AutomatedTesting
  | .user => .UserTesting

/-- every `ChainTypes` value is the image of a model chain type (the mappings lose nothing) -/
theorem ofCons_surj (c : Fns.ChainTypes) : ∃ ct, ofCons ct = c := by
  cases c
  · exact ⟨.automatedTesting, rfl⟩
  · exact ⟨.userTesting, rfl⟩
  · exact ⟨.testnet, rfl⟩
  · exact ⟨.mainnet, rfl⟩

/-! ## `reward`, `secondary_pow_ratio` -/

/-- `reward(fee)` for every u64 fee -/
theorem reward_eq (fee : Nat) : Fns.reward fee = GV.Keys.rewardOf REWARD fee := by
  simp [Fns.reward, Fns.satAddN, GV.Keys.rewardOf]

example : Fns.reward 7 = 60000000007 := by decide

/-- `secondary_pow_ratio(height)` for every height -/
theorem secondary_pow_ratio_eq (height : Nat) :
    Fns.secondary_pow_ratio height = GV.Cons.secondaryPowRatio height := by
  have : mulW 2 YEAR_HEIGHT = 2 * YEAR_HEIGHT := by decide
  simp [Fns.secondary_pow_ratio, GV.Cons.secondaryPowRatio, this]

theorem secondary_pow_ratio_ok (height : Nat) : Fns.secondary_pow_ratio_ok height = true := by
  unfold Fns.secondary_pow_ratio_ok; decide

example : Fns.secondary_pow_ratio 1000000 = 5 := by decide

/-! ## `header_version`, `valid_header_version` -/

theorem cast16_add (x : Nat) : Fns.castN 16 (addW 1 x) = (1 + x) % 2^16 := by
  unfold Fns.castN addW; omega

/-- `header_version(height)` for every height and chain type (the `as u16` truncation included) -/
theorem header_version_eq (ct : GV.Cons.ChainType) (height : Nat) :
    Fns.header_version (ofCons ct) height = GV.Cons.headerVersion ct height := by
  cases ct <;> simp [Fns.header_version, ofCons, GV.Cons.headerVersion, GV.Cons.hfVersion, cast16_add]

theorem header_version_ok (c : Fns.ChainTypes) (height : Nat) : Fns.header_version_ok c height = true := by
  have h1 : (HARD_FORK_INTERVAL != 0) = true := by decide
  have h2 : (TESTING_HARD_FORK_INTERVAL != 0) = true := by decide
  cases c <;> simp [Fns.header_version_ok, h1, h2]

/-- `valid_header_version(height, version)` -/
theorem valid_header_version_eq (ct : GV.Cons.ChainType) (height version : Nat) :
    Fns.valid_header_version (ofCons ct) height version = GV.Cons.validHeaderVersion ct height version := by
  simp [Fns.valid_header_version, GV.Cons.validHeaderVersion, header_version_eq]

theorem valid_header_version_ok (c : Fns.ChainTypes) (height version : Nat) :
    Fns.valid_header_version_ok c height version = true := by
  simp [Fns.valid_header_version_ok, header_version_ok]

example : Fns.header_version .Mainnet 600000 = 3 ∧ Fns.header_version .AutomatedTesting 7 = 3
    ∧ Fns.header_version .Testnet 600000 = 4 ∧ Fns.valid_header_version .Mainnet 600000 3 = true := by
  decide

/-! ## chain-type dependent parameters of `global.rs` -/

theorem min_edge_bits_eq (ct : GV.Cons.ChainType) : Fns.min_edge_bits (ofCons ct) = GV.Cons.minEdgeBits ct := by
  cases ct <;> rfl

theorem base_edge_bits_eq (ct : GV.Cons.ChainType) : Fns.base_edge_bits (ofCons ct) = GV.Cons.baseEdgeBits ct := by
  cases ct <;> rfl

theorem base_edge_bits_eq_pow (c : GV.Pow.ChainType) : Fns.base_edge_bits (ofPow c) = GV.Pow.baseEdgeBits c := by
  cases c <;> rfl

theorem max_block_weight_eq (ct : GV.Cons.ChainType) :
    Fns.max_block_weight (ofCons ct) = GV.Cons.maxBlockWeight ct := by
  cases ct <;> rfl

theorem coinbase_maturity_eq (ct : GV.Cons.ChainType) :
    Fns.coinbase_maturity (ofCons ct) = GV.Cons.coinbaseMaturity ct := by
  cases ct <;> rfl

/-- `max_tx_weight()` = the model's `maxTxWeight` of `max_block_weight()` -/
theorem max_tx_weight_eq (ct : GV.Cons.ChainType) :
    Fns.max_tx_weight (ofCons ct) = GV.Ser.maxTxWeight (GV.Cons.maxBlockWeight ct) := by
  have : addW OUTPUT_WEIGHT KERNEL_WEIGHT = OUTPUT_WEIGHT + KERNEL_WEIGHT := by decide
  simp [Fns.max_tx_weight, GV.Ser.maxTxWeight, max_block_weight_eq, this, satSub]

example : Fns.max_tx_weight .Mainnet = 39976 ∧ Fns.base_edge_bits .AutomatedTesting = 10 := by decide

/-! ## `graph_weight` -/

theorem base_edge_bits_lt (c : Fns.ChainTypes) : Fns.base_edge_bits c < 256 := by
  cases c <;> decide

/-- `graph_weight(height, edge_bits)` for every u64 height and u8 edge_bits (the u8 subtraction
`edge_bits - base_edge_bits()` wraps, the shift amount is masked, the product wraps — exactly as
the hand model says) -/
theorem graph_weight_eq (ct : GV.Cons.ChainType) (height eb : Nat) (hh : height < 2^64) :
    Fns.graph_weight (ofCons ct) height eb = GV.Cons.graphWeight ct height eb := by
  have hb := base_edge_bits_lt (ofCons ct)
  have hw : 0 < WEEK_HEIGHT := by decide
  have hy : YEAR_HEIGHT < 2^64 := by decide
  unfold Fns.graph_weight GV.Cons.graphWeight
  rw [← base_edge_bits_eq ct]
  have hsub : Fns.subN 8 eb (Fns.base_edge_bits (ofCons ct)) = (eb + 256 - Fns.base_edge_bits (ofCons ct)) % 256 := by
    unfold Fns.subN; rw [Nat.mod_eq_of_lt hb]
  simp only [hsub]
  by_cases hc : eb = 31 ∧ height ≥ YEAR_HEIGHT
  · have hs : subW height YEAR_HEIGHT = height - YEAR_HEIGHT := subW_eq hh hc.2
    have hy0 : 0 < YEAR_HEIGHT := by decide
    have hd : (height - YEAR_HEIGHT) / WEEK_HEIGHT < 2^64 - 1 :=
      Nat.lt_of_le_of_lt (Nat.div_le_self _ _) (by have := hc.2; omega)
    have ha : addW 1 ((height - YEAR_HEIGHT) / WEEK_HEIGHT) = 1 + (height - YEAR_HEIGHT) / WEEK_HEIGHT :=
      addW_eq (by omega)
    simp [hc, hs, ha]
  · have : ¬ ((eb == 31) && decide (height ≥ YEAR_HEIGHT)) = true := by
      simp only [Bool.and_eq_true, beq_iff_eq, decide_eq_true_eq]; exact hc
    simp only [this, hc, if_false]
    rfl

/-- the same against the second hand model of `graph_weight` (`Model/PowDiff.lean`, property C05) -/
theorem graph_weight_eq_pow (c : GV.Pow.ChainType) (height eb : Nat) (hh : height < 2^64) (he : eb < 256) :
    Fns.graph_weight (ofPow c) height eb = GV.Pow.graphWeight c height eb := by
  have hb := base_edge_bits_lt (ofPow c)
  have hy : YEAR_HEIGHT < 2^64 := by decide
  unfold Fns.graph_weight GV.Pow.graphWeight GV.Pow.xprEdgeBits
  rw [← base_edge_bits_eq_pow c]
  have hsub : Fns.subN 8 eb (Fns.base_edge_bits (ofPow c)) = (eb % 256 + 256 - Fns.base_edge_bits (ofPow c)) % 256 := by
    unfold Fns.subN; rw [Nat.mod_eq_of_lt hb, Nat.mod_eq_of_lt he]
  simp only [hsub]
  by_cases hc : eb = 31 ∧ height ≥ YEAR_HEIGHT
  · have hs : subW height YEAR_HEIGHT = height - YEAR_HEIGHT := subW_eq hh hc.2
    have hy0 : 0 < YEAR_HEIGHT := by decide
    have hd : (height - YEAR_HEIGHT) / WEEK_HEIGHT < 2^64 - 1 :=
      Nat.lt_of_le_of_lt (Nat.div_le_self _ _) (by have := hc.2; omega)
    have ha : addW 1 ((height - YEAR_HEIGHT) / WEEK_HEIGHT) = 1 + (height - YEAR_HEIGHT) / WEEK_HEIGHT :=
      addW_eq (by omega)
    simp [hc, hs, ha]
  · have : ¬ ((eb == 31) && decide (height ≥ YEAR_HEIGHT)) = true := by
      simp only [Bool.and_eq_true, beq_iff_eq, decide_eq_true_eq]; exact hc
    simp only [this, hc, if_false]
    rfl

theorem graph_weight_ok (c : Fns.ChainTypes) (height eb : Nat) : Fns.graph_weight_ok c height eb = true := by
  have : (WEEK_HEIGHT != 0) = true := by decide
  unfold Fns.graph_weight_ok
  simp only [this]
  split <;> rfl

example : Fns.graph_weight .Mainnet 0 32 = 16384 ∧ Fns.graph_weight .Mainnet 600000 31 = 5888 := by
  decide

/-- `initial_graph_weight()` -/
theorem initial_graph_weight_eq (ct : GV.Cons.ChainType) :
    Fns.initial_graph_weight (ofCons ct) = GV.Cons.initialGraphWeight ct := by
  cases ct <;>
    simp [Fns.initial_graph_weight, ofCons, GV.Cons.initialGraphWeight, Fns.castN,
      ← graph_weight_eq _ 0 _ (by decide : 0 < 2^64)]

/-- `min_wtema_graph_weight()` -/
theorem min_wtema_graph_weight_eq (ct : GV.Cons.ChainType) :
    Fns.min_wtema_graph_weight (ofCons ct) = GV.Cons.minWtemaGraphWeight ct := by
  cases ct <;>
    simp [Fns.min_wtema_graph_weight, ofCons, GV.Cons.minWtemaGraphWeight,
      ← graph_weight_eq _ 0 _ (by decide : 0 < 2^64)]

theorem initial_graph_weight_ok (c : Fns.ChainTypes) : Fns.initial_graph_weight_ok c = true := by
  cases c <;> simp [Fns.initial_graph_weight_ok, graph_weight_ok]

theorem min_wtema_graph_weight_ok (c : Fns.ChainTypes) : Fns.min_wtema_graph_weight_ok c = true := by
  cases c <;> simp [Fns.min_wtema_graph_weight_ok, graph_weight_ok]

/-! ## `damp`, `clamp`: the hand model's `none` is exactly the generated panic condition -/

/-- `damp(actual, goal, damp_factor)` for all inputs: the model's `none` (division by zero) is
`damp_ok = false`, and otherwise the values agree (wrapping `+ - *` on both sides) -/
theorem damp_eq (actual goal f : Nat) :
    GV.Cons.damp actual goal f = if Fns.damp_ok actual goal f then some (Fns.damp actual goal f) else none := by
  unfold GV.Cons.damp Fns.damp_ok Fns.damp
  by_cases h : f = 0 <;> simp [h]

/-- `clamp(actual, goal, clamp_factor)` for all inputs -/
theorem clamp_eq (actual goal f : Nat) :
    GV.Cons.clamp actual goal f = if Fns.clamp_ok actual goal f then some (Fns.clamp actual goal f) else none := by
  unfold GV.Cons.clamp Fns.clamp_ok Fns.clamp
  by_cases h : f = 0 <;> simp [h]

example : Fns.damp 100 3600 3 = 2433 ∧ Fns.damp_ok 100 3600 3 = true ∧ Fns.damp_ok 1 1 0 = false
    ∧ Fns.clamp 100 3600 2 = 1800 := by decide

end GV.Props.XlateCons
