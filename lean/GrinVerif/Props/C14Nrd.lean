import GrinVerif.Props.C14
/-! C14 / C13 (pool side) — the NRD relative-height rule at pool admission, exactly.

* `nrdTooRecent_iff` — `Chain::validate_tx`'s NRD part refuses **iff** some NRD kernel of the
  transaction repeats an excess whose MOST RECENT instance on the path of the head lies fewer than
  `relative_height` blocks below the next block: admissible from exactly `h0 + rel`
  (`nrd_boundary`: at `next = h0 + rel` accepted, at `next + 1 = h0 + rel` refused);
* `nrd_rule_reads_head_index_only` — the verdict depends on the chain only through the index of the
  CURRENT head's path: after a reorganisation that moves the instance from `h1` to `h2` the
  boundary is `h2 + rel` (the instance on the abandoned branch plays no part);
* `shared_nrd_excess_refused` — one excess in two transactions that get aggregated (txpool entry and
  new fluff transaction; txpool aggregate and new stem transaction; stempool entry and the txpool
  aggregate it is reconciled against) never validates while the feature is on: the aggregate carries
  the excess twice (`aggregate_nrdExcesses`), `verify_no_nrd_duplicates` refuses whatever the
  relative heights.
Driven on the real code by the jobs `nrd-reorg-boundary-0/1` of run pool2. -/
namespace GV.Props.C14Nrd
open GV.Pool GV.Chain

theorem nrdTooRecent_iff (c : Ctx) (t : Tx) :
    nrdTooRecent c t = true ↔
      ∃ k ∈ t.kers, ∃ f rel ex, k.ker = .nrd f rel ex ∧
        ∃ p, c.head.nrd.find? (·.1 == ex) = some p ∧ c.head.height + 1 < p.2 + rel := by
  unfold nrdTooRecent
  rw [List.any_eq_true]
  constructor
  · rintro ⟨k, hk, h⟩
    refine ⟨k, hk, ?_⟩
    cases hker : k.ker with
    | nrd f rel ex =>
      rw [hker] at h
      simp only at h
      cases hf : c.head.nrd.find? (·.1 == ex) with
      | none => rw [hf] at h; simp at h
      | some p =>
        rw [hf] at h
        obtain ⟨e, h0⟩ := p
        simp only [decide_eq_true_eq] at h
        exact ⟨f, rel, ex, rfl, (e, h0), hf, h⟩
    | cb => rw [hker] at h; simp at h
    | plain f => rw [hker] at h; simp at h
    | hl f l => rw [hker] at h; simp at h
  · rintro ⟨k, hk, f, rel, ex, hker, p, hf, hlt⟩
    refine ⟨k, hk, ?_⟩
    rw [hker]
    simp only
    rw [hf]
    obtain ⟨e, h0⟩ := p
    simpa using hlt

/-- a transaction with ONE kernel, an NRD kernel: refused iff the next block is below `h0 + rel` -/
theorem nrd_boundary (c : Ctx) (kid f rel : Nat) (ex : String) (ins outs : List Nat) (e : String) (h0 : Nat)
    (hf : c.head.nrd.find? (·.1 == ex) = some (e, h0)) :
    nrdTooRecent c { ins, outs, kers := [{ kid, ker := .nrd f rel ex }] } = decide (c.head.height + 1 < h0 + rel) := by
  simp [nrdTooRecent, hf]

/-- the rule reads the index of the current head and its height, nothing else of the context -/
theorem nrd_rule_reads_head_index_only (c c' : Ctx) (t : Tx) (h1 : c.head.nrd = c'.head.nrd)
    (h2 : c.head.height = c'.head.height) : nrdTooRecent c t = nrdTooRecent c' t := by
  unfold nrdTooRecent; rw [h1, h2]

/-- after a reorganisation: same height of the head, the instance of the excess moved from `h1`
(abandoned branch) to `h2`: the verdict is the one for `h2` -/
example :
    let t : Tx := { ins := [1], outs := [2], kers := [{ kid := 1, ker := .nrd 10 3 "K" }] }
    let onA : Ctx := { head := { utxo := [], nrd := [("K", 11)], height := 13 } }
    let onB : Ctx := { head := { utxo := [], nrd := [("K", 12)], height := 13 } }
    nrdTooRecent onA t = false ∧ nrdTooRecent onB t = true := by decide

theorem strNodupB_false_of_common {a b : List String} {x : String} (ha : x ∈ a) (hb : x ∈ b) :
    strNodupB (a ++ b) = false := by
  induction a with
  | nil => simp at ha
  | cons y ys ih =>
    simp only [List.cons_append, strNodupB]
    rcases List.mem_cons.mp ha with h | h
    · subst h
      have : (ys ++ b).contains x = true := by simp [hb]
      simp only [this, Bool.not_true, Bool.false_and]
    · simp [ih h]

theorem filterMap_flatMap_kers (g : PKer → Option String) (txs : List Tx) :
    (txs.flatMap (·.kers)).filterMap g = txs.flatMap (fun t => t.kers.filterMap g) := by
  induction txs with
  | nil => rfl
  | cons t rest ih => simp only [List.flatMap_cons, List.filterMap_append, ih]

theorem aggregate_kers {t1 t2 : Tx} {rest : List Tx} {a : Tx}
    (h : aggregate (t1 :: t2 :: rest) = .ok a) : a.kers = (t1 :: t2 :: rest).flatMap (·.kers) := by
  simp only [aggregate] at h
  split at h
  · simp at h
  · simp only [Except.ok.injEq] at h
    rw [← h]

/-- the NRD excesses of an aggregate of two or more transactions are those of its parts, all of them -/
theorem aggregate_nrdExcesses {t1 t2 : Tx} {rest : List Tx} {a : Tx}
    (h : aggregate (t1 :: t2 :: rest) = .ok a) :
    nrdExcesses a = (t1 :: t2 :: rest).flatMap nrdExcesses := by
  unfold nrdExcesses
  rw [aggregate_kers h]
  exact filterMap_flatMap_kers _ _

/-- **one excess in two of the aggregated transactions**: the aggregate does not validate (feature
on, under any weighting) — whatever the relative heights and whatever the chain says -/
theorem shared_nrd_excess_refused {c : Ctx} {w : Weighting} {pre post : List Tx} {t1 t2 a : Tx} {x : String}
    (hen : c.cfg.nrdEnabled = true) (h1 : x ∈ nrdExcesses t1) (h2 : x ∈ nrdExcesses t2)
    (hagg : aggregate (pre ++ t1 :: (post ++ [t2])) = .ok a) :
    validateRawTx c w a ≠ none := by
  have hdup : strNodupB (nrdExcesses a) = false := by
    have hex : nrdExcesses a = (pre ++ t1 :: (post ++ [t2])).flatMap nrdExcesses := by
      cases pre with
      | nil =>
        cases post with
        | nil => exact aggregate_nrdExcesses hagg
        | cons p ps => exact aggregate_nrdExcesses hagg
      | cons p ps =>
        cases ps with
        | nil => exact aggregate_nrdExcesses hagg
        | cons q qs => exact aggregate_nrdExcesses hagg
    rw [hex]
    simp only [List.flatMap_append, List.flatMap_cons, List.flatMap_nil, List.append_nil]
    have : strNodupB (nrdExcesses t1 ++ (post.flatMap nrdExcesses ++ nrdExcesses t2)) = false :=
      strNodupB_false_of_common h1 (List.mem_append.mpr (Or.inr h2))
    -- a duplicate in a suffix is a duplicate of the whole
    have suffix : ∀ (l m : List String), strNodupB m = false → strNodupB (l ++ m) = false := by
      intro l m hm
      induction l with
      | nil => exact hm
      | cons y ys ih => simp [strNodupB, ih]
    exact suffix _ _ this
  intro hv
  have hval := validateRawTx_validate hv
  unfold Tx.validate at hval
  split at hval
  · simp at hval
  split at hval
  · simp at hval
  split at hval
  · simp at hval
  · rename_i hn
    simp [hen, hdup] at hn

/-- non-vacuity: a txpool transaction and a new one sharing the excess "K" -/
example :
    let t1 : Tx := { ins := [1], outs := [11], kers := [{ kid := 1, ker := .nrd 10 2 "K" }] }
    let t2 : Tx := { ins := [2], outs := [12], kers := [{ kid := 2, ker := .nrd 10 2 "K" }] }
    ∃ a, aggregate ([] ++ t1 :: ([] ++ [t2])) = .ok a ∧ "K" ∈ nrdExcesses t1 ∧ "K" ∈ nrdExcesses t2 :=
  ⟨_, rfl, by decide, by decide⟩

end GV.Props.C14Nrd
