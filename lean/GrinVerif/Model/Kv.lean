import GrinVerif.Model.Basic
/-! Model of `store/src/lmdb.rs`: `Store`, `Batch`, `Batch::child`, `commit`, `get_ser`, `exists`,
`iter` / `DatabaseIterator` (paging by `skip_total`), `put` / `put_ser` / `delete`, and the
resize gate (`maybe_resize`, `needs_resize`, `enter_tx` / `TxCounter`, the `resizing` flag).

The Rust file is a thin layer over LMDB (through `heed`): a `Batch` *is* an LMDB write
transaction, `Batch::child` *is* a nested write transaction, `Store::get_ser/exists/iter` open a
fresh read transaction.  The model therefore is LMDB's contract (the trusted base says: LMDB =
ACID key-value store with nested write transactions) written out executable:

* `committed` — the durable tables (one sorted table per named database, here one sorted list
  keyed by `(db, key bytes)`),
* `stack` — the single writer's open transactions, innermost first, each an overlay of pending
  writes (newest first; `none` = delete tombstone).

Only one top-level write transaction exists at a time (LMDB's writer mutex; a second
`Store::batch()` blocks), so one stack suffices. -/

namespace GV.Kv

/-- `(database, key bytes)`. Database `0` is the default db (`db_key = None`), `p+1` is the named
db of prefix byte `p` (`db_key = Some(p)`): separate key spaces inside one LMDB environment. -/
abbrev Key := Nat × Bytes
abbrev Val := Bytes

/-- LMDB's default key order: `memcmp` on the common length, shorter first = lexicographic. -/
def bytesLt : Bytes → Bytes → Bool
  | [], [] => false
  | [], _ :: _ => true
  | _ :: _, [] => false
  | a :: as, b :: bs => if a < b then true else if b < a then false else bytesLt as bs

def keyLt (a b : Key) : Bool :=
  if a.1 < b.1 then true else if b.1 < a.1 then false else bytesLt a.2 b.2

/-- a table: association list, kept strictly sorted by `keyLt` (invariant `Sorted`) -/
abbrev Tbl := List (Key × Val)

/-- `mdb_get` -/
def tget : Tbl → Key → Option Val
  | [], _ => none
  | (k', v) :: r, k => if k' = k then some v else tget r k

/-- `mdb_put` (overwrite semantics, no `NOOVERWRITE` flag is ever passed) -/
def tput (k : Key) (v : Val) : Tbl → Tbl
  | [] => [(k, v)]
  | (k', v') :: r =>
    if keyLt k k' then (k, v) :: (k', v') :: r
    else if k = k' then (k, v) :: r
    else (k', v') :: tput k v r

/-- `mdb_del` (deleting an absent key is `Ok(false)` in heed, mapped to `Ok(())`) -/
def tdel (k : Key) (t : Tbl) : Tbl := t.filter (fun e => !(decide (e.1 = k)))

/-- one pending write: `some v` = put, `none` = delete -/
abbrev W := Key × Option Val
/-- overlay of one (nested) write transaction, newest write first -/
abbrev Ov := List W

def applyW (w : W) (t : Tbl) : Tbl :=
  match w.2 with
  | some v => tput w.1 v t
  | none => tdel w.1 t

/-- apply an overlay (oldest write first, i.e. from the end of the list) -/
def applyOv (o : Ov) (t : Tbl) : Tbl := o.foldr applyW t

/-- newest pending write to `k` in an overlay, if any -/
def ovGet : Ov → Key → Option (Option Val)
  | [], _ => none
  | (k', v) :: r, k => if k' = k then some v else ovGet r k

/-- State of one LMDB environment as seen through `Store` / `Batch`. -/
structure St where
  committed : Tbl := []
  /-- open write transactions of the single writer, innermost first; `[]` = no batch open -/
  stack : List Ov := []
deriving Repr

/-- state-changing operations -/
inductive Op
  /-- `Store::batch()` → `Batch::new` → `env.write_txn()` -/
  | begin
  /-- `Batch::put` / `put_ser` on the innermost open batch -/
  | put (k : Key) (v : Val)
  /-- `Batch::delete` -/
  | del (k : Key)
  /-- `Batch::child` → `env.nested_write_txn(&mut parent)` -/
  | child
  /-- `Batch::commit` of the innermost open batch → `mdb_txn_commit` -/
  | commit
  /-- dropping the innermost open batch → `mdb_txn_abort` -/
  | drop
deriving Repr

def step (st : St) : Op → St
  | .begin => match st.stack with
    | [] => { st with stack := [[]] }
    | _ => st            -- a second top-level batch blocks in LMDB; never generated
  | .put k v => match st.stack with
    | o :: s => { st with stack := ((k, some v) :: o) :: s }
    | [] => st
  | .del k => match st.stack with
    | o :: s => { st with stack := ((k, none) :: o) :: s }
    | [] => st
  | .child => match st.stack with
    | o :: s => { st with stack := [] :: o :: s }
    | [] => st
  | .commit => match st.stack with
    | [] => st
    | [o] => { committed := applyOv o st.committed, stack := [] }
    | c :: p :: s => { st with stack := (c ++ p) :: s }
  | .drop => match st.stack with
    | [] => st
    | _ :: s => { st with stack := s }

def run (st : St) (ops : List Op) : St := ops.foldl step st

/-- process death: every open transaction is gone, the committed tables are what is on disk -/
def crash (st : St) : St := { committed := st.committed, stack := [] }

/-! ### reads -/

/-- what the innermost open batch sees: all enclosing overlays applied to the committed tables -/
def view (st : St) : Tbl := applyOv st.stack.flatten st.committed

/-- `Batch::get_ser` (raw bytes): read through the stack top-down, then `committed` -/
def bget (st : St) (k : Key) : Option Val :=
  match ovGet st.stack.flatten k with
  | some r => r
  | none => tget st.committed k

/-- `Batch::exists` -/
def bexists (st : St) (k : Key) : Bool := (bget st k).isSome

/-- `Store::get_ser` (fresh read txn: committed data only) -/
def sget (st : St) (k : Key) : Option Val := tget st.committed k

/-- `Store::exists` -/
def sexists (st : St) (k : Key) : Bool := (sget st k).isSome

/-- what an iterator over database `db` must yield: its entries in key order -/
def iterSpec (t : Tbl) (db : Nat) : List (Bytes × Val) :=
  (t.filter (fun e => e.1.1 == db)).map (fun e => (e.1.2, e.2))

/-- the key list `read_key_page` walks (`db.iter(read).move_between_keys()`) -/
def keysOf (t : Tbl) (db : Nat) : List Bytes :=
  (t.filter (fun e => e.1.1 == db)).map (fun e => e.1.2)

/-- `DatabaseIterator`: `read_key_page(skip)` = `.skip(skip).take(page)` over the snapshot's keys;
`next` walks the page, re-reads each value with `db.get` (a key without value is skipped), and
at the end of the page loads the next one at `skip_total`; an empty page sets `done`. -/
def iterLoop (page : Nat) (keys : List Bytes) (lookup : Bytes → Option Val) :
    Nat → Nat → List (Bytes × Val)
  | 0, _ => []
  | fuel+1, skipTotal =>
    let pg := (keys.drop skipTotal).take page
    if pg.isEmpty then []
    else pg.filterMap (fun k => (lookup k).map (fun v => (k, v)))
          ++ iterLoop page keys lookup fuel (skipTotal + pg.length)

def iterPaged (page : Nat) (t : Tbl) (db : Nat) : List (Bytes × Val) :=
  let keys := keysOf t db
  iterLoop page keys (fun kb => tget t (db, kb)) (keys.length + 1) 0

/-- the constant in `read_key_page`: `.take(10000)` -/
def PAGE : Nat := 10000

/-- `Batch::iter` (nested read txn of the write txn: sees the batch's view) -/
def biter (st : St) (db : Nat) : List (Bytes × Val) := iterPaged PAGE (view st) db

/-- `Store::iter` (static read txn: snapshot of the committed tables at creation) -/
def siter (st : St) (db : Nat) : List (Bytes × Val) := iterPaged PAGE st.committed db

/-! ### key validity (LMDB: `MDB_BAD_VALSIZE` for empty keys and keys longer than 511 bytes) -/

def MAXKEY : Nat := 511
def validKey (k : Bytes) : Bool := 0 < k.length && k.length ≤ MAXKEY

/-! ### `put_ser` / `get_ser` of the harness record type
`Rec { tag: u64, body: Vec<u8> }`: `write_u64(tag); write_bytes(body)` (u64 length prefix);
read with `read_u64; read_bytes_len_prefix` (`read_fixed_bytes` refuses more than 100 000). -/

def encRec (tag : Nat) (body : Bytes) : Bytes := beBytes 8 tag ++ beBytes 8 body.length ++ body

def decRec (b : Bytes) : Option (Nat × Bytes) :=
  if b.length < 16 then none
  else
    let tag := ofBE (b.take 8)
    let len := ofBE ((b.drop 8).take 8)
    let rest := b.drop 16
    if len > 100000 then none
    else if rest.length < len then none
    else some (tag, rest.take len)

/-! ### The resize gate (`maybe_resize`, `enter_tx`, `TxCounter::drop`)

`EnvState { open_txs_count, resizing, resize_checking }` plus the thread-local
`THREAD_TX_COUNTS`.  All accesses go through the `ENV_MAP` lock, so each transition below is
atomic in the code as well. -/

inductive Phase
  /-- no resize in progress -/
  | idle
  /-- `set_resizing(true)` done, waiting for `open_txs_count == 0` (inline check or the
      spawned 100 ms poll loop) -/
  | pending (newSize : Nat)
  /-- inside `env.resize(new_size)` -/
  | running (newSize : Nat)
deriving Repr, DecidableEq

structure Gate where
  /-- `THREAD_TX_COUNTS` of thread `t` = `cnt[t]` -/
  cnt : List Nat
  /-- `open_txs_count` -/
  openTxs : Nat
  resizing : Bool
  /-- `resize_checking` -/
  checking : Bool
  phase : Phase
  mapSize : Nat
deriving Repr

def cntOf : Nat → List Nat → Nat
  | _, [] => 0
  | 0, c :: _ => c
  | t+1, _ :: r => cntOf t r

def incAt : Nat → List Nat → List Nat
  | _, [] => []
  | 0, c :: r => (c+1) :: r
  | t+1, c :: r => c :: incAt t r

def decAt : Nat → List Nat → List Nat
  | _, [] => []
  | 0, c :: r => (c-1) :: r
  | t+1, c :: r => c :: decAt t r

inductive GAct
  /-- `enter_tx` on thread `t` succeeds (the loop iteration that returns) -/
  | enter (t : Nat)
  /-- `TxCounter::drop` on thread `t` -/
  | exit (t : Nat)
  /-- `maybe_resize` wins `start_resize_checking`, `needs_resize` says yes with `newSize`,
      `set_resizing(true)` -/
  | request (newSize : Nat)
  /-- the resizer reads `open_txs_count == 0` and goes on to `env.resize` -/
  | beginResize
  /-- `env.resize` returned; `resizing := false; resize_checking := false` -/
  | endResize
deriving Repr

/-- guard of each transition, exactly the condition the code tests -/
def gateEnabled (g : Gate) : GAct → Bool
  | .enter t => t < g.cnt.length && (!g.resizing || cntOf t g.cnt > 0)
  | .exit t => cntOf t g.cnt > 0
  | .request _ => !g.checking
  | .beginResize => (match g.phase with | .pending _ => true | _ => false) && g.openTxs == 0
  | .endResize => match g.phase with | .running _ => true | _ => false

def gateStep (g : Gate) (a : GAct) : Gate :=
  if !gateEnabled g a then g else
  match a with
  | .enter t => { g with cnt := incAt t g.cnt, openTxs := g.openTxs + 1 }
  | .exit t => { g with cnt := decAt t g.cnt, openTxs := g.openTxs - 1 }
  | .request n => { g with checking := true, resizing := true, phase := .pending n }
  | .beginResize => match g.phase with
    | .pending n => { g with phase := .running n }
    | _ => g
  | .endResize => match g.phase with
    | .running n => { g with phase := .idle, resizing := false, checking := false, mapSize := n }
    | _ => g

def gateInit (threads mapSize : Nat) : Gate :=
  { cnt := List.replicate threads 0, openTxs := 0, resizing := false, checking := false,
    phase := .idle, mapSize := mapSize }

def gateRun (g : Gate) (as : List GAct) : Gate := as.foldl gateStep g

/-- `needs_resize(env, chunk)` with the `f32` comparisons read as exact rationals:
`used / map > 0.9 || map < chunk`; new size = `chunk` if `map < chunk`, else round `map` down to
a chunk multiple and add chunks while `used / tot > 0.65`. -/
def growLoop (used chunk : Nat) : Nat → Nat → Nat
  | 0, tot => tot
  | fuel+1, tot => if used * 100 > 65 * tot then growLoop used chunk fuel (tot + chunk) else tot

def needsResize (mapSize used chunk : Nat) : Bool × Nat :=
  let resize := used * 10 > 9 * mapSize || mapSize < chunk
  if !resize then (false, mapSize)
  else if mapSize < chunk then (true, chunk)
  else (true, growLoop used chunk (used * 2 + 1) (mapSize - mapSize % chunk))

end GV.Kv
