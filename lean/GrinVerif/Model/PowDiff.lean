import GrinVerif.Gen.Consts
import GrinVerif.Model.PowPack
import GrinVerif.Model.PowSelect
/-! # The difficulty a proof achieves (core/src/pow/types.rs, core/src/consensus.rs)

`Proof::scaled_difficulty` (in `PowPack.lean`: `scaledDiffU128`, the u128 arithmetic as written, and
`diffExact`, the rational definition), `consensus::graph_weight`, `Difficulty::from_num`,
`from_proof_adjusted` / `from_proof_scaled`, `ProofOfWork::to_difficulty` /
`to_unscaled_difficulty`. Everything is a function of the *packed nonces* (the bytes
`Proof::pack_nonces` produces, which are what `Proof::hash` hashes) and of
(chain type, height, edge_bits, secondary_scaling). -/
namespace GV.Pow
open GV.Gen

/-- `global::base_edge_bits()` -/
def baseEdgeBits : ChainType → Nat
  | .automated => AUTOMATED_TESTING_MIN_EDGE_BITS
  | .user => USER_TESTING_MIN_EDGE_BITS
  | .testnet | .mainnet => BASE_EDGE_BITS

/-- `xpr_edge_bits` of `graph_weight`: C31 loses one bit of weight per week after the first year
(`saturating_sub`) -/
def xprEdgeBits (height eb : Nat) : Nat :=
  if eb = 31 ∧ height ≥ YEAR_HEIGHT then satSub eb (1 + (height - YEAR_HEIGHT) / WEEK_HEIGHT) else eb

/-- `consensus::graph_weight(height, edge_bits)`:
`(2u64 << (edge_bits - global::base_edge_bits()) as u64) * xpr_edge_bits`.
As compiled in release (`overflow-checks` off): the `u8` subtraction wraps, `<<` uses the low six
bits of the shift amount and drops bits shifted out, `*` wraps. (In a debug build
`edge_bits < base_edge_bits` panics instead.) For `base ≤ edge_bits ≤ 63` nothing wraps:
`graphWeight_nowrap`. -/
def graphWeight (c : ChainType) (height eb : Nat) : Nat :=
  let sh := (eb % 256 + 256 - baseEdgeBits c) % 256
  mulW (shlW 2 sh) (xprEdgeBits height eb)

/-- `Difficulty::from_num` -/
def fromNum (n : Nat) : Nat := max n 1

/-- `ProofOfWork::to_difficulty(height).to_num()`; `sec` = `secondary_scaling : u32`,
`packed` = `proof.pack_nonces()` -/
def toDifficulty (c : ChainType) (height eb sec : Nat) (packed : Bytes) : Nat :=
  if eb = SECOND_POW_EDGE_BITS then fromNum (scaledDifficulty sec packed)        -- from_proof_scaled
  else fromNum (scaledDifficulty (graphWeight c height eb) packed)                -- from_proof_adjusted

/-- `ProofOfWork::to_unscaled_difficulty().to_num()` -/
def toUnscaledDifficulty (packed : Bytes) : Nat := fromNum (scaledDifficulty 1 packed)

end GV.Pow
