import GrinVerif.Model.Basic
/-! # Model of the `keys` domain (property C20)

What is LOGIC is modelled here and compared with the real code line by line; what is CRYPTOGRAPHY is
an opaque contract (`Crypto`, `KeyDeriv` below — structure fields, i.e. hypotheses of the theorems,
never axioms) that the harness checks by sampling on the real secp256k1-zkp / BIP32 code.

Rust sources transliterated:
* scalar arithmetic of blinding factors — `secp256k1_pedersen_blind_sum` (C, secp256k1-zkp
  `modules/commitment/main_impl.h`), `Secp256k1::blind_sum` (rust-secp256k1-zkp `pedersen.rs`),
  `SecretKey::from_slice`, `BlindingFactor::{secret_key, add, split}` (`keychain/src/types.rs`),
  `ExtKeychain::blind_sum` (`keychain/src/keychain.rs`), `sum_kernel_offsets` (`core/src/core/committed.rs`)
* `Identifier`, `ExtKeychainPath`, `ChildNumber`, `SwitchCommitmentType` (`keychain/src/types.rs`,
  `keychain/src/extkey_bip32.rs`)
* `ProofBuilder`, `LegacyProofBuilder`, `impl ProofBuild for ViewKey`, `create`, `rewind`
  (`core/src/libtx/proof.rs`)
* `build::{input, output, with_excess, partial_transaction, transaction_with_kernel}`
  (`core/src/libtx/build.rs`), `reward::output` (`core/src/libtx/reward.rs`), kernel-sum check
  (`core/src/core/committed.rs`) at the level of openings (DESIGN §2.3). -/
namespace GV.Keys

/-! ## 1. Scalars mod the secp256k1 group order -/

/-- group order n of secp256k1 -/
def N : Nat := 0xFFFFFFFFFFFFFFFFFFFFFFFFFFFFFFFEBAAEDCE6AF48A03BBFD25E8CD0364141

/-- `secp256k1_scalar_add` -/
def sadd (a b : Nat) : Nat := (a + b) % N
/-- `secp256k1_scalar_negate` -/
def sneg (a : Nat) : Nat := (N - a % N) % N

/-- outcome of a blind-sum style operation -/
inductive SumRes
  /-- a valid non-zero secret key (or, for `BlindingFactor` results, possibly the zero factor) -/
  | ok (k : Nat)
  /-- `Err(Secp(InvalidSecretKey))`: the sum is 0 mod n (zero is not a valid secret key), or an operand
      of `split` is not a scalar -/
  | invalidKey
  /-- `assert_eq!(secp256k1_pedersen_blind_sum(..), 1)` fails: an operand is ≥ n (unreachable through
      `SecretKey::from_slice`, reachable through the public tuple field `SecretKey.0`) -/
  | panic
  deriving DecidableEq, Repr

/-- the accumulation loop of `secp256k1_pedersen_blind_sum`, positive part -/
def accPos (acc : Nat) : List Nat → Nat
  | [] => acc
  | x :: xs => accPos (sadd acc x) xs

/-- … negative part (`i >= npositive`: negate, then add) -/
def accNeg (acc : Nat) : List Nat → Nat
  | [] => acc
  | x :: xs => accNeg (sadd acc (sneg x)) xs

def overflows (l : List Nat) : Bool := l.any fun x => decide (N ≤ x)

/-- `Secp256k1::blind_sum(positive, negative)` on 32-byte big-endian operands.
    Zero operands (`ZERO_KEY`) are accepted and add nothing. The *result* goes through
    `SecretKey::from_slice`, which rejects zero. -/
def secpBlindSum (pos neg : List Nat) : SumRes :=
  if overflows pos || overflows neg then .panic
  else
    let s := accNeg (accPos 0 pos) neg
    if s = 0 then .invalidKey else .ok s

/-- `BlindingFactor::secret_key`: the all-zero factor maps to `ZERO_KEY` (explicit special case),
    anything else must pass `SecretKey::from_slice` (0 < k < n). -/
def bfSecretKey (b : Nat) : Option Nat :=
  if b = 0 then some 0 else if b < N then some b else none

/-- `BlindingFactor::add`: zero factors are filtered, factors that are not scalars are silently
    dropped (`filter_map(.. .ok())`), no key left → the zero factor. -/
def bfAdd (a b : Nat) : SumRes :=
  let keys := ([a, b].filter (fun x => x != 0)).filterMap bfSecretKey
  if keys.isEmpty then .ok 0 else secpBlindSum keys []

/-- `BlindingFactor::split(self, blind_1)`: `blind_2 = self - blind_1`. -/
def bfSplit (self b1 : Nat) : SumRes :=
  match bfSecretKey self, bfSecretKey b1 with
  | some k, some k1 => secpBlindSum [k] [k1]
  | _, _ => .invalidKey

/-- `ExtKeychain::blind_sum`: derived keys for the key ids (`posK`/`negK`: the secret keys
    `derive_key` returned) plus the explicit blinding factors; factors that are not scalars are
    silently dropped, zero factors are passed on as `ZERO_KEY` (they add nothing). -/
def kcBlindSum (posK negK posB negB : List Nat) : SumRes :=
  secpBlindSum (posK ++ posB.filterMap bfSecretKey) (negK ++ negB.filterMap bfSecretKey)

def toSecrets (l : List Nat) : List Nat := (l.filter (fun x => x != 0)).filterMap bfSecretKey

/-- `committed::blind_sum_or_zero` (repair b04699b48): the keys may cancel out exactly — zero is a
    valid kernel offset but not a valid secret key, so `blind_sum` fails; the sum is then taken once
    more together with `ONE_KEY`, and if that is exactly 1 the result is the zero factor. -/
def blindSumOrZero (pos neg : List Nat) : SumRes :=
  match secpBlindSum pos neg with
  | .ok k => .ok k
  | .panic => .panic
  | .invalidKey =>
    match secpBlindSum (pos ++ [1]) neg with
    | .ok k => if k = 1 then .ok 0 else .invalidKey
    | .panic => .panic
    | .invalidKey => .invalidKey

/-- `committed::sum_kernel_offsets`. NB: when no positive key is left the result is the zero factor
    *whatever the negatives are* (the code tests `positive.is_empty()` only). -/
def sumKernelOffsets (pos neg : List Nat) : SumRes :=
  let p := toSecrets pos
  let n := toSecrets neg
  if p.isEmpty then .ok 0 else blindSumOrZero p n

/-! ## 2. `ChildNumber`, `ExtKeychainPath`, `Identifier` -/

/-- `extkey_bip32::ChildNumber` -/
inductive ChildNumber
  | normal (index : Nat)
  | hardened (index : Nat)
  deriving DecidableEq, Repr

namespace ChildNumber
/-- `From<u32>`: bit 31 set → `Hardened { index: number ^ (1 << 31) }` -/
def ofU32 (n : Nat) : ChildNumber :=
  if n / 2^31 % 2 = 1 then .hardened (n - 2^31) else .normal n
/-- `From<ChildNumber> for u32`: `Hardened` → `index | (1 << 31)` (u32 bit-or) -/
def toU32 : ChildNumber → Nat
  | .normal i => i
  | .hardened i => if i / 2^31 % 2 = 1 then i else i + 2^31
def isHardened : ChildNumber → Bool
  | .normal _ => false
  | .hardened _ => true
/-- canonical form (what `From<u32>` and `from_*_idx` produce): index within [0, 2^31) -/
def WF : ChildNumber → Prop
  | .normal i => i < 2^31
  | .hardened i => i < 2^31
end ChildNumber

/-- `ExtKeychainPath { depth: u8, path: [ChildNumber; 4] }` -/
structure Path where
  depth : Nat
  c0 : ChildNumber
  c1 : ChildNumber
  c2 : ChildNumber
  c3 : ChildNumber
  deriving DecidableEq, Repr

namespace Path
/-- `ExtKeychainPath::new(depth, d0, d1, d2, d3)` -/
def new (depth d0 d1 d2 d3 : Nat) : Path :=
  ⟨depth, .ofU32 d0, .ofU32 d1, .ofU32 d2, .ofU32 d3⟩
/-- `path[i]` (array of 4: `none` = index-out-of-bounds panic) -/
def get? (p : Path) : Nat → Option ChildNumber
  | 0 => some p.c0 | 1 => some p.c1 | 2 => some p.c2 | 3 => some p.c3 | _ => none
def set (p : Path) (i : Nat) (c : ChildNumber) : Path :=
  match i with
  | 0 => { p with c0 := c } | 1 => { p with c1 := c } | 2 => { p with c2 := c }
  | 3 => { p with c3 := c } | _ => p
def comps (p : Path) : List ChildNumber := [p.c0, p.c1, p.c2, p.c3]
/-- a `u8` depth and canonical child numbers -/
def WF (p : Path) : Prop := p.depth < 256 ∧ p.c0.WF ∧ p.c1.WF ∧ p.c2.WF ∧ p.c3.WF
end Path

/-- big-endian u32 (`write_u32::<BigEndian>`) -/
def u32be (n : Nat) : Bytes := [n / 2^24 % 256, n / 2^16 % 256, n / 2^8 % 256, n % 256]
/-- `read_u32::<BigEndian>` -/
def readU32 (a b c d : Nat) : Nat := ((a * 256 + b) * 256 + c) * 256 + d

/-- `Identifier([u8; 17])`: the 17 bytes -/
abbrev Ident := Bytes

def IDENTIFIER_SIZE : Nat := 17

/-- an identifier value: exactly 17 bytes -/
def IdWF (id : Ident) : Prop := id.length = 17 ∧ ∀ b ∈ id, b < 256

/-- pad with zeros / truncate to exactly `n` bytes -/
def fit (n : Nat) (b : Bytes) : Bytes := (b ++ List.replicate n 0).take n

/-- `Identifier::from_bytes`: copies `min(17, len)` bytes into a zeroed array -/
def Ident.fromBytes (b : Bytes) : Ident := fit 17 b

/-- `Identifier::zero` -/
def Ident.zero : Ident := Ident.fromBytes []

/-- `ExtKeychainPath::to_identifier` = `Identifier::from_path` -/
def Path.toIdentifier (p : Path) : Ident :=
  [p.depth % 256] ++ u32be p.c0.toU32 ++ u32be p.c1.toU32 ++ u32be p.c2.toU32 ++ u32be p.c3.toU32

/-- `ExtKeychainPath::from_identifier` = `Identifier::to_path` (total on 17 bytes).  Since the
    repair cb1f5b25f the depth is `min(depth_byte, 4)`: a path has at most 4 components whatever
    the depth byte says (before it, a depth byte 5..255 made every user of the path index out of
    bounds). -/
def Ident.toPath (id : Ident) : Path :=
  match id with
  | [d, a0, a1, a2, a3, b0, b1, b2, b3, e0, e1, e2, e3, f0, f1, f2, f3] =>
    ⟨min d 4, .ofU32 (readU32 a0 a1 a2 a3), .ofU32 (readU32 b0 b1 b2 b3),
        .ofU32 (readU32 e0 e1 e2 e3), .ofU32 (readU32 f0 f1 f2 f3)⟩
  | _ => ⟨0, .normal 0, .normal 0, .normal 0, .normal 0⟩   -- not an identifier (unreachable: type is [u8; 17])

/-- the depth byte `id.0[0]` as stored (0..255; only `min(·, 4)` of it is ever used) -/
def Ident.depthByte (id : Ident) : Nat := id.headD 0

/-- the identifier with its depth byte clamped to 4: what `from_path(to_path(id))` and
    `check_output` on `proof_message(id)` give back -/
def clampId (id : Ident) : Ident := min (id.headD 0) 4 :: id.drop 1

/-- `Identifier::serialize_path`: bytes 1..17 -/
def Ident.serializePath (id : Ident) : Bytes := id.drop 1

/-- `Identifier::from_serialized_path(len, p)`: `p[0..16]` — slice panic when `p` is shorter -/
def Ident.fromSerializedPath (len : Nat) (p : Bytes) : Option Ident :=
  if p.length < 16 then none else some (len % 256 :: p.take 16)

/-- `ExtKeychain::derive_key_id(depth, d1, d2, d3, d4)` -/
def deriveKeyId (depth d1 d2 d3 d4 : Nat) : Ident := (Path.new depth d1 d2 d3 d4).toIdentifier

/-- `Identifier::parent_path`: `none` = panic (`p.path[depth-1]` with depth > 4 — not reachable
    any more: `from_identifier` clamps the depth, `identifier_ops_total`) -/
def Ident.parentPath (id : Ident) : Option Ident :=
  let p := id.toPath
  if p.depth > 0 then
    if p.depth - 1 < 4 then
      some ({ p.set (p.depth - 1) (.ofU32 0) with depth := p.depth - 1 } : Path).toIdentifier
    else none
  else some p.toIdentifier

/-- `ExtKeychainPath::last_path_index`: `none` = panic. Still reachable on a path *struct* whose
    public `depth` field exceeds 4 (`ExtKeychainPath::new(5, ..).last_path_index()`), not through
    `Identifier::to_path` -/
def Path.lastPathIndex (p : Path) : Option Nat :=
  if p.depth = 0 then some 0 else (p.get? (p.depth - 1)).map ChildNumber.toU32

/-- the `depth` first components, as `derive_key`'s loop reads them: `none` = index panic
    (`path[i]` with i ≥ 4; only for a path struct with depth > 4, which `to_path` never returns) -/
def Path.prefix? (p : Path) : Option (List ChildNumber) :=
  if p.depth ≤ 4 then some (p.comps.take p.depth) else none

/-- `Identifier::to_bip_32_string`: "m/a/b" — the list of printed indices; `none` = panic -/
def Ident.bip32 (id : Ident) : Option (List Nat) := id.toPath.prefix?.map (·.map ChildNumber.toU32)

/-! ## 3. `SwitchCommitmentType` -/

inductive Switch
  | none
  | regular
  deriving DecidableEq, Repr

/-- `TryFrom<u8>` -/
def Switch.ofU8 : Nat → Option Switch
  | 0 => some .none
  | 1 => some .regular
  | _ => Option.none
/-- `From<SwitchCommitmentType> for u8` (and `switch as u8`) -/
def Switch.toU8 : Switch → Nat
  | .none => 0
  | .regular => 1

/-! ## 4. Key derivation and commitments (opaque) -/

/-- The opaque part of `ExtKeychain`: BIP32 child derivation and the switch-commitment blinding.
    `K` = extended private keys. Functions, hence deterministic — determinism of the real code is
    checked by sampling. -/
structure KeyDeriv (K : Type) where
  master : K
  /-- `ExtendedPrivKey::ckd_priv` (fails with negligible probability) -/
  ckd : K → ChildNumber → Option K
  /-- the secret scalar of an extended key, `0 < · < n` -/
  secret : K → Nat
  /-- `Secp256k1::blind_switch(amount, key)` -/
  blindSwitch : Nat → Nat → Nat

inductive Res (α : Type)
  | ok (a : α)
  | err
  | panic
  deriving Repr

def ckdAll {K : Type} (kd : KeyDeriv K) : K → List ChildNumber → Option K
  | k, [] => some k
  | k, c :: cs => match kd.ckd k c with
    | some k' => ckdAll kd k' cs
    | Option.none => Option.none

/-- `ExtKeychain::derive_key(amount, id, switch)`: walks `path[0..depth]` of `id.to_path()` —
    components beyond `depth` are ignored; the `panic` arm (index out of the 4-array) is dead since
    `to_path` clamps the depth (`derive_total`). -/
def deriveKey {K : Type} (kd : KeyDeriv K) (amount : Nat) (id : Ident) (sw : Switch) : Res Nat :=
  match id.toPath.prefix? with
  | Option.none => .panic
  | some cs => match ckdAll kd kd.master cs with
    | Option.none => .err
    | some k => match sw with
      | .regular => .ok (kd.blindSwitch amount (kd.secret k))
      | .none => .ok (kd.secret k)

/-- A Pedersen commitment is modelled by its opening (DESIGN §2.3). -/
structure Opening where
  value : Nat
  blind : Nat
  deriving DecidableEq, Repr

/-- `ExtKeychain::commit(amount, id, switch)` -/
def commit {K : Type} (kd : KeyDeriv K) (amount : Nat) (id : Ident) (sw : Switch) : Res Opening :=
  match deriveKey kd amount id sw with
  | .ok k => .ok ⟨amount, k⟩
  | .err => .err
  | .panic => .panic

/-! ## 5. Range-proof messages: `ProofBuilder`, `LegacyProofBuilder`, `ViewKey` -/

/-- `ProofBuilder::proof_message`: `[0, 0, switch, id[0..17]]` (20 bytes) -/
def proofMessage (id : Ident) (sw : Switch) : Bytes := [0, 0, sw.toU8] ++ id.take 17

/-- `LegacyProofBuilder::proof_message`: `[0,0,0,0, id[1..17]]`; depth byte and switch are dropped -/
def legacyProofMessage (id : Ident) (_sw : Switch) : Bytes := [0, 0, 0, 0] ++ (id.serializePath).take 16

/-- The byte logic of `ProofBuilder::check_output` up to the commitment comparison: the candidate
    `(id, switch)` the message denotes. `min(msg[3], 4)` clamps the depth. -/
def parseMessage (msg : Bytes) : Option (Ident × Switch) :=
  if msg.length ≠ 20 then none
  else if msg.take 2 ≠ [0, 0] then none
  else match Switch.ofU8 (msg.getD 2 0) with
    | Option.none => none
    | some sw => match Ident.fromSerializedPath (min (msg.getD 3 0) 4) (msg.drop 4) with
      | Option.none => none
      | some id => some (id, sw)

/-- `LegacyProofBuilder::check_output` byte logic: depth forced to 3, switch forced Regular -/
def legacyParseMessage (msg : Bytes) : Option (Ident × Switch) :=
  if msg.length ≠ 20 then none
  else match Ident.fromSerializedPath 3 (msg.drop 4) with
    | Option.none => none
    | some id => if msg.take 4 ≠ [0, 0, 0, 0] then none else some (id, .regular)

/-- result of `check_output` -/
inductive Check
  | some (id : Ident) (sw : Switch)
  | none
  | err
  | panic
  deriving DecidableEq, Repr

/-- `ProofBuilder::check_output(commit, amount, message)`: parse, recompute the commitment with the
    keychain, compare. `commitOf amount id sw` is `keychain.commit`. -/
def checkOutput (commitOf : Nat → Ident → Switch → Res Opening) (c : Opening) (amount : Nat)
    (msg : Bytes) : Check :=
  match parseMessage msg with
  | Option.none => .none
  | some (id, sw) => match commitOf amount id sw with
    | .ok c' => if c = c' then .some id sw else .none
    | .err => .err
    | .panic => .panic

def legacyCheckOutput (commitOf : Nat → Ident → Switch → Res Opening) (c : Opening) (amount : Nat)
    (msg : Bytes) : Check :=
  match legacyParseMessage msg with
  | Option.none => .none
  | some (id, sw) => match commitOf amount id sw with
    | .ok c' => if c = c' then .some id sw else .none
    | .err => .err
    | .panic => .panic

/-- `impl ProofBuild for ViewKey :: check_output` for a view key at depth `vkDepth` whose last
    child number is `vkChild`. `matches id sw` is the final public-key comparison
    (`commit.to_pubkey() == key.commit(amount, switch)`). Order of the exits as in the code:
    depth, child number, hardened component → `None`; then `ViewKey::commit` fails for amount 0
    and with `Error::SwitchCommitment` for `Regular` (not implemented in the code). -/
def viewCheckOutput (vkDepth : Nat) (vkChild : ChildNumber) (pubMatches : Ident → Switch → Bool)
    (amount : Nat) (msg : Bytes) : Check :=
  match parseMessage msg with
  | Option.none => .none
  | some (id, sw) =>
    let path := id.toPath
    if vkDepth > path.depth then .none
    else if vkDepth > 0 && path.depth > 0 && path.get? (vkDepth - 1) != some vkChild then .none
    else if ((path.comps.take path.depth).drop vkDepth).any ChildNumber.isHardened then .none
    -- `ViewKey::commit`: `secp.commit_value(amount)?` fails for amount 0 (0·H is the point at infinity)
    else if amount = 0 then .err
    else match sw with
      | .regular => .err
      | .none => if pubMatches id sw then .some id sw else .none

/-! ### view keys below the root (`ViewKey::create(keychain, ext_key, hasher, is_floo)`)

A view key need not be the root: `ext_key` may be any privately derived child `m/vk[0]/…/vk[d-1]`
(`master.derive_priv(vk)`), hardened words included. `ExtendedPubKey::from_private` copies
`depth = d` and `child_number = vk[d-1]` (`Normal 0` for the master, `new_master`). The loop of
`check_output` then derives *publicly* (`ckd_pub`) along the words `d..depth` of the identifier in the
message — possible for normal words only — and compares public keys. -/

/-- the words `derive_key` walks: the first `depth` of the four components -/
def Ident.words (id : Ident) : List ChildNumber := id.toPath.comps.take id.toPath.depth

/-- `ViewKey.child_number` of the view key made from the private key at path `vk` -/
def vkChildNumber (vk : List ChildNumber) : ChildNumber := (vk[vk.length - 1]?).getD (.normal 0)

/-- **Path algebra.** The identifiers a view key at (depth `vk.length`, path prefix `vk`) covers:
identifiers of depth ≥ d (and ≤ 4) whose first d words equal `vk` and whose words d..depth are all
normal (< 2^31). -/
def viewCovers (vk : List ChildNumber) (id : Ident) : Bool :=
  decide (id.toPath.depth ≤ 4) && decide (vk.length ≤ id.toPath.depth) &&
    (id.words.take vk.length == vk) && !(id.words.drop vk.length).any ChildNumber.isHardened

/-- The final comparison of `check_output` for the view key at `vk` of keychain `kd`:
`commit.to_pubkey() == key.commit(amount, None)` where `key` is the view key moved along the
remaining words of `id` by `ckd_pub`. BIP32 contract (sampled by the harness, not modelled): public
derivation along normal words yields the public key of the private derivation along the same
words, so `key` is the public key of `m/vk/rest`; equality of public keys = equality of openings
(Pedersen binding, DESIGN §2.3). A failing `ckd_pub` (probability ~2^-127, an `Err` in the code) is
folded into "no match". -/
def viewPubMatches {K : Type} (kd : KeyDeriv K) (vk : List ChildNumber) (c : Opening) (amount : Nat)
    (id : Ident) (_sw : Switch) : Bool :=
  match ckdAll kd kd.master (vk ++ id.words.drop vk.length) with
  | some k => decide (c = ⟨amount, kd.secret k⟩)
  | Option.none => false

/-- `impl ProofBuild for ViewKey :: check_output` for the view key created from the private key at
`m/vk` of keychain `kd` -/
def viewCheckAt {K : Type} (kd : KeyDeriv K) (vk : List ChildNumber) (c : Opening) (amount : Nat)
    (msg : Bytes) : Check :=
  viewCheckOutput vk.length (vkChildNumber vk) (viewPubMatches kd vk c amount) amount msg

/-! ### instance history

`ExtKeychain::derive_key(&self, ..)` clones the hasher and the master key and walks the path on the
copies; nothing of the instance is written. The model of "a keychain instance that has answered the
queries `before`" is therefore the same `KeyDeriv`, and a sequence of derivations is a `map`. That
the real instance (and its clones) behaves like that — no cache keyed by the 16 path bytes, no
hasher state carried from one call to the next — is what the `history` run of the harness samples. -/

/-- one call of `derive_key(amount, id, switch)` -/
abbrev Query := Nat × Ident × Switch

/-- the answers of one keychain instance to a sequence of `derive_key` calls, in order -/
def deriveSeq {K : Type} (kd : KeyDeriv K) (qs : List Query) : List (Res Nat) :=
  qs.map fun q => deriveKey kd q.1 q.2.1 q.2.2

/-! ### seeds

`ExtKeychain::from_seed(seed, is_test)` → `ExtendedPrivKey::new_master`: HMAC-SHA512 keyed with
`"IamVoldemort"` over the **whole** seed, whatever its length (the seed is the HMAC *message*, so
there is no block-size truncation or padding of it); the first 32 bytes are the master secret key,
the rest the chain code. `masterOf` is that function, opaque; everything below the master is the
`KeyDeriv` of section 4. The rewind nonce of `ProofBuilder` / `LegacyProofBuilder` / `ViewKey` is a
hash of key material of the keychain (`rewind_hash = blake2b(public_root_key)`, legacy: the root
key) and the commitment: `nonceOf (master secret) commitment`, opaque as well. -/

/-- the seed → master-key map together with the derivation below it -/
structure SeedDeriv (K : Type) where
  /-- `new_master(seed)` (fails with negligible probability: not modelled) -/
  masterOf : Bytes → K
  ckd : K → ChildNumber → Option K
  secret : K → Nat
  blindSwitch : Nat → Nat → Nat
  /-- `rewind_nonce`: hash of the keychain's root key material and the commitment -/
  nonceOf : Nat → Opening → Nat

/-- the keychain `ExtKeychain::from_seed(seed)` -/
def SeedDeriv.kd {K : Type} (sd : SeedDeriv K) (seed : Bytes) : KeyDeriv K :=
  ⟨sd.masterOf seed, sd.ckd, sd.secret, sd.blindSwitch⟩

/-- the rewind nonce function of the builders made from the keychain of `seed` -/
def SeedDeriv.rn {K : Type} (sd : SeedDeriv K) (seed : Bytes) : Opening → Nat :=
  sd.nonceOf (sd.secret (sd.masterOf seed))

/-! ### the hasher object (`BIP32Hasher`, `BIP32GrinHasher`)

Every derivation (`new_master`, `ckd_priv`, `ViewKey::ckd_pub_tweak`, `ExtendedPubKey::ckd_pub_tweak`)
takes `hasher: &mut H` and uses it as `init_sha512(key)`, `append_sha512(..)*`, `result_sha512()`.
`init_sha512` **replaces** the HMAC state with a fresh one keyed by `key`; `result_sha512` finalises a
*copy* and leaves the state as it is.  `hmac` is the opaque HMAC-SHA512. -/

/-- the state of the hasher object: the HMAC key it was last initialised with and the bytes
appended since -/
structure HState where
  key : Bytes
  data : Bytes
  deriving DecidableEq, Repr

/-- `BIP32GrinHasher::new`: keyed with 128 zero bytes, nothing appended -/
def HState.fresh : HState := ⟨List.replicate 128 0, []⟩
/-- `init_sha512(key)`: `self.hmac_sha512 = HmacSha512::new_from_slice(key)` -/
def HState.init (_h : HState) (key : Bytes) : HState := ⟨key, []⟩
/-- `append_sha512(value)` -/
def HState.append (h : HState) (v : Bytes) : HState := { h with data := h.data ++ v }
/-- `result_sha512()`: finalises a copy; the object keeps its state -/
def HState.result (hmac : Bytes → Bytes → Bytes) (h : HState) : Bytes := hmac h.key h.data

/-- one use of the hasher by a derivation step: `init(key)`, `append` of each part, `result`;
returns the 64 HMAC bytes and the hasher object afterwards.  `new_master`: key = "IamVoldemort",
parts = [seed]; `ckd_priv` / `ckd_pub_tweak`: key = chain code, parts = [key material, be32(index)] -/
def hashStep (hmac : Bytes → Bytes → Bytes) (h : HState) (key : Bytes) (parts : List Bytes) :
    Bytes × HState :=
  let h' := parts.foldl HState.append (h.init key)
  (h'.result hmac, h')

/-- consecutive derivation steps on ONE hasher object: the results, in order -/
def hashSeq (hmac : Bytes → Bytes → Bytes) : HState → List (Bytes × List Bytes) → List Bytes
  | _, [] => []
  | h, (key, parts) :: rest =>
    let r := hashStep hmac h key parts
    r.1 :: hashSeq hmac r.2 rest

/-! ### the free key derivation

`derive_key` reads only `depth` and the first `depth` components, so two identifiers that agree on
those (and on switch mode and amount) give the same key and commitment; that *different* key
material gives different keys is the cryptographic assumption (BIP32/HMAC-SHA512, blind_switch).
`freeKD` is the term model of that assumption — every derivation step is an injective encoding —
used by the driver to predict the outcome of the commitment comparison inside `check_output`
(same idea as the free hash terms of DESIGN §2.2). No theorem depends on it. -/
def freeKD : KeyDeriv (List ChildNumber) where
  master := []
  ckd := fun k c => some (k ++ [c])
  secret := fun k => 2 * k.foldl (fun acc c => acc * 2^33 + c.toU32 + 1) 1
  blindSwitch := fun amount key => 2 * (key * 2^64 + amount) + 1

/-! ## 6. Bulletproof create / rewind (opaque contract) -/

/-- Opaque secp256k1-zkp operations with the contracts the property relies on. `P` = range proofs.
    Commitments are openings. The contracts are structure fields = hypotheses of every theorem
    that uses them; they are checked by sampling on the real library (trusted base). -/
structure Crypto (P : Type) where
  /-- `Secp256k1::bullet_proof(value, blind, rewind_nonce, private_nonce, extra, message)` -/
  bulletProof : (value blind rewindNonce privateNonce : Nat) → (msg : Bytes) → P
  /-- `verify_bullet_proof(commit, proof)` -/
  verify : Opening → P → Bool
  /-- `rewind_bullet_proof(commit, nonce, proof)` → (value, message) -/
  rewind : Opening → (nonce : Nat) → P → Option (Nat × Bytes)
  verify_honest : ∀ v k rn pn m, v < 2^64 → verify ⟨v, k⟩ (bulletProof v k rn pn m) = true
  rewind_same : ∀ v k rn pn m, v < 2^64 → m.length = 20 →
    rewind ⟨v, k⟩ rn (bulletProof v k rn pn m) = some (v, m)
  rewind_other : ∀ v k rn rn' pn m, rn' ≠ rn → rewind ⟨v, k⟩ rn' (bulletProof v k rn pn m) = none

/-- a proof builder: nonces (hashes of key material and the commitment — opaque) plus message logic -/
structure Builder where
  rewindNonce : Opening → Nat
  privateNonce : Opening → Nat
  message : Ident → Switch → Bytes
  check : Opening → Nat → Bytes → Check

/-- `proof::create` -/
def proofCreate {K P : Type} (kd : KeyDeriv K) (cr : Crypto P) (b : Builder) (amount : Nat)
    (id : Ident) (sw : Switch) : Res P :=
  match commit kd amount id sw with
  | .ok c => .ok (cr.bulletProof amount c.blind (b.rewindNonce c) (b.privateNonce c) (b.message id sw))
  | .err => .err
  | .panic => .panic

/-- result of `proof::rewind`: `Ok(Some((amount, id, switch)))`, `Ok(None)`, `Err`, panic -/
inductive Rewound
  | some (amount : Nat) (id : Ident) (sw : Switch)
  | none
  | err
  | panic
  deriving DecidableEq, Repr

/-- `proof::rewind`: `Ok(None)` when the library cannot rewind, else `check_output` on the embedded
    value and message -/
def proofRewind {P : Type} (cr : Crypto P) (b : Builder) (c : Opening) (proof : P) : Rewound :=
  match cr.rewind c (b.rewindNonce c) proof with
  | Option.none => .none
  | Option.some (amount, msg) => match b.check c amount msg with
    | .some id sw => .some amount id sw
    | .none => .none
    | .err => .err
    | .panic => .panic

/-- `ProofBuilder::new(keychain)` -/
def newBuilder {K : Type} (kd : KeyDeriv K) (rn pn : Opening → Nat) : Builder :=
  ⟨rn, pn, proofMessage, checkOutput (commit kd)⟩
/-- `LegacyProofBuilder::new(keychain)`: one nonce for both purposes -/
def legacyBuilder {K : Type} (kd : KeyDeriv K) (rn : Opening → Nat) : Builder :=
  ⟨rn, rn, legacyProofMessage, legacyCheckOutput (commit kd)⟩

/-- A `ViewKey` (made from the private key at `m/vk`) handed to `proof::rewind` as the builder. Its
    `rewind_nonce` is `blake2b(commit, rewind_hash)` with `rewind_hash = blake2b(public_root_key)` —
    the same value `ProofBuilder::new(keychain)` uses, whatever the depth of the view key — so `rn` is
    shared with the creating builder. `private_nonce` / `proof_message` are `unimplemented!()` in the
    code and never called by `rewind`; the fields are placeholders. -/
def viewBuilder {K : Type} (kd : KeyDeriv K) (vk : List ChildNumber) (rn : Opening → Nat) : Builder :=
  ⟨rn, fun _ => 0, proofMessage, viewCheckAt kd vk⟩

/-! ## 7. Transaction builder at the level of openings -/

/-- one combinator of `libtx::build` -/
inductive Step
  /-- `input(value, key_id)` / `coinbase_input`: the opening of `commit(value, key_id, Regular)` -/
  | input (o : Opening)
  /-- `output(value, key_id)` -/
  | output (o : Opening)
  /-- `with_excess(blinding_factor)` -/
  | withExcess (b : Nat)
  deriving DecidableEq, Repr

/-- `(Transaction, BlindSum)` being folded. The body keeps inputs/outputs sorted by hash and
    **drops an element that is already present** (`binary_search` in `with_input`/`with_output`);
    order is irrelevant for sums, so the model keeps insertion order. -/
structure BuildSt where
  ins : List Opening := []
  outs : List Opening := []
  posK : List Nat := []
  negK : List Nat := []
  posB : List Nat := []
  deriving Repr

def insertUnique (o : Opening) (l : List Opening) : List Opening :=
  if l.contains o then l else l ++ [o]

def step (st : BuildSt) : Step → BuildSt
  | .input o => { st with ins := insertUnique o st.ins, negK := st.negK ++ [o.blind] }
  | .output o => { st with outs := insertUnique o st.outs, posK := st.posK ++ [o.blind] }
  | .withExcess b => { st with posB := st.posB ++ [b] }

def runSteps (st : BuildSt) (elems : List Step) : BuildSt := elems.foldl step st

/-- a built transaction: body openings, fee, the kernel's private excess, the offset -/
structure Tx where
  ins : List Opening
  outs : List Opening
  fee : Nat
  excess : Nat
  offset : Nat
  deriving DecidableEq, Repr

/-- `build::partial_transaction(tx, elems, ..)`: body after the steps and `keychain.blind_sum(sum)` -/
def partialTransaction (ins outs : List Opening) (elems : List Step) : List Opening × List Opening × SumRes :=
  let st := runSteps { ins := ins, outs := outs } elems
  (st.ins, st.outs, kcBlindSum st.posK st.negK st.posB [])

/-- `build::transaction_with_kernel(elems, kernel, excess, ..)` (and `build::transaction`, which
    draws `excess` at random): `offset = blind_sum.split(excess)`. `none` = the builder returns `Err`. -/
def transactionWithKernel (elems : List Step) (fee excess : Nat) : Option Tx :=
  let st := runSteps {} elems
  match kcBlindSum st.posK st.negK st.posB [] with
  | .ok bs => match bfSplit bs excess with
    | .ok off => some ⟨st.ins, st.outs, fee, excess, off⟩
    | _ => Option.none
  | _ => Option.none

def sumValues (l : List Opening) : Nat := (l.map (·.value)).sum
def blinds (l : List Opening) : List Nat := l.map (·.blind)

/-- `verify_kernel_sums` on openings: Σout + fee·H − Σin = excess·G + offset·G, component-wise in
    the group (mod n). (A zero offset is skipped by the code because `commit(0, 0)` is not
    computable; adding 0 is the same thing.) -/
def txBalances (tx : Tx) : Bool :=
  ((sumValues tx.outs + tx.fee) % N == sumValues tx.ins % N) &&
  (accNeg (accPos 0 (blinds tx.outs)) (blinds tx.ins) == sadd (tx.excess % N) (tx.offset % N))

/-- outcome of `Transaction::validate(Weighting::AsTransaction)` for a small built transaction
    (weight, sort order, range proofs and the kernel signature are fine by construction) -/
inductive TxVerdict
  | ok
  /-- `Error::CutThrough`: a commitment is both input and output -/
  | cutThrough
  /-- `Committed(KernelSumMismatch)` -/
  | kernelSumMismatch
  /-- nothing to sum (no input, no output, no fee): `Secp(IncorrectCommitSum)` -/
  | emptySum
  deriving DecidableEq, Repr

def txValidate (tx : Tx) : TxVerdict :=
  if tx.ins.any (fun i => tx.outs.contains i) then .cutThrough
  else if tx.ins.isEmpty && tx.outs.isEmpty && tx.fee == 0 then .emptySum
  else if txBalances tx then .ok else .kernelSumMismatch

def TxVerdict.show : TxVerdict → String
  | .ok => "ok"
  | .cutThrough => "cutthrough"
  | .kernelSumMismatch => "sum"
  | .emptySum => "other"

/-- `consensus::reward(fees)` with `REWARD` as parameter: `REWARD.saturating_add(fees)` -/
def rewardOf (reward fees : Nat) : Nat := min (reward + fees) (2^64 - 1)

/-- `reward::output`: the coinbase output (value `reward(fees)`, blind = the derived key) and the
    kernel excess `out_commit − reward(fees)·H` as an opening -/
def rewardOutput (reward fees key : Nat) : Opening × Opening :=
  let out : Opening := ⟨rewardOf reward fees, key⟩
  let over : Opening := ⟨rewardOf reward fees, 0⟩
  (out, ⟨out.value - over.value, sadd out.blind (sneg over.blind)⟩)

/-- `Block::verify_coinbase` on openings: Σ coinbase outputs − reward(total_fees)·H = Σ coinbase kernel excesses -/
def verifyCoinbase (reward totalFees : Nat) (cbOut cbExcess : Opening) : Bool :=
  cbOut.value == rewardOf reward totalFees + cbExcess.value && cbOut.blind % N == cbExcess.blind % N

/-! ## 8. printing helpers shared with the driver -/

def SumRes.show : SumRes → String
  | .ok k => toHex (beBytes 32 k)
  | .invalidKey => "err"
  | .panic => "panic"

def Switch.show : Switch → String
  | .none => "none"
  | .regular => "regular"

def Switch.parse : String → Option Switch
  | "none" => some .none
  | "regular" => some .regular
  | _ => Option.none

def Check.show : Check → String
  | .some id sw => s!"some {toHex id} {sw.show}"
  | .none => "none"
  | .err => "err"
  | .panic => "panic"

end GV.Keys
