import GrinVerif.Model.Msg
import GrinVerif.Model.SerBlock
import GrinVerif.Model.Cons
/-! # `DecSer` — instrumented decoders of the consensus objects (property C11)

The payload decoders that `p2p/src/codec.rs::decode_message` dispatches and that `Model/Msg.lean`
leaves as a parameter: `Transaction` / `StemTransaction`, `UntrustedBlock`, `UntrustedCompactBlock`,
`UntrustedBlockHeader` (incl. `Proof::read`), `BitmapSegment`, the segment responses — and their parts
(`Output`, `RangeProof`, `TxKernel`, `KernelFeatures`, `Inputs`, `TransactionBody`, `BitmapBlock`) —
in the instrumented style of `Model/Dec.lean`:

    Dec α := Bytes → Outcome α         Outcome = ok value rest alloc | err e alloc | panic site alloc

Values are the structures of the C10 serialisation models (`Model/SerTx.lean`, `Model/SerBlock.lean`),
so a decoded value can be re-encoded with the C10 encoders.

**Allocation ghost** (`alloc`, bytes requested):
* `read_fixed_bytes(n)`, `Vec::with_capacity(n)`, `vec![0; n]`, `BitVec::from_elem(n, _)` are charged where
  the Rust has them (`rFixed`, `withCapacity`), before the read that may fail;
* copies of data that is already in memory (`to_vec()`, `clone()`, `collect()` of an exact-size
  iterator) are charged with `charge` at the place of the copy (`n · size_of::<T>()`);
* the `Vec` that `read_multi` collects (`IteratingReader … .collect()`, no size hint) grows by
  amortised doubling from capacity 4: every pushed item is charged `GROW · size_of::<T>()` with
  `GROW = 4`; `vecReq_le` (Lemmas/DecSer.lean) proves that this dominates the real sequence of requests
  `4, 8, 16, …` at every point of the loop.  With this the ghost counter is an upper bound of the bytes
  the real decoder has requested so far, at every point — no slack proportional to the input is needed
  in the correspondence.
* `size_of::<T>()` values are the constants `*_MEM` below, compared with the real ones by the harness
  (`codec memsize`).

**Panic sites**: every index / slice / `copy_from_slice` / `clone_from_slice`, `unwrap`, `expect`,
`BitVec::set` and every `-`, `<<`, `>>` whose operands come from the wire is an explicit branch
(`Site.index`, `.unwrapErr`, `.assertion` for the arithmetic-overflow checks of a debug build).  The
theorems of `Props/C11Ser.lean` say these branches are unreachable.  Two expressions of
`UntrustedBlockHeader::read` (`header.height + 1`, `max_block_weight() * (height + 1)`) DO overflow for
a header the reader accepts; they are modelled with the shipped (release) wrapping semantics, and the
witness is a theorem (`untrustedHeader_debug_overflow`).

Import-free apart from `Model.*`. -/
namespace GV.DecSer
open GV GV.Ser GV.Dec GV.Msg

/-! ## in-memory sizes (`std::mem::size_of`, 64-bit target) -/

def COMMIT_MEM : Nat := 33
/-- `Input` = `OutputFeatures` (1) + `Commitment` (33) -/
def INPUT_MEM : Nat := 34
def OUTPUT_ID_MEM : Nat := 34
/-- `RangeProof { proof: [u8; 675], plen: usize }` -/
def RANGE_PROOF_MEM : Nat := 688
/-- `Output` = `OutputIdentifier` + `RangeProof`, 8-aligned -/
def OUTPUT_MEM : Nat := 728
/-- `TxKernel` = `KernelFeatures` (tag + 2 × u64) + `Commitment` + `Signature` (64) -/
def KERNEL_MEM : Nat := 128
def SHORT_ID_MEM : Nat := 6
/-- `BitmapBlock { inner: BitVec }` = `Vec<u32>` + `usize` -/
def BITMAP_BLOCK_MEM : Nat := 32

/-- amortised growth factor of a `Vec` filled by `push` from empty (capacities 4, 8, 16, …) -/
def GROW : Nat := 4

/-- an exact-size allocation for a copy of data that already exists in memory: it cannot exceed
`isize::MAX`, so there is no capacity-overflow branch -/
def charge {β : Type} (n : Nat) (k : Outcome β) : Outcome β := k.addAlloc n

/-! ## `read_multi` (`core/src/ser.rs`) -/

/-- one step of the `IteratingReader`: `T::read(reader).ok()` — any error ends the iteration and
`read_multi` then answers `CountError` (`res.len() != count`); a read item is pushed onto the
collected `Vec` (amortised `GROW · size_of::<T>()`) -/
def multiItem {α : Type} (p : Dec α) (sz : Nat) : Dec α := fun bs =>
  match p bs with
  | .ok x r a => .ok x r (a + GROW * sz)
  | .err _ a => .err .count a
  | .panic s a => .panic s a

/-- `read_multi(reader, count)`: the cap of 1 000 000, then `count` items; nothing is pre-allocated -/
def readMulti {α : Type} (p : Dec α) (sz count : Nat) : Dec (List α) := fun bs =>
  if count > MAX_MULTI_COUNT then .err .tooLarge 0 else readN (multiItem p sz) count bs

/-! ## secp payload types (`core/src/ser.rs`), `Hash`, `ShortId` -/

/-- `read_fixed_bytes(n)` followed by `c[..n].clone_from_slice(&a[..n])` / `copy_from_slice(&a[..])`
into a fixed `[u8; n]`: slicing or a length mismatch would panic -/
def rFixedArr (rd : Rdr) (n : Nat) : Dec Bytes := fun bs =>
  Dec.bind (rFixed rd n bs) fun a r => if a.length ≠ n then .panic .index 0 else .ok a r 0

/-- `Commitment::read` -/
def rCommit (rd : Rdr) : Dec Bytes := rFixedArr rd COMMIT_SIZE
/-- `Signature::read`; `Signature::from_raw_data(&c).unwrap()` is `Ok` for every 64-byte array
(`secp256k1zkp`: a plain copy) -/
def rSig (rd : Rdr) : Dec Bytes := rFixedArr rd SIG_SIZE
/-- `BlindingFactor::read`: `from_slice` copies `min(32, len)` bytes and cannot panic -/
def rBlind (rd : Rdr) : Dec Bytes := rFixed rd BLIND_SIZE
/-- `ShortId::read` -/
def rShortId (rd : Rdr) : Dec Bytes := rFixedArr rd SHORT_ID_SIZE

def rI64 : Dec Int := fun bs => lift (readI64 bs)
/-- `read_empty_bytes(n)` -/
def rEmpty (n : Nat) : Dec Unit := fun bs => lift (readEmpty n bs)

/-! ## `KernelFeatures`, `TxKernel` (`core/src/core/transaction.rs`) -/

/-- `NRDRelativeHeight::read`; `NRDRelativeHeight::MAX.try_into().expect("WEEK_HEIGHT const should fit
in u16")` -/
def rNrdHeight : Dec Nat := fun bs =>
  Dec.bind (rU16 bs) fun x r =>
    if NRD_MAX > 65535 then .panic .unwrapErr 0
    else if x = 0 ∨ x > NRD_MAX then .err .corrupted 0
    else .ok x r 0

/-- `KernelFeatures::read_v1` -/
def rKernelFeaturesV1 (nrd : Bool) : Dec KernelFeatures := fun bs =>
  Dec.bind (rU8 bs) fun fb r =>
    if fb = 0 then
      Dec.bind (rU64 r) fun fee r => Dec.bind (rEmpty 8 r) fun _ r => .ok (.plain fee) r 0
    else if fb = 1 then
      Dec.bind (rEmpty 16 r) fun _ r => .ok .coinbase r 0
    else if fb = 2 then
      Dec.bind (rU64 r) fun fee r => Dec.bind (rU64 r) fun lock r => .ok (.heightLocked fee lock) r 0
    else if fb = 3 then
      if nrd = false then .err .corrupted 0 else
      Dec.bind (rU64 r) fun fee r => Dec.bind (rEmpty 6 r) fun _ r => Dec.bind (rNrdHeight r) fun rel r =>
        .ok (.noRecentDuplicate fee rel) r 0
    else .err .corrupted 0

/-- `KernelFeatures::read_v2` -/
def rKernelFeaturesV2 (nrd : Bool) : Dec KernelFeatures := fun bs =>
  Dec.bind (rU8 bs) fun fb r =>
    if fb = 0 then Dec.bind (rU64 r) fun fee r => .ok (.plain fee) r 0
    else if fb = 1 then .ok .coinbase r 0
    else if fb = 2 then
      Dec.bind (rU64 r) fun fee r => Dec.bind (rU64 r) fun lock r => .ok (.heightLocked fee lock) r 0
    else if fb = 3 then
      if nrd = false then .err .corrupted 0 else
      Dec.bind (rU64 r) fun fee r => Dec.bind (rNrdHeight r) fun rel r => .ok (.noRecentDuplicate fee rel) r 0
    else .err .corrupted 0

/-- `Readable for KernelFeatures` -/
def rKernelFeatures (c : Cfg) : Dec KernelFeatures :=
  if c.ver ≤ 1 then rKernelFeaturesV1 c.nrd else rKernelFeaturesV2 c.nrd

/-- `Readable for TxKernel` -/
def rTxKernel (rd : Rdr) (c : Cfg) : Dec TxKernel := fun bs =>
  Dec.bind (rKernelFeatures c bs) fun f r =>
  Dec.bind (rCommit rd r) fun ex r =>
  Dec.bind (rSig rd r) fun sg r => .ok { features := f, excess := ex, excessSig := sg } r 0

/-! ## `OutputFeatures`, `Input`, `CommitWrapper`, `OutputIdentifier`, `RangeProof`, `Output` -/

/-- `OutputFeatures::read` -/
def rOutputFeatures : Dec OutputFeatures := fun bs =>
  Dec.bind (rU8 bs) fun b r =>
    if b = 0 then .ok .plain r 0 else if b = 1 then .ok .coinbase r 0 else .err .corrupted 0

def rInput (rd : Rdr) : Dec Input := fun bs =>
  Dec.bind (rOutputFeatures bs) fun f r => Dec.bind (rCommit rd r) fun cm r => .ok { features := f, commit := cm } r 0

def rCommitWrapper (rd : Rdr) : Dec Bytes := rCommit rd

def rOutputId (rd : Rdr) : Dec OutputId := fun bs =>
  Dec.bind (rOutputFeatures bs) fun f r => Dec.bind (rCommit rd r) fun cm r => .ok { features := f, commit := cm } r 0

/-- `Readable for RangeProof`: `read_fixed_bytes(min(len, 675))`, then
`proof[..p.len()].clone_from_slice(&p[..])` into `[0; 675]` -/
def rRangeProof (rd : Rdr) : Dec RangeProof := fun bs =>
  Dec.bind (rU64 bs) fun len r =>
  Dec.bind (rFixed rd (min len MAX_PROOF_SIZE) r) fun p r =>
    if p.length > MAX_PROOF_SIZE then .panic .index 0
    else .ok { plen := MAX_PROOF_SIZE, proof := p ++ List.replicate (MAX_PROOF_SIZE - p.length) 0 } r 0

def rOutput (rd : Rdr) : Dec Output := fun bs =>
  Dec.bind (rOutputId rd bs) fun i r => Dec.bind (rRangeProof rd r) fun p r => .ok { id := i, proof := p } r 0

/-! ## `verify_sorted_and_unique` (`core/src/ser.rs`): `for pair in self.windows(2)`, `pair[0]`, `pair[1]` -/

/-- `slice::windows(2)` -/
def windows2 {α : Type} : List α → List (List α)
  | a :: b :: r => [a, b] :: windows2 (b :: r)
  | _ => []

/-- result of a check on a decoded value that can fail or (at a modelled site) panic -/
inductive Chk
  | ok
  | err (e : SerErr)
  | panic (s : Site)
deriving DecidableEq, Repr

/-- the loop over the windows, on the sort keys (hashes as numbers) -/
def sortedLoop : List (List Nat) → Chk
  | [] => .ok
  | w :: ws =>
    match w[0]?, w[1]? with
    | some a, some b =>
      if a > b then .err .sort else if a = b then .err .dup else sortedLoop ws
    | _, _ => .panic .index

/-- `Vec<T: Ord>::verify_sorted_and_unique` -/
def verifySortedP (keys : List Nat) : Chk := sortedLoop (windows2 keys)

def Chk.andThen (a : Chk) (b : Chk) : Chk :=
  match a with
  | .ok => b
  | o => o

/-- `check.map_err(|_| ser::Error::CorruptedData)?; k` -/
def Chk.corrupt {β : Type} (ch : Chk) (k : Outcome β) : Outcome β :=
  match ch with
  | .ok => k
  | .err _ => .err .corrupted 0
  | .panic s => .panic s 0

/-- `check?; k` -/
def Chk.pass {β : Type} (ch : Chk) (k : Outcome β) : Outcome β :=
  match ch with
  | .ok => k
  | .err e => .err e 0
  | .panic s => .panic s 0

/-- `TransactionBody::verify_sorted` -/
def bodyVerifySortedP (key : Bytes → Nat) (b : TxBody) : Chk :=
  (verifySortedP (b.inputs.keys key)).andThen
    ((verifySortedP (b.outputs.map fun o => key o.hashBytes)).andThen
      (verifySortedP (b.kernels.map fun k => key k.hashBytes)))

/-- `verify_cut_through`: the sorted vector of all input and output commitments, `windows(2)`,
`pair[0] == pair[1]` -/
def cutThroughLoop : List (List Bytes) → Chk
  | [] => .ok
  | w :: ws =>
    match w[0]?, w[1]? with
    | some a, some b => if a = b then .err .corrupted else cutThroughLoop ws
    | _, _ => .panic .index

/-- bytes compared as the derived `Ord` of `Commitment([u8; 33])` does (lexicographic) -/
def bytesLt : Bytes → Bytes → Bool
  | [], [] => false
  | [], _ :: _ => true
  | _ :: _, [] => false
  | a :: r, b :: s => if a < b then true else if a > b then false else bytesLt r s

def insertBytes (x : Bytes) : List Bytes → List Bytes
  | [] => [x]
  | y :: r => if bytesLt x y then x :: y :: r else y :: insertBytes x r

/-- `sort_unstable()` of commitments (equal elements are indistinguishable) -/
def sortBytes : List Bytes → List Bytes
  | [] => []
  | x :: r => insertBytes x (sortBytes r)

/-! ## `Inputs`, `TransactionBody`, `Transaction` -/

/-- the version-specific inputs read of `TransactionBody::read`: `read_multi`, then
`Inputs::from(inputs.as_slice())` = `to_vec()` -/
def rInputs (rd : Rdr) (ver ni : Nat) : Dec Inputs := fun bs =>
  if ver ≤ 2 then
    Dec.bind (readMulti (rInput rd) INPUT_MEM ni bs) fun l r =>
      charge (l.length * INPUT_MEM) (.ok (Inputs.featuresAndCommit l) r 0)
  else
    Dec.bind (readMulti (rCommitWrapper rd) COMMIT_MEM ni bs) fun l r =>
      charge (l.length * COMMIT_MEM) (.ok (Inputs.commitOnly l) r 0)

/-- `Readable for TransactionBody`: three counts, the weight pre-check (`weight_by_iok` saturates,
so it cannot panic), three `read_multi`, `TransactionBody::init(.., verify_sorted = true)`
(`outputs.to_vec()`, `kernels.to_vec()`, `verify_sorted`) -/
def rTxBody (rd : Rdr) (c : Cfg) : Dec TxBody := fun bs =>
  Dec.bind (rU64 bs) fun ni r =>
  Dec.bind (rU64 r) fun no r =>
  Dec.bind (rU64 r) fun nk r =>
    if weightByIok ni no nk > c.maxWeight then .err .tooLarge 0 else
    Dec.bind (rInputs rd c.ver ni r) fun ins r =>
    Dec.bind (readMulti (rOutput rd) OUTPUT_MEM no r) fun outs r =>
    Dec.bind (readMulti (rTxKernel rd c) KERNEL_MEM nk r) fun kers r =>
      charge (outs.length * OUTPUT_MEM + kers.length * KERNEL_MEM)
        ((bodyVerifySortedP c.key { inputs := ins, outputs := outs, kernels := kers }).corrupt
          (.ok { inputs := ins, outputs := outs, kernels := kers } r 0))

/-- bytes requested by `verify_cut_through` per input / output: the clone of the inputs, their
commitments (twice for `FeaturesAndCommit`), the outputs' commitments and the merged vector
(`extend_from_slice`: at most twice the final size) -/
def CUT_THROUGH_MEM : Nat := 200

/-- `TransactionBody::validate_read(weighting)` with the weight limit resolved (`maxW`):
`verify_weight` (saturating arithmetic only), `verify_no_nrd_duplicates` (collects the NRD excesses:
a pushed `Vec<Commitment>`), `verify_sorted`, `verify_cut_through`.  A `Dec Unit` that consumes
nothing; every error becomes `CorruptedData` at the callers. -/
def validateReadBody (c : Cfg) (maxW : Nat) (b : TxBody) : Dec Unit := fun r =>
  if b.weight > maxW then .err .corrupted 0 else
  let nrdEx := (b.kernels.filter (·.features.isNrd)).map (·.excess)
  charge (if c.nrd then GROW * COMMIT_MEM * nrdEx.length else 0)
    (if c.nrd && !allDistinct nrdEx then .err .corrupted 0 else
     (bodyVerifySortedP c.key b).corrupt
       (charge (CUT_THROUGH_MEM * (b.inputs.len + b.outputs.length))
         ((cutThroughLoop (windows2 (sortBytes (b.inputs.commits ++ b.outputs.map (·.id.commit))))).corrupt
           (.ok () r 0))))

/-- `Readable for Transaction`: offset, body, `validate_read()` = body `validate_read(AsTransaction)`
(`global::max_tx_weight()` = `max_block_weight().saturating_sub(OUTPUT_WEIGHT + KERNEL_WEIGHT)`) and
`verify_features` -/
def rTransaction (rd : Rdr) (c : Cfg) : Dec Transaction := fun bs =>
  Dec.bind (rBlind rd bs) fun off r =>
  Dec.bind (rTxBody rd c r) fun body r =>
  Dec.bind (validateReadBody c (maxTxWeight c.maxWeight) body r) fun _ r =>
    if body.verifyFeatures then .ok { offset := off, body := body } r 0 else .err .corrupted 0

/-! ## `Proof`, `ProofOfWork` (`core/src/pow/types.rs`) -/

/-- `extract_bits`: the slice `bits[read_from..read_from + 8]`, `bit_start - read_from * 8`,
`>> skip_bits`, `1 << bit_count` -/
def extractBitsP (bits : Bytes) (bitStart bitCount readFrom : Nat) : Except Site Nat :=
  if readFrom + 8 > bits.length then .error .index
  else if bitCount = 64 then .ok (leU64At bits readFrom)
  else if bitStart < readFrom * 8 then .error .assertion
  else if bitStart - readFrom * 8 ≥ 64 then .error .assertion
  else if bitCount > 64 then .error .assertion
  else .ok (extractBits bits bitStart bitCount readFrom)

/-- `read_number`: `bits.len() - 8`, the two `extract_bits` calls, `bit_count - 8` -/
def readNumberP (bits : Bytes) (bitStart bitCount : Nat) : Except Site Nat :=
  if bitCount = 0 then .ok 0 else
  let rf0 := bitStart / 8
  if rf0 + 8 > bits.length ∧ bits.length < 8 then .error .assertion else
  let rf := if rf0 + 8 > bits.length then bits.length - 8 else rf0
  if bitStart + bitCount ≤ (rf + 8) * 8 then extractBitsP bits bitStart bitCount rf
  else if bitCount < 8 then .error .assertion
  else
    match extractBitsP bits bitStart 8 rf, extractBitsP bits (bitStart + 8) (bitCount - 8) (rf + 1) with
    | .ok low, .ok high => .ok ((high * 2^8 + low) % 2^64)
    | .error s, _ => .error s
    | _, .error s => .error s

/-- `for n in 0..proofsize { nonces.push(read_number(&bits, n * nonce_bits, nonce_bits)) }`
(`k` iterations left, at index `n`) -/
def nonceLoop (bits : Bytes) (eb : Nat) : Nat → Nat → Except Site (List Nat)
  | 0, _ => .ok []
  | k+1, n =>
    match readNumberP bits (n * eb) eb with
    | .error s => .error s
    | .ok v =>
      match nonceLoop bits eb k (n + 1) with
      | .error s => .error s
      | .ok vs => .ok (v :: vs)

/-- the part of `Proof::read` after the packed bytes have been read: the nonce loop and the check
of the padding bits (`bytes_len * 8 - end_of_data`) -/
def proofFromBits (c : Cfg) (eb : Nat) (bits : Bytes) : Dec Proof := fun r =>
  match nonceLoop bits eb c.proofSize 0 with
  | .error s => .panic s 0
  | .ok nonces =>
    if packLen c.proofSize eb * 8 < c.proofSize * eb then .panic .assertion 0 else
    match readNumberP bits (c.proofSize * eb) (packLen c.proofSize eb * 8 - c.proofSize * eb) with
    | .error s => .panic s 0
    | .ok pad =>
      if pad ≠ 0 then .err .corrupted 0 else .ok { edgeBits := eb, nonces := nonces } r 0

/-- `Readable for Proof` (`DeserializationMode::Full`): `Vec::with_capacity(proofsize)` of `u64`
before the length check and the read -/
def rProof (rd : Rdr) (c : Cfg) : Dec Proof := fun bs =>
  Dec.bind (rU8 bs) fun eb r =>
    if eb = 0 ∨ eb > 63 then .err .corrupted 0 else
    withCapacity c.proofSize 8
      (if packLen c.proofSize eb < 8 then .err .corrupted 0 else
       Dec.bind (rFixed rd (packLen c.proofSize eb) r) (proofFromBits c eb))

/-- `Readable for ProofOfWork` -/
def rProofOfWork (rd : Rdr) (c : Cfg) : Dec ProofOfWork := fun bs =>
  Dec.bind (rU64 bs) fun td r =>
  Dec.bind (rU32 r) fun ss r =>
  Dec.bind (rU64 r) fun nonce r =>
  Dec.bind (rProof rd c r) fun pf r =>
    .ok { totalDifficulty := td, secondaryScaling := ss, nonce := nonce, proof := pf } r 0

/-! ## `BlockHeader`, `UntrustedBlockHeader` (`core/src/core/block.rs`) -/

/-- `read_block_header`.  After the range check `DateTime::from_timestamp` is `Some` (its range
contains `NaiveDate::MIN ..= NaiveDate::MAX`), and `ts.unwrap()` is guarded by `ts.is_none()`. -/
def rBlockHeader (rd : Rdr) (c : Cfg) : Dec BlockHeader := fun bs =>
  Dec.bind (rU16 bs) fun version r =>
  Dec.bind (rU64 r) fun height r =>
  Dec.bind (rI64 r) fun timestamp r =>
  Dec.bind (rHash rd r) fun prevHash r =>
  Dec.bind (rHash rd r) fun prevRoot r =>
  Dec.bind (rHash rd r) fun outputRoot r =>
  Dec.bind (rHash rd r) fun rangeProofRoot r =>
  Dec.bind (rHash rd r) fun kernelRoot r =>
  Dec.bind (rBlind rd r) fun tko r =>
  Dec.bind (rU64 r) fun oms r =>
  Dec.bind (rU64 r) fun kms r =>
  Dec.bind (rProofOfWork rd c r) fun pow r =>
    if timestamp > TS_MAX ∨ timestamp < TS_MIN then .err .corrupted 0
    else .ok (BlockHeader.mk version height prevHash prevRoot timestamp outputRoot rangeProofRoot
               kernelRoot tko oms kms pow) r 0

/-- what the process state contributes to the untrusted readers -/
structure Env where
  cfg : Cfg
  ct : GV.Cons.ChainType
  /-- `Utc::now()` in seconds -/
  now : Int
  /-- `global::get_future_time_limit()` -/
  ftl : Nat
  /-- `pow::verify_size(&header).is_ok()`: the Cuck(at)oo verifiers are total (property C05) -/
  powOk : BlockHeader → Bool

def toHdr (h : BlockHeader) : GV.Cons.Hdr :=
  { height := h.height, ts := h.timestamp, version := h.version, totalDiff := h.pow.totalDifficulty,
    secondaryScaling := h.pow.secondaryScaling, edgeBits := h.pow.proof.edgeBits, hash64 := 0,
    outputMmrSize := h.outputMmrSize, kernelMmrSize := h.kernelMmrSize }

/-- bytes requested by `pow::verify_size`: the boxed context, `pre_pow()` (a pushed `Vec<u8>` of 246
bytes), and in `verify`: `uvs`, `prev` (2·proofsize words each), `headu`, `headv` (≤ 2·proofsize
words each) -/
def powVerifyAlloc (proofSize : Nat) : Nat := 64 * proofSize + 1024

/-- the checks of `UntrustedBlockHeader::read` on the decoded header = `Cons.untrustedHeaderCheck`
(future time limit, `valid_header_version`, `is_primary / is_secondary`, `verify_size`, the global
weight bound with `n_leaves` of the two MMR sizes — release arithmetic: `height + 1` and the product
wrap).  `verify_size` runs only when the three checks before it pass. -/
def untrustedChecks (e : Env) (h : BlockHeader) : Dec BlockHeader := fun r =>
  let reachesPow := !(decide (h.timestamp > e.now + e.ftl)) && GV.Cons.validHeaderVersion e.ct h.height h.version
    && !(!GV.Cons.isPrimary e.ct h.pow.proof.edgeBits && !GV.Cons.isSecondary h.pow.proof.edgeBits)
  charge (if reachesPow then powVerifyAlloc e.cfg.proofSize else 0)
    (match GV.Cons.untrustedHeaderCheck e.ct e.now e.ftl (e.powOk h) (toHdr h) with
     | .error .CorruptedData => .err .corrupted 0
     | .error .InvalidBlockVersion => .err .invalidBlockVersion 0
     | .ok () => .ok h r 0)

/-- `Readable for UntrustedBlockHeader`: `read_block_header`, then the checks -/
def rUntrustedHeader (rd : Rdr) (e : Env) : Dec BlockHeader := fun bs =>
  Dec.bind (rBlockHeader rd e.cfg bs) (untrustedChecks e)

/-- the two unchecked `u64` expressions of `UntrustedBlockHeader::read` overflow (a debug build
panics, the release build wraps) -/
def headerArithOverflows (ct : GV.Cons.ChainType) (h : BlockHeader) : Bool :=
  decide (h.height + 1 ≥ 2^64) || decide (GV.Cons.maxBlockWeight ct * ((h.height + 1) % 2^64) ≥ 2^64)

/-! ## `UntrustedBlock`, `CompactBlockBody`, `UntrustedCompactBlock` -/

/-- `Readable for UntrustedBlock`: header, body, `body.validate_read(Weighting::AsBlock)` -/
def rUntrustedBlock (rd : Rdr) (e : Env) : Dec Block := fun bs =>
  Dec.bind (rUntrustedHeader rd e bs) fun h r =>
  Dec.bind (rTxBody rd e.cfg r) fun body r =>
  Dec.bind (validateReadBody e.cfg e.cfg.maxWeight body r) fun _ r =>
    .ok { header := h, body := body } r 0

/-- `CompactBlockBody::verify_sorted` -/
def compactVerifySortedP (key : Bytes → Nat) (b : CompactBlockBody) : Chk :=
  (verifySortedP (b.outFull.map fun o => key o.hashBytes)).andThen
    ((verifySortedP (b.kernFull.map fun k => key k.hashBytes)).andThen
      (verifySortedP (b.kernIds.map fun s => key (encShortId s))))

/-- `Readable for CompactBlockBody`: three counts, NO weight pre-check (only the `read_multi` cap),
`CompactBlockBody::init(.., true)` moves the vectors -/
def rCompactBody (rd : Rdr) (c : Cfg) : Dec CompactBlockBody := fun bs =>
  Dec.bind (rU64 bs) fun no r =>
  Dec.bind (rU64 r) fun nk r =>
  Dec.bind (rU64 r) fun ni r =>
  Dec.bind (readMulti (rOutput rd) OUTPUT_MEM no r) fun outs r =>
  Dec.bind (readMulti (rTxKernel rd c) KERNEL_MEM nk r) fun kers r =>
  Dec.bind (readMulti (rShortId rd) SHORT_ID_MEM ni r) fun ids r =>
    (compactVerifySortedP c.key { outFull := outs, kernFull := kers, kernIds := ids }).corrupt
      (.ok { outFull := outs, kernFull := kers, kernIds := ids } r 0)

/-- `Readable for UntrustedCompactBlock`: header, nonce, body, `validate_read` (= `verify_sorted`
once more) -/
def rUntrustedCompactBlock (rd : Rdr) (e : Env) : Dec CompactBlock := fun bs =>
  Dec.bind (rUntrustedHeader rd e bs) fun h r =>
  Dec.bind (rU64 r) fun nonce r =>
  Dec.bind (rCompactBody rd e.cfg r) fun body r =>
    (compactVerifySortedP e.cfg.key body).corrupt (.ok { header := h, nonce := nonce, body := body } r 0)

/-! ## `BitmapBlock`, `BitmapSegment` (`chain/src/txhashset/bitmap_accumulator.rs`) -/

/-- `BitmapBlock::NCHUNKS` = 2^16 / 1024 -/
def NCHUNKS : Nat := 64
/-- `BitmapChunk::LEN_BITS` -/
def CHUNK_BITS : Nat := 1024
/-- `BitmapSegment::MAX_SEGMENT_HEIGHT` -/
def MAX_BITMAP_SEGMENT_HEIGHT : Nat := 13

/-- a decoded `BitmapBlock`: the `BitVec` as its length, the fill value and the positions flipped
(raw mode: the bytes) -/
inductive BlockBits
  | raw (bytes : Bytes)
  | flips (fill : Bool) (positions : List Nat)
deriving DecidableEq, Repr

structure BitmapBlock where
  nBits : Nat
  bits : BlockBits
deriving DecidableEq, Repr

/-- the `for _ in 0..n { let pos = read_u16()?; if pos >= n_bits { CorruptedData }; inner.set(pos, v) }`
loop; `BitVec::set` asserts `pos < len` -/
def flipLoop (nBits : Nat) : Nat → Dec (List Nat)
  | 0, bs => .ok [] bs 0
  | n+1, bs =>
    Dec.bind (rU16 bs) fun pos r =>
      if pos ≥ nBits then .err .corrupted 0
      else if pos ≥ nBits then .panic .assertion 0
      else Dec.bind (flipLoop nBits n r) fun ps r => .ok (pos :: ps) r 0

/-- `BitmapBlock::read` after `n_chunks ≤ 64` and the mode byte: `BitVec::from_elem(n_bits, _)`
(n_bits / 8 bytes) is allocated BEFORE the entry count is read -/
def rBitmapBlockBody (rd : Rdr) (nChunks mode : Nat) : Dec BitmapBlock := fun r =>
  if mode = 0 then
    Dec.bind (rFixed rd (nChunks * CHUNK_BITS / 8) r) fun bytes r =>
      charge (nChunks * CHUNK_BITS / 8) (.ok { nBits := bytes.length * 8, bits := .raw bytes } r 0)
  else if mode = 1 ∨ mode = 2 then
    withCapacity (nChunks * CHUNK_BITS / 8) 1
      (Dec.bind (rU16 r) fun n r =>
       Dec.bind (flipLoop (nChunks * CHUNK_BITS) n r) fun ps r =>
         .ok { nBits := nChunks * CHUNK_BITS, bits := .flips (decide (mode = 2)) ps } r 0)
  else .err .corrupted 0

/-- `Readable for BitmapBlock` -/
def rBitmapBlock (rd : Rdr) : Dec BitmapBlock := fun bs =>
  Dec.bind (rU8 bs) fun nChunks r =>
    if nChunks > NCHUNKS then .err .tooLarge 0 else
    Dec.bind (rU8 r) fun mode r => rBitmapBlockBody rd nChunks mode r

/-- `BitmapBlock::try_n_chunks` -/
def tryNChunks (b : BitmapBlock) : Except SerErr Nat :=
  if b.nBits % CHUNK_BITS ≠ 0 then .error .corrupted
  else if b.nBits / CHUNK_BITS > NCHUNKS then .error .tooLarge
  else .ok (b.nBits / CHUNK_BITS)

/-- `BitmapSegment::max_chunks`: `1usize.checked_shl(height)` -/
def maxChunks (height : Nat) : Except SerErr Nat :=
  if height > MAX_BITMAP_SEGMENT_HEIGHT then .error .tooLarge
  else if height ≥ 64 then .error .tooLarge
  else .ok (2 ^ height)

/-- `BitmapSegment::leaf_offset`: `checked_shl` (`None` for a shift ≥ 64), `checked_mul` -/
def leafOffset (id : SegmentId) : Except SerErr Nat :=
  if id.height ≥ 64 then .error .tooLarge
  else if 2 ^ id.height * id.idx ≥ 2^64 then .error .tooLarge
  else .ok (2 ^ id.height * id.idx)

/-- the `for block in full_blocks` loop of `n_chunks` -/
def fullBlocksOk : List BitmapBlock → Except SerErr Unit
  | [] => .ok ()
  | b :: r =>
    match tryNChunks b with
    | .error e => .error e
    | .ok n => if n ≠ NCHUNKS then .error .corrupted else fullBlocksOk r

/-- `BitmapSegment::n_chunks`: `split_last`, full blocks, the last block, `checked_mul / checked_add` -/
def nChunksOf (blocks : List BitmapBlock) : Except SerErr Nat :=
  match blocks.getLast? with
  | none => .error .corrupted
  | some last =>
    match fullBlocksOk blocks.dropLast with
    | .error e => .error e
    | .ok _ =>
      match tryNChunks last with
      | .error e => .error e
      | .ok lc =>
        if lc = 0 then .error .corrupted
        else if blocks.dropLast.length * NCHUNKS + lc ≥ 2^64 then .error .tooLarge
        else .ok (blocks.dropLast.length * NCHUNKS + lc)

/-- `BitmapSegment::validate_blocks`; `(n_chunks - 1) as u64` is the one unchecked subtraction; the last
leaf index must stay below 2^63 -/
def validateBlocks (id : SegmentId) (blocks : List BitmapBlock) : Chk :=
  match leafOffset id with
  | .error e => .err e
  | .ok off =>
    match nChunksOf blocks with
    | .error e => .err e
    | .ok n =>
      match maxChunks id.height with
      | .error e => .err e
      | .ok mx =>
        if n > mx then .err .tooLarge
        else if n = 0 then .panic .assertion
        else if off + (n - 1) ≥ 2^64 then .err .tooLarge
        -- `last_idx >= 1 << 63`: no MMR position exists for such a leaf (repaired in /repo: 823a23060)
        else if off + (n - 1) ≥ 2^63 then .err .tooLarge
        else .ok

structure BitmapSegment where
  id : SegmentId
  blocks : List BitmapBlock
  proof : List Bytes
deriving DecidableEq, Repr

/-- the blocks, `validate_blocks` and the proof of `BitmapSegment::read`:
`Vec::with_capacity(n_blocks)`, `n_blocks` block reads, the shape check, `SegmentProof::read` -/
def rBitmapBlocks (rd : Rdr) (id : SegmentId) (nBlocks : Nat) : Dec BitmapSegment := fun r =>
  withCapacity nBlocks BITMAP_BLOCK_MEM
    (Dec.bind (readN (rBitmapBlock rd) nBlocks r) fun blocks r =>
      (validateBlocks id blocks).pass
        (Dec.bind (segmentProof rd r) fun proof r => .ok { id := id, blocks := blocks, proof := proof } r 0))

/-- `BitmapSegment::read` after the block count: non-zero, at most `ceil(max_chunks / 64)` (≤ 128
because `height ≤ 13`), `leaf_offset` representable — all BEFORE anything is allocated -/
def rBitmapAfterCount (rd : Rdr) (id : SegmentId) (nBlocks : Nat) : Dec BitmapSegment := fun r =>
  if nBlocks = 0 then .err .corrupted 0 else
  match maxChunks id.height with
  | .error e => .err e 0
  | .ok mx =>
    if nBlocks > (mx + NCHUNKS - 1) / NCHUNKS then .err .tooLarge 0 else
    match leafOffset id with
    | .error e => .err e 0
    | .ok _ => rBitmapBlocks rd id nBlocks r

/-- `Readable for BitmapSegment`: identifier, `n_blocks : u16`, then `rBitmapAfterCount` -/
def rBitmapSegment (rd : Rdr) : Dec BitmapSegment := fun bs =>
  Dec.bind (segmentId bs) fun id r =>
  Dec.bind (rU16 r) fun nBlocks r => rBitmapAfterCount rd id nBlocks r

/-! ## segment responses (`p2p/src/msg.rs`) -/

/-- `SegmentResponse<T>`: block hash, `Segment<T>` -/
def rSegmentResponse {α : Type} (rd : Rdr) (p : Dec α) (sz : Nat) : Dec (Bytes × Segment α) := fun bs =>
  Dec.bind (rHash rd bs) fun h r => Dec.bind (segment rd p sz r) fun s r => .ok (h, s) r 0

/-- `OutputSegmentResponse`: `SegmentResponse<OutputIdentifier>`, output bitmap root -/
def rOutputSegmentResponse (rd : Rdr) : Dec (Bytes × Segment OutputId × Bytes) := fun bs =>
  Dec.bind (rSegmentResponse rd (rOutputId rd) OUTPUT_ID_MEM bs) fun p r =>
  Dec.bind (rHash rd r) fun root r => .ok (p.1, p.2, root) r 0

/-- `OutputBitmapSegmentResponse`: block hash, `BitmapSegment`, output root -/
def rBitmapSegmentResponse (rd : Rdr) : Dec (Bytes × BitmapSegment × Bytes) := fun bs =>
  Dec.bind (rHash rd bs) fun h r =>
  Dec.bind (rBitmapSegment rd r) fun s r =>
  Dec.bind (rHash rd r) fun root r => .ok (h, s, root) r 0

/-! ## the payload of `decode_message` -/

/-- the decoded payload of the message types whose body `Model/Msg.lean` leaves open -/
inductive PayloadV
  | tx (t : Transaction)
  | block (b : Block)
  | compactBlock (b : CompactBlock)
  | header (h : BlockHeader)
  | bitmapSegment (h : Bytes) (s : BitmapSegment) (root : Bytes)
  | outputSegment (h : Bytes) (s : Segment OutputId) (root : Bytes)
  | rangeProofSegment (h : Bytes) (s : Segment RangeProof)
  | kernelSegment (h : Bytes) (s : Segment TxKernel)

open GV.Gen.Msg in
/-- the `msg.body()?` of the payload arms of `decode_message`, by type byte (the codec reads with a
`BufReader`; `rd` is kept general).  Other type bytes never reach this function (`decBody`). -/
def payload (rd : Rdr) (e : Env) : Payload PayloadV := fun t =>
  if t = T_Transaction ∨ t = T_StemTransaction then fun bs => (rTransaction rd e.cfg bs).map .tx
  else if t = T_Block then fun bs => (rUntrustedBlock rd e bs).map .block
  else if t = T_CompactBlock then fun bs => (rUntrustedCompactBlock rd e bs).map .compactBlock
  else if t = T_Header then fun bs => (rUntrustedHeader rd e bs).map .header
  else if t = T_OutputBitmapSegment then
    fun bs => (rBitmapSegmentResponse rd bs).map fun p => .bitmapSegment p.1 p.2.1 p.2.2
  else if t = T_OutputSegment then
    fun bs => (rOutputSegmentResponse rd bs).map fun p => .outputSegment p.1 p.2.1 p.2.2
  else if t = T_RangeProofSegment then
    fun bs => (rSegmentResponse rd (rRangeProof rd) RANGE_PROOF_MEM bs).map fun p => .rangeProofSegment p.1 p.2
  else if t = T_KernelSegment then
    fun bs => (rSegmentResponse rd (rTxKernel rd e.cfg) KERNEL_MEM bs).map fun p => .kernelSegment p.1 p.2
  else fun _ => .err .corrupted 0

/-- every `msg.body()?` of `decode_message`, with the payload decoders filled in -/
def decodeMessageBody (rd : Rdr) (e : Env) (t : Nat) : Dec (Body PayloadV) := decBody (payload rd e) rd t

end GV.DecSer
