import GrinVerif.Model.Pmmr
/-! Model of `store/src/prune_list.rs` (`PruneList`) and of the roaring-bitmap operations the
store uses (`croaring::Bitmap` = finite set of `u32`, modelled as a strictly ascending list).

Positions are 0-based (`pos0`) in the API and 1-based inside the bitmap, exactly as in the code.
`as u32` casts are not modelled (positions < 2^32).  Import-free apart from `Model.Pmmr`. -/

namespace GV.Store
open GV GV.Pmmr

/-- `croaring::Bitmap`: a finite set of `u32`, kept as a strictly ascending list. -/
abbrev Bitmap := List Nat

namespace Bm

def contains (b : Bitmap) (x : Nat) : Bool := b.elem x

/-- `Bitmap::add` (sorted insert, no duplicates) -/
def add : Bitmap → Nat → Bitmap
  | [], x => [x]
  | y :: ys, x => if x < y then x :: y :: ys else if x = y then y :: ys else y :: add ys x

/-- `Bitmap::remove` -/
def remove (b : Bitmap) (x : Nat) : Bitmap := b.filter (· != x)

/-- `Bitmap::rank(x)`: number of elements `≤ x` -/
def rank (b : Bitmap) (x : Nat) : Nat := b.countP (· ≤ x)

/-- `Bitmap::select(i)`: the element of rank `i` (0-based) -/
def select (b : Bitmap) (i : Nat) : Option Nat := b[i]?

/-- `Bitmap::maximum` -/
def maximum (b : Bitmap) : Option Nat := b.getLast?

/-- `Bitmap::remove_range(lo..=hi)` (inclusive) -/
def removeRange (b : Bitmap) (lo hi : Nat) : Bitmap := b.filter fun v => !(lo ≤ v && v ≤ hi)

/-- `a.or_inplace(b)` -/
def or (a b : Bitmap) : Bitmap := b.foldl add a

/-- `a.and(b)` -/
def and (a b : Bitmap) : Bitmap := a.filter (contains b)

/-- `b.flip(lo..hi)` (half-open): membership toggled inside the range -/
def flip (b : Bitmap) (lo hi : Nat) : Bitmap :=
  b.filter (· < lo) ++ ((List.range' lo (hi - lo)).filter fun v => !contains b v) ++ b.filter (· ≥ hi)

def ofList (l : List Nat) : Bitmap := l.foldl add []

end Bm

/-- `PruneList`: bitmap of pruned subtree roots (1-based) and the two shift caches. -/
structure PruneList where
  bitmap : Bitmap := []
  shiftCache : List Nat := []
  leafShiftCache : List Nat := []
deriving Repr, DecidableEq

namespace PruneList

/-- `is_pruned_root` -/
def isPrunedRoot (pl : PruneList) (pos0 : Nat) : Bool := Bm.contains pl.bitmap (1 + pos0)

/-- `shift_cache[min(idx, len) - 1]`; an empty cache with `idx > 0` would be an index panic in
the code (never reached: the caches are as long as the rank asked for); modelled as 0. -/
def cacheAt (cache : List Nat) (idx : Nat) : Nat :=
  if idx = 0 then 0 else cache.getD (min idx cache.length - 1) 0

/-- `get_shift` -/
def getShift (pl : PruneList) (pos0 : Nat) : Nat :=
  cacheAt pl.shiftCache (Bm.rank pl.bitmap (1 + pos0))

/-- `get_leaf_shift` -/
def getLeafShift (pl : PruneList) (pos0 : Nat) : Nat :=
  cacheAt pl.leafShiftCache (Bm.rank pl.bitmap (1 + pos0))

/-- `get_total_shift`: `get_shift(maximum.unwrap_or(1) - 1)` -/
def getTotalShift (pl : PruneList) : Nat :=
  getShift pl ((Bm.maximum pl.bitmap).getD 1 - 1)

/-- `get_total_leaf_shift` -/
def getTotalLeafShift (pl : PruneList) : Nat :=
  getLeafShift pl ((Bm.maximum pl.bitmap).getD 1 - 1)

/-- the shift contributed by one pruned root: `2 * ((1 << height) - 1)` -/
def rootShift (pos0 : Nat) : Nat := 2 * (2 ^ height pos0 - 1)

/-- the leaf shift contributed by one pruned root: `if height == 0 {0} else {1 << height}` -/
def rootLeafShift (pos0 : Nat) : Nat := if height pos0 = 0 then 0 else 2 ^ height pos0

/-- `calculate_next_shift` -/
def calculateNextShift (pl : PruneList) (pos0 : Nat) : Nat :=
  let prev := if pos0 = 0 then 0 else getShift pl (pos0 - 1)
  let shift := if isPrunedRoot pl pos0 then rootShift pos0 else 0
  prev + shift

/-- `calculate_next_leaf_shift` -/
def calculateNextLeafShift (pl : PruneList) (pos0 : Nat) : Nat :=
  let prev := if pos0 = 0 then 0 else getLeafShift pl (pos0 - 1)
  let shift := if isPrunedRoot pl pos0 then rootLeafShift pos0 else 0
  prev + shift

/-- `cleanup_subtree` -/
def cleanupSubtree (pl : PruneList) (pos0 : Nat) : PruneList :=
  let lc0 := bintreeLeftmost pos0
  let size := (Bm.maximum pl.bitmap).getD 0
  if lc0 ≥ size then pl else
  let idx := Bm.rank pl.bitmap lc0
  { bitmap := Bm.removeRange pl.bitmap (lc0 + 1) size,
    shiftCache := pl.shiftCache.take idx,
    leafShiftCache := pl.leafShiftCache.take idx }

/-- `append_single` (the `assert!(pos0 >= maximum)` is a precondition, see `append`) -/
def appendSingle (pl : PruneList) (pos0 : Nat) : PruneList :=
  let pl1 := { pl with bitmap := Bm.add pl.bitmap (1 + pos0) }
  let pl2 := { pl1 with shiftCache := pl1.shiftCache ++ [calculateNextShift pl1 pos0] }
  { pl2 with leafShiftCache := pl2.leafShiftCache ++ [calculateNextLeafShift pl2 pos0] }

/-- `is_pruned` -/
def isPruned (pl : PruneList) (pos0 : Nat) : Bool :=
  if isPrunedRoot pl pos0 then true else
  match Bm.select pl.bitmap (Bm.rank pl.bitmap (1 + pos0)) with
  | some root =>
    let r := bintreeRange (root - 1)
    decide (r.1 ≤ pos0) && decide (pos0 < r.2)
  | none => false

/-- `append` with its recursion on the parent made structural by `fuel` (one level of the tree
per step, so 64 is enough for u64 positions; exhausted fuel leaves the list unchanged).
The `assert!(pos0 >= bitmap.maximum)` ("prune list append only") is not modelled: it is the
precondition under which the theorems are stated. -/
def appendFuel : Nat → PruneList → Nat → PruneList
  | 0, pl, _ => pl
  | fuel+1, pl, pos0 =>
    let fam := family pos0
    if isPruned pl fam.2 then appendFuel fuel pl fam.1
    else appendSingle (cleanupSubtree pl pos0) pos0

def append (pl : PruneList) (pos0 : Nat) : PruneList := appendFuel 64 pl pos0

/-- `PruneList::new(path, bitmap)`: append every 1-based position of `bitmap` in order. -/
def new (bitmap : Bitmap) : PruneList :=
  bitmap.foldl (fun pl pos1 => append pl (pos1 - 1)) {}

/-- loop body shared by `build_shift_cache` / `build_leaf_shift_cache`: the caches are rebuilt
from the bitmap, reading earlier entries through `get_shift` while they are being built. -/
def buildShiftCache (pl : PruneList) : PruneList :=
  pl.bitmap.foldl (fun acc pos1 =>
    { acc with shiftCache := acc.shiftCache ++ [calculateNextShift acc (pos1 - 1)] })
    { pl with shiftCache := [] }

def buildLeafShiftCache (pl : PruneList) : PruneList :=
  pl.bitmap.foldl (fun acc pos1 =>
    { acc with leafShiftCache := acc.leafShiftCache ++ [calculateNextLeafShift acc (pos1 - 1)] })
    { pl with leafShiftCache := [] }

/-- `init_caches` -/
def initCaches (pl : PruneList) : PruneList := buildLeafShiftCache (buildShiftCache pl)

/-- `PruneList::open` on the bitmap read from disk -/
def openBm (bitmap : Bitmap) : PruneList := initCaches (new bitmap)

/-! ### the assertions as panic outcomes

`append` and `append_single` both start with `assert!(pos0 >= self.bitmap.maximum().unwrap_or(0))`
("prune list append only"; a 0-based position against the 1-based maximum, i.e. strictly right of
every root), `new` / `open` with `assert!(!bitmap.contains(0))`.  `appendFuel` / `new` above leave
them out; these variants return `none` where the code panics.  `Lemmas/PruneListAssert.lean` shows
they never do for the arguments the store passes. -/

/-- `pos0 >= self.bitmap.maximum().unwrap_or(0)` -/
def appendAssert (pl : PruneList) (pos0 : Nat) : Bool := decide ((Bm.maximum pl.bitmap).getD 0 ≤ pos0)

def appendChecked : Nat → PruneList → Nat → Option PruneList
  | 0, pl, _ => some pl
  | fuel+1, pl, pos0 =>
    if !appendAssert pl pos0 then none else
    let fam := family pos0
    if isPruned pl fam.2 then appendChecked fuel pl fam.1
    else
      let pl' := cleanupSubtree pl pos0
      if !appendAssert pl' pos0 then none else some (appendSingle pl' pos0)

/-- `PruneList::new` with all three assertions -/
def newChecked (bitmap : Bitmap) : Option PruneList :=
  if Bm.contains bitmap 0 then none else
  bitmap.foldl (fun acc pos1 => acc.bind fun pl => appendChecked 64 pl (pos1 - 1)) (some {})

/-- `PruneList::open` with the assertions -/
def openChecked (bitmap : Bitmap) : Option PruneList := (newChecked bitmap).map initCaches

/-- `to_vec` -/
def toVec (pl : PruneList) : List Nat := pl.bitmap

end PruneList
end GV.Store
