import GrinVerif.Model.Basic
/-! The bounded orphan pool as the code has it (C03 state "orphan pool"): `OrphanBlockPool::add`
with its eviction and `OrphanBlockPool::remove_by_height` (chain/src/chain.rs).

`Model/Chain.lean` keeps the orphans of a node in an unbounded list (`addOrphan`); this file is the
pool itself: the map hash → orphan (`orphans`, kept in insertion order: a map, so re-inserting a
block changes nothing), the height index height → hashes (`heightIdx`: `push` appends the hash even
when the block is already in the pool) and the eviction counter. Eviction by age
(`MAX_ORPHAN_AGE_SECS` = 300 s) is not modelled: the histories compared are shorter.
`Props/C03Orphans.lean`: within the capacity `add` is the unbounded pool's insertion and evicts
nothing; beyond it the pool only ever loses blocks of its greatest heights. -/

namespace GV.Chain

structure OPool where
  /-- (block id, height) -/
  orphans : List (Nat × Nat) := []
  heightIdx : List (Nat × List Nat) := []
  evicted : Nat := 0
deriving Repr, Inhabited

/-- insertion into a list sorted in descending order -/
def insDesc (x : Nat) : List Nat → List Nat
  | [] => [x]
  | y :: ys => if y ≤ x then x :: y :: ys else y :: insDesc x ys

/-- `heights.sort_unstable()` then `.iter().rev()` -/
def sortDesc (l : List Nat) : List Nat := l.foldr insDesc []

/-- the `for h in heights.iter().rev()` loop of `add`: the whole group of the greatest height goes,
then the next, until fewer than `maxSize` orphans are left -/
def evictLoop (maxSize : Nat) : List Nat → List (Nat × Nat) → List (Nat × List Nat) →
    List (Nat × Nat) × List (Nat × List Nat)
  | [], os, hi => (os, hi)
  | h :: hs, os, hi =>
    let ids := match hi.find? (·.1 == h) with
      | some e => e.2
      | none => []
    let hi' := hi.filter (fun e => !(e.1 == h))
    let os' := os.filter (fun o => !ids.contains o.1)
    if os'.length < maxSize then (os', hi') else evictLoop maxSize hs os' hi'

/-- `OrphanBlockPool::add` -/
def OPool.add (maxSize : Nat) (P : OPool) (id h : Nat) : OPool :=
  let hi := if P.heightIdx.any (·.1 == h)
    then P.heightIdx.map (fun e => if e.1 == h then (e.1, e.2 ++ [id]) else e)
    else P.heightIdx ++ [(h, [id])]
  let os := if P.orphans.any (·.1 == id) then P.orphans else P.orphans ++ [(id, h)]
  if os.length > maxSize then
    let r := evictLoop maxSize (sortDesc (hi.map (·.1))) os hi
    -- cleanup index
    let hi'' := r.2.filter (fun e => e.2.any (fun x => r.1.any (·.1 == x)))
    { orphans := r.1, heightIdx := hi'', evicted := P.evicted + (os.length - r.1.length) }
  else { P with orphans := os, heightIdx := hi }

/-- `OrphanBlockPool::remove_by_height`: the blocks handed to `check_orphans`, in index order
(a hash listed twice is handed over once: `filter_map(orphans.remove)`) -/
def OPool.removeByHeight (P : OPool) (h : Nat) : Option (List Nat) × OPool :=
  match P.heightIdx.find? (·.1 == h) with
  | none => (none, P)
  | some e =>
    let got := e.2.eraseDups.filter (fun x => P.orphans.any (·.1 == x))
    (some got, { P with heightIdx := P.heightIdx.filter (fun e => !(e.1 == h)),
                        orphans := P.orphans.filter (fun o => !got.contains o.1) })

def OPool.contains (P : OPool) (id : Nat) : Bool := P.orphans.any (·.1 == id)

end GV.Chain
