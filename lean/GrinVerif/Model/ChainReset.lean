import GrinVerif.Model.Chain
/-! `Chain::reset_chain_head(head, rewind_headers)` (chain/src/chain.rs; the owner API's reset and
the PIBD abort path): the txhashset is moved to the given header inside one extension
(`rewind_and_apply_fork(header)`: rewind to the fork point with the current head, re-apply the
stored full blocks of the header's own path with every state check), the body head is set to it,
and - `rewind_headers` - so is the header head (header MMR rewound / re-applied likewise). Nothing
is removed from the store: blocks above the new head stay stored, so "the head has the most work
among stored blocks" (`headMax`, C03) does NOT hold after a reset; the functions of
`Model/Chain.lean` are used afterwards only for blocks the node has not seen (for those the code's
`check_known`, which is conditional on the work of the head, and the model's agree). -/

namespace GV.Chain

def resetChainHead (p : Params) (n : Node) (target : Nat) (rewindHeaders : Bool) : Except Err Node :=
  -- batch.get_block_header(&head.hash())
  if !n.headers.contains target then .error "StoreErr" else
  match n.path target, n.path n.head with
  | some pt, some ph =>
    -- the full blocks re-applied above the fork point are read from the store
    if !((pt.filter fun b => !(ph.any (·.id == b.id))).all fun b => n.stored.contains b.id)
    then .error "StoreErr" else
    match n.stateAt p target with
    | .error e => .error e
    | .ok _ => .ok { n with head := target, hhead := if rewindHeaders then target else n.hhead }
  | _, _ => .error "StoreErr"

end GV.Chain
