/-! # The open-transaction counter of `store/src/lmdb.rs` (import-free)

Rust anchors: `Store::enter_tx`, `impl Drop for TxCounter`, `Store::maybe_resize`,
`EnvState { open_txs_count, resizing, .. }`, `THREAD_TX_COUNTS`.

```text
enter_tx:        loop { map = ENV_MAP.write();                       // the lock shared with resize
                        if !resizing || THREAD_TX_COUNTS[env] > 0 {
                            open_txs_count.fetch_add(1); THREAD_TX_COUNTS[env] += 1; return }
                        drop(map); sleep(10 ms) }
TxCounter::drop: THREAD_TX_COUNTS[env] -= 1;
                 map = ENV_MAP.write();
                 c = open_txs_count.load(); open_txs_count.store(c - 1)   // load + store, NOT fetch_sub
maybe_resize:    resizing = true; if open_txs_count != 0 { spawn { while open_txs_count != 0 { sleep(100 ms) };
                 env.resize(); resizing = false } } else { env.resize(); resizing = false }
```

The decrement is a separate load and store; it is atomic only because both happen while the
`ENV_MAP` write lock is held.  The model has both granularities: `leave` (the whole critical
section, what the code does today) and `load` / `store` (the two halves as they would interleave
without the lock).  `Props/C17.lean` proves `count_eq_open` for the atomic alphabet and exhibits
`lost_decrement_witness` for the split one.

Not modelled: `u32` wrap-around of the counter at 2^32 simultaneously open transactions (LMDB's
reader table is far smaller); the 10 ms / 100 ms polling (a waiting thread is simply not enabled);
`resize_checking` (merged into `resizing`: while a resize is pending no second one is requested). -/
namespace GV.TxCount

structure Th where
  /-- `THREAD_TX_COUNTS[env]` of this thread -/
  opened : Nat := 0
  /-- split decrement only: the value this thread has loaded and not yet stored back -/
  reg : Option Nat := none
deriving Repr, DecidableEq

structure St where
  /-- `EnvState::open_txs_count` -/
  counter : Nat := 0
  /-- `EnvState::resizing` -/
  resizing : Bool := false
  /-- completed `env.resize` calls -/
  resizes : Nat := 0
  ths : List Th := []
deriving Repr, DecidableEq

inductive Act
  /-- `enter_tx` on thread `t` (the loop iteration that returns) -/
  | enter (t : Nat)
  /-- `TxCounter::drop` on thread `t` as one critical section -/
  | leave (t : Nat)
  /-- first half of a decrement that is not protected by the lock: thread-local count down,
      `c = open_txs_count.load()` -/
  | load (t : Nat)
  /-- second half: `open_txs_count.store(c - 1)` -/
  | store (t : Nat)
  /-- a `TxCounter::drop` whose thread-local bookkeeping FORGETS the nesting: the global counter is
      decremented but the thread's entry is removed (set to 0) instead of counted down - what the
      code would do if it dropped the `THREAD_TX_COUNTS` entry on every leave.  Not in the atomic
      alphabet of the code as it is; used by `lost_nesting_witness`. -/
  | leaveForget (t : Nat)
  /-- `maybe_resize` decided to resize: `resizing = true` -/
  | request
  /-- the resizer saw `open_txs_count == 0`: `env.resize`, `resizing = false` -/
  | resize
deriving Repr, DecidableEq

/-- the alphabet of the code as it is: every counter update is one critical section -/
def Act.atomic : Act → Bool
  | .load _ => false
  | .store _ => false
  | .leaveForget _ => false
  | _ => true

def thOf : Nat → List Th → Th
  | _, [] => {}
  | 0, x :: _ => x
  | t+1, _ :: r => thOf t r

def setTh : Nat → Th → List Th → List Th
  | _, _, [] => []
  | 0, y, _ :: r => y :: r
  | t+1, y, x :: r => x :: setTh t y r

/-- guard of each transition, the condition the code tests -/
def enabled (s : St) : Act → Bool
  | .enter t => decide (t < s.ths.length) && (!s.resizing || decide ((thOf t s.ths).opened > 0))
  | .leave t => decide (t < s.ths.length) && decide ((thOf t s.ths).opened > 0) && (thOf t s.ths).reg.isNone
  | .load t => decide (t < s.ths.length) && decide ((thOf t s.ths).opened > 0) && (thOf t s.ths).reg.isNone
  | .store t => decide (t < s.ths.length) && (thOf t s.ths).reg.isSome
  | .leaveForget t => decide (t < s.ths.length) && decide ((thOf t s.ths).opened > 0) && (thOf t s.ths).reg.isNone
  | .request => !s.resizing
  | .resize => s.resizing && decide (s.counter = 0)

def step (s : St) : Act → St
  | .enter t =>
    let th := thOf t s.ths
    { s with counter := s.counter + 1, ths := setTh t { th with opened := th.opened + 1 } s.ths }
  | .leave t =>
    let th := thOf t s.ths
    { s with counter := s.counter - 1, ths := setTh t { th with opened := th.opened - 1 } s.ths }
  | .load t =>
    let th := thOf t s.ths
    { s with ths := setTh t { opened := th.opened - 1, reg := some s.counter } s.ths }
  | .store t =>
    let th := thOf t s.ths
    match th.reg with
    | some c => { s with counter := c - 1, ths := setTh t { th with reg := none } s.ths }
    | none => s
  | .leaveForget t =>
    let th := thOf t s.ths
    { s with counter := s.counter - 1, ths := setTh t { th with opened := 0 } s.ths }
  | .request => { s with resizing := true }
  | .resize => { s with resizing := false, resizes := s.resizes + 1 }

def init (threads : Nat) : St := { ths := List.replicate threads {} }

/-- run a schedule; `none` if it takes a transition that is not enabled -/
def runChecked : St → List Act → Option St
  | s, [] => some s
  | s, a :: r => if enabled s a then runChecked (step s a) r else none

/-- number of open transactions = sum of the per-thread counts -/
def openTotal (s : St) : Nat := (s.ths.map (·.opened)).sum

/-- every thread has closed everything it opened and no decrement is half done -/
def quiescent (s : St) : Bool := s.ths.all (fun th => th.opened == 0 && th.reg.isNone)

/-- The thread's nesting depth (`THREAD_TX_COUNTS[env]`): `enter_tx` treats the thread as "inside a
transaction" - and lets it pass while a resize is pending - iff this is positive. -/
def depth (s : St) (t : Nat) : Nat := (thOf t s.ths).opened

/-- what the schedule says thread `t` has open, starting from `k`: +1 per enter, -1 per leave -/
def opensFrom (t : Nat) : Nat → List Act → Nat
  | k, [] => k
  | k, .enter u :: r => opensFrom t (if u = t then k + 1 else k) r
  | k, .leave u :: r => opensFrom t (if u = t then k - 1 else k) r
  | k, _ :: r => opensFrom t k r

/-- … from the beginning: the thread's enters minus its leaves -/
def opensOf (t : Nat) (acts : List Act) : Nat := opensFrom t 0 acts

/-- schedule token of the driver line `kv txseq`: `e<t>` enter, `l<t>` leave, `q` request, `w` resize -/
def parseAct (tok : String) : Option Act :=
  if tok = "q" then some .request
  else if tok = "w" then some .resize
  else if tok.startsWith "e" then ((tok.drop 1).toString.toNat?).map Act.enter
  else if tok.startsWith "l" then ((tok.drop 1).toString.toNat?).map Act.leave
  else none

/-- index of the first transition of a schedule that is not enabled, if any -/
def firstStuck : St → List Act → Nat → Option Nat
  | _, [], _ => none
  | s, a :: r, i => if enabled s a then firstStuck (step s a) r (i + 1) else some i

/-- verdict on a schedule the harness really performed (every operation returned): the model must
be able to take every step, end with nothing open and the counter at 0 -/
def replay (threads : Nat) (acts : List Act) : String :=
  match firstStuck (init threads) acts 0 with
  | some i => s!"stuck-at-{i}"
  | none =>
    match runChecked (init threads) acts with
    | some s => if s.counter = 0 && quiescent s && !s.resizing then s!"completed:resizes={s.resizes}" else s!"open:counter={s.counter}"
    | none => "stuck"

/-! ### a seeded scheduler for the driver (`conc txcount` lines) -/

def lcg (x : Nat) : Nat := (x * 6364136223846793005 + 1442695040888963407) % 18446744073709551616

/-- first thread at or after `i` (cyclically, `n` candidates) that still has pairs to run or a
transaction open -/
def pickFrom (rem : List Nat) (s : St) : Nat → Nat → Option Nat
  | 0, _ => none
  | n+1, i =>
    let j := i % s.ths.length
    if rem.getD j 0 > 0 || (thOf j s.ths).opened > 0 then some j else pickFrom rem s n (j + 1)

/-- interleave `rem[t]` complete enter/leave pairs per thread under a pseudo-random schedule of the
ATOMIC alphabet; a resize is requested after `reqAt` steps and performed as soon as it is enabled -/
def simulate : Nat → Nat → Nat → List Nat → St → St
  | 0, _, _, _, s => s
  | fuel+1, seed, reqAt, rem, s =>
    let s := if reqAt = 0 && enabled s .request && s.resizes = 0 then step s .request else s
    let s := if enabled s .resize then step s .resize else s
    let seed := lcg seed
    match pickFrom rem s s.ths.length (seed / 65536) with
    | none => s
    | some t =>
      if (thOf t s.ths).opened > 0 then simulate fuel seed (reqAt - 1) rem (step s (.leave t))
      else if enabled s (.enter t) then
        simulate fuel seed (reqAt - 1) (rem.set t (rem.getD t 0 - 1)) (step s (.enter t))
      else simulate fuel seed (reqAt - 1) rem s

/-- what the model predicts for the harness run `txcount`: `threads` readers doing `pairs` short
read transactions each while a resize becomes due -/
def predict (threads pairs seed : Nat) : String :=
  let s := simulate (4 * threads * pairs + 8) seed (threads * pairs) (List.replicate threads pairs) (init threads)
  let s := if enabled s .request && s.resizes = 0 then step s .request else s
  let s := if enabled s .resize then step s .resize else s
  if s.counter = 0 && quiescent s && !s.resizing && s.resizes ≥ 1 then "completed"
  else s!"stalled:counter={s.counter}"

/-! ### which store operations are bracketed by `enter_tx` … `TxCounter::drop`

Read off `store/src/lmdb.rs`: every operation that opens an LMDB transaction OF ITS OWN takes a
`TxCounter` first and keeps it until that transaction is gone. -/
inductive StoreOp
  /-- `Store::get_ser(db, key, None)` → `get_with` on a fresh read txn -/
  | getSer
  /-- `Store::get_ser(db, key, Some(mode))` -/
  | getSerMode
  /-- `Store::exists` -/
  | existsKey
  /-- `Store::iter` … the `DatabaseIterator` (holds the counter until it is dropped; `body` =
      what the thread does in between) -/
  | iter (body : List Act)
  /-- `Store::batch()` = `Batch::new` … `commit` / drop -/
  | batch (body : List Act)
  /-- `Batch::get_ser` / `exists` / `iter`: a nested read txn OF THE BATCH's write txn, no counter of
      its own - it runs inside the batch's bracket -/
  | batchRead
  /-- `Batch::child` … commit / drop: a nested write txn of the batch, no counter of its own -/
  | childBatch
deriving Repr

/-- does the operation open an LMDB transaction of its own (one that a remap of the file would
pull the rug from under)? -/
def StoreOp.ownTxn : StoreOp → Bool
  | .batchRead => false
  | .childBatch => false
  | _ => true

/-- the counter events of the operation on thread `t` -/
def StoreOp.trace (t : Nat) : StoreOp → List Act
  | .getSer => [.enter t, .leave t]
  | .getSerMode => [.enter t, .leave t]
  | .existsKey => [.enter t, .leave t]
  | .iter body => .enter t :: body ++ [.leave t]
  | .batch body => .enter t :: body ++ [.leave t]
  | .batchRead => []
  | .childBatch => []

end GV.TxCount
