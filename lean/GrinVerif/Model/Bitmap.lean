import GrinVerif.Model.Pmmr
/-! Model of `chain/src/txhashset/bitmap_accumulator.rs` (`BitmapChunk`, `BitmapAccumulator`)
and of the part of `chain/src/txhashset/txhashset.rs` / `chain/src/types.rs` that feeds and
consumes it (`Extension::apply_to_bitmap_accumulator`, `TxHashSet::bitmap_accumulator`,
`OutputRoots::{root, merged_root}`, `TxHashSetRoots::validate`).

A chunk (`BitmapChunk`, a `BitVec` of 1024 bits) is a `Nat` bit mask: bit `i` of the chunk is
`Nat.testBit ch i`.  The accumulator is a `VecBackend<BitmapChunk>` = the vector of chunks
(`data`) plus the vector of PMMR hashes (`hashes`); pushes go through `GV.Pmmr.push`, generic in
the hash function.  `Option` results: `none` = the Rust function returned `Err` / panicked. -/

namespace GV.Bitmap
open GV GV.Pmmr

/-- `BitmapChunk::LEN_BITS` = `BitmapAccumulator::NBITS` -/
def NBITS : Nat := 1024

/-- `BitmapChunk::new()`: all bits false -/
def chunkNew : Nat := 0

/-- `BitmapChunk::set(idx, true)` (callers pass `idx % 1024`, so the `assert!` never fires) -/
def chunkSet (ch idx : Nat) : Nat := ch ||| 2 ^ idx

/-- `BitmapChunk::any()` -/
def chunkAny (ch : Nat) : Bool := ch != 0

/-- one byte of `BitVec::to_bytes`: bit `8j + b` of the vector is bit `7 - b` of byte `j`
(most significant bit first) -/
def chunkByte (ch j : Nat) : Nat :=
  (List.range 8).foldl (fun acc b => acc * 2 + (if ch.testBit (8 * j + b) then 1 else 0)) 0

/-- `Writeable for BitmapChunk`: `self.0.to_bytes().write(writer)` — `Vec<u8>` is written element
by element with no length prefix, so the hashed leaf element is exactly these 128 bytes. -/
def chunkBytes (ch : Nat) : Bytes := (List.range 128).map (chunkByte ch)

/-- `BitmapChunk::set_iter(idx_offset)` -/
def chunkSetIter (ch offset : Nat) : List Nat :=
  ((List.range 1024).filter fun i => ch.testBit i).map fun i => i + offset

/-- `BitmapAccumulator::chunk_start_idx`: `idx & !(NBITS - 1)` -/
def chunkStartIdx (idx : Nat) : Nat := idx / 1024 * 1024

/-- `BitmapAccumulator::chunk_idx` -/
def chunkIdx (idx : Nat) : Nat := idx / 1024

/-- `BitmapAccumulator { backend: VecBackend<BitmapChunk> }` (`removed` stays empty) -/
structure Acc (H : Type) where
  /-- `backend.data`: one chunk per leaf -/
  data : List Nat
  /-- `backend.hashes` -/
  hashes : List H
deriving DecidableEq, Repr

variable {H : Type}

/-- `BitmapAccumulator::new()` -/
def new : Acc H := { data := [], hashes := [] }

/-- `append_chunk`: `PMMR::at(&mut backend, backend.size()).push(&chunk)`; the backend appends
the element to `data` and the new hashes to `hashes`. -/
def appendChunk (hf : HashFn Nat H) (st : Acc H) (ch : Nat) : Option (Acc H) :=
  match push hf st.hashes ch with
  | none => none
  | some hs => some { data := st.data ++ [ch], hashes := hs }

/-- the `while let Some(x) = idx_iter.peek()` loop of `apply_from` followed by the final
`if chunk.any() { append_chunk }`.  One unit of fuel per loop iteration (`none` on exhaustion —
never reached with the fuel `applyFrom` supplies, see `Lemmas/BitmapLoop.lean`). -/
def applyFromLoop (hf : HashFn Nat H) : Nat → List Nat → Nat → Nat → Acc H → Option (Acc H)
  | 0, _, _, _, _ => none
  | _+1, [], _, chunk, st =>
    if chunkAny chunk then appendChunk hf st chunk else some st
  | fuel+1, x :: rest, cIdx, chunk, st =>
    if x < cIdx * 1024 then
      -- skip until we reach our first chunk
      applyFromLoop hf fuel rest cIdx chunk st
    else if x < (cIdx + 1) * 1024 then
      applyFromLoop hf fuel rest cIdx (chunkSet chunk (x % 1024)) st
    else
      match appendChunk hf st chunk with
      | none => none
      | some st' => applyFromLoop hf fuel (x :: rest) (cIdx + 1) chunkNew st'

/-- `apply_from(idx, from_idx, size)`.  Every iteration consumes an index or advances
`chunk_idx`, and `chunk_idx` only advances while some index `< size` lies beyond it. -/
def applyFrom (hf : HashFn Nat H) (st : Acc H) (idx : List Nat) (fromIdx size : Nat) : Option (Acc H) :=
  let xs := idx.filter fun x => x < size
  applyFromLoop hf (xs.length + size / 1024 + 2) xs (chunkIdx fromIdx) chunkNew st

/-- `init(idx, size)` = `apply_from(idx, 0, size)` -/
def init (hf : HashFn Nat H) (st : Acc H) (idx : List Nat) (size : Nat) : Option (Acc H) :=
  applyFrom hf st idx 0 size

/-- `rewind_prior(from_idx)`: `PMMR::rewind(insertion_to_pmmr_index(chunk_idx), empty)` →
`VecBackend::rewind(round_up_to_leaf_pos(pos))` truncates `data` to `n_leaves(pos)` and `hashes`
to `pos` (`Vec::truncate` is a no-op when already shorter). -/
def rewindPrior (st : Acc H) (fromIdx : Nat) : Acc H :=
  let rewindPos := insertionToPmmrIndex (chunkIdx fromIdx)
  let leafPos := roundUpToLeafPos rewindPos
  { data := st.data.take (nLeaves leafPos), hashes := st.hashes.take leafPos }

/-- `for _ in current_chunk_idx..chunk_idx { append_chunk(BitmapChunk::new()) }` -/
def padLoop (hf : HashFn Nat H) : Nat → Acc H → Option (Acc H)
  | 0, st => some st
  | n+1, st => match appendChunk hf st chunkNew with
    | none => none
    | some st' => padLoop hf n st'

/-- `pad_left(from_idx)` -/
def padLeft (hf : HashFn Nat H) (st : Acc H) (fromIdx : Nat) : Option (Acc H) :=
  let current := nLeaves st.hashes.length
  padLoop hf (chunkIdx fromIdx - current) st

/-- `apply(invalidated_idx, idx, size)`: only the first invalidated index is looked at -/
def apply (hf : HashFn Nat H) (st : Acc H) (invalidated idx : List Nat) (size : Nat) : Option (Acc H) :=
  match invalidated with
  | [] => some st
  | fromIdx :: _ =>
    match padLeft hf (rewindPrior st fromIdx) fromIdx with
    | none => none
    | some st' => applyFrom hf st' idx fromIdx size

/-- `root()` (`expect`s: `.err` = panic) -/
def root (hf : HashFn Nat H) (st : Acc H) : RootRes H := Pmmr.root hf st.hashes

/-- `VecBackend::leaf_pos_iter` with nothing removed -/
def leafPosIter (nHashes : Nat) : List Nat := (List.range nHashes).filter isLeaf

/-- `as_bitmap()`: `get_data(pos).unwrap()` reads `data[n_leaves(1 + pos) - 1]`; `none` = panic -/
def asBitmap (st : Acc H) : Option (List Nat) :=
  ((leafPosIter st.hashes.length).zipIdx.mapM fun (p : Nat × Nat) =>
    match st.data[nLeaves (1 + p.1) - 1]? with
    | none => none
    | some ch => some (chunkSetIter ch (p.2 * 1024))).map List.flatten

/-! ### `Extension::apply_to_bitmap_accumulator` -/

def insertSorted (x : Nat) : List Nat → List Nat
  | [] => [x]
  | y :: ys => if x ≤ y then x :: y :: ys else y :: insertSorted x ys

/-- `sort_unstable` on `u64`s (any sort gives the same vector) -/
def sortNat (l : List Nat) : List Nat := l.foldr insertSorted []

/-- what `apply_to_bitmap_accumulator` reads from the output PMMR: its size in nodes and the
leaf set as ascending leaf insertion indices (`leaf_idx_iter(0)`) -/
structure OutputPmmr where
  size : Nat
  leafSet : List Nat
deriving DecidableEq, Repr

/-- `output_pmmr.leaf_idx_iter(from_idx)`: leaf-set entries from `from_idx` on -/
def leafIdxIter (o : OutputPmmr) (fromIdx : Nat) : List Nat := o.leafSet.filter fun i => fromIdx ≤ i

/-- the sorted `output_idx` vector: `n_leaves(pos).saturating_sub(1)` of every affected
(1-based, "but does contain 0") output position -/
def affectedIdx (outputPos : List Nat) : List Nat :=
  sortNat (outputPos.map fun x => satSub (nLeaves x) 1)

/-- `Extension::apply_to_bitmap_accumulator(output_pos)` -/
def extApply (hf : HashFn Nat H) (st : Acc H) (o : OutputPmmr) (outputPos : List Nat) : Option (Acc H) :=
  let outputIdx := affectedIdx outputPos
  let minIdx := outputIdx.headD 0
  let size := nLeaves o.size
  apply hf st outputIdx (leafIdxIter o (chunkStartIdx minIdx)) size

/-- `TxHashSet::bitmap_accumulator` (rebuild on open): `init(leaf_idx_iter(0), n_leaves(size))` -/
def rebuildOnOpen (hf : HashFn Nat H) (o : OutputPmmr) : Option (Acc H) :=
  init hf new (leafIdxIter o 0) (nLeaves o.size)

/-! ### Specification: the accumulator computed from scratch over the unspent set -/

/-- chunk `c` of the set `U`: the bits `x % 1024` for the `x ∈ U` with `x / 1024 = c` -/
def chunkOf (U : List Nat) (c : Nat) : Nat :=
  (U.filter fun x => x / 1024 == c).foldl (fun ch x => chunkSet ch (x % 1024)) chunkNew

/-- number of chunks an accumulator over the ascending list `U` has: `chunk(max U) + 1` -/
def nChunks (U : List Nat) : Nat :=
  match U.getLast? with
  | none => 0
  | some m => m / 1024 + 1

/-- the chunk vector of the from-scratch accumulator -/
def specData (U : List Nat) : List Nat := (List.range (nChunks U)).map (chunkOf U)

/-- accumulator holding exactly the chunk vector `d`, hashes built by pushing them in order -/
def ofData (hf : HashFn Nat H) (d : List Nat) : Option (Acc H) :=
  match pushAll hf [] d with
  | none => none
  | some hs => some { data := d, hashes := hs }

/-- **Spec.** the commitment computed from scratch over the unspent set `U` (ascending leaf
indices) of an output MMR with `size` leaves -/
def fromScratch (hf : HashFn Nat H) (U : List Nat) (size : Nat) : Option (Acc H) :=
  init hf new U size

/-- the chain invariant under which incremental = scratch: the last output leaf is unspent -/
def LastLeafUnspent (U : List Nat) (size : Nat) : Prop := 0 < size ∧ (size - 1) ∈ U

instance (U : List Nat) (size : Nat) : Decidable (LastLeafUnspent U size) := by
  unfold LastLeafUnspent; exact inferInstance

/-! ### Histories of incremental updates (statement device for the path-independence theorem) -/

/-- one incremental update: the sorted affected leaf indices (`inval`, first = minimum), the
unspent set and the number of output leaves *after* the block application / rewind -/
structure Step where
  inval : List Nat
  U : List Nat
  size : Nat

/-- the iterator handed to `apply`: unspent indices from the start of the first affected chunk -/
def Step.idx (s : Step) : List Nat :=
  s.U.filter fun x => chunkStartIdx (s.inval.headD 0) ≤ x

/-- apply the updates one after the other -/
def run (hf : HashFn Nat H) : Acc H → List Step → Option (Acc H)
  | st, [] => some st
  | st, s :: ss => match apply hf st s.inval s.idx s.size with
    | none => none
    | some st' => run hf st' ss

/-- a well-formed update of the unspent set `Uprev`: something is affected and it lies inside the
new output set, the new set is ascending and below `size`, it differs from the old set only
from the first affected chunk on, and **the last output leaf is unspent** -/
def StepOk (Uprev : List Nat) (s : Step) : Prop :=
  s.inval ≠ [] ∧ s.inval.headD 0 < s.size ∧ s.size ≤ 2 ^ 64 ∧
  s.U.Pairwise (· < ·) ∧ (∀ x ∈ s.U, x < s.size) ∧ LastLeafUnspent s.U s.size ∧
  s.U.filter (fun x => decide (x < chunkStartIdx (s.inval.headD 0))) =
    Uprev.filter (fun x => decide (x < chunkStartIdx (s.inval.headD 0)))

def HistoryOk : List Nat → List Step → Prop
  | _, [] => True
  | Uprev, s :: ss => StepOk Uprev s ∧ HistoryOk s.U ss

/-- unspent set / size after a history -/
def finalU : List Nat → List Step → List Nat
  | U0, [] => U0
  | _, s :: ss => finalU s.U ss
def finalSize : Nat → List Step → Nat
  | n0, [] => n0
  | _, s :: ss => finalSize s.size ss

/-! ### `OutputRoots` / `TxHashSetRoots::validate` (chain/src/types.rs) -/

/-- `OutputRoots::merged_root`: `(pmmr_root, bitmap_root).hash_with_index(header.output_mmr_size)` -/
def mergedRoot (hf : HashFn Nat H) (pmmrRoot bitmapRoot : H) (outputMmrSize : Nat) : H :=
  hf.node outputMmrSize pmmrRoot bitmapRoot

/-- `OutputRoots::root(header)`: merged root from header version 3 on -/
def outputRoot (hf : HashFn Nat H) (version : Nat) (pmmrRoot bitmapRoot : H) (outputMmrSize : Nat) : H :=
  if version < 3 then pmmrRoot else mergedRoot hf pmmrRoot bitmapRoot outputMmrSize

/-- the header fields `TxHashSetRoots::validate` reads -/
structure HeaderRoots (H : Type) where
  version : Nat
  outputMmrSize : Nat
  outputRoot : H
  rangeProofRoot : H
  kernelRoot : H

/-- `TxHashSetRoots { output_roots: OutputRoots { pmmr_root, bitmap_root }, rproof_root, kernel_root }` -/
structure TxHashSetRoots (H : Type) where
  pmmrRoot : H
  bitmapRoot : H
  rproofRoot : H
  kernelRoot : H

/-- `TxHashSetRoots::validate(header)`: `true` = `Ok(())`, `false` = `Err(InvalidRoot)` -/
def validateRoots [DecidableEq H] (hf : HashFn Nat H) (r : TxHashSetRoots H) (h : HeaderRoots H) : Bool :=
  !(h.outputRoot != outputRoot hf h.version r.pmmrRoot r.bitmapRoot h.outputMmrSize
    || h.rangeProofRoot != r.rproofRoot
    || h.kernelRoot != r.kernelRoot)

end GV.Bitmap
