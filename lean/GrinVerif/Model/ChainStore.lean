import GrinVerif.Model.Kv
import GrinVerif.Model.KvSpec
/-! Model of the chain-level store layer `chain/src/store.rs`: `ChainStore`, its `Batch`
(`batch()`, `child()`, `commit()`, drop) and the typed savers / getters layered on
`store::Store` / `store::Batch` (modelled in `Model/Kv.lean`).

The Rust layer is thin: every typed saver is ONE `put_ser` on a key determined by the object
(`save_block_header(h)` → db `'h'`, key `h.hash()`; `save_body_head(t)` → default db, key `[b'H']`,
…), every typed getter ONE `get_ser` on such a key (`option_to_not_found` turning `None` into
`NotFoundErr`), `delete_block` three deletes, `head_header` / `get_previous_header` two chained
gets.  `ChainStore::batch()` is `Store::batch()`, `Batch::child/commit` are the store's.  So the
model is: a typed key `TKey` with its `(database, key bytes)`; typed operations lowered to
`Kv.Op`s; typed batch bodies (`TProg`) lowered to `Kv.Prog`.  Serialisation is *not* modelled:
a typed value is the byte string the real `ser::ser_vec(obj, ProtocolVersion(3))` produced (the
harness hands it over), its key the real hash. -/
namespace GV.ChainStore
open GV GV.Kv

/-- model database id of `Some(prefix)` (see `Kv.Key`: 0 = default db, p+1 = prefix p) -/
abbrev dbOf (p : Nat) : Nat := p + 1

/-- `BLOCK_HEADER_PREFIX = b'h'` -/
abbrev DB_HEADER : Nat := dbOf 104
/-- `BLOCK_PREFIX = b'b'` -/
abbrev DB_BLOCK : Nat := dbOf 98
/-- `OUTPUT_POS_PREFIX = b'p'` -/
abbrev DB_OUTPOS : Nat := dbOf 112
/-- `NRD_KERNEL_LIST_PREFIX = b'K'`, `NRD_KERNEL_ENTRY_PREFIX = b'k'` (registered, not driven) -/
abbrev DB_NRD_LIST : Nat := dbOf 75
abbrev DB_NRD_ENTRY : Nat := dbOf 107
/-- `BLOCK_SUMS_PREFIX = b'M'` -/
abbrev DB_SUMS : Nat := dbOf 77
/-- `BLOCK_SPENT_PREFIX = b'S'` -/
abbrev DB_SPENT : Nat := dbOf 83

/-- `DB_PREFIXES` plus the default database -/
def chainDbs : List Nat := [0, DB_HEADER, DB_BLOCK, DB_OUTPOS, DB_NRD_LIST, DB_NRD_ENTRY, DB_SUMS, DB_SPENT]

/-- what a typed saver / getter addresses -/
inductive TKey
  /-- `HEAD_PREFIX = b'H'` in the default db: `head`, `save_body_head` -/
  | head
  /-- `TAIL_PREFIX = b'T'`: `tail`, `save_body_tail` -/
  | tail
  /-- `HEADER_HEAD_PREFIX = b'G'`: `header_head`, `save_header_head` -/
  | headerHead
  /-- `PIBD_HEAD_PREFIX = b'I'`: `pibd_head`, `save_pibd_head` -/
  | pibdHead
  /-- `get_block_header(hash)`, `save_block_header` -/
  | header (h : Bytes)
  /-- `get_block(hash)`, `block_exists`, `save_block`, `delete_block` -/
  | block (h : Bytes)
  /-- `get_block_sums(hash)`, `save_block_sums` -/
  | sums (h : Bytes)
  /-- `get_spent_index(hash)`, `save_spent_index` -/
  | spent (h : Bytes)
  /-- `get_output_pos_height(commit)`, `save_output_pos_height`, `delete_output_pos_height` -/
  | outPos (c : Bytes)
deriving DecidableEq, Repr

/-- the `(db_key, key)` pair the Rust code passes to `get_ser` / `put_ser` / `delete` -/
def TKey.key : TKey → Key
  | .head => (0, [72])
  | .tail => (0, [84])
  | .headerHead => (0, [71])
  | .pibdHead => (0, [73])
  | .header h => (DB_HEADER, h)
  | .block h => (DB_BLOCK, h)
  | .sums h => (DB_SUMS, h)
  | .spent h => (DB_SPENT, h)
  | .outPos c => (DB_OUTPOS, c)

/-- typed state-changing operations of `chain::store::Batch` -/
inductive TOp
  /-- `save_block_header`, `save_block`, `save_body_head`, `save_body_tail`, `save_header_head`,
      `save_pibd_head`, `save_block_sums`, `save_spent_index`, `save_output_pos_height`:
      one `put_ser` of the object's serialisation `v` at the object's key -/
  | save (k : TKey) (v : Val)
  /-- `delete_block(bh)`: delete the block, then best effort its sums and spent index -/
  | deleteBlock (h : Bytes)
  /-- `delete_output_pos_height(commit)` -/
  | deleteOutPos (c : Bytes)
  /-- `Batch::delete(db_key, key)` (raw) -/
  | deleteRaw (k : Key)
deriving Repr

/-- the store-level operations a typed operation performs, in the Rust order -/
def TOp.lower : TOp → List Op
  | .save k v => [Op.put k.key v]
  | .deleteBlock h => [Op.del (TKey.block h).key, Op.del (TKey.sums h).key, Op.del (TKey.spent h).key]
  | .deleteOutPos c => [Op.del (TKey.outPos c).key]
  | .deleteRaw k => [Op.del k]

/-- run a typed operation on the innermost open batch -/
def tstep (st : St) (o : TOp) : St := run st o.lower

/-- body of one `chain::store::Batch`: typed operations and child batches -/
inductive TProg
  | done
  | op (o : TOp) (rest : TProg)
  | child (body : TProg) (commit : Bool) (rest : TProg)

/-- prepend store-level writes to a store-level body -/
def prependOps : List Op → Prog → Prog
  | [], p => p
  | Op.put k v :: r, p => Prog.put k v (prependOps r p)
  | Op.del k :: r, p => Prog.del k (prependOps r p)
  | _ :: r, p => prependOps r p

/-- the store-level batch body a typed body denotes -/
def TProg.lower : TProg → Prog
  | .done => .done
  | .op o rest => prependOps o.lower rest.lower
  | .child b c rest => .child b.lower c rest.lower

/-- the store-level operation sequence the typed body performs (what the Rust code executes) -/
def TProg.flat : TProg → List Op
  | .done => []
  | .op o rest => o.lower ++ rest.flat
  | .child b c rest => Op.child :: (b.flat ++ (if c then Op.commit else Op.drop) :: rest.flat)

/-- a complete top-level `ChainStore::batch()` … `commit()` / drop -/
def ttxn (p : TProg) (commit : Bool) : List Op :=
  Op.begin :: (p.flat ++ [if commit then Op.commit else Op.drop])

/-! ### typed getters -/

/-- result of a typed getter: `NotFoundErr` / another error / the serialisation of the object /
a number -/
inductive R
  | notFound
  | err
  | val (v : Val)
  | num (n : Nat)
deriving DecidableEq, Repr

def ofOpt : Option Val → R
  | none => .notFound
  | some v => .val v

/-- `Batch::head / tail / header_head / get_block_header / get_block / get_block_sums /
get_spent_index / get_output_pos_height` : `get_ser` through the batch at the typed key -/
def getB (st : St) (k : TKey) : R := ofOpt (bget st k.key)

/-- `ChainStore::head / header_head / tail / get_block_header / get_block / get_block_sums /
get_output_pos_height`: `Store::get_ser` (fresh read transaction) at the typed key -/
def getS (st : St) (k : TKey) : R := ofOpt (sget st k.key)

/-- `Batch::block_exists` / `ChainStore::block_exists` -/
def blockExistsB (st : St) (h : Bytes) : Bool := bexists st (TKey.block h).key
def blockExistsS (st : St) (h : Bytes) : Bool := sexists st (TKey.block h).key

/-- `Tip` serialisation: height u64, last_block_h 32 bytes, prev_block_h 32 bytes,
total_difficulty u64 -/
def tipLast (v : Val) : Option Bytes :=
  if v.length = 80 then some ((v.drop 8).take 32) else none

/-- `head_header`: `get_block_header(&self.head()?.last_block_h)`, generic in the read function -/
def headHeaderWith (get : Key → Option Val) : R :=
  match get TKey.head.key with
  | none => .notFound
  | some t => match tipLast t with
    | none => .err
    | some h => ofOpt (get (TKey.header h).key)

def headHeaderB (st : St) : R := headHeaderWith (bget st)
def headHeaderS (st : St) : R := headHeaderWith (sget st)

/-- `get_previous_header(header)`: `get_block_header(&header.prev_hash)` -/
def prevHeaderB (st : St) (prevHash : Bytes) : R := getB st (.header prevHash)
def prevHeaderS (st : St) (prevHash : Bytes) : R := getS st (.header prevHash)

/-- `ChainStore::pibd_head`: the stored PIBD head, any error → tip of the genesis header -/
def pibdHeadS (st : St) (genesisTip : Val) : R :=
  match sget st TKey.pibdHead.key with
  | some v => .val v
  | none => .val genesisTip

/-- `CommitPos` serialisation: pos u64, height u64.  `get_output_pos` = `pos - 1` -/
def outputPosWith (get : Key → Option Val) (c : Bytes) : R :=
  match get (TKey.outPos c).key with
  | none => .notFound
  | some v => if v.length = 16 then .num (subW (ofBE (v.take 8)) 1) else .err

def outputPosB (st : St) (c : Bytes) : R := outputPosWith (bget st) c
def outputPosS (st : St) (c : Bytes) : R := outputPosWith (sget st) c

/-- `BlockHeader` serialisation starts with version u16, height u64: what
`get_block_header_skip_proof` (whose result cannot be re-serialised: the proof is skipped) is
observed by -/
def headerHeight (v : Val) : Option Nat :=
  if v.length < 10 then none else some (ofBE ((v.drop 2).take 8))

/-- `blocks_iter` / `output_pos_iter` of the batch: `Batch::iter` over the typed database -/
def blocksIterB (st : St) : List (Bytes × Val) := biter st DB_BLOCK
def outPosIterB (st : St) : List (Bytes × Val) := biter st DB_OUTPOS

end GV.ChainStore
