import GrinVerif.Model.Kv
/-! Model of the one-time migration in `Store::new` (`store/src/lmdb.rs`): an old single-database
environment `<root>/<env_name>` whose keys carry the key space as a prefix `p ':' rest` is copied into
the multi-database environment `<root>/multi_lmdb` (`migrate_to_default_env`), guarded by the
marker record `__grin_migration_complete` (`migration_complete` / `set_migration_complete`), with
`clear` before the copy and after a failed one, deletion of the old directory after success, and
the head-room computation that enlarges the map before the copy.

The new environment is a `Kv.Tbl` (database 0 = default db, `p+1` = db of prefix byte `p`); the
old environment is the list of its records in LMDB's iteration order. -/
namespace GV.Kv

/-- `PREFIX_KEY_SEPARATOR` = `b':'` -/
def sepByte : Nat := 58
/-- `MIGRATION_COMPLETE_KEY` = `b"__grin_migration_complete"` -/
def markerKey : Bytes :=
  [95,95,103,114,105,110,95,109,105,103,114,97,116,105,111,110,95,99,111,109,112,108,101,116,101]
/-- `b"1"` -/
def markerVal : Val := [49]

/-- where the loop body of `migrate_to_default_env` puts the record with old key `k`:
`k.len() > 1 && k[1] == b':'` → the db of prefix `k[0]` with key `k[2..]` if that prefix is
registered, otherwise the record is skipped with a warning (`none`); every other key goes to the
default db unchanged -/
def target (prefixes : List Nat) (k : Bytes) : Option Key :=
  match k with
  | p :: s :: rest =>
    if s = sepByte then (if prefixes.elem p then some (p + 1, rest) else none) else some (0, k)
  | _ => some (0, k)

/-- the copy loop inside one write transaction; `none` = a `put` failed (LMDB refuses an empty
key: `MDB_BAD_VALSIZE`), the transaction is dropped -/
def migrateRecs (prefixes : List Nat) : List (Bytes × Val) → Tbl → Option Tbl
  | [], t => some t
  | (k, v) :: r, t =>
    match target prefixes k with
    | none => migrateRecs prefixes r t
    | some key => if key.2 = [] then none else migrateRecs prefixes r (tput key v t)

/-- the two environments `Store::new` looks at -/
structure MEnv where
  /-- committed content of `<root>/multi_lmdb` -/
  tbl : Tbl := []
  /-- records of the old environment directory; `none` = the directory does not exist -/
  old : Option (List (Bytes × Val)) := none
deriving Repr

/-- `migration_complete` -/
def hasMarker (t : Tbl) : Bool := (tget t (0, markerKey)).isSome

/-- the part of `Store::new` after the databases exist; the flag is `false` for `Err` -/
def storeNew (prefixes : List Nat) (e : MEnv) : MEnv × Bool :=
  match e.old with
  | none => (e, true)
  | some recs =>
    if hasMarker e.tbl then ({ e with old := none }, true)            -- only `delete_old_db_file`
    else match migrateRecs prefixes recs [] with                      -- `clear`, then the copy
      | some t => ({ tbl := tput (0, markerKey) markerVal t, old := none }, true)
      | none => ({ tbl := [], old := some recs }, false)              -- `clear` again, `Err`

/-- where a process can die inside a migrating `Store::new` -/
inductive CrashAt
  /-- after `clear` committed, before the copy transaction committed -/
  | afterClear
  /-- after the copy transaction (records + marker) committed, before the old directory is removed -/
  | afterCommit
  /-- after the old directory is removed -/
  | afterDelete
deriving Repr, DecidableEq

def storeNewCrash (prefixes : List Nat) (e : MEnv) (c : CrashAt) : MEnv :=
  match e.old with
  | none => e
  | some recs =>
    if hasMarker e.tbl then (match c with
      | .afterDelete => { e with old := none }
      | _ => e)
    else match migrateRecs prefixes recs [] with
      | some t => (match c with
        | .afterClear => { tbl := [], old := some recs }
        | .afterCommit => { tbl := tput (0, markerKey) markerVal t, old := some recs }
        | .afterDelete => { tbl := tput (0, markerKey) markerVal t, old := none })
      | none => { tbl := [], old := some recs }

/-! ### head-room before the copy -/

/-- `round_size_to_chunk` -/
def roundSizeToChunk (size chunk : Nat) : Nat :=
  let rem := size % chunk
  if rem = 0 then size else size + (chunk - rem)

/-- `required` of `migrate_to_default_env` (`RESIZE_MIN_TARGET_PERCENT = 65`; the `usize::MAX`
clamp is not reached for sizes below 2^57) -/
def migrationRequired (toUsed fromUsed chunk : Nat) : Nat :=
  roundSizeToChunk (((toUsed + fromUsed) * 100 + 65 - 1) / 65) chunk

/-- map size after the `if required > to_map_size { env.resize(required) }` -/
def migrationMapSize (toUsed fromUsed chunk mapSize : Nat) : Nat :=
  let r := migrationRequired toUsed fromUsed chunk
  if r > mapSize then r else mapSize

end GV.Kv
