import GrinVerif.Model.Msg
import GrinVerif.Gen.CodecTimeouts
/-! # The `Codec` state machine (model of `p2p/src/codec.rs`) and the handshake decisions
(`p2p/src/handshake.rs`)

The socket is a **list of fragments** (`List Bytes`, one element per TCP segment as delivered);
`readExact n` pulls `n` bytes across fragment boundaries the way `TcpStream::read_exact` does, so
fragmentation is a real input of the model.  To state that fragmentation is irrelevant the machine is
written once over an abstract socket (`SockOps`), instantiated with fragments (`fragOps`) and with the
flat byte stream (`flatOps`).

`read` = `Codec::read` = one call of `read_inner`: the `loop` runs on explicit fuel; running out of
fuel is the distinguished result `hang`, shown unreachable (`Lemmas/CodecRun.lean`).  Every place
where the Rust could panic in release or wraps is explicit:
`header.msg_len as usize - 2`, `*items_left -= 1` (would wrap at 0 in release — written as the wrap;
the guard `*bytes_left == 0 || *items_left == 0` in front of it makes 0 unreachable),
`*left -= next_len`, `buffer.split_to(next_len)` past the end, `assert!(self.state.is_none())`.
`alloc` counts the bytes requested by `buffer.reserve(to_read)` and by the two
`Vec::with_capacity(min(HEADER_BATCH_SIZE, items_left))`.

The untimed machine (`read` / `run`) has no clock: a fragment list that ends is an end-of-stream
(`Error::Connection`).  The **timed** machine (`readT` / `runT`, second half of the file) runs the
same `stepState` over a stream in which every byte carries the time it lets the reader wait
(`TStream`); the `read_exact` of a fill uses the read timeout `set_stream_timeout` installs for the
current state (`ioTimeout`, table regenerated from `codec.rs` into `Gen/CodecTimeouts.lean`): a wait
is tolerated iff it is shorter than that timeout, otherwise the fill fails with `TimedOut`, the bytes
it had already pulled are lost (`buffer.truncate(pre_len)`), and the reader thread of `conn.rs`
carries on (`try_break!` maps `TimedOut` / `WouldBlock` to "nothing yet"). -/
namespace GV.Codec
open GV GV.Ser GV.Dec GV.Msg GV.Gen.Msg GV.Gen.CodecTimeouts

/-- `p2p::Error` classes the codec returns -/
inductive Err
  /-- `Error::Serialization(e)` -/
  | ser (e : SerErr)
  /-- `Error::Connection(_)`: `read_exact` failed -/
  | conn
  | badMessage
  | unexpectedMessage
  /-- `Error::Connection(e)` with `e.kind()` `WouldBlock` / `TimedOut`: the read timeout expired
  (timed machine only) -/
  | timedOut
deriving DecidableEq, Repr

def Err.name : Err → String
  | .ser e => "Ser:" ++ e.name
  | .conn => "Connection"
  | .badMessage => "BadMessage"
  | .unexpectedMessage => "UnexpectedMessage"
  | .timedOut => "TimedOut"

/-- `msg::Message` as far as the framing is concerned: `B` = decoded body, `H` = decoded header item -/
inductive Message (B H : Type)
  | unknown (t : Nat)
  | body (t : Nat) (v : B)
  /-- `Headers(HeadersData { headers, remaining })` -/
  | headers (hs : List H) (remaining : Nat)
  /-- `Attachment(AttachmentUpdate { read, left, .. }, Some(bytes))` -/
  | attachment (read left : Nat) (bytes : Bytes)
deriving DecidableEq, Repr

inductive State (H : Type)
  | none
  | header (h : HdrW)
  | blockHeaders (bytesLeft itemsLeft : Nat) (headers : List H)
  | attachment (left : Nat)
deriving DecidableEq, Repr

structure Codec (H : Type) where
  buffer : Bytes
  state : State H
deriving DecidableEq, Repr

/-- `Codec::new` -/
def Codec.new {H : Type} : Codec H := { buffer := [], state := .none }

/-- everything outside the machine -/
structure Env (B H : Type) where
  net : NetCfg
  /-- `header_size_bytes(63)` -/
  hdrMax : Nat
  /-- `size_of::<BlockHeader>()` (for the allocation counter only) -/
  hdrMem : Nat
  /-- `msg.body()?` of the arm of `decode_message` for a dispatched type, on the raw body -/
  decBody : Nat → Bytes → Except SerErr B
  /-- `reader.body::<UntrustedBlockHeader>()` on the buffer: value and unread rest -/
  decItem : Parser H

/-- abstract socket -/
structure SockOps (σ : Type) where
  /-- `read_exact(n)`: the bytes and the socket after them, `none` if the stream ends first -/
  rx : Nat → σ → Option (Bytes × σ)
  /-- the socket after a failed `read_exact` (everything that was there has been consumed) -/
  drain : σ → σ

/-- `read_exact` over fragments: take from the current fragment, continue into the next ones -/
def readExact : Nat → List Bytes → Option (Bytes × List Bytes)
  | n, [] => if n = 0 then some ([], []) else none
  | n, f :: s =>
    if n ≤ f.length then some (f.take n, f.drop n :: s)
    else match readExact (n - f.length) s with
      | some (x, s') => some (f ++ x, s')
      | none => none

def fragOps : SockOps (List Bytes) := { rx := readExact, drain := fun _ => [] }
def flatOps : SockOps Bytes := { rx := splitExact, drain := fun _ => [] }

def USIZE_MOD : Nat := 2^64

/-- `decode_message` -/
def decodeMessage {B H : Type} (env : Env B H) (t : Nat) (raw : Bytes) : Except Err (Message B H) :=
  if isDispatched t then
    match env.decBody t raw with
    | .ok v => .ok (.body t v)
    | .error e => .error (.ser e)
  else .error .unexpectedMessage

/-- `Codec::next_len` -/
def nextLen {B H : Type} (env : Env B H) : State H → Nat
  | .none => MSG_HEADER_LEN
  | .header (.known t len) => if t = T_Headers then min len HEADERS_COUNT_LEN else len
  | .header (.unknown len _) => len
  | .blockHeaders bl _ _ => min bl env.hdrMax
  | .attachment left => min left ATTACHMENT_CHUNK

/-- result of one `Codec::read` -/
inductive Res (B H : Type)
  | msg (m : Message B H)
  | err (e : Err)
  | panic (s : Site)
  /-- fuel exhausted (unreachable, see `read_no_hang`) -/
  | hang
deriving DecidableEq, Repr

structure ReadOut (B H σ : Type) where
  res : Res B H
  /-- `self.bytes_read` -/
  bytesRead : Nat
  /-- bytes requested from the allocator during this call -/
  alloc : Nat
  codec : Codec H
  sock : σ

/-- what the `match &mut self.state` arm does once the buffer holds `next_len` bytes:
either the call returns (`inl`), or the loop continues with a new codec (`inr`, with extra alloc) -/
def stepState {B H : Type} (env : Env B H) (c : Codec H) (nl : Nat) :
    (Res B H × Codec H × Nat) ⊕ (Codec H × Nat) :=
  match c.state with
  | .none =>
    if c.buffer.length < nl then .inl (.panic .index, c, 0) else   -- `split_to` past the end
    let raw := c.buffer.take nl
    let buf := c.buffer.drop nl
    match decHeader env.net raw with
    | .ok h _ _ => .inr ({ buffer := buf, state := .header h }, 0)
    | .err e _ => .inl (.err (.ser e), { buffer := buf, state := .none }, 0)
    | .panic s _ => .inl (.panic s, { buffer := buf, state := .none }, 0)
  | .header (.known t len) =>
    if c.buffer.length < nl then .inl (.panic .index, c, 0) else
    let raw := c.buffer.take nl
    let buf := c.buffer.drop nl
    if t = T_Headers then
      match readU16 raw with
      | .error e => .inl (.err (.ser e), { buffer := buf, state := c.state }, 0)
      | .ok (items, _) =>
        if len < 2 then .inl (.panic .index, { buffer := buf, state := c.state }, 0)   -- `msg_len as usize - 2`
        else if items = 0 ∧ len - 2 = 0 then
          -- an empty list of headers (since /repo 11bd5ac16; `BadMessage` before): delivered, back to `None`
          .inl (.msg (.headers [] 0), { buffer := buf, state := .none }, 0)
        else .inr ({ buffer := buf, state := .blockHeaders (len - 2) items [] },
                   min HEADER_BATCH_SIZE items * env.hdrMem)
    else
      match decodeMessage env t raw with
      | .ok m => .inl (.msg m, { buffer := buf, state := .none }, 0)
      | .error e => .inl (.err e, { buffer := buf, state := .none }, 0)
  | .header (.unknown _ t) =>
    if c.buffer.length < nl then .inl (.panic .index, c, 0) else     -- `advance` past the end
    .inl (.msg (.unknown t), { buffer := c.buffer.drop nl, state := .none }, 0)
  | .blockHeaders bl il hs =>
    if bl = 0 ∨ il = 0 then .inl (.err .badMessage, { c with state := .none }, 0)   -- incorrect item count
    else
      match env.decItem c.buffer with
      | .error e => .inl (.err (.ser e), c, 0)
      | .ok (h, rest) =>
        let used := c.buffer.length - rest.length
        let hs' := hs ++ [h]
        let bl' := bl - used                          -- `saturating_sub`
        let il' := (il + USIZE_MOD - 1) % USIZE_MOD   -- `*items_left -= 1` (release: wraps at 0)
        if hs'.length = HEADER_BATCH_SIZE ∨ il' = 0 then
          let a := min HEADER_BATCH_SIZE il' * env.hdrMem
          if il' = 0 then
            if bl' > 0 then .inl (.err .badMessage, { buffer := rest, state := .none }, a)
            else .inl (.msg (.headers hs' il'), { buffer := rest, state := .none }, a)
          else .inl (.msg (.headers hs' il'), { buffer := rest, state := .blockHeaders bl' il' [] }, a)
        else .inr ({ buffer := rest, state := .blockHeaders bl' il' hs' }, 0)
  | .attachment left =>
    if c.buffer.length < nl then .inl (.panic .index, c, 0) else
    if left < nl then .inl (.panic .index, c, 0) else              -- `*left -= next_len`
    let raw := c.buffer.take nl
    let left' := left - nl
    .inl (.msg (.attachment nl left' raw),
          { buffer := c.buffer.drop nl, state := if left' = 0 then .none else .attachment left' }, 0)

/-- `buffer.reserve(to_read)`, zero fill, `read_exact` into the tail of the buffer
(`none`: the stream ended first) -/
def fill {H σ : Type} (ops : SockOps σ) (c : Codec H) (s : σ) (nl : Nat) : Option (Codec H × σ) :=
  if nl - c.buffer.length > 0 then
    match ops.rx (nl - c.buffer.length) s with
    | some (x, s') => some ({ c with buffer := c.buffer ++ x }, s')
    | none => none
  else some (c, s)

/-- the `loop` of `read_inner` -/
def readLoop {B H σ : Type} (env : Env B H) (ops : SockOps σ) :
    Nat → Codec H → σ → Nat → Nat → ReadOut B H σ
  | 0, c, s, br, al => { res := .hang, bytesRead := br, alloc := al, codec := c, sock := s }
  | fuel+1, c, s, br, al =>
    let nl := nextLen env c.state
    let toRead := nl - c.buffer.length
    match fill ops c s nl with
    | none =>   -- `buffer.truncate(pre_len)`; `return Err(e.into())`
      { res := .err .conn, bytesRead := br, alloc := al + toRead, codec := c, sock := ops.drain s }
    | some (c1, s1) =>
      match stepState env c1 nl with
      | .inl (r, c2, a) =>
        { res := r, bytesRead := br + toRead, alloc := al + toRead + a, codec := c2, sock := s1 }
      | .inr (c2, a) => readLoop env ops fuel c2 s1 (br + toRead) (al + toRead + a)

/-- iterations one call can need: header, body prefix, and at most a batch of items -/
def READ_FUEL : Nat := HEADER_BATCH_SIZE + 4

/-- `Codec::read` -/
def read {B H σ : Type} (env : Env B H) (ops : SockOps σ) (c : Codec H) (s : σ) : ReadOut B H σ :=
  readLoop env ops READ_FUEL c s 0 0

/-- `Codec::expect_attachment(meta)` (`assert!(self.state.is_none())`) -/
def expectAttachment {H : Type} (c : Codec H) (size : Nat) : Option (Codec H) :=
  match c.state with
  | .none => some { c with state := .attachment size }
  | _ => none

/-- what the reader thread does to the codec after a message: `expect_attachment` when the handler
answered `Consumed::Attachment` (`none` = the `assert!` fired) -/
def nextCodec {B H : Type} (attach : Message B H → Option Nat) (c : Codec H) (m : Message B H) : Option (Codec H) :=
  match attach m with
  | some size => expectAttachment c size
  | none => some c

/-- the reader thread of `conn::poll` as far as framing goes: read until the first error; after a
message for which the handler answers `Consumed::Attachment(meta, _)` (`attach` = `meta.size`) call
`expect_attachment`.  Returns the messages, how the loop ended, the final codec and socket. -/
def run {B H σ : Type} (env : Env B H) (ops : SockOps σ) (attach : Message B H → Option Nat) :
    Nat → Codec H → σ → List (Message B H) × Res B H × Codec H × σ
  | 0, c, s => ([], .hang, c, s)
  | fuel+1, c, s =>
    let o := read env ops c s
    match o.res with
    | .msg m =>
      match nextCodec attach o.codec m with
      | none => ([m], .panic .assertion, o.codec, o.sock)
      | some c' =>
        let (ms, e, cf, sf) := run env ops attach fuel c' o.sock
        (m :: ms, e, cf, sf)
    | r => ([], r, o.codec, o.sock)

/-! ## the `Attachment(left, ..)` state on its own -/

/-- one `Codec::read` in state `Attachment(left, ..)`: the chunk length it announces
(`next_len` = `min(left, 48_000)`) and the state after the chunk: `some left'` = `Attachment(left', ..)`,
`none` = `*left == 0` ⇒ `self.state = None`, back to reading a message header -/
def attStep (left : Nat) : Nat × Option Nat :=
  (min left ATTACHMENT_CHUNK,
   if left - min left ATTACHMENT_CHUNK = 0 then none else some (left - min left ATTACHMENT_CHUNK))

/-- the chunk lengths of the updates delivered for an attachment of `left` bytes (an attachment of 0 bytes
is one empty chunk) -/
def attChunkLens : Nat → Nat → List Nat
  | 0, _ => []
  | f+1, left =>
    (attStep left).1 :: (match (attStep left).2 with
      | none => []
      | some l => attChunkLens f l)

/-! ## read timeouts (`Codec::set_stream_timeout`) and the codec over a stream with a clock -/

/-- which variant of `enum State` (the generated `StateKind` lists the variants of the source) -/
def State.kind {H : Type} : State H → StateKind
  | .none => .sNone
  | .header _ => .sHeader
  | .blockHeaders _ _ _ => .sBlockHeaders
  | .attachment _ => .sAttachment

/-- `HEADER_IO_TIMEOUT` / `BODY_IO_TIMEOUT` in milliseconds -/
def classMs : TimeoutClass → Nat
  | .header => HEADER_IO_TIMEOUT_MS
  | .body => BODY_IO_TIMEOUT_MS

/-- `Codec::set_stream_timeout`: the read timeout (ms) in force during the `read_exact` of a fill
in state `st` -/
def ioTimeout {H : Type} (st : State H) : Nat := classMs (timeoutClass st.kind)

/-- a wait of `d` ms without a byte arriving is tolerated in state `st` iff `d < timeout(st)` -/
def tolerated {H : Type} (st : State H) (d : Nat) : Bool := decide (d < ioTimeout st)

/-- a byte stream with its arrival gaps: `(w, b)` = byte `b` becomes readable `w` ms after the byte
before it did (or after the reader started to wait for it, whichever is later) -/
abbrev TStream := List (Nat × Nat)

/-- how a peer writes: `(d, f)` = pause `d` ms, then write fragment `f` in one piece -/
abbrev Sched := List (Nat × Bytes)

/-- the first byte of a fragment carries the pause, the others arrive with it -/
def tagFrag (d : Nat) : Bytes → TStream
  | [] => []
  | b :: r => (d, b) :: r.map fun x => (0, x)

/-- the timed stream a schedule produces (fragments are non-empty TCP segments; an empty one is
dropped together with its pause) -/
def tagSched : Sched → TStream
  | [] => []
  | (d, f) :: s => tagFrag d f ++ tagSched s

inductive RxT
  /-- all `n` bytes arrived: the bytes and the stream after them -/
  | got (x : Bytes) (s : TStream)
  /-- a wait reached the timeout: `read_exact` fails with `WouldBlock`, what it had pulled so far is
  gone from the stream, the byte it waited for is `timeout` ms closer -/
  | timeout (s : TStream)
  /-- end of stream -/
  | eof
deriving DecidableEq, Repr

/-- `read_exact(n)` under `set_read_timeout(T)`: every `read` call waits at most `T` for the next byte -/
def rxT (T : Nat) : Nat → TStream → RxT
  | 0, s => .got [] s
  | _+1, [] => .eof
  | n+1, (w, b) :: s =>
    if T ≤ w then .timeout ((w - T, b) :: s)
    else match rxT T n s with
      | .got x s' => .got (b :: x) s'
      | .timeout s' => .timeout s'
      | .eof => .eof

inductive FillT (H : Type)
  | ok (c : Codec H) (s : TStream)
  | timeout (s : TStream)
  | eof

/-- `fill` with the clock: `set_stream_timeout()` (timeout of the *current* state), then `read_exact` -/
def fillT {H : Type} (c : Codec H) (s : TStream) (nl : Nat) : FillT H :=
  if nl - c.buffer.length > 0 then
    match rxT (ioTimeout c.state) (nl - c.buffer.length) s with
    | .got x s' => .ok { c with buffer := c.buffer ++ x } s'
    | .timeout s' => .timeout s'
    | .eof => .eof
  else .ok c s

/-- the `loop` of `read_inner` over a timed stream.  A timeout returns `Error::Connection(WouldBlock)`
with the buffer truncated to what it held before this fill; the state reached so far stays
(`self.state` is mutated in place) -/
def readLoopT {B H : Type} (env : Env B H) : Nat → Codec H → TStream → Nat → Nat → ReadOut B H TStream
  | 0, c, s, br, al => { res := .hang, bytesRead := br, alloc := al, codec := c, sock := s }
  | fuel+1, c, s, br, al =>
    let nl := nextLen env c.state
    let toRead := nl - c.buffer.length
    match fillT c s nl with
    | .eof => { res := .err .conn, bytesRead := br, alloc := al + toRead, codec := c, sock := [] }
    | .timeout s' => { res := .err .timedOut, bytesRead := br, alloc := al + toRead, codec := c, sock := s' }
    | .ok c1 s1 =>
      match stepState env c1 nl with
      | .inl (r, c2, a) =>
        { res := r, bytesRead := br + toRead, alloc := al + toRead + a, codec := c2, sock := s1 }
      | .inr (c2, a) => readLoopT env fuel c2 s1 (br + toRead) (al + toRead + a)

/-- `Codec::read` over a timed stream -/
def readT {B H : Type} (env : Env B H) (c : Codec H) (s : TStream) : ReadOut B H TStream :=
  readLoopT env READ_FUEL c s 0 0

/-- the reader thread of `conn::poll` over a timed stream: as `run`, and `try_break!` turns
`TimedOut` / `WouldBlock` into "nothing yet" (`continue`) -/
def runT {B H : Type} (env : Env B H) (attach : Message B H → Option Nat) :
    Nat → Codec H → TStream → List (Message B H) × Res B H × Codec H × TStream
  | 0, c, s => ([], .hang, c, s)
  | fuel+1, c, s =>
    let o := readT env c s
    match o.res with
    | .msg m =>
      match nextCodec attach o.codec m with
      | none => ([m], .panic .assertion, o.codec, o.sock)
      | some c' =>
        let (ms, e, cf, sf) := runT env attach fuel c' o.sock
        (m :: ms, e, cf, sf)
    | .err e =>
      if e = .timedOut then runT env attach fuel o.codec o.sock
      else ([], .err e, o.codec, o.sock)
    | .panic st => ([], .panic st, o.codec, o.sock)
    | .hang => ([], .hang, o.codec, o.sock)

/-! ## which results of `codec.read()` end the connection (`try_break!` in `conn::poll`) -/

inductive LoopAct
  /-- `Some(message)`: handed to the `MessageHandler` (an `Unknown` one is skipped) -/
  | deliver
  /-- `None`: `Error::Connection` of kind `TimedOut` / `WouldBlock` — nothing yet, read again -/
  | retry
  /-- `break`: the reader thread shuts the connection down -/
  | leave
deriving DecidableEq, Repr

/-- `try_break!(next)` on the result of `codec.read()`: every error class the codec can return —
`Serialization(_)` (wrong magic `UnexpectedData`, `TooLargeReadErr`, `CorruptedData` … of a body that
was consumed completely), `BadMessage`, `UnexpectedMessage`, `Connection` other than a timeout — ends
the stream; only a read timeout is tolerated.  (`Store` / `Chain` / `Internal` / `NoDandelionRelay`,
which the macro also tolerates, are results of the *handler*, never of the codec.) -/
def tryBreak {B H : Type} : Res B H → LoopAct
  | .msg _ => .deliver
  | .err e => if e = .timedOut then .retry else .leave
  | .panic _ => .leave
  | .hang => .leave

/-! ## `msg::read_message` (used by the handshake, straight on the `TcpStream`) -/

/-- result of `read_message`: value or error class, bytes consumed from the stream, bytes requested
from the allocator (`vec![0u8; MsgHeader::LEN]`, `vec![0u8; msg_len]` + the body decoder's own) -/
structure RmOut (α : Type) where
  res : Except Err α
  consumed : Nat
  alloc : Nat

/-- `read_message::<T>(stream, version, msg_type)` over a flat stream that ends at end of input.
`dec` = `T::read` through a `BinReader` on the body bytes. -/
def readMessage {α : Type} (net : NetCfg) (expected : Nat) (dec : Dec α) (stream : Bytes) : RmOut α :=
  match splitExact MSG_HEADER_LEN stream with
  | none => { res := .error .conn, consumed := stream.length, alloc := MSG_HEADER_LEN }
  | some (head, rest) =>
    match decHeader net head with
    | .err e _ => { res := .error (.ser e), consumed := MSG_HEADER_LEN, alloc := MSG_HEADER_LEN }
    | .panic _ _ => { res := .error .conn, consumed := MSG_HEADER_LEN, alloc := MSG_HEADER_LEN }  -- unreachable
    | .ok (.known t len) _ _ =>
      if t = expected then
        -- `read_body`
        match splitExact len rest with
        | none => { res := .error .conn, consumed := stream.length, alloc := MSG_HEADER_LEN + len }
        | some (body, _) =>
          match dec body with
          | .ok v _ a => { res := .ok v, consumed := MSG_HEADER_LEN + len, alloc := MSG_HEADER_LEN + len + a }
          | .err e a => { res := .error (.ser e), consumed := MSG_HEADER_LEN + len, alloc := MSG_HEADER_LEN + len + a }
          | .panic _ a => { res := .error .conn, consumed := MSG_HEADER_LEN + len, alloc := MSG_HEADER_LEN + len + a }
      else { res := .error .badMessage, consumed := MSG_HEADER_LEN, alloc := MSG_HEADER_LEN }
    | .ok (.unknown len _) _ _ =>
      -- `read_discard`
      match splitExact len rest with
      | none => { res := .error .conn, consumed := stream.length, alloc := MSG_HEADER_LEN + len }
      | some _ => { res := .error .badMessage, consumed := MSG_HEADER_LEN + len, alloc := MSG_HEADER_LEN + len }

/-! ## handshake decisions (`p2p/src/handshake.rs`) -/

/-- `Handshake::negotiate_protocol_version` -/
def negotiate (ours theirs : Nat) : Nat := min ours theirs

inductive HsErr
  | genesisMismatch
  | peerWithSelf
  | connectionClose
deriving DecidableEq, Repr

/-- `next_nonce`: `push_back`, then `pop_front` when the ring has reached `NONCES_CAP` (so the ring
never holds more than `NONCES_CAP - 1` nonces once the call returns) -/
def pushNonce (ring : List Nat) (n : Nat) : List Nat :=
  let r := ring ++ [n]
  if r.length ≥ NONCES_CAP then r.drop 1 else r

/-- the ring of one long-lived `Handshake` after the outbound attempts that drew the nonces `ns`
(oldest first), starting from `Handshake::new` -/
def ringAfter (ns : List Nat) : List Nat := ns.foldl pushNonce []

/-- `Handshake::accept` after the `Hand` was read: genesis, own nonce, negotiated version, deny list -/
def acceptDecision (ourGenesis : Bytes) (ourVersion : Nat) (nonces : List Nat) (denied : Bool) (h : Hand) :
    Except HsErr Nat :=
  if h.genesis ≠ ourGenesis then .error .genesisMismatch
  else if nonces.contains h.nonce then .error .peerWithSelf
  else if denied then .error .connectionClose
  else .ok (negotiate ourVersion h.version)

/-- `Handshake::initiate` after the `Shake` was read -/
def initiateDecision (ourGenesis : Bytes) (ourVersion : Nat) (denied : Bool) (s : Shake) : Except HsErr Nat :=
  if s.genesis ≠ ourGenesis then .error .genesisMismatch
  else if denied then .error .connectionClose
  else .ok (negotiate ourVersion s.version)

end GV.Codec
