import GrinVerif.Model.Chain
/-! Implementation-shaped incremental model of the txhashset's output side (serves C02, C01, C13,
and the hypothesis of C15).

`Model/Chain.lean` *defines* the chain state of a block by replay from genesis. The node does not
replay: it keeps one txhashset and moves it along the block tree incrementally — apply a block,
rewind a block, rewind to a fork point and apply the other branch. This file transliterates that:

* the output MMR as the list of output leaves in insertion order (`leaves`: commitment ids; the
  model's *position* is the 0-based leaf insertion index — the 1-based MMR position of the code,
  which also counts parent nodes, is abstracted away; C07 is about that numbering),
* the leaf set as the set of unspent leaf positions (`leafSet`; store/src/leaf_set.rs `LeafSet`
  = a bitmap of positions),
* the `output_pos` index commitment → (position, height) (LMDB prefix `p`, chain/src/store.rs),
* the per-block spent index (LMDB prefix `S`).

Functions (chain/src/txhashset/txhashset.rs, chain/src/txhashset/utxo_view.rs, chain/src/pipe.rs):
`applyOutput` = `Extension::apply_output` + `save_output_pos_height`, `validateInput` =
`UTXOView::validate_input`, `applyInput` = `Extension::apply_input` (`PMMR::prune`) +
`delete_output_pos_height`, `applyBlockImpl` = `Extension::apply_block` (outputs first, then the
inputs looked up through `output_pos` and the leaf set, spent index saved), `rewindSingleBlock`
= `Extension::rewind_single_block` (+ `rewind_mmrs_to_pos`, `LeafSet::rewind`), `rewindBlocks` =
`Extension::rewind`, `rewindAndApplyFork` = `pipe::rewind_and_apply_fork`, `getUnspent` =
`TxHashSet::get_unspent`.

Not modelled here: range-proof and kernel MMRs, the bitmap accumulator (C15), the NRD kernel
index, coinbase maturity (position based in the code, height based in `Model/Chain.lean`), the
legacy input-bitmap fallback of `rewind_single_block` (taken when a block has no spent index). -/

namespace GV.Chain

/-- `CommitPos`: position of an output in the output MMR and the height of the block that created it -/
structure CommitPos where
  pos : Nat
  height : Nat
deriving Repr, DecidableEq, Inhabited

structure TxHS where
  /-- output leaves in insertion order: commitment ids -/
  leaves : List Nat := []
  /-- positions of unspent leaves -/
  leafSet : List Nat := []
  /-- `output_pos` index: at most one entry per commitment -/
  outputPos : List (Nat × CommitPos) := []
  /-- per-block spent index: block id → what the block spent -/
  spentIdx : List (Nat × List CommitPos) := []
deriving Repr, Inhabited

namespace TxHS

/-- `PMMRBackend::get_data` for a leaf of a prunable MMR: only while the leaf is in the leaf set -/
def getData (S : TxHS) (i : Nat) : Option Nat :=
  if S.leafSet.contains i then S.leaves[i]? else none

/-- `batch.get_output_pos_height` -/
def getOutputPos (S : TxHS) (c : Nat) : Option CommitPos :=
  (S.outputPos.find? (·.1 == c)).map (·.2)

/-- `batch.save_output_pos_height` (a put: replaces an existing entry) -/
def saveOutputPos (S : TxHS) (c : Nat) (cp : CommitPos) : TxHS :=
  { S with outputPos := (c, cp) :: S.outputPos.filter (fun e => !(e.1 == c)) }

/-- `batch.delete_output_pos_height` -/
def deleteOutputPos (S : TxHS) (c : Nat) : TxHS :=
  { S with outputPos := S.outputPos.filter (fun e => !(e.1 == c)) }

/-- `batch.get_spent_index` -/
def getSpentIndex (S : TxHS) (bid : Nat) : Option (List CommitPos) :=
  (S.spentIdx.find? (·.1 == bid)).map (·.2)

/-- `batch.save_spent_index` -/
def saveSpentIndex (S : TxHS) (bid : Nat) (sp : List CommitPos) : TxHS :=
  { S with spentIdx := (bid, sp) :: S.spentIdx.filter (fun e => !(e.1 == bid)) }

/-- `TxHashSet::get_unspent`: index entry, leaf still in the leaf set, commitment matches -/
def getUnspent (S : TxHS) (c : Nat) : Option CommitPos :=
  match S.getOutputPos c with
  | some cp =>
    match S.getData cp.pos with
    | some c' => if c' == c then some cp else none
    | none => none
  | none => none

/-- the commitments the txhashset reports as unspent (over every commitment with an index entry) -/
def reported (S : TxHS) : List Nat :=
  (S.outputPos.map (·.1)).filter (fun c => (S.getUnspent c).isSome)

/-- `Extension::apply_output` followed by `save_output_pos_height` (as in `apply_block`) -/
def applyOutput (S : TxHS) (c h : Nat) : Except Err TxHS :=
  let dup := match S.getOutputPos c with
    | some cp =>
      match S.getData cp.pos with
      | some c' => c' == c
      | none => false
    | none => false
  if dup then .error "DuplicateCommitment" else
  .ok (({ S with leaves := S.leaves ++ [c], leafSet := S.leafSet ++ [S.leaves.length] } : TxHS).saveOutputPos
    c ⟨S.leaves.length, h⟩)

def applyOutputs (S : TxHS) : List (Nat × Bool) → Nat → Except Err TxHS
  | [], _ => .ok S
  | o :: os, h =>
    match S.applyOutput o.1 h with
    | .error e => .error e
    | .ok S' => applyOutputs S' os h

/-- `UTXOView::validate_input` -/
def validateInput (S : TxHS) (c : Nat) : Except Err CommitPos :=
  match S.getOutputPos c with
  | some cp =>
    match S.getData cp.pos with
    | some c' => if c' == c then .ok cp else .error "Other"
    | none => .error "AlreadySpent"
  | none => .error "AlreadySpent"

/-- `UTXOView::validate_inputs`: all lookups are made before anything is spent -/
def validateInputs (S : TxHS) : List Nat → Except Err (List (Nat × CommitPos))
  | [] => .ok []
  | c :: cs =>
    match S.validateInput c with
    | .error e => .error e
    | .ok cp =>
      match validateInputs S cs with
      | .error e => .error e
      | .ok r => .ok ((c, cp) :: r)

/-- `Extension::apply_input` (`PMMR::prune`: `Ok(false)` when the leaf is no longer in the leaf
set) followed by `delete_output_pos_height` -/
def applyInput (S : TxHS) (c : Nat) (cp : CommitPos) : Except Err TxHS :=
  if S.leafSet.contains cp.pos then
    .ok (({ S with leafSet := S.leafSet.filter (fun i => !(i == cp.pos)) } : TxHS).deleteOutputPos c)
  else .error "AlreadySpent"

def applyInputs (S : TxHS) : List (Nat × CommitPos) → Except Err TxHS
  | [] => .ok S
  | x :: xs =>
    match S.applyInput x.1 x.2 with
    | .error e => .error e
    | .ok S' => applyInputs S' xs

/-- `UTXOView::validate_block` as called by `pipe::validate_utxo` before the block is applied:
no created output duplicates an unspent commitment, every input is unspent -/
def validateUtxo (S : TxHS) (b : Blk) : Except Err (List (Nat × CommitPos)) :=
  let dup := b.outs.any fun o =>
    match S.getOutputPos o.1 with
    | some cp =>
      match S.getData cp.pos with
      | some c' => c' == o.1
      | none => false
    | none => false
  if dup then .error "DuplicateCommitment" else S.validateInputs b.ins

end TxHS

/-- `Extension::apply_block` (output side) -/
def applyBlockImpl (S : TxHS) (b : Blk) : Except Err TxHS :=
  match S.applyOutputs b.outs b.h with
  | .error e => .error e
  | .ok S1 =>
  match S1.validateInputs b.ins with
  | .error e => .error e
  | .ok spent =>
  match S1.applyInputs spent with
  | .error e => .error e
  | .ok S2 => .ok (S2.saveSpentIndex b.id (spent.map (·.2)))

/-- `Extension::rewind_single_block`: `prevSize` = `output_mmr_size` (in leaves) of the previous
header (0 for the genesis), read from the header store by the code -/
def rewindSingleBlock (S : TxHS) (b : Blk) (prevSize : Nat) : TxHS :=
  let spent := (S.getSpentIndex b.id).getD []
  -- rewind_mmrs_to_pos: truncate; LeafSet::rewind: drop positions beyond the cutoff, add the spent back
  let S1 : TxHS := { S with leaves := S.leaves.take prevSize,
                            leafSet := S.leafSet.filter (· < prevSize) ++ spent.map (·.pos) }
  -- remove the output_pos entries created by the block
  let S2 := b.outs.foldl (fun T o => T.deleteOutputPos o.1) S1
  -- re-save output_pos for every un-spent position (a re-used commitment gets its old position back)
  spent.foldl (fun T cp => match T.getData cp.pos with
    | some c => T.saveOutputPos c cp
    | none => T) S2

/-- `Extension::rewind`: block by block from the tip down; each block comes with the output size
of its parent header -/
def rewindBlocks (S : TxHS) : List (Blk × Nat) → TxHS
  | [] => S
  | x :: xs => rewindBlocks (rewindSingleBlock S x.1 x.2) xs

/-- apply a branch, root side first -/
def applyBlocks (S : TxHS) : List Blk → Except Err TxHS
  | [] => .ok S
  | b :: bs =>
    match applyBlockImpl S b with
    | .error e => .error e
    | .ok S' => applyBlocks S' bs

/-- `pipe::rewind_and_apply_fork` (output side): rewind the current branch (`down`, tip first) to
the fork point, then apply the other branch (`up`, fork side first) -/
def rewindAndApplyFork (S : TxHS) (down : List (Blk × Nat)) (up : List Blk) : Except Err TxHS :=
  applyBlocks (rewindBlocks S down) up

/-- a block together with the output size of the header before it, along a branch that starts
at output size `n` (the `prev.output_mmr_size` that `rewind_single_block` reads; for accepted
blocks the header's claimed size is the real one: `validate_mmr_sizes`) -/
def withPrevSizes (n : Nat) : List Blk → List (Blk × Nat)
  | [] => []
  | b :: bs => (b, n) :: withPrevSizes (n + b.outs.length) bs

/-- strip the common prefix of two root-first paths: (output size at the fork point, rest of the
first path, rest of the second path) -/
def splitCommon : List Blk → List Blk → Nat → Nat × List Blk × List Blk
  | a :: as, b :: bs, n =>
    if a.id == b.id then splitCommon as bs (n + a.outs.length) else (n, a :: as, b :: bs)
  | as, bs, n => (n, as, bs)

/-- move the txhashset from the tip of `oldPath` to the tip of `newPath` (both root-first paths
from the genesis): rewind to the last common block, apply the rest of the new path -/
def switchTo (S : TxHS) (oldPath newPath : List Blk) : Except Err TxHS :=
  let (n, d, u) := splitCommon oldPath newPath 0
  rewindAndApplyFork S (withPrevSizes n d).reverse u

/-- the txhashset after the genesis block -/
def implGenesis (g : Blk) : Except Err TxHS := applyBlockImpl {} g

end GV.Chain
