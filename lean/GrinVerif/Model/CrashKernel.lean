import GrinVerif.Model.CrashRecov
/-! The kernel MMR's variable-size data file and its size file under rewinds BEYOND the end of the
file (C09; known finding C09-recovery-not-restartable and the "next restart" part of
C09-reorg-kernel-data-window).

store/src/types.rs. The kernel data file `kernel/pmmr_data.bin` holds serialized kernels of varying
length; `kernel/pmmr_size.bin` holds one fixed-size `SizeEntry { offset, size }` per element.
`AppendOnlyFile::rewind(pos)` only moves `buffer_start_pos`; `AppendOnlyFile::flush` of a rewound
file then does, for the size file, `set_len(pos * entry_len)` and, for the data file,
`let (offset, size) = self.offset_and_size(pos - 1)?; file.set_len(offset + size)` with the entry
read from the (already flushed) size file. `set_len` TRUNCATES a longer file and GROWS a shorter
one with zero bytes. So a rewind to a position beyond the end of the size file appends zero
entries, the data file's truncation reads `SizeEntry { offset: 0, size: 0 }` and empties the data
file; a later rewind to a position inside the true entries re-grows the data file with zeros.
`AppendOnlyFile::open` rebuilds the size file from the data file when the sizes do not add up to
the data file's length (`rebuild_size_file`: elements are read until one does not parse), and
`TxHashSet::open` (chain/src/txhashset/txhashset.rs) reads and verifies the FIRST kernel to find the
protocol version of the file: if that fails, `Error::TxHashSetErr("failed to open kernel PMMR")` and
`Chain::init` fails.

Granularity: one entry per kernel; `kc b` = number of kernels of block `b` (a parameter: the block
table of `Model/Crash.lean` does not carry kernels; the driver passes "coinbase kernel + one kernel
if the block spends", which is how the crash harness builds blocks; the theorems hold for every
position). `some id` = the true entry / data of a kernel of block `id`, `none` = zero bytes of the
same extent. -/
namespace GV.Crash

structure KFiles where
  size : List (Option Nat)
  data : List (Option Nat)
deriving Repr, DecidableEq, Inhabited

/-- `set_len` on a list: truncate or grow with zeros -/
def setLen (l : List (Option Nat)) (n : Nat) : List (Option Nat) :=
  if n ≤ l.length then l.take n else l ++ List.replicate (n - l.length) none

/-- flush of the size file rewound to `n` entries -/
def sizeFlush (k : KFiles) (n : Nat) : KFiles := { k with size := setLen k.size n }

/-- flush of the data file rewound to `n` elements (the size file has been flushed before) -/
def dataFlush (k : KFiles) (n : Nat) : KFiles :=
  if n = 0 then { k with data := [] } else
  match k.size[n - 1]? with
  | some (some _) => { k with data := setLen k.data n }
  | _ => { k with data := [] }

/-- one `kernel_pmmr_h.backend.sync()` after a rewind to `n` -/
def kSync (k : KFiles) (n : Nat) : KFiles := dataFlush (sizeFlush k n) n

/-- `AppendOnlyFile::open` of the data file: rebuild the size file if the sizes do not add up -/
def kOpen (k : KFiles) : KFiles :=
  if (k.size.filter Option.isSome).length = k.data.length then k
  else { k with size := k.data.takeWhile Option.isSome }

/-- `TxHashSet::open`: a non-empty kernel MMR must yield its first kernel -/
def kReadable (hashLen : Nat) (k : KFiles) : Bool :=
  hashLen == 0 ||
    (match k.size.head?, k.data.head? with
     | some (some _), some (some _) => true
     | _, _ => false)

def kOfIds (ids : List Nat) : KFiles := { size := ids.map some, data := ids.map some }

/-- the kernels of a path, block by block -/
def kernelsOf (kc : BlkInfo → Nat) (P : List BlkInfo) : List (Option Nat) :=
  P.flatMap fun b => List.replicate (kc b) (some b.id)

/-- kernel MMR position (number of kernels) of the tip of `P` -/
def kpos (kc : BlkInfo → Nat) (P : List BlkInfo) : Nat := (kernelsOf kc P).length

def kOfPath (kc : BlkInfo → Nat) (P : List BlkInfo) : KFiles := { size := kernelsOf kc P, data := kernelsOf kc P }

/-- the kernel steps of an acceptance (`Model/Crash.lean` has no size-file steps: the size file is
flushed inside the data file's flush, before the data file's own truncation) -/
inductive KStep
  | sizeTrunc | sizeApp | dataTrunc | dataApp
deriving Repr, DecidableEq, Inhabited

def applyKStep (kc : BlkInfo → Nat) (t : Target) (k : KFiles) : KStep → KFiles
  | .sizeTrunc => sizeFlush k (kpos kc t.forkPath)
  | .sizeApp => { k with size := k.size ++ kernelsOf kc (t.newPath.drop t.forkLen) }
  | .dataTrunc => dataFlush k (kpos kc t.forkPath)
  | .dataApp => { k with data := k.data ++ kernelsOf kc (t.newPath.drop t.forkLen) }

/-- the kernel files through the durable writes of a recovery: each `kerDataTrunc` write of
`recoverS` is the data file's flush, preceded by the size file's flush -/
def kRun (kc : BlkInfo → Nat) (k : KFiles) : List RIns → KFiles
  | [] => k
  | i :: rest => kRun kc (if i.step == .kerDataTrunc then kSync k (kpos kc i.path) else k) rest

/-- a restart that is killed after `j` of its durable writes: the files are opened, then written -/
def kRestartKilled (kc : BlkInfo → Nat) (bc : Nat → Bool) (tbl : List BlkInfo) (d : Durable) (k : KFiles) (j : Nat) : KFiles :=
  kRun kc (kOpen k) ((recoverS bc tbl d).1.take j)

/-- does the NEXT start get past `TxHashSet::open`? -/
def nextStartOpens (d : Durable) (k : KFiles) : Bool := kReadable d.kerHash.length (kOpen k)

/-! ### labels (for `Drv/CrashD.lean`) -/

def kstepOfLabel (l : String) : Option KStep :=
  if l.startsWith "aof.flush:after-truncate[kernel/pmmr_size.bin]" then some .sizeTrunc
  else if l.startsWith "aof.flush:after-append[kernel/pmmr_size.bin]" then some .sizeApp
  else if l.startsWith "aof.flush:after-truncate[kernel/pmmr_data.bin]" then some .dataTrunc
  else if l.startsWith "aof.flush:after-append[kernel/pmmr_data.bin]" then some .dataApp
  else none

/-- the kernel files through the real labels of a restart, walked along the model's writes: the
rewind position of a kernel sync is the path length of the model's pending `kerDataTrunc` write -/
def walkK (kc : BlkInfo → Nat) : List String → List RIns → KFiles → KFiles
  | [], _, k => k
  | l :: ls, ins, k =>
    let pending := (ins.find? (·.step == .kerDataTrunc)).map (fun i => kpos kc i.path)
    if l.startsWith "aof.flush:after-truncate[kernel/pmmr_size.bin]" then
      walkK kc ls ins (match pending with | some n => sizeFlush k n | none => k)
    else if l.startsWith "aof.flush:after-truncate[kernel/pmmr_data.bin]" then
      match pending with
      | some n => walkK kc ls ((ins.dropWhile (·.step != .kerDataTrunc)).drop 1) (dataFlush k n)
      | none => walkK kc ls ins k
    else walkK kc ls ins k

end GV.Crash
