import GrinVerif.Model.Pmmr
/-! The element side of the read-only views (`core/src/core/pmmr/readonly_pmmr.rs`,
`rewindable_pmmr.rs` read through `as_readonly`, over `vec_backend.rs`): `get_data`,
`get_last_n_insertions`, `elements_from_pmmr_index`, `leaf_pos_iter` / `leaf_idx_iter`.

`DBackend`: the Vec backend with its data vector (one element per leaf, in insertion order) and
remove log.  Note what the code does: `leaf_pos_iter`, `leaf_idx_iter` (and `n_unpruned_leaves`) of
a view go straight to the backend — they do NOT stop at the view's size. -/
namespace GV.Pmmr
variable {α H : Type}

structure DBackend (α H : Type) where
  hashes : List H := []
  data : List α := []
  removed : List Nat := []

/-- `VecBackend::get_data_from_file`: `data[n_leaves(1 + pos0) - 1]` -/
def dDataFromFile (b : DBackend α H) (pos : Nat) : Option α := b.data[nLeaves (1 + pos) - 1]?

/-- `VecBackend::get_data`: nothing for a removed position -/
def dGetData (b : DBackend α H) (pos : Nat) : Option α :=
  if b.removed.contains pos then none else dDataFromFile b pos

/-- `VecBackend::get_hash` -/
def dGetHash (b : DBackend α H) (pos : Nat) : Option H :=
  if b.removed.contains pos then none else b.hashes[pos]?

/-- `ReadonlyPMMR::get_data` of a view at `size` -/
def vGetData (b : DBackend α H) (size pos : Nat) : Option α :=
  if pos ≥ size then none
  else if isLeaf pos then dGetData b pos
  else none

/-- the `while` loop of `get_last_n_insertions` (`fuel` ≥ `last_leaf` suffices: it decreases) -/
def lastNLoop (b : DBackend α H) (n : Nat) : Nat → Nat → List (H × α) → List (H × α)
  | 0, _, acc => acc
  | fuel + 1, lastLeaf, acc =>
    if acc.length < n ∧ lastLeaf > 0 then
      let ll := bintreeRightmost (lastLeaf - 1)
      match dGetHash b ll, dGetData b ll with
      | some h, some d => lastNLoop b n fuel ll (acc ++ [(h, d)])
      | _, _ => lastNLoop b n fuel ll acc
    else acc

/-- `ReadonlyPMMR::get_last_n_insertions(n)` of a view at `size` -/
def vLastN (b : DBackend α H) (size n : Nat) : List (H × α) := lastNLoop b n (size + 1) size []

/-- the `while` loop of `elements_from_pmmr_index` -/
def elemsLoop (b : DBackend α H) (viewSize maxCount size : Nat) : Nat → Nat → List α → Nat × List α
  | 0, idx, acc => (idx, acc)
  | fuel + 1, idx, acc =>
    if acc.length < maxCount ∧ idx < size then
      match vGetData b viewSize idx with
      | some t => elemsLoop b viewSize maxCount size fuel (idx + 1) (acc ++ [t])
      | none => elemsLoop b viewSize maxCount size fuel (idx + 1) acc
    else (idx, acc)

/-- the upper bound of the walk: `match max_pmmr_pos1 { Some(p) => min(p, self.size), None => self.size }` -/
def elemsBound (viewSize : Nat) : Option Nat → Nat
  | some p => min p viewSize
  | none => viewSize

theorem elemsBound_le (viewSize : Nat) (maxPos : Option Nat) : elemsBound viewSize maxPos ≤ viewSize := by
  cases maxPos with
  | none => exact Nat.le_refl _
  | some p => exact Nat.min_le_right _ _

/-- `ReadonlyPMMR::elements_from_pmmr_index(pmmr_index1, max_count, max_pmmr_pos1)` of a view at
`viewSize`: `(last index looked at + 1, elements)` -/
def vElementsFrom (b : DBackend α H) (viewSize idx1 maxCount : Nat) (maxPos : Option Nat) : Nat × List α :=
  -- "nothing exists beyond the size of the MMR, whatever upper bound the caller asks for"
  -- (repair 565fae636: `Some(p) => min(p, self.size)`)
  let size := elemsBound viewSize maxPos
  elemsLoop b viewSize maxCount size (size + 1) (satSub idx1 1) []

/-- `leaf_pos_iter()` of a view: the BACKEND's (the view's size plays no role) -/
def vLeafPosIter (b : DBackend α H) : List Nat :=
  (List.range b.hashes.length).filter fun x => isLeaf x && !b.removed.contains x

/-- `leaf_idx_iter(from_idx)` of a view -/
def vLeafIdxIter (b : DBackend α H) (fromIdx : Nat) : List Nat :=
  ((vLeafPosIter b).dropWhile fun x => decide (x < insertionToPmmrIndex fromIdx)).map fun x => nLeaves (x + 1) - 1

/-! ### what the views serve, stated on the functions themselves -/

/-- a view never serves an element at or beyond its size, nor at an inner node -/
theorem vGetData_none (b : DBackend α H) (size pos : Nat) (h : pos ≥ size ∨ isLeaf pos = false) :
    vGetData b size pos = none := by
  unfold vGetData
  rcases h with h | h
  · rw [if_pos h]
  · split
    · rfl
    · simp [h]

/-- inside its size, at a leaf, a view serves what the backend serves: the size only cuts off -/
theorem vGetData_inside (b : DBackend α H) (size pos : Nat) (h1 : pos < size) (h2 : isLeaf pos = true) :
    vGetData b size pos = dGetData b pos := by
  unfold vGetData
  rw [if_neg (by omega), if_pos h2]

/-- two views over the same backend agree wherever both reach: a rewound `RewindablePMMR` (its size
is `round_up_to_leaf_pos(position)`) reads exactly what the longer view reads below that size -/
theorem vGetData_mono (b : DBackend α H) (s1 s2 pos : Nat) (h : pos < s1) (h12 : s1 ≤ s2) :
    vGetData b s1 pos = vGetData b s2 pos := by
  have a : ¬ pos ≥ s1 := by omega
  have c : ¬ pos ≥ s2 := by omega
  unfold vGetData
  simp only [if_neg a, if_neg c]

/-- every element `elements_from_pmmr_index` returns was served by `get_data` of the view: the
loop only appends -/
theorem elemsLoop_prefix (b : DBackend α H) (viewSize maxCount size : Nat) :
    ∀ (fuel idx : Nat) (acc : List α), ∃ t, (elemsLoop b viewSize maxCount size fuel idx acc).2 = acc ++ t ∧
      (∀ x ∈ t, ∃ p, idx ≤ p ∧ vGetData b viewSize p = some x)
  | 0, idx, acc => ⟨[], by simp [elemsLoop], by simp⟩
  | fuel + 1, idx, acc => by
    unfold elemsLoop
    split
    · cases hg : vGetData b viewSize idx with
      | none =>
        obtain ⟨t, ht, hx⟩ := elemsLoop_prefix b viewSize maxCount size fuel (idx + 1) acc
        exact ⟨t, ht, fun x hx' => by obtain ⟨p, hp, hq⟩ := hx x hx'; exact ⟨p, by omega, hq⟩⟩
      | some v =>
        obtain ⟨t, ht, hx⟩ := elemsLoop_prefix b viewSize maxCount size fuel (idx + 1) (acc ++ [v])
        refine ⟨v :: t, by rw [ht, List.append_assoc]; rfl, ?_⟩
        intro x hx'
        rcases List.mem_cons.mp hx' with h | h
        · exact ⟨idx, Nat.le_refl _, by rw [h]; exact hg⟩
        · obtain ⟨p, hp, hq⟩ := hx x h; exact ⟨p, by omega, hq⟩
    · exact ⟨[], by simp, by simp⟩

/-- the index `elements_from_pmmr_index` returns never exceeds the upper bound it walks to — and that
bound is at most the view's size (repair 565fae636) when the walk starts below it -/
theorem elemsLoop_idx_le (b : DBackend α H) (viewSize maxCount size : Nat) :
    ∀ (fuel idx : Nat) (acc : List α), idx ≤ size → (elemsLoop b viewSize maxCount size fuel idx acc).1 ≤ size
  | 0, idx, acc, h => by simpa [elemsLoop] using h
  | fuel + 1, idx, acc, h => by
    unfold elemsLoop
    split
    · rename_i hc
      cases vGetData b viewSize idx with
      | none => exact elemsLoop_idx_le b viewSize maxCount size fuel (idx + 1) acc (by omega)
      | some v => exact elemsLoop_idx_le b viewSize maxCount size fuel (idx + 1) (acc ++ [v]) (by omega)
    · exact h

end GV.Pmmr
