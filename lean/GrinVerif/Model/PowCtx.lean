import GrinVerif.Model.Pow
import GrinVerif.Model.PowSpec
import GrinVerif.Model.Blake2b
/-! # The `PoWContext` object and its histories (core/src/pow/types.rs trait `PoWContext`,
core/src/pow/common.rs `CuckooParams`, `set_header_nonce`, `create_siphash_keys`,
core/src/pow/cuck*.rs `set_header_nonce` / `find_cycles` / `verify`)

One context object is used for solving (`set_header_nonce(.., solve = true)`, `find_cycles`) and
for verifying (`set_header_nonce(.., solve = false)`, `verify`). It holds
* `params : CuckooParams` — `siphash_keys` (rewritten by every `set_header_nonce`), `edge_mask`,
  `node_mask`, `proof_size` (fixed at construction),
* Cuckatoo only: `graph : Graph` — adjacency lists, `visited`, `solutions` (after `reset`: one
  all-zero scratch proof; after `find_cycles`: the solutions found).
`verify(&self, proof)` reads `params` only. -/
namespace GV.Pow

def mkKeys (a b c d : Nat) : Keys := ⟨a.toUInt64, b.toUInt64, c.toUInt64, d.toUInt64⟩

/-- edge endpoints as each `verify` derives them inline from the keys -/
def epOf (v : Variant) (k : Keys) (eb : Nat) : Nat → Nat × Nat :=
  match v with
  | .cuckatoo => epCuckatoo k eb
  | .cuckaroo => epCuckaroo k eb
  | .cuckarood => epCuckarood k eb
  | .cuckaroom => epCuckaroom k eb
  | .cuckarooz => epCuckarooz k eb

def verifyOf (v : Variant) : Params → (Nat → Nat × Nat) → List Nat → Except Err Unit :=
  match v with
  | .cuckatoo => verifyCuckatoo
  | .cuckaroo => verifyCuckaroo
  | .cuckarood => verifyCuckarood
  | .cuckaroom => verifyCuckaroom
  | .cuckarooz => verifyCuckarooz

/-- `global::proofsize() = ps`, `CuckooParams::new(edge_bits, .., ctxps)` -/
def mkParams (eb ps ctxps : Nat) : Params :=
  let m := bucketMask ps
  { proofsize := ps, edgeMask := 2^eb - 1, ctxProofSize := ctxps, bk := fun x => x &&& m }

/-- `common::set_header_nonce(header, nonce)`: with a nonce the last four header bytes are replaced
by it (little endian); `create_siphash_keys`: blake2b-256 of the header, four little-endian words -/
def keysOfHeader (hdr : Bytes) (nonce : Option Nat) : Keys :=
  let hb := match nonce with
    | some n => hdr.take (hdr.length - 4) ++ leBytes 4 n
    | none => hdr
  let h := Blake2b.hash 32 hb
  let w := fun i => ofLE ((h.drop (8*i)).take 8)
  mkKeys (w 0) (w 1) (w 2) (w 3)

/-- the header bytes with the nonce spliced into the last four bytes (little endian), as
`set_header_nonce` does for `Some(n)` — for EVERY `n`, zero included -/
def spliceNonce (hdr : Bytes) (n : Nat) : Bytes := hdr.take (hdr.length - 4) ++ leBytes 4 n

/-- the state of one context object -/
structure Ctx where
  variant : Variant
  edgeBits : Nat
  /-- `global::proofsize()` of the thread -/
  proofsize : Nat
  /-- `params.proof_size` -/
  ctxProofSize : Nat
  /-- `params.siphash_keys` (`[0; 4]` until the first `set_header_nonce`) -/
  keys : Keys
  /-- solver side (Cuckatoo): has `graph.reset()` run since construction -/
  graphReset : Bool
  /-- solver side (Cuckatoo): `graph.solutions` -/
  solutions : List (List Nat)

/-- `new_cuck*_ctx(edge_bits, proof_size, ..)` -/
def Ctx.new (v : Variant) (eb ps ctxps : Nat) : Ctx :=
  { variant := v, edgeBits := eb, proofsize := ps, ctxProofSize := ctxps,
    keys := mkKeys 0 0 0 0, graphReset := false, solutions := [] }

/-- the calls that change a context -/
inductive CtxOp
  /-- `set_header_nonce(header, nonce, solve)` -/
  | seed (hdr : Bytes) (nonce : Option Nat) (solve : Bool)
  /-- `find_cycles()` with whatever it left in `graph.solutions` (the solver is not modelled; the
      four Cuckaroo* contexts `unimplemented!()` here and change nothing) -/
  | find (sols : List (List Nat))

def Ctx.step (c : Ctx) : CtxOp → Ctx
  | .seed hdr nonce solve =>
    let c := { c with keys := keysOfHeader hdr nonce }
    if solve && c.variant == .cuckatoo then
      { c with graphReset := true, solutions := [List.replicate c.ctxProofSize 0] }
    else c
  | .find sols => if c.variant == .cuckatoo then { c with solutions := sols } else c

/-- `ctx.verify(&Proof { nonces, .. })` -/
def Ctx.verify (c : Ctx) (nonces : List Nat) : Except Err Unit :=
  verifyOf c.variant (mkParams c.edgeBits c.proofsize c.ctxProofSize) (epOf c.variant c.keys c.edgeBits) nonces

/-- a context after a whole history of calls -/
def Ctx.run (c : Ctx) (ops : List CtxOp) : Ctx := ops.foldl Ctx.step c


/-! ### verifications one after the other on one thread

The code has no per-thread state behind `verify` (`siphash_block` builds its block of hashes in a
local vector, every context owns its keys): what a thread verified before does not enter.  The
model says so by construction; `Props/C05.lean verify_thread_history_independent` states it, the
run `pow order` checks it on the real code. -/

/-- one verification request: a fresh context of `variant` for `edgeBits`, seeded with
(`hdr`, `nonce`), asked to verify `proof` -/
structure VReq where
  variant : Variant
  edgeBits : Nat
  proofsize : Nat
  hdr : Bytes
  nonce : Option Nat
  proof : List Nat

/-- the verdict on one request -/
def verifyReq (r : VReq) : Except Err Unit :=
  ((Ctx.new r.variant r.edgeBits r.proofsize r.proofsize).step (.seed r.hdr r.nonce false)).verify r.proof

/-- the verdicts of a sequence of requests handled one after the other by one thread -/
def verifySeq (rs : List VReq) : List (Except Err Unit) := rs.map verifyReq

end GV.Pow
