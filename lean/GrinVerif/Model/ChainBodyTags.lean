import GrinVerif.Model.ChainBodyOrder
/-! The fault tags of a block as a STRUCTURED type, and `validateBody` / `withBodyOrder` over it.

`Model/Chain.lean` carries faults as strings (`"body:<class>"`, `"ksum:<class>"`, ...) because the
line protocol does; proving anything about `("body:" ++ e).startsWith "body:"` needs string-library
lemmas that core Lean 4.33 does not offer. Here the same two functions are written over
`STag` (the prefix is a constructor): `validateBodyS` mirrors `validateBody` line by line,
`withBodyOrderS` mirrors `Blk.withBodyOrder`. `Props/C06BodyOrder.lean` proves on this
representation that the ordered block is answered with the chosen - first failing - stage's error.
`STag.render` is the string form the driver reads; that `hasTag (render ..)` is the structured
look-up is the (unproved, run-observed) string-library fact. -/
namespace GV.Chain

inductive STag
  | body (e : Err)
  | ksum (e : Err)
  | other (raw : String)
deriving Repr, DecidableEq

def STag.isBody : STag → Bool
  | .body _ => true
  | _ => false

def STag.render : STag → String
  | .body e => "body:" ++ e
  | .ksum e => "ksum:" ++ e
  | .other r => r

/-- `hasTag b "body:"` -/
def firstBody : List STag → Option Err
  | [] => none
  | .body e :: _ => some e
  | _ :: ts => firstBody ts

/-- `hasTag b "ksum:"` -/
def firstKsum : List STag → Option Err
  | [] => none
  | .ksum e :: _ => some e
  | _ :: ts => firstKsum ts

/-- `validateBody` with the tags structured -/
def validateBodyS (p : Params) (outs : List OutDef) (b : Blk) (ts : List STag) (insVals : Nat) : Option Err :=
  match firstBody ts with
  | some e => some e
  | none =>
  if dupInBody b then some "Block:Transaction:Serialization"
  else if cutThroughViolation b then some "Block:Transaction:CutThrough"
  else if lockViolation b then some "Block:KernelLockHeight"
  else if nrdEraViolation b then some "Block:NRDKernelPreHF3"
  else if coinbaseMismatch p outs b then
    some (if (b.kers.filter (· == .cb)).length = 0 then "Block:Secp" else "Block:CoinbaseSumMismatch")
  else if valueMismatch p outs b insVals then some "Block:KernelSumMismatch"
  else firstKsum ts

/-- the body-stage fault a tag carries, with its stage -/
def STag.bodyFault : STag → Option (Nat × Err)
  | .body e => some (bodyStage e, e)
  | _ => none

/-- `bodyFaults` with the tags structured -/
def bodyFaultsS (b : Blk) (ts : List STag) : List (Nat × Err) :=
  ts.filterMap STag.bodyFault ++
  (if dupInBody b then [(2, "Block:Transaction:Serialization")] else []) ++
  (if cutThroughViolation b then [(3, "Block:Transaction:CutThrough")] else [])

/-- `Blk.withBodyOrder` with the tags structured -/
def withBodyOrderS (b : Blk) (ts : List STag) : List STag :=
  match firstFault (bodyFaultsS b ts) with
  | none => ts
  | some (_, e) => .body e :: ts.filter (fun t => !t.isBody)

end GV.Chain
