import GrinVerif.Model.Basic
/-! `Transaction::validate(weighting)` as the pool and the block pipeline call it (C01), with the
kernels' fee fields as the 64-bit words the reader delivers.

Transliterated (core/src/core/transaction.rs, core/src/core/committed.rs):
`FeeFields::fee` / `fee_shift` (layout {reserved: 20, fee_shift: 4, fee: 40}; `FeeFields::read`
and serde take ANY u64), `TransactionBody::fee` (saturating sum over fee-carrying kernels),
`fee_shift` (max), `shifted_fee`, `overage` (`fee as i64`), `weight_by_iok`, `verify_weight`
(the only place the `Weighting` is looked at), `verify_features`, `validate_read`,
`TransactionBody::validate`, `Transaction::validate`, `Committed::sum_commitments` /
`verify_kernel_sums` in the opening model (values; blinding-level faults as a tag).
Signature and range-proof faults are tags per kernel / output (DESIGN §2.3); sorting, NRD
duplicates and cut-through are one tag (`readFault`) evaluated where `validate_read` evaluates
them. -/

namespace GV.Chain.TxVal

/-- 2^40: fees are limited to 40 bits -/
def FEE_MOD : Nat := 1099511627776
/-- 2^4 -/
def SHIFT_MOD : Nat := 16
/-- 2^63, 2^64 -/
def I64_LIM : Nat := 9223372036854775808
def U64_MOD : Nat := 18446744073709551616

/-- `FeeFields::fee`: `self.0 & FEE_MASK` -/
def feeOf (word : Nat) : Nat := word % FEE_MOD
/-- `FeeFields::fee_shift`: `(self.0 >> FEE_BITS) & FEE_SHIFT_MASK` -/
def shiftOf (word : Nat) : Nat := word / FEE_MOD % SHIFT_MOD

inductive Weighting
  | asTransaction
  | asLimitedTransaction (maxWeight : Nat)
  | asBlock
  | noLimit
deriving Repr, DecidableEq

structure WParams where
  maxBlockWeight : Nat := 40000
  inputWeight : Nat := 1
  outputWeight : Nat := 21
  kernelWeight : Nat := 3

structure KerV where
  /-- the fee-field word as read from bytes (`none`: a coinbase kernel carries none) -/
  word : Option Nat
  sigBad : Bool := false
deriving Repr, Inhabited

structure OutV where
  v : Nat
  coinbase : Bool := false
  proofBad : Bool := false
deriving Repr, Inhabited

structure TxV where
  /-- values of the outputs being spent -/
  ins : List Nat
  outs : List OutV
  kers : List KerV
  /-- `verify_no_nrd_duplicates` / `verify_sorted` / `verify_cut_through` -/
  readFault : Option String := none
  /-- kernel excesses + offset do not open to the blinding sum -/
  blindFault : Bool := false
deriving Repr, Inhabited

def satAdd (a b : Nat) : Nat := if a + b < U64_MOD then a + b else U64_MOD - 1

/-- the fee words of the fee-carrying kernels -/
def words (t : TxV) : List Nat := t.kers.filterMap (·.word)

/-- `TransactionBody::fee` -/
def bodyFee (t : TxV) : Nat := (words t).foldl (fun acc w => satAdd acc (feeOf w)) 0
/-- `TransactionBody::fee_shift` -/
def bodyFeeShift (t : TxV) : Nat := (words t).foldl (fun acc w => max acc (shiftOf w)) 0
/-- `TransactionBody::shifted_fee` -/
def shiftedFee (t : TxV) : Nat := bodyFee t / 2 ^ bodyFeeShift t

/-- `x as i64` for a u64 -/
def toI64 (x : Nat) : Int := if x < I64_LIM then (x : Int) else (x : Int) - (U64_MOD : Int)

/-- `TransactionBody::overage` -/
def overage (t : TxV) : Int := toI64 (bodyFee t)

/-- `TransactionBody::weight` -/
def weight (P : WParams) (t : TxV) : Nat :=
  t.ins.length * P.inputWeight + t.outs.length * P.outputWeight + t.kers.length * P.kernelWeight

/-- `TransactionBody::verify_weight` -/
def verifyWeight (P : WParams) (w : Weighting) (t : TxV) : Option String :=
  let coinbaseWeight := P.outputWeight + P.kernelWeight
  match w with
  | .noLimit => none
  | .asTransaction => if weight P t > P.maxBlockWeight - coinbaseWeight then some "TooHeavy" else none
  | .asLimitedTransaction m =>
    if weight P t > min P.maxBlockWeight m - coinbaseWeight then some "TooHeavy" else none
  | .asBlock => if weight P t > P.maxBlockWeight then some "TooHeavy" else none

/-- `verify_features` -/
def verifyFeatures (t : TxV) : Option String :=
  if t.outs.any (·.coinbase) then some "InvalidOutputFeatures"
  else if t.kers.any (·.word.isNone) then some "InvalidKernelFeatures"
  else none

def sumNat (l : List Nat) : Nat := l.foldl (· + ·) 0

/-- `verify_kernel_sums(overage, offset)` in the opening model: the overage joins the outputs when
positive, the inputs when negative (`i64::MIN` has no absolute value: `InvalidValue`) -/
def verifyKernelSums (t : TxV) : Option String :=
  let ov := overage t
  if ov = -(I64_LIM : Int) then some "Committed:InvalidValue"
  else if (sumNat (t.outs.map (·.v)) : Int) + ov ≠ (sumNat t.ins : Int) ∨ t.blindFault
  then some "Committed:KernelSumMismatch" else none

/-- everything `Transaction::validate` does that does not look at the weighting, in its order
after the weight check -/
def validateRest (t : TxV) : Option String :=
  match t.readFault with
  | some e => some e
  | none =>
  if t.outs.any (·.proofBad) then some "Secp:InvalidRangeProof"
  else if t.kers.any (·.sigBad) then some "IncorrectSignature"
  else verifyKernelSums t

/-- `Transaction::validate(weighting)`: `verify_features`, then `body.validate(weighting)`
(= `validate_read(weighting)` starting with `verify_weight`, range proofs, signatures), then
`verify_kernel_sums` -/
def validate (P : WParams) (w : Weighting) (t : TxV) : Option String :=
  match verifyFeatures t with
  | some e => some e
  | none =>
  match verifyWeight P w t with
  | some e => some e
  | none => validateRest t

end GV.Chain.TxVal
