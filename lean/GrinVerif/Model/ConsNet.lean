import GrinVerif.Model.Cons
import GrinVerif.Model.PowSize
/-! The network side of the header rules (property C04): how a header enters the node.

Transliteration of
* `core/src/pow.rs::verify_size` as it is reached from the header rules: the verifier context is
  built by `global::create_pow_context(bh.height, bh.pow.edge_bits(), nonces.len(), MAX_SOLS)`, i.e.
  from the fields of the header ALONE — in particular at the graph size the header CLAIMS.  The
  verifier itself is the model of property C05 (`Model/PowSize.lean`, imported read-only); here it
  is no longer an input Boolean.  `edge_bits` is not part of the pre-PoW bytes, so a header can be
  relabelled without changing the graph's seed.
* `core/src/pow/cuckatoo.rs::Graph::new`: `max_edges >= u64::MAX / 2` → `Err` ("graph is to big to
  build"), reached from `new_cuckatoo_ctx` before anything is verified.
* `core/src/core/block.rs::UntrustedBlockHeader::read`, `UntrustedBlock::read`,
  `core/src/core/compact_block.rs::UntrustedCompactBlock::read` and the `BlockHeaders` state of
  `p2p/src/codec.rs::Codec::read_inner` (a `Headers` message is read header by header through
  `UntrustedBlockHeader`): all four go through the ONE function `netHeaderOk`.
* `core/src/pow/types.rs::Proof::read`: the conditions under which the proof part of a header can
  be read at all (`edge_bits` in 1..63, at least 8 bytes of packed nonces). -/

namespace GV.Cons
open GV GV.Gen

/-- the chain types of the two models -/
def powCt : ChainType → Pow.ChainType
  | .mainnet => .mainnet
  | .testnet => .testnet
  | .automatedTesting => .automated
  | .userTesting => .user

/-- a header as `read_block_header` hands it over: the fields the rules read (`h`), the bytes the
proof of work is seeded with (`bh.pre_pow()`) and the proof nonces as they were on the wire -/
structure NetHdr where
  h : Hdr
  prePow : Bytes
  nonces : List Nat

/-- what `pow::verify_size` can answer besides `Ok(())` -/
inductive VsErr
  /-- `Graph::new`: "graph is to big to build" -/
  | graphTooBig
  | size (e : Pow.SizeErr)
  deriving DecidableEq, Repr

instance : DecidableEq (Except VsErr Unit)
  | .ok (), .ok () => isTrue rfl
  | .error a, .error b =>
    if h : a = b then isTrue (by rw [h]) else isFalse (fun e => h (by injection e))
  | .ok _, .error _ => isFalse (fun e => by cases e)
  | .error _, .ok _ => isFalse (fun e => by cases e)

def VsErr.name : VsErr → String
  | .graphTooBig => "toobiggraph"
  | .size e => e.name

/-- `Graph::new(max_edges = 1 << edge_bits, ..)`: `max_edges >= u64::max_value() / 2`
(for `edge_bits ≤ 63`, which `Proof::read` enforces: only 63) -/
def graphTooBig (eb : Nat) : Bool := decide (2^eb ≥ U64MAX / 2)

/-- `pow::verify_size(&header)`.  Everything the context is built from — variant, edge mask, node
mask, siphash keys — is a function of `(chain type, n.h.height, n.h.edgeBits, n.prePow,
n.nonces.length)`: the CLAIMED edge bits, for every chain type (the testing types take the
Cuckatoo branch at the requested size). -/
def verifySizeHdr (ct : ChainType) (n : NetHdr) : Except VsErr Unit :=
  let r : Except VsErr Unit :=
    match Pow.verifySize (powCt ct) n.h.height n.h.edgeBits n.prePow n.nonces with
    | .ok () => .ok ()
    | .error e => .error (.size e)
  match Pow.selectVariant (powCt ct) n.h.height n.h.edgeBits with
  | some .cuckatoo => if graphTooBig n.h.edgeBits then .error .graphTooBig else r
  | _ => r

/-- `(ctx.pow_verifier)(header).is_ok()` / `verify_size(&header).is_ok()` -/
def NetHdr.powOk (ct : ChainType) (n : NetHdr) : Bool :=
  match verifySizeHdr ct n with
  | .ok () => true
  | .error _ => false

/-- `UntrustedBlockHeader::read` after `read_block_header`: the network-side header rules — future
time limit, scheduled version, allowed edge bits, proof of work on the claimed graph size, global
weight bound.  `now` is `Utc::now()` in whole seconds, `ftl` the future time limit. -/
def netHeaderOk (ct : ChainType) (now : Int) (ftl : Nat) (n : NetHdr) : Except ReadErr Unit :=
  untrustedHeaderCheck ct now ftl (n.powOk ct) n.h

/-- the ways a header reaches the node from the network (`p2p/src/msg.rs::Message`):
a bare header, one header of a `Headers` list, the header of a compact block, of a full block -/
inductive NetPath
  | header | headersItem | compactBlock | block
  deriving DecidableEq, Repr

/-- what a reader does once the header is through: nothing more for a header (`Ok`), the body read
and its `validate_read` for a (compact) block — `rest` is that outcome (`Ok` when there is none) -/
def netRead (_p : NetPath) (ct : ChainType) (now : Int) (ftl : Nat) (n : NetHdr)
    (rest : Except ReadErr Unit) : Except ReadErr Unit :=
  match netHeaderOk ct now ftl n with
  | .error e => .error e
  | .ok () => rest

/-- `UntrustedBlockHeader::read` -/
def readUntrustedHeader (ct : ChainType) (now : Int) (ftl : Nat) (n : NetHdr) : Except ReadErr Unit :=
  netRead .header ct now ftl n (.ok ())

/-- `UntrustedCompactBlock::read`: `UntrustedBlockHeader::read(reader)?`, nonce, body,
`cb.validate_read()` -/
def readUntrustedCompactBlock (ct : ChainType) (now : Int) (ftl : Nat) (n : NetHdr)
    (body : Except ReadErr Unit) : Except ReadErr Unit :=
  netRead .compactBlock ct now ftl n body

/-- `UntrustedBlock::read`: `UntrustedBlockHeader::read(reader)?`, `TransactionBody::read`,
`body.validate_read(Weighting::AsBlock)` -/
def readUntrustedBlock (ct : ChainType) (now : Int) (ftl : Nat) (n : NetHdr)
    (body : Except ReadErr Unit) : Except ReadErr Unit :=
  netRead .block ct now ftl n body

/-- the `BlockHeaders` state of `Codec::read_inner`: `let header: UntrustedBlockHeader =
reader.body()?` for every item in turn; the first refusal ends the whole read (`now` is the same
second for the whole message: the harness keeps each read inside one) -/
def readHeadersMsg (ct : ChainType) (now : Int) (ftl : Nat) : List NetHdr → Except ReadErr Unit
  | [] => .ok ()
  | n :: rest =>
    match netRead .headersItem ct now ftl n (.ok ()) with
    | .error e => .error e
    | .ok () => readHeadersMsg ct now ftl rest

/-- `Proof::read` can produce a proof for these edge bits under proof size `ps`:
`edge_bits == 0 || edge_bits > 63` → `CorruptedData`; `pack_len(edge_bits) < 8` → `CorruptedData` -/
def proofReadable (eb ps : Nat) : Bool :=
  eb != 0 && decide (eb ≤ 63) && decide ((eb * ps + 7) / 8 ≥ 8)

/-- `validate_pow_only` / the PoW stage of `validate_header` with the verifier computed:
`ctx.pow_verifier = pow::verify_size` (what `Chain::init` is given by the node) -/
def ctxForNet (ct : ChainType) (skip : Bool) (prev : Option Hdr) (window : List HDI) (n : NetHdr) : Ctx :=
  { ct := ct, denied := false, prev := prev, window := window, skipPow := skip, powOk := n.powOk ct }

end GV.Cons
