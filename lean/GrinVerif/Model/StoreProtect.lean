import GrinVerif.Model.Store
/-! What compaction receives from the chain (C08): `input_pos_to_rewind`
(`chain/src/txhashset/txhashset.rs`) over `Batch::get_block_input_bitmap` / `get_spent_index`
(`chain/src/store.rs`), as called by `TxHashSet::compact(horizon_header, batch)`:

    check_compact(horizon_header.output_mmr_size, input_pos_to_rewind(horizon_header, head_header))

Positions are 1-based throughout (`CommitPos.pos`, the bitmaps, the leaf set). -/
namespace GV.Store
open GV GV.Pmmr

/-- what the database answers for one header on the walk from the head down: its height and its
spent index (`none` = no record: `get_block_input_bitmap` is `Err` and the loop goes on without it) -/
structure BlkRec where
  height : Nat
  spent : Option (List Nat)
deriving Repr, DecidableEq

/-- `input_pos_to_rewind(block_header, head_header, batch)`; `path` = the headers reached by
`get_previous_header` starting with the head itself.  `while current.height > block_header.height`:
the head block is included, the horizon block is not. -/
def inputPosToRewind (horizonHeight : Nat) : List BlkRec → Bitmap
  | [] => []
  | b :: rest =>
    if b.height > horizonHeight then
      Bm.or (Bm.ofList (b.spent.getD [])) (inputPosToRewind horizonHeight rest)
    else []

end GV.Store
