import GrinVerif.Model.SerBlock
/-! # Store-side encodings: what the node writes to its MMR data files and to LMDB

* `HeaderEntry` and `PMMRable for BlockHeader` (`as_elmt`, `elmt_size`) — `core/src/core/block.rs`;
* the fixed element sizes `PMMRable::elmt_size()` of `OutputIdentifier` (`transaction.rs`),
  `RangeProof` (`ser.rs`), `BitmapChunk` (`bitmap_accumulator.rs`); `TxKernel` is variable size;
* `CommitPos` — `chain/src/types.rs`; the spent index of a block is a `Vec<CommitPos>`
  (`chain/src/store.rs::save_spent_index` / `get_spent_index`);
* `impl Readable for Vec<T>` (read items until the source is exhausted) and the tuple impls —
  `core/src/ser.rs`;
* `DeserializationMode::SkipPow` (`Proof::read` stops after the `edge_bits` byte; used by
  `ChainStore::get_block_header_skip_proof` for the difficulty iterator) — `core/src/pow/types.rs`;
* `MerkleProof` (`core/src/core/merkle_proof.rs`) and `Hash::from_vec` (`core/src/core/hash.rs`).

Same style as the other `Ser*` models: writers are functions to `Bytes`, readers are total parsers
over a byte slice. The hash function is a parameter (`H`), as everywhere. -/
namespace GV.Ser
open GV

/-! ## HeaderEntry (element of the header MMR data file) -/

structure HeaderEntry where
  /-- `hash: Hash` — the hash of the header the entry was made from -/
  hash : Bytes
  /-- `timestamp: u64` -/
  timestamp : Nat
  /-- `total_difficulty: Difficulty` -/
  totalDifficulty : Nat
  /-- `secondary_scaling: u32` -/
  secondaryScaling : Nat
  isSecondary : Bool
deriving DecidableEq, Repr

/-- `Writeable for HeaderEntry` (no dependence on version or mode) -/
def encHeaderEntry (e : HeaderEntry) : Bytes :=
  writeFixed e.hash ++ writeU64 e.timestamp ++ writeU64 e.totalDifficulty ++ writeU32 e.secondaryScaling
  ++ writeU8 (if e.isSecondary then 1 else 0)

/-- `Readable for HeaderEntry`: the flag is `read_u8()? != 0` -/
def decHeaderEntry : Parser HeaderEntry := fun bs =>
  andThen (decHash bs) fun hash r =>
  andThen (readU64 r) fun ts r =>
  andThen (readU64 r) fun td r =>
  andThen (readU32 r) fun ss r =>
  andThen (readU8 r) fun flag r =>
  .ok ({ hash := hash, timestamp := ts, totalDifficulty := td, secondaryScaling := ss,
         isSecondary := flag != 0 }, r)

/-- `Hashed for HeaderEntry`: the stored hash, nothing is computed -/
def HeaderEntry.identityHash (e : HeaderEntry) : Bytes := e.hash

/-- `timestamp.timestamp() as u64` (i64 → u64 cast: two's complement) -/
def i64AsU64 (z : Int) : Nat := (z % 2^64).toNat

/-- `ProofOfWork::is_secondary` -/
def ProofOfWork.isSecondary (p : ProofOfWork) : Bool := p.proof.edgeBits == GV.Gen.SECOND_POW_EDGE_BITS

/-- `PMMRable for BlockHeader :: as_elmt` (`H` = blake2b-256) -/
def BlockHeader.asElmt (H : Bytes → Bytes) (proofSize : Nat) (h : BlockHeader) : HeaderEntry :=
  { hash := H (h.hashBytes proofSize), timestamp := i64AsU64 h.timestamp,
    totalDifficulty := h.pow.totalDifficulty, secondaryScaling := h.pow.secondaryScaling,
    isSecondary := h.pow.isSecondary }

/-! ## `PMMRable::elmt_size()` -/

/-- `Hash::LEN + 8 + Difficulty::LEN + 4 + 1` -/
def HEADER_ENTRY_SIZE : Nat := HASH_SIZE + 8 + 8 + 4 + 1
/-- `1 + PEDERSEN_COMMITMENT_SIZE` -/
def OUTPUT_ID_SIZE : Nat := 1 + COMMIT_SIZE
/-- `8 + MAX_PROOF_SIZE` -/
def RANGE_PROOF_ELMT_SIZE : Nat := 8 + MAX_PROOF_SIZE
/-- `BitmapChunk::LEN_BYTES` (1024 bits) -/
def BITMAP_CHUNK_SIZE : Nat := 128

/-! ## CommitPos and the spent index -/

structure CommitPos where
  pos : Nat
  height : Nat
deriving DecidableEq, Repr

def encCommitPos (c : CommitPos) : Bytes := writeU64 c.pos ++ writeU64 c.height

def decCommitPos : Parser CommitPos := fun bs =>
  andThen (readU64 bs) fun pos r =>
  andThen (readU64 r) fun height r =>
  .ok ({ pos := pos, height := height }, r)

def COMMIT_POS_SIZE : Nat := 16

/-! ## `impl Readable for Vec<T>`: items until the source is exhausted

```rust
loop { match T::read(reader) { Ok(e) => buf.push(e),
       Err(IOErr(_, UnexpectedEof)) => break, Err(e) => return Err(e) } }
```
There is no count and no cap. An item cut short by the end of the source ends the loop like a
clean end does (the partial item is dropped); any other error is returned. A `T::read` that
succeeds without consuming anything (`BitmapChunk::read`) would never leave the loop: the fuel
version returns `none` for that. -/

def readVecFuel {α : Type} (p : Parser α) : Nat → Bytes → Option (Except SerErr (List α))
  | 0, _ => none
  | f+1, bs =>
    match p bs with
    | .ok (x, r) =>
      match readVecFuel p f r with
      | some (.ok xs) => some (.ok (x :: xs))
      | some (.error e) => some (.error e)
      | none => none
    | .error .ioEof => some (.ok [])
    | .error e => some (.error e)

/-- `Vec::<T>::read` over a byte slice (`none` = the loop does not terminate) -/
def readVec {α : Type} (p : Parser α) (bs : Bytes) : Option (Except SerErr (List α)) :=
  readVecFuel p (bs.length + 1) bs

/-- as a parser: after the loop the slice reader is exhausted (`read_exact` on a short `&[u8]`
moves to its end) -/
def decVec {α : Type} (p : Parser α) : Parser (List α) := fun bs =>
  match readVec p bs with
  | some (.ok l) => .ok (l, [])
  | some (.error e) => .error e
  | none => .error .corrupted

/-- `get_spent_index`: `Vec<CommitPos>` -/
def decSpentIndex : Parser (List CommitPos) := decVec decCommitPos
/-- `save_spent_index`: `spent.to_vec()` through `Writeable for Vec<T>` -/
def encSpentIndex (l : List CommitPos) : Bytes := writeMulti encCommitPos l

/-- `Readable / Writeable for (A, B)` -/
def decPair {α β : Type} (pa : Parser α) (pb : Parser β) : Parser (α × β) := fun bs =>
  andThen (pa bs) fun a r =>
  andThen (pb r) fun b r =>
  .ok ((a, b), r)
def encPair {α β : Type} (wa : α → Bytes) (wb : β → Bytes) (x : α × β) : Bytes := wa x.1 ++ wb x.2

/-! ## `DeserializationMode::SkipPow` -/

/-- `Readable for Proof` with `reader.deserialization_mode() == SkipPow`: the `edge_bits` byte is
read and range-checked, the packed nonces are left unread, `nonces: vec![]` -/
def decProofSkip : Parser Proof := fun bs =>
  andThen (readU8 bs) fun eb r =>
    if eb = 0 ∨ eb > 63 then .error .corrupted
    else .ok ({ edgeBits := eb, nonces := [] }, r)

def decProofOfWorkSkip : Parser ProofOfWork := fun bs =>
  andThen (readU64 bs) fun td r =>
  andThen (readU32 r) fun ss r =>
  andThen (readU64 r) fun nonce r =>
  andThen (decProofSkip r) fun pf r =>
  .ok ({ totalDifficulty := td, secondaryScaling := ss, nonce := nonce, proof := pf }, r)

/-- `read_block_header` under `SkipPow` -/
def decBlockHeaderSkip : Parser BlockHeader := fun bs =>
  andThen (readU16 bs) fun version r =>
  andThen (readU64 r) fun height r =>
  andThen (readI64 r) fun timestamp r =>
  andThen (decHash r) fun prevHash r =>
  andThen (decHash r) fun prevRoot r =>
  andThen (decHash r) fun outputRoot r =>
  andThen (decHash r) fun rangeProofRoot r =>
  andThen (decHash r) fun kernelRoot r =>
  andThen (decBlind r) fun tko r =>
  andThen (readU64 r) fun oms r =>
  andThen (readU64 r) fun kms r =>
  andThen (decProofOfWorkSkip r) fun pow r =>
    if timestamp > TS_MAX ∨ timestamp < TS_MIN then .error .corrupted
    else .ok ({ version := version, height := height, prevHash := prevHash, prevRoot := prevRoot,
                timestamp := timestamp, outputRoot := outputRoot, rangeProofRoot := rangeProofRoot,
                kernelRoot := kernelRoot, totalKernelOffset := tko, outputMmrSize := oms,
                kernelMmrSize := kms, pow := pow }, r)

/-- the header a `SkipPow` read returns for `h`: everything but the nonces -/
def BlockHeader.withoutNonces (h : BlockHeader) : BlockHeader :=
  { h with pow := { h.pow with proof := { h.pow.proof with nonces := [] } } }

/-! ## MerkleProof -/

structure MerkleProof where
  mmrSize : Nat
  path : List Bytes
deriving DecidableEq, Repr

def encMerkleProof (p : MerkleProof) : Bytes :=
  writeU64 p.mmrSize ++ writeU64 p.path.length ++ writeMulti writeFixed p.path

/-- `for _ in 0..path_len { Hash::read(reader)? }`: the first failure is returned -/
def readHashes : Nat → Parser (List Bytes)
  | 0, bs => .ok ([], bs)
  | n+1, bs =>
    andThen (decHash bs) fun h r =>
    andThen (readHashes n r) fun hs r =>
    .ok (h :: hs, r)

def decMerkleProof : Parser MerkleProof := fun bs =>
  andThen (readU64 bs) fun size r =>
  andThen (readU64 r) fun n r =>
  andThen (readHashes n r) fun path r =>
  .ok ({ mmrSize := size, path := path }, r)

/-! ## `Hash::from_vec` -/

/-- copies `min(v.len(), 32)` bytes into a zeroed array: short input is zero-padded, long input
is truncated -/
def hashFromVec (v : Bytes) : Bytes := v.take HASH_SIZE ++ List.replicate (HASH_SIZE - v.length) 0

end GV.Ser
