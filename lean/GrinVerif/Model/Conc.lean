/-! # Concurrency model for C17 (import-free)

Rust anchors: `/repo/chain/src/chain.rs` (`impl Chain`: every `pub fn`, the guards it takes on
`self.header_pmmr`, `self.txhashset`, `self.store.batch()`, `self.orphans.{orphans,height_idx}`,
`self.pibd_segmenter`, `self.pibd_desegmenter`, `self.denylist`), `/repo/util/src/lib.rs`
(`RwLock` = `parking_lot::RwLock`: not re-entrant, a parked writer blocks new readers),
`/repo/store/src/lmdb.rs` (`Store::batch` = one LMDB write transaction = exclusive).

Three parts.
1. The lock alphabet, the event type of the regenerated lock table (`Gen/Locks.lean`) and the
   executable discipline checker `respectsOrder`.
2. A transition system: any number of threads, each running a list of acquire / release events
   over readers-writer locks (generic in the lock alphabet), with a *policy* parameter that may
   block a reader whenever a writer is waiting for the same lock (writer preference of any
   strength).  `Deadlocked` = some thread unfinished and no thread enabled.
3. A small model of the commit protocol of `txhashset::extending` + `Batch::commit` at the
   granularity "private work / MMR sync / LMDB commit" (`Commit` namespace).

What this is NOT: a model of Rust, of parking_lot's fairness/eventual-fairness timers, of the
`resizing` gate in lmdb.rs (`Store::enter_tx` spins while a map resize waits for open
transactions to close), or of anything that takes these locks outside chain.rs /
segmenter.rs through the `Arc`s handed out by `Chain::txhashset()` / `header_pmmr()`. -/
namespace GV.Conc

/-- The fixed lock alphabet. `hp` = `Chain.header_pmmr`, `ts` = `Chain.txhashset`,
`batch` = the LMDB write transaction (`store.batch()`), `orph`/`hidx` =
`OrphanBlockPool.{orphans,height_idx}`, `segm`/`deseg` = `Chain.pibd_{segmenter,desegmenter}`,
`deny` = `Chain.denylist`. -/
inductive Lock where
  | orph | hidx | segm | deseg | hp | ts | batch | deny
  deriving DecidableEq, Repr

inductive Mode where
  | R | W
  deriving DecidableEq, Repr

/-- non-lock events the translator records: `batch.commit()` (the point where an op publishes to
LMDB) and a call into `self.adapter` (a callback into code outside the chain crate) -/
inductive Mark where
  | commit | callback
  /-- `self.store.<read>(…)`: a read of LMDB through a read transaction of its own -/
  | dbread
  /-- a use of the sync-status object handed into the chain crate (`status: &dyn TxHashsetWriteStatus` of
  `txhashset_write`, `status: Arc<SyncState>` of the desegmenter): a method call on it or handing it to
  a callee.  At node level this is `SyncState::update` (chain/src/types.rs), which takes the
  `SyncState.current` lock - resolved in `Gen/LocksNode.lean` -/
  | status
  deriving DecidableEq, Repr

/-- one event of a thread's program, generic in the lock alphabet -/
inductive Ev (L : Type) where
  | acq (l : L) (m : Mode)
  | rel (l : L)
  | mark (k : Mark)
  deriving DecidableEq, Repr

abbrev LockEv := Ev Lock

/-- The global acquisition order. Read off chain.rs: `header_pmmr` before `txhashset` before
`store.batch()` before `denylist` (read inside `new_ctx` / `rewind_and_apply_fork` under all
three); `orphans.orphans` before `orphans.height_idx`; the PIBD caches are leaves that are never
nested with anything. -/
def Lock.rank : Lock → Nat
  | .orph => 0 | .hidx => 1 | .segm => 2 | .deseg => 3 | .hp => 4 | .ts => 5 | .batch => 6 | .deny => 7

def Lock.name : Lock → String
  | .orph => "orph" | .hidx => "hidx" | .segm => "segm" | .deseg => "deseg"
  | .hp => "hp" | .ts => "ts" | .batch => "batch" | .deny => "deny"

def Mode.name : Mode → String
  | .R => "R" | .W => "W"

section generic
variable {L : Type} [DecidableEq L]

/-- drop the guard on `l` -/
def release (l : L) (held : List (L × Mode)) : List (L × Mode) :=
  held.filter (fun h => !decide (h.1 = l))

/-- The discipline, checked along a program starting from the guards `held`:
every acquire is of a lock whose rank is strictly above every lock currently held (hence in
particular never of a lock already held, in any mode — parking_lot locks are not re-entrant, and
with a writer parked in between even read-after-read by one thread deadlocks); every release is
of a held lock; at the end nothing is held. -/
def checkFrom (rank : L → Nat) : List (L × Mode) → List (Ev L) → Bool
  | held, [] => held.isEmpty
  | held, .acq l m :: rest => held.all (fun h => decide (rank h.1 < rank l)) && checkFrom rank ((l, m) :: held) rest
  | held, .rel l :: rest => held.any (fun h => decide (h.1 = l)) && checkFrom rank (release l held) rest
  | held, .mark _ :: rest => checkFrom rank held rest

/-- the guards held after running a program prefix (no checking) -/
def heldAfter : List (L × Mode) → List (Ev L) → List (L × Mode)
  | held, [] => held
  | held, .acq l m :: rest => heldAfter ((l, m) :: held) rest
  | held, .rel l :: rest => heldAfter (release l held) rest
  | held, .mark _ :: rest => heldAfter held rest

/-- every `mark k` event of the program happens while `ok held` -/
def marksUnder (k : Mark) (ok : List (L × Mode) → Bool) : List (L × Mode) → List (Ev L) → Bool
  | _, [] => true
  | held, .acq l m :: rest => marksUnder k ok ((l, m) :: held) rest
  | held, .rel l :: rest => marksUnder k ok (release l held) rest
  | held, .mark k' :: rest => (if k' = k then ok held else true) && marksUnder k ok held rest

/-! ## Transition system -/

structure Thread (L : Type) where
  prog : List (Ev L)
  held : List (L × Mode)
  deriving Repr

abbrev State (L : Type) := List (Thread L)

/-- A reader may be refused although no writer holds the lock: `P s i l` says thread `i`'s read
acquisition of `l` is currently refused. Admissible policies refuse only while some thread is
waiting to write-lock `l` (`PolicyOK`). `fun _ _ _ => False` = no writer preference;
`strictWP` = every reader waits behind any waiting writer (parking_lot once a writer is parked). -/
abbrev Policy (L : Type) := State L → Nat → L → Prop

def PolicyOK (P : Policy L) : Prop :=
  ∀ s i l, P s i l → ∃ t ∈ s, t.prog.head? = some (.acq l .W)

def strictWP : Policy L := fun s _ l => ∃ t ∈ s, t.prog.head? = some (.acq l .W)

/-- thread `i` can take its next event -/
def Enabled (P : Policy L) (s : State L) (i : Nat) : Prop :=
  match s[i]? with
  | none => False
  | some t =>
    match t.prog with
    | [] => False
    | .acq l .W :: _ => ∀ u ∈ s, ∀ h ∈ u.held, h.1 ≠ l
    | .acq l .R :: _ => (∀ u ∈ s, (l, Mode.W) ∉ u.held) ∧ ¬ P s i l
    | .rel _ :: _ => True
    | .mark _ :: _ => True

/-- the state after thread `i` took its next event -/
def fire (s : State L) (i : Nat) : State L :=
  match s[i]? with
  | none => s
  | some t =>
    match t.prog with
    | [] => s
    | .acq l m :: rest => s.set i ⟨rest, (l, m) :: t.held⟩
    | .rel l :: rest => s.set i ⟨rest, release l t.held⟩
    | .mark _ :: rest => s.set i ⟨rest, t.held⟩

def Step (P : Policy L) (s s' : State L) : Prop := ∃ i, Enabled P s i ∧ s' = fire s i

inductive Reach (P : Policy L) (s0 : State L) : State L → Prop where
  | refl : Reach P s0 s0
  | step {s s'} : Reach P s0 s → Step P s s' → Reach P s0 s'

def Finished (s : State L) : Prop := ∀ t ∈ s, t.prog = []

/-- some thread still has work and no thread can move -/
def Deadlocked (P : Policy L) (s : State L) : Prop :=
  (∃ t ∈ s, t.prog ≠ []) ∧ ∀ i, ¬ Enabled P s i

def init (progs : List (List (Ev L))) : State L := progs.map (fun p => ⟨p, []⟩)

/-- events still to run -/
def remaining : State L → Nat
  | [] => 0
  | t :: s => t.prog.length + remaining s

/-- the representation invariant carried by every reachable state when the programs respect the order -/
def Inv (rank : L → Nat) (s : State L) : Prop := ∀ t ∈ s, checkFrom rank t.held t.prog = true

end generic

/-- The checker applied to the concrete alphabet and order, on a whole op. -/
def respectsOrder (p : List LockEv) : Bool := checkFrom Lock.rank [] p

/-- a `batch.commit()` is only ever executed while the thread write-holds `header_pmmr` or `txhashset`
(and holds the batch) -/
def commitsUnderWriteLock (p : List LockEv) : Bool :=
  marksUnder .commit (fun held => held.any (fun h => decide (h.1 = Lock.batch)) &&
    (held.any (fun h => decide (h = (Lock.hp, Mode.W))) || held.any (fun h => decide (h = (Lock.ts, Mode.W))))) [] p

/-- stronger: the commit happens while `txhashset` is write-held (what the commit-protocol model
assumes: a reader holding `txhashset.read()` can never overlap a publication) -/
def commitsUnderTsWrite (p : List LockEv) : Bool :=
  marksUnder .commit (fun held => held.any (fun h => decide (h = (Lock.ts, Mode.W)))) [] p

/-- a callback into `self.adapter` is made with no chain lock held -/
def callbacksUnlocked (p : List LockEv) : Bool :=
  marksUnder .callback (fun held => held.isEmpty) [] p

/-- the op takes a guard on `txhashset` (either mode) at some point -/
def takesTs (p : List LockEv) : Bool :=
  p.any (fun e => match e with | .acq .ts _ => true | _ => false)

def isLockFree (p : List LockEv) : Bool :=
  p.all (fun e => match e with | .acq _ _ => false | _ => true)

def LockEv.show : LockEv → String
  | .acq l m => "+" ++ l.name ++ "." ++ m.name
  | .rel l => "-" ++ l.name
  | .mark .commit => "!commit"
  | .mark .callback => "!callback"
  | .mark .dbread => "!dbread"
  | .mark .status => "!status"

def showEvs (p : List LockEv) : String := ",".intercalate (p.map LockEv.show)

/-! ## Views: how many separate snapshots of the chain state an op combines

A maximal interval during which the thread holds `header_pmmr` or `txhashset` (either mode) is ONE
view: no op of the table commits while another thread holds `txhashset` (`table_commits_under_ts_write`),
and every writer but `compact` needs `header_pmmr.write()`.  A lock-free LMDB read (`!dbread`)
outside such an interval is a view of its own (one LMDB read transaction = one snapshot).  An op
with `views ≤ 1` reads everything it returns from one committed state; an op with more combines
several, which may belong to different committed states (in commit order: `observations_monotone`).
Over-approximation: branches are emitted one after the other, so an op that takes one of two
alternative regions counts 2. -/

def isStateLock : Lock → Bool
  | .hp => true | .ts => true | _ => false

/-- `depth` = number of state locks held -/
def viewsFrom : Nat → List LockEv → Nat
  | _, [] => 0
  | d, .acq l _ :: rest => if isStateLock l then (if d = 0 then 1 else 0) + viewsFrom (d + 1) rest else viewsFrom d rest
  | d, .rel l :: rest => if isStateLock l then viewsFrom (d - 1) rest else viewsFrom d rest
  | d, .mark .dbread :: rest => (if d = 0 then 1 else 0) + viewsFrom d rest
  | d, .mark _ :: rest => viewsFrom d rest

def views (p : List LockEv) : Nat := viewsFrom 0 p

/-! ## Look-ups: which ops combine a look-up outside the locks with one inside (torn-read shape)

`Gen/Locks.lean` carries, per entry, the store look-ups made OUTSIDE any `header_pmmr` / `txhashset` hold
(`dbReadsOutside`, by store method name).  A look-up keyed by block hash (`immutableLookups`) answers the
same for ever (the entry can only disappear through compaction); the others (`head`, `header_head`,
`tail`, `head_header`, the `output_pos` index, …) change with every commit.  An op has the TORN-READ
SHAPE when it combines look-ups of mutable state that a writer's critical section can fall between:
two or more lock holds, or one lock hold plus a mutable look-up outside it, or (lock-free) two or more
mutable look-ups. -/

/-- number of maximal intervals during which the op holds `header_pmmr` or `txhashset` -/
def holdsOf (p : List LockEv) : Nat :=
  views (p.filter (fun e => match e with | .mark .dbread => false | _ => true))

/-- store methods whose answer for a given argument never changes (content-addressed by block hash) -/
def immutableLookups : List String :=
  ["get_block", "get_block_header", "get_previous_header", "get_block_sums", "block_exists", "get_block_input_bitmap"]

def mutableOnly (names : List String) : List String := names.filter (fun n => !immutableLookups.contains n)

/-- the torn-read shape, from the hold count and the names of the look-ups made outside the holds -/
def tornShape (holds : Nat) (outside : List String) : Bool :=
  let mo := mutableOnly outside
  decide (holds ≥ 2) || (holds == 1 && !mo.isEmpty) || (holds == 0 && decide (mo.length ≥ 2))

/-! ## Executable scheduler (strict writer preference) used by the driver -/

/-- Bool version of `Enabled strictWP` on the concrete alphabet -/
def enabledB (s : State Lock) (i : Nat) : Bool :=
  match s[i]? with
  | none => false
  | some t =>
    match t.prog with
    | [] => false
    | .acq l .W :: _ => s.all (fun u => u.held.all (fun h => !decide (h.1 = l)))
    | .acq l .R :: _ => s.all (fun u => !u.held.contains (l, Mode.W)) &&
        !s.any (fun u => u.prog.head? == some (.acq l .W))
    | .rel _ :: _ => true
    | .mark _ :: _ => true

def lcg (x : Nat) : Nat := (x * 6364136223846793005 + 1442695040888963407) % 18446744073709551616

/-- run one pseudo-random schedule; `none` = every thread finished, `some i` = stuck with thread
`i` unfinished (a deadlock of the model), fuel exhaustion reported as `some 999999` -/
def simulate : Nat → Nat → State Lock → Option Nat
  | 0, _, _ => some 999999
  | fuel + 1, x, s =>
    let en := (List.range s.length).filter (enabledB s)
    match en with
    | [] =>
      match (List.range s.length).find? (fun i => match s[i]? with | some t => !t.prog.isEmpty | none => false) with
      | none => none
      | some i => some i
    | _ =>
      let x' := lcg x
      let i := en.getD ((x' / 65536) % en.length) 0
      simulate fuel x' (fire s i)

/-- exhaustive search (no state merging; for the tiny programs of the harness self-test): is a
deadlocked state reachable under strict writer preference? -/
def deadlockReachable : Nat → State Lock → Bool
  | 0, _ => false
  | fuel + 1, s =>
    let en := (List.range s.length).filter (enabledB s)
    if en.isEmpty then s.any (fun t => !t.prog.isEmpty)
    else en.any (fun i => deadlockReachable fuel (fire s i))

/-- lock class of an op, as the harness states it on `conc opclass` lines -/
def opClass (p : List LockEv) : String :=
  if isLockFree p then "lockfree"
  else if p.any (fun e => match e with | .acq .hp .W => true | .acq .ts .W => true | _ => false) then "write"
  else if takesTs p then "read-ts"
  else if p.any (fun e => match e with | .acq .hp _ => true | _ => false) then "read-hp"
  else "other"

/-! ## Commit protocol (op granularity and one level below)

`txhashset::extending` (txhashset.rs) under `header_pmmr.write()`, `txhashset.write()` and a
`store.batch()`: the closure works on a child batch and on the MMR backends' *unsynced* tails;
on success `child_batch.commit()`, then the three `backend.sync()`, and — back in chain.rs —
`batch.commit()` publishes the LMDB part (head included). On failure everything is discarded.

Model: shared state = `db` (LMDB committed, what `Chain::head()`, `get_block`, … read with a
fresh read transaction, no chain lock) and `mmr` (the synced MMR state, read only through
`txhashset.read()`/`.write()` guards); `ts` = state of the txhashset RwLock; each writer has a
private working copy. Writer micro-steps: lock → work (private) → sync (publish mmr) →
commit (publish db) → unlock, or lock → work → abort. Reader under the lock: lock → read (both
components) → unlock. Lock-free reader: read `db` at any time. -/
namespace Commit

/-- abstract committed states; `D` = LMDB part, `M` = MMR part -/
structure Shared (D M : Type) where
  db : D
  mmr : M

inductive TsLock where
  | free
  | readers (n : Nat)        -- n ≥ 1 readers inside
  | writer (tid : Nat)
  deriving DecidableEq, Repr

/-- phase of a writer op -/
inductive WPhase (D M : Type) where
  | idle
  | working (base w : Shared D M)      -- holds ts.W; private copy `w` of the op that started from `base`
  | synced (base w : Shared D M)       -- MMR files synced (mmr published), LMDB not yet committed
  | committed                          -- both published, still holds ts.W

structure St (D M : Type) where
  sh : Shared D M
  ts : TsLock
  /-- writer phases, by thread id -/
  wr : Nat → WPhase D M
  /-- number of ops committed so far (index into the sequential history) -/
  k : Nat
  /-- the sequential history: state after each committed op, newest first (last = initial state) -/
  hist : List (Shared D M)
  /-- for each committed op (newest first) the state its private copy was taken from -/
  bases : List (Shared D M)

/-- observations made by readers -/
inductive Obs (D M : Type) where
  | locked (d : D) (m : M)   -- read under txhashset.read(): both components
  | lockfree (d : D)         -- read of LMDB only, no chain lock

/-- one step of the commit-protocol system. `f` is the op's effect on a private copy. -/
inductive CStep {D M : Type} : St D M → Option (Obs D M) → St D M → Prop where
  | wlock (s : St D M) (tid : Nat) : s.ts = .free → s.wr tid = .idle →
      CStep s none { s with ts := .writer tid, wr := fun j => if j = tid then .working s.sh s.sh else s.wr j }
  | work (s : St D M) (tid : Nat) (b w : Shared D M) (f : Shared D M → Shared D M) : s.wr tid = .working b w →
      CStep s none { s with wr := fun j => if j = tid then .working b (f w) else s.wr j }
  | sync (s : St D M) (tid : Nat) (b w : Shared D M) : s.wr tid = .working b w →
      CStep s none { s with sh := { s.sh with mmr := w.mmr }, wr := fun j => if j = tid then .synced b w else s.wr j }
  | commit (s : St D M) (tid : Nat) (b w : Shared D M) : s.wr tid = .synced b w →
      CStep s none { s with sh := w, k := s.k + 1, hist := w :: s.hist, bases := b :: s.bases,
                            wr := fun j => if j = tid then .committed else s.wr j }
  | abort (s : St D M) (tid : Nat) (b w : Shared D M) : s.wr tid = .working b w →
      CStep s none { s with ts := .free, wr := fun j => if j = tid then .idle else s.wr j }
  | wunlock (s : St D M) (tid : Nat) : s.wr tid = .committed →
      CStep s none { s with ts := .free, wr := fun j => if j = tid then .idle else s.wr j }
  | rlock0 (s : St D M) : s.ts = .free → CStep s none { s with ts := .readers 1 }
  | rlock (s : St D M) (n : Nat) : s.ts = .readers n → CStep s none { s with ts := .readers (n + 1) }
  | rread (s : St D M) (n : Nat) : s.ts = .readers n → CStep s (some (.locked s.sh.db s.sh.mmr)) s
  | runlock1 (s : St D M) : s.ts = .readers 1 → CStep s none { s with ts := .free }
  | runlock (s : St D M) (n : Nat) : s.ts = .readers (n + 2) → CStep s none { s with ts := .readers (n + 1) }
  | lfread (s : St D M) : CStep s (some (.lockfree s.sh.db)) s

def start {D M : Type} (s0 : Shared D M) : St D M :=
  { sh := s0, ts := .free, wr := fun _ => .idle, k := 0, hist := [s0], bases := [] }

/-- runs with their observation logs (newest first); each observation is tagged with the number of
ops committed at the time it was made -/
inductive Run {D M : Type} (s0 : Shared D M) : St D M → List (Nat × Obs D M) → Prop where
  | nil : Run s0 (start s0) []
  | silent {s s' log} : Run s0 s log → CStep s none s' → Run s0 s' log
  | obs {s s' log o} : Run s0 s log → CStep s (some o) s' → Run s0 s' ((s.k, o) :: log)

/-- what an observation claims about a committed state -/
def obsMatches {D M : Type} : Obs D M → Shared D M → Prop
  | .locked d m, c => d = c.db ∧ m = c.mmr
  | .lockfree d, c => d = c.db

/-- `hist = [h_k, …, h_1, s0]`, `bases = [b_k, …, b_1]` and every `b_j = h_{j-1}` -/
def serialHist {D M : Type} (s0 : Shared D M) : List (Shared D M) → List (Shared D M) → Prop
  | [], [h] => h = s0
  | b :: bs, _ :: h' :: hs => b = h' ∧ serialHist s0 bs (h' :: hs)
  | _, _ => False

end Commit

end GV.Conc
