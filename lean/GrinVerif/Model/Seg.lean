import GrinVerif.Model.Pmmr
/-! Model of `core/src/core/pmmr/segment.rs`: `SegmentIdentifier` arithmetic (release-build
u64 semantics: `1 << height` masks the shift to 6 bits, `*`/`+`/`-` wrap), `Segment::from_pmmr`
over a readable MMR view in any prune state, `Segment::root` (stack machine over the position
range, optional bitmap), `first_unpruned_parent`, `SegmentProof::{generate, reconstruct_root,
validate, validate_with}`, and the decision logic of `Desegmenter::validate_complete_state`.

Positions are 0-based (`pos0`) unless the Rust name says otherwise.  Every `unwrap` on `None` is an explicit `Res.panic` (after the repair `22ca8fd14` of
`Segment::root` only `bitmap.unwrap()` in `first_unpruned_parent` is left, and it is unreachable:
`segment_validate_no_panic`).
Hash function generic (`GV.Pmmr.HashFn`).  Import-free apart from `Model.Pmmr`. -/

namespace GV.Seg
open GV GV.Pmmr

/-- `SegmentError` -/
inductive SegErr
  | missingLeaf (pos : Nat)
  | missingHash (pos : Nat)
  | nonExistent
  | mismatch
deriving DecidableEq, Repr

/-- outcome of a call: a value, a `SegmentError`, or a panic of the real code -/
inductive Res (β : Type)
  | ok (v : β)
  | err (e : SegErr)
  | panic
deriving DecidableEq, Repr

/-! ## `SegmentIdentifier` -/

/-- `SegmentIdentifier { height: u8, idx: u64 }` -/
structure Ident where
  height : Nat
  idx : Nat
deriving DecidableEq, Repr

/-- `insertion_to_pmmr_index` on u64 in release: `2 * n - n.count_ones()` with wrapping ops -/
def ins2pmmrW (n : Nat) : Nat := subW (mulW 2 n) (popcount n)

namespace Ident

/-- `segment_capacity`: `1 << self.height` (shift amount masked to 6 bits in release) -/
def capacity (id : Ident) : Nat := shlW 1 id.height

/-- `leaf_offset`: `self.idx * self.segment_capacity()` (wrapping) -/
def leafOffset (id : Ident) : Nat := mulW id.idx id.capacity

/-- `segment_unpruned_size` -/
def unprunedSize (id : Ident) (mmrSize : Nat) : Nat :=
  min id.capacity (satSub (nLeaves mmrSize) id.leafOffset)

/-- `full_segment` -/
def full (id : Ident) (mmrSize : Nat) : Bool := id.unprunedSize mmrSize == id.capacity

/-- `segment_pos_range` (inclusive) -/
def posRange (id : Ident) (mmrSize : Nat) : Nat × Nat :=
  let segmentSize := id.unprunedSize mmrSize
  let off := id.leafOffset
  let first := ins2pmmrW off
  let last :=
    if id.full mmrSize then addW (ins2pmmrW (subW (addW off segmentSize) 1)) id.height
    else subW mmrSize 1
  (first, last)

/-- `count_segments_required` -/
def countSegmentsRequired (targetMmrSize height : Nat) : Nat :=
  let d := shlW 1 height
  (subW (addW (nLeaves targetMmrSize) d) 1) / d

/-- the positions `first..=last` the loops of `from_pmmr` and `root` run over -/
def positions (id : Ident) (mmrSize : Nat) : List Nat :=
  let r := id.posRange mmrSize
  List.range' r.1 (r.2 + 1 - r.1)

/-- the peaks inside the segment's range, right to left (what the bagging loop at the end of
`Segment::root` walks for the final, not full, segment) -/
def peaksIn (id : Ident) (mmrSize : Nat) : List Nat :=
  ((peaks mmrSize).filter fun p => (id.posRange mmrSize).1 ≤ p && p ≤ (id.posRange mmrSize).2).reverse

end Ident

/-! ## `Segment<T>`

Modelling note: functions that branch on a value take it as a parameter (`…With` / `…At`
variants) and the Rust-named function instantiates the parameters with the identifier
arithmetic.  This is the same computation; it keeps the wrapped-u64 arithmetic out of the
`match` discriminants (the kernel would otherwise try to evaluate `% 2^64` on variables). -/

structure Segment (α H : Type) where
  id : Ident
  hashPos : List Nat
  hashes : List H
  leafPos : List Nat
  leafData : List α
  /-- `SegmentProof { hashes }` -/
  proof : List H
deriving Repr

variable {α H : Type}

/-- `iter().zip().find(|(p, _)| p == pos0)` on a fresh iterator: first match -/
def lookup {β : Type} : List (Nat × β) → Nat → Option β
  | [], _ => none
  | (p, x) :: rest, pos => if p = pos then some x else lookup rest pos

/-- `leaves0.find(|(p, _)| p == pos0)` on the *shared* iterator `leaves0`: everything up to and
including the match is consumed -/
def iterFind {β : Type} : List (Nat × β) → Nat → Option (β × List (Nat × β))
  | [], _ => none
  | (p, x) :: rest, pos => if p = pos then some (x, rest) else iterFind rest pos

namespace Segment

/-- `get_hash(pos0)` -/
def getHash (s : Segment α H) (pos0 : Nat) : Res H :=
  match lookup (s.hashPos.zip s.hashes) pos0 with
  | some h => .ok h
  | none => .err (.missingHash pos0)

end Segment

/-- the closure deciding whether the data of leaf `pos0` must be present: the bitmap marks it
or its sibling unspent, or it is the last position of the MMR; no bitmap = always.
`as u32` casts truncate. -/
def required (bm : Option (Nat → Bool)) (mmrSize pos0 : Nat) : Bool :=
  match bm with
  | none => true
  | some b =>
    let idx1 := nLeaves (pos0 + 1) - 1
    let idx2 := if isLeftSibling pos0 then idx1 + 1 else idx1 - 1
    b (idx1 % 2^32) || b (idx2 % 2^32) || pos0 == subW mmrSize 1

/-- state of the loop of `Segment::root`: the `hashes` stack (head = top) and what is left of
the `leaves0` iterator -/
abbrev RootSt (α H : Type) := List (Option H) × List (Nat × α)

/-- one iteration of the `for pos0 in first..=last` loop of `Segment::root` -/
def rootStep (hf : HashFn α H) (s : Segment α H) (bm : Option (Nat → Bool)) (mmrSize : Nat)
    (st : RootSt α H) (pos0 : Nat) : Res (RootSt α H) :=
  let h := height pos0
  if h = 0 then
    if required bm mmrSize pos0 then
      match iterFind st.2 pos0 with
      | some (x, it') => .ok (some (hf.leaf pos0 x) :: st.1, it')
      | none => .err (.missingLeaf pos0)
    else .ok (none :: st.1, st.2)
  else
    match st.1 with
    | r :: l :: rest =>
      -- `left_child_pos` / `right_child_pos` are 1-based in the code
      let leftChildPos := 1 + pos0 - 2^h
      let rightChildPos := pos0
      match bm with
      | some _ =>
        match l, r with
        | none, none => .ok (none :: rest, st.2)
        | some lh, some rh => .ok (some (hf.node pos0 lh rh) :: rest, st.2)
        | none, some rh =>
          match s.getHash (leftChildPos - 1) with
          | .ok lh => .ok (some (hf.node pos0 lh rh) :: rest, st.2)
          | .err e => .err e
          | .panic => .panic
        | some lh, none =>
          match s.getHash (rightChildPos - 1) with
          | .ok rh => .ok (some (hf.node pos0 lh rh) :: rest, st.2)
          | .err e => .err e
          | .panic => .panic
      | none =>
        match l with
        | none => .err (.missingHash leftChildPos)
        | some lh =>
          match r with
          | none => .err (.missingHash rightChildPos)
          | some rh => .ok (some (hf.node pos0 lh rh) :: rest, st.2)
    -- `hashes.pop().ok_or_else(|| MissingHash(..))?` (a panic before the repair `22ca8fd14`)
    | [] => .err (.missingHash pos0)
    | [_] => .err (.missingHash (1 + pos0 - 2^h))

/-- the `for pos0 in first..=last` loop -/
def rootLoop (hf : HashFn α H) (s : Segment α H) (bm : Option (Nat → Bool)) (mmrSize : Nat) :
    RootSt α H → List Nat → Res (RootSt α H)
  | st, [] => .ok st
  | st, p :: ps =>
    match rootStep hf s bm mmrSize st p with
    | .ok st' => rootLoop hf s bm mmrSize st' ps
    | .err e => .err e
    | .panic => .panic

/-- the peak-bagging loop at the end of `Segment::root` (final, not full segment);
`pks` = the peaks inside the segment, right to left -/
def bagPeaks (hf : HashFn α H) (s : Segment α H) (bm : Option (Nat → Bool)) (mmrSize : Nat) :
    List (Option H) → Option H → List Nat → Res (Option H)
  | _, acc, [] => .ok acc
  | stk, acc, p :: ps =>
    match stk with
    | [] => .err (.missingHash (1 + p))
    | lh :: stk' =>
      let lh' : Res (Option H) :=
        if lh.isNone && bm.isSome then
          match s.getHash p with
          | .ok h => .ok (some h)
          | .err e => .err e
          | .panic => .panic
        else .ok lh
      match lh' with
      | .ok (some l) =>
        let acc' := match acc with
          | none => some l
          | some r => some (hf.node mmrSize l r)
        bagPeaks hf s bm mmrSize stk' acc' ps
      | .ok none => .err (.missingHash (1 + p))
      | .err e => .err e
      | .panic => .panic

/-- the end of `Segment::root`, given the stack the loop left: the subtree root of a full
segment (`full`), or the peaks inside the final segment (`pks`, right to left) bagged together.
(Since the repair `22ca8fd14` an empty stack / no peak in range is `SegmentError::NonExistent`,
not a panic.) -/
def rootFinish (hf : HashFn α H) (s : Segment α H) (bm : Option (Nat → Bool)) (mmrSize : Nat)
    (full : Bool) (pks : List Nat) (stk : List (Option H)) : Res (Option H) :=
  if full then
    match stk with
    | v :: _ => .ok v
    | [] => .err .nonExistent     -- `hashes.pop().ok_or(SegmentError::NonExistent)`
  else
    match bagPeaks hf s bm mmrSize stk none pks with
    | .ok (some h) => .ok (some h)
    | .ok none => .err .nonExistent   -- `hash.ok_or(SegmentError::NonExistent)?`
    | .err e => .err e
    | .panic => .panic

/-- `Segment::root` over the positions `ps` of the range -/
def rootWith (hf : HashFn α H) (s : Segment α H) (mmrSize : Nat) (bm : Option (Nat → Bool))
    (ps : List Nat) (full : Bool) (pks : List Nat) : Res (Option H) :=
  match rootLoop hf s bm mmrSize ([], s.leafPos.zip s.leafData) ps with
  | .ok st => rootFinish hf s bm mmrSize full pks st.1
  | .err e => .err e
  | .panic => .panic

namespace Segment

/-- `Segment::root(mmr_size, bitmap)`; `ok none` iff the segment is full and completely pruned -/
def root (hf : HashFn α H) (s : Segment α H) (mmrSize : Nat) (bm : Option (Nat → Bool)) :
    Res (Option H) :=
  -- `if self.segment_unpruned_size(mmr_size) == 0 { return Err(SegmentError::NonExistent) }`
  -- (repair 362e7d94e: no such segment in an MMR of this size, which may be empty — before it the
  -- range of an empty MMR was `0..=(0 - 1)`, wrapped in release, and the loop walked 2^64 positions)
  if s.id.unprunedSize mmrSize = 0 then .err .nonExistent
  else rootWith hf s mmrSize bm (s.id.positions mmrSize) (s.id.full mmrSize) (s.id.peaksIn mmrSize)

end Segment

/-- `bitmap.range_cardinality(a as u32 .. b as u32)` -/
def rangeCard (b : Nat → Bool) (lo hi : Nat) : Nat :=
  let lo' := lo % 2^32
  let hi' := hi % 2^32
  (List.range' lo' (hi' - lo')).countP b

/-- the `while cardinality == 0` loop of `first_unpruned_parent`; `fb` is what is left of the
`family_branch(last, mmr_size)` iterator -/
def fupLoop (s : Segment α H) (b : Nat → Bool) (nLeavesTotal : Nat) :
    Nat → List (Nat × Nat) → Res (H × Nat)
  | pos0, [] =>
    match s.getHash pos0 with
    | .ok h => .ok (h, 1 + pos0)
    | .panic => .panic
    | .err e => .err e
  | pos0, (p0, _) :: rest =>
    match s.getHash pos0 with
    | .ok h => .ok (h, 1 + pos0)
    | .panic => .panic
    | .err e =>
      let lo := nLeaves (1 + bintreeLeftmost p0) - 1
      let hi := min (nLeaves (1 + bintreeRightmost p0)) nLeavesTotal
      if rangeCard b lo hi = 0 then fupLoop s b nLeavesTotal p0 rest else .err e

/-- `first_unpruned_parent` given the result of `self.root(..)` and the last position -/
def fupWith (s : Segment α H) (mmrSize : Nat) (bm : Option (Nat → Bool))
    (rootRes : Res (Option H)) (last : Nat) : Res (H × Nat) :=
  match rootRes with
  | .err e => .err e
  | .panic => .panic
  | .ok (some root) => .ok (root, 1 + last)
  | .ok none =>
    match bm with
    | none => .panic      -- `bitmap.unwrap()`
    | some b => fupLoop s b (nLeaves mmrSize) last (familyBranch last mmrSize)

namespace Segment

/-- `first_unpruned_parent(mmr_size, bitmap)`: `(hash, 1-based position)` -/
def firstUnprunedParent (hf : HashFn α H) (s : Segment α H) (mmrSize : Nat)
    (bm : Option (Nat → Bool)) : Res (H × Nat) :=
  fupWith s mmrSize bm (s.root hf mmrSize bm) (s.id.posRange mmrSize).2

end Segment

/-! ## `SegmentProof` -/

/-- step 1 of `reconstruct_root`: hash with the siblings along the path to the peak -/
def climb (hf : HashFn α H) : H → List H → List (Nat × Nat) → Res (H × List H)
  | root, it, [] => .ok (root, it)
  | root, it, (p0, s0) :: rest =>
    match it with
    | [] => .err (.missingHash (1 + s0))
    | sib :: it' =>
      climb hf (if isLeftSibling s0 then hf.node p0 sib root else hf.node p0 root sib) it' rest

/-- step 3 of `reconstruct_root`: hash with the peaks to the left, right to left -/
def bagLeft (hf : HashFn α H) (lastPos : Nat) : H → List H → List Nat → Res (H × List H)
  | root, it, [] => .ok (root, it)
  | root, it, p :: ps =>
    match it with
    | [] => .err (.missingHash (1 + p))
    | h :: it' => bagLeft hf lastPos (hf.node lastPos h root) it' ps

/-- the family branch entries `reconstruct_root` / `generate` walk: `p0 >= segment_unpruned_pos` -/
def branchFrom (last0 lastPos unprunedPos : Nat) : List (Nat × Nat) :=
  (familyBranch last0 lastPos).filter fun x => x.1 ≥ unprunedPos

/-- `peak_pos0`: the last parent on the family branch, or the segment's last position -/
def branchPeak (last0 lastPos : Nat) : Nat :=
  match (familyBranch last0 lastPos).getLast? with
  | some x => x.1
  | none => last0

/-- `SegmentProof::reconstruct_root`; also returns the proof hashes it did not consume -/
def reconstructRoot (hf : HashFn α H) (proof : List H) (lastPos first0 last0 : Nat)
    (segmentRoot : H) (unprunedPos : Nat) : Res (H × List H) :=
  match climb hf segmentRoot proof (branchFrom last0 lastPos unprunedPos) with
  | .err e => .err e
  | .panic => .panic
  | .ok (root, it) =>
    let peakPos0 := branchPeak last0 lastPos
    let rhs := ((peaks lastPos).filter (· > peakPos0)).head?
    let step2 : Res (H × List H) :=
      match rhs with
      | none => .ok (root, it)
      | some pos0 =>
        match it with
        | [] => .err (.missingHash (1 + pos0))
        | h :: it' => .ok (hf.node lastPos root h, it')
    match step2 with
    | .err e => .err e
    | .panic => .panic
    | .ok (root, it) =>
      bagLeft hf lastPos root it ((peaks lastPos).filter (· < first0)).reverse

/-- `SegmentProof::validate` -/
def proofValidate (hf : HashFn α H) [DecidableEq H] (proof : List H) (lastPos : Nat) (mmrRoot : H)
    (first0 last0 : Nat) (segmentRoot : H) (unprunedPos : Nat) : Res Unit :=
  match reconstructRoot hf proof lastPos first0 last0 segmentRoot unprunedPos with
  | .err e => .err e
  | .panic => .panic
  | .ok (root, _) => if root = mmrRoot then .ok () else .err .mismatch

/-- `SegmentProof::validate_with`: one more hashing step with `other_root` -/
def proofValidateWith (hf : HashFn α H) [DecidableEq H] (proof : List H) (lastPos : Nat)
    (mmrRoot : H) (first0 last0 : Nat) (segmentRoot : H) (unprunedPos : Nat)
    (hashLastPos : Nat) (otherRoot : H) (otherIsLeft : Bool) : Res Unit :=
  match reconstructRoot hf proof lastPos first0 last0 segmentRoot unprunedPos with
  | .err e => .err e
  | .panic => .panic
  | .ok (root, _) =>
    let root' := if otherIsLeft then hf.node hashLastPos otherRoot root
                 else hf.node hashLastPos root otherRoot
    if root' = mmrRoot then .ok () else .err .mismatch

/-- `Segment::validate` given the range and the result of `first_unpruned_parent` -/
def validateAt (hf : HashFn α H) [DecidableEq H] (proof : List H) (mmrSize : Nat) (mmrRoot : H)
    (first last : Nat) (fup : Res (H × Nat)) : Res Unit :=
  match fup with
  | .err e => .err e
  | .panic => .panic
  | .ok (segRoot, upos) => proofValidate hf proof mmrSize mmrRoot first last segRoot upos

/-- `Segment::validate_with` given the range and the result of `first_unpruned_parent` -/
def validateWithAt (hf : HashFn α H) [DecidableEq H] (proof : List H) (mmrSize : Nat) (mmrRoot : H)
    (first last : Nat) (fup : Res (H × Nat)) (hashLastPos : Nat) (otherRoot : H)
    (otherIsLeft : Bool) : Res Unit :=
  match fup with
  | .err e => .err e
  | .panic => .panic
  | .ok (segRoot, upos) =>
    proofValidateWith hf proof mmrSize mmrRoot first last segRoot upos hashLastPos otherRoot otherIsLeft

namespace Segment

/-- `Segment::validate` -/
def validate (hf : HashFn α H) [DecidableEq H] (s : Segment α H) (mmrSize : Nat)
    (bm : Option (Nat → Bool)) (mmrRoot : H) : Res Unit :=
  validateAt hf s.proof mmrSize mmrRoot (s.id.posRange mmrSize).1 (s.id.posRange mmrSize).2
    (s.firstUnprunedParent hf mmrSize bm)

/-- `Segment::validate_with` (output MMR: the PMMR root is hashed with the bitmap root) -/
def validateWith (hf : HashFn α H) [DecidableEq H] (s : Segment α H) (mmrSize : Nat)
    (bm : Option (Nat → Bool)) (mmrRoot : H) (hashLastPos : Nat) (otherRoot : H)
    (otherIsLeft : Bool) : Res Unit :=
  validateWithAt hf s.proof mmrSize mmrRoot (s.id.posRange mmrSize).1 (s.id.posRange mmrSize).2
    (s.firstUnprunedParent hf mmrSize bm) hashLastPos otherRoot otherIsLeft

end Segment

/-! ## The serving side: `Segment::from_pmmr` over a `ReadonlyPMMR` -/

/-- what `from_pmmr` / `SegmentProof::generate` read of a `ReadonlyPMMR` (all three are `None`
at `pos0 >= size`) -/
structure View (α H : Type) where
  /-- `unpruned_size()` -/
  size : Nat
  /-- `get_data_from_file` -/
  dataFromFile : Nat → Option α
  /-- `get_from_file` -/
  fromFile : Nat → Option H
  /-- `get_hash` (leaves: `None` once removed from the leaf set) -/
  hash : Nat → Option H

/-- the fill loop of `from_pmmr`: `(hash_pos ⨯ hashes, leaf_pos ⨯ leaf_data)` in position order -/
def fill (v : View α H) (prunable : Bool) : List Nat → Res (List (Nat × H) × List (Nat × α))
  | [] => .ok ([], [])
  | p :: ps =>
    let leafData : Option α := if isLeaf p then v.dataFromFile p else none
    if isLeaf p && leafData.isNone && !prunable then .err (.missingLeaf p) else
    match fill v prunable ps with
    | .err e => .err e
    | .panic => .panic
    | .ok (hs, ls) =>
      match leafData with
      | some d => .ok (hs, (p, d) :: ls)
      | none =>
        if prunable then
          match v.fromFile p with
          | some h => .ok ((p, h) :: hs, ls)
          | none => .ok (hs, ls)
        else .ok (hs, ls)

/-- `collect::<Result<Vec<_>, _>>()` over `get_hash(pos).ok_or(MissingHash(pos))` -/
def collectHashes (get : Nat → Option H) : List Nat → Res (List H)
  | [] => .ok []
  | p :: ps =>
    match get p with
    | none => .err (.missingHash p)
    | some h =>
      match collectHashes get ps with
      | .ok hs => .ok (h :: hs)
      | .err e => .err e
      | .panic => .panic

/-- `bag_the_rhs(peak_pos)` of the view -/
def bagTheRhs (hf : HashFn α H) (v : View α H) (peakPos : Nat) : Option H :=
  bag hf v.size (((peaks v.size).filter (· > peakPos)).filterMap v.fromFile)

/-- `SegmentProof::generate(pmmr, last_pos, segment_first_pos, segment_last_pos, start_pos)`;
the two segment positions and `start_pos` are 1-based as in the code -/
def generate (hf : HashFn α H) (v : View α H) (first1 last1 : Nat) (startPos : Option Nat) :
    Res (List H) :=
  let lastPos := v.size
  let fb := familyBranch (last1 - 1) lastPos
  let fb' := fb.filter fun x => match startPos with
    | some s => decide (x.1 ≥ s)
    | none => true
  match collectHashes v.hash (fb'.map (·.2)) with
  | .err e => .err e
  | .panic => .panic
  | .ok path =>
    let peakPos := branchPeak (last1 - 1) lastPos
    let withRhs := match bagTheRhs hf v peakPos with
      | some h => path ++ [h]
      | none => path
    match collectHashes v.hash ((peaks lastPos).filter fun x => 1 + x < first1).reverse with
    | .err e => .err e
    | .panic => .panic
    | .ok left => .ok (withRhs ++ left)

/-- the "fully pruned segment" search of `from_pmmr`: first position on the family branch with a
hash on file -/
def firstOnFile (v : View α H) : List (Nat × Nat) → Option (Nat × H)
  | [] => none
  | (p0, _) :: rest =>
    match v.fromFile p0 with
    | some h => some (p0, h)
    | none => firstOnFile v rest

/-- `Segment::from_pmmr` after the `NonExistent` check, over the positions `ps = first..=last` -/
def fromPmmrWith (hf : HashFn α H) (v : View α H) (id : Ident) (prunable : Bool)
    (ps : List Nat) (first last : Nat) : Res (Segment α H) :=
  match fill v prunable ps with
  | .err e => .err e
  | .panic => .panic
  | .ok (hs, ls) =>
    let (hs, startPos) :=
      if ls.isEmpty && hs.isEmpty then
        match firstOnFile v (familyBranch last v.size) with
        | some (p0, h) => ([(p0, h)], some (1 + p0))
        | none => (hs, none)
      else (hs, none)
    match generate hf v (1 + first) (1 + last) startPos with
    | .err e => .err e
    | .panic => .panic
    | .ok proof =>
      .ok { id := id, hashPos := hs.map (·.1), hashes := hs.map (·.2),
            leafPos := ls.map (·.1), leafData := ls.map (·.2), proof := proof }

/-- `Segment::from_pmmr(segment_id, pmmr, prunable)` -/
def fromPmmr (hf : HashFn α H) (v : View α H) (id : Ident) (prunable : Bool) : Res (Segment α H) :=
  if id.unprunedSize v.size = 0 then .err .nonExistent else
  fromPmmrWith hf v id prunable (id.positions v.size) (id.posRange v.size).1 (id.posRange v.size).2

/-- the view of an unpruned Vec-backed MMR with leaf data `d` (nothing removed) -/
def vecView (hashes : List H) (d : List α) : View α H where
  size := hashes.length
  dataFromFile := fun p => if p < hashes.length then d[nLeaves (1 + p) - 1]? else none
  fromFile := fun p => hashes[p]?
  hash := fun p => hashes[p]?

/-! ## `Desegmenter::validate_complete_state` — decision logic

The function first recomputes the roots of the assembled txhashset and compares them with the
archive header (`txhashset.roots()?.validate(&self.archive_header)?`), only then runs the
expensive validations (kernel sums, range proofs, kernel signatures) and finally commits the new
body head.  `roots`/`hdr` are the (output, rangeproof, kernel) roots and the two MMR sizes. -/

structure Roots (H : Type) where
  output : H
  rangeproof : H
  kernel : H
deriving DecidableEq, Repr

inductive FinalRes
  | finalised
  | invalidRoot
  | invalidState
  /-- `stop_state.is_stopped()`: returns `Ok(())` without committing anything -/
  | stopped
deriving DecidableEq, Repr

/-- `TxHashSetRoots::validate(header)` -/
def rootsValidate [DecidableEq H] (roots hdr : Roots H) : Bool :=
  roots.output = hdr.output && roots.rangeproof = hdr.rangeproof && roots.kernel = hdr.kernel

/-- `validate_complete_state`: `fullValidation` stands for the result of everything after the
roots check (`validate_kernel_sums`, range proofs, kernel signatures, …) -/
def validateCompleteState [DecidableEq H] (assembled hdr : Roots H) (fullValidation : Bool)
    (stopped : Bool) : FinalRes :=
  if !rootsValidate assembled hdr then .invalidRoot
  else if stopped then .stopped
  else if !fullValidation then .invalidState
  else .finalised

/-! ## `Desegmenter`: per-tree cache / apply bookkeeping (`chain/src/txhashset/desegmenter.rs`)

The desegmenter keeps, per tree (bitmap, output, rangeproof, kernel), a cache `Vec<Segment<T>>` of
segments that passed validation, and derives "the next required segment index" from the size of
the local MMR every time it is asked.  This section models that bookkeeping at the level of leaf
counts: `cache_*_segment` / `has_*_segment_with_id` (duplicates by full identifier are dropped),
`next_required_*_segment_index`, `take_segment_batch` (selects by `identifier().idx` only — sound because `add_*_segment` refuses
every segment of another height, so all cached segments of a tree have the asked height),
`apply_next_segments` and `next_desired_segments`.  What applying a segment does to the local MMR
is abstracted to the leaf count it leaves behind (`applySeg`): exact for trees without pruning
(kernel, bitmap) and a lower bound for the prunable ones, where a completely pruned segment may
push the hash of a parent above its own root and so advance further (the driver re-reads the
observed size of those two trees after every step and checks it is not behind the model). -/
namespace Dsg

/-- which `next_required_*_segment_index` the tree uses -/
inductive Flavor
  /-- `next_required_bitmap_segment_index`: no genesis special case, no resume adjustment -/
  | bitmap
  /-- output / rangeproof: genesis special case (`size == 1`), unguarded resume adjustment -/
  | prunable
  /-- kernel: genesis special case, resume adjustment guarded by `total != cur` -/
  | kernel
deriving DecidableEq, Repr

structure Tree where
  flavor : Flavor
  /-- the segment height the desegmenter asks for (`default_*_segment_height`) -/
  h : Nat
  /-- leaves of this tree at the archive header -/
  total : Nat
  /-- leaves of the local MMR -/
  leaves : Nat
  /-- `*_segment_cache`, in insertion order -/
  cache : List Ident
deriving Repr

/-- `SegmentIdentifier::count_segments_required` on a leaf count -/
def segCount (leaves h : Nat) : Nat := (leaves + 2 ^ h - 1) / 2 ^ h

/-- `next_required_{bitmap,output,rangeproof,kernel}_segment_index` -/
def Tree.next (t : Tree) : Option Nat :=
  let tot := segCount t.total t.h
  match t.flavor with
  | .bitmap =>
    let cur := segCount t.leaves t.h
    if cur = tot then none else some cur
  | .prunable =>
    -- `if local_size == 1 { 0 }`: a fresh chain holds the genesis leaf
    let cur0 := if t.leaves = 1 then 0 else segCount t.leaves t.h
    -- `if local_size < SegmentIdentifier::pmmr_size(cur, h) { cur -= 1 }`
    let cur := if t.leaves < cur0 * 2 ^ t.h then cur0 - 1 else cur0
    if cur = tot then none else some cur
  | .kernel =>
    let cur0 := if t.leaves = 1 then 0 else segCount t.leaves t.h
    let cur := if tot ≠ cur0 ∧ t.leaves < cur0 * 2 ^ t.h then cur0 - 1 else cur0
    if cur = tot then none else some cur

/-- `cache_*_segment`: push unless a segment with the same identifier is cached -/
def Tree.add (t : Tree) (id : Ident) : Tree :=
  if t.cache.contains id then t else { t with cache := t.cache ++ [id] }

/-- `add_*_segment(segment)`: a segment whose height is not the one the desegmenter asks for is
refused with `Error::InvalidSegmentHeight` before anything else (repair 11f03601e); then
`validate` / `validate_with` (`valid` = its verdict, content-dependent); then `cache_*_segment`.
Returns the new tree and whether the call returned `Ok`. -/
def Tree.receive (t : Tree) (id : Ident) (valid : Bool) : Tree × Bool :=
  if id.height ≠ t.h then (t, false)
  else if valid then (t.add id, true)
  else (t, false)

/-- `cache.iter().position(|s| s.identifier().idx == next_idx)` + `cache.remove(pos)` -/
def removeFirstIdx : List Ident → Nat → Option (Ident × List Ident)
  | [], _ => none
  | c :: cs, n =>
    if c.idx = n then some (c, cs)
    else match removeFirstIdx cs n with
      | some (x, rest) => some (x, c :: rest)
      | none => none

/-- `take_segment_batch(cache, start_idx, max_segments)`: (taken, remaining cache) -/
def takeBatch : List Ident → Nat → Nat → List Ident × List Ident
  | cache, _, 0 => ([], cache)
  | cache, next, k + 1 =>
    match removeFirstIdx cache next with
    | some (s, rest) =>
      let r := takeBatch rest (next + 1) k
      (s :: r.1, r.2)
    | none => ([], cache)

/-- leaf count of the local MMR after `apply_*_segment(s)`: the leaves of the segment are pushed
one by one where `pos0 == size`, everything already present is skipped, a segment that starts
beyond the local MMR pushes no leaf -/
def applySeg (total leaves : Nat) (s : Ident) : Nat :=
  let lo := s.idx * 2 ^ s.height
  let hi := min ((s.idx + 1) * 2 ^ s.height) total
  if lo ≤ leaves ∧ leaves < hi then hi else leaves

/-- `SEGMENT_APPLY_BATCH_SIZE` -/
def batchSize : Nat := 4
/-- `MAX_CACHED_SEGMENTS` -/
def maxCached : Nat := 15

/-- one tree's part of `apply_next_segments` (output / rangeproof / kernel) -/
def Tree.apply (t : Tree) : Tree :=
  match t.next with
  | some n =>
    let r := takeBatch t.cache n batchSize
    { t with leaves := r.1.foldl (applySeg t.total) t.leaves, cache := r.2 }
  | none => if t.cache.length ≥ maxCached then { t with cache := [] } else t

/-- the bitmap part of `apply_next_segments`: one segment, found by idx -/
def Tree.applyOne (t : Tree) : Tree :=
  match t.next with
  | some n =>
    match removeFirstIdx t.cache n with
    | some (s, rest) => { t with leaves := applySeg t.total t.leaves s, cache := rest }
    | none => t
  | none => t

/-- arrival events of one tree: a segment that passes validation arrives (any height, any idx),
or `apply_next_segments` runs -/
inductive Ev
  | add (id : Ident)
  | apply
deriving Repr

def Tree.step (t : Tree) : Ev → Tree
  | .add id => (t.receive id true).1
  | .apply => match t.flavor with
    | .bitmap => t.applyOne
    | _ => t.apply

def Tree.run (t : Tree) (evs : List Ev) : Tree := evs.foldl Tree.step t

/-- the whole desegmenter -/
structure State where
  bitmap : Tree
  output : Tree
  rproof : Tree
  kernel : Tree
  /-- `bitmap_cache.is_some()` -/
  bitmapDone : Bool
deriving Repr

def State.new (hb ho hr hk chunks outs kers : Nat) : State :=
  { bitmap := ⟨.bitmap, hb, chunks, 0, []⟩
    output := ⟨.prunable, ho, outs, 1, []⟩
    rproof := ⟨.prunable, hr, outs, 1, []⟩
    kernel := ⟨.kernel, hk, kers, 1, []⟩
    bitmapDone := false }

/-- `apply_next_segments` -/
def State.apply (s : State) : State :=
  match s.bitmap.next with
  | some _ => { s with bitmap := s.bitmap.applyOne }
  | none =>
    { s with bitmapDone := true, output := s.output.apply, rproof := s.rproof.apply,
             kernel := s.kernel.apply }

/-- MMR size of a leaf count -/
def sizeOf (leaves : Nat) : Nat := insertionToPmmrIndex leaves

/-- the request loop of one of the three main trees in `next_desired_segments`: at most `quota`
identifiers from the next required index on, skipping cached ones -/
def wantLoop (t : Tree) (quota : Nat) : Nat → Nat → Nat → List Ident
  | _, _, 0 => []
  | idx, added, fuel + 1 =>
    if idx < segCount t.total t.h then
      if added = quota then []
      else
        let id : Ident := ⟨t.h, idx⟩
        if (id.posRange (sizeOf t.total)).2 > sizeOf t.leaves && !t.cache.contains id then
          id :: wantLoop t quota (idx + 1) (added + 1) fuel
        else wantLoop t quota (idx + 1) added fuel
    else []

def Tree.want (t : Tree) (quota : Nat) : List Ident :=
  match t.next with
  | some n => wantLoop t quota n 0 (segCount t.total t.h + 1)
  | none => []

/-- `maybe_add_to_request` for the next required segment of a tree -/
def ensureNext (max : Nat) (acc : List (Nat × Ident)) (tree : Nat) (t : Tree) : List (Nat × Ident) :=
  match t.next with
  | some n =>
    let id : Ident := ⟨t.h, n⟩
    if t.cache.contains id then acc
    else if acc.any (fun x => x.1 = tree && x.2 = id) then acc
    else (if acc.length ≥ max then acc.dropLast else acc) ++ [(tree, id)]
  | none => acc

/-- `next_desired_segments(max_elements)`: `(tree number, identifier)` in the order returned -/
def State.want (s : State) (max : Nat) : List (Nat × Ident) :=
  if !s.bitmapDone then
    let t := s.bitmap
    let ids := (List.range (segCount t.total t.h)).filterMap fun idx =>
      let id : Ident := ⟨t.h, idx⟩
      -- `>=` since the repair d6b49984d (`>` never asked for a segment that adds exactly one position)
      if (id.posRange (sizeOf t.total)).2 ≥ sizeOf t.leaves && !t.cache.contains id then some (0, id)
      else none
    ids.take max
  else
    let q := max / 3
    let base := (s.output.want q).map (fun i => (1, i)) ++ (s.rproof.want q).map (fun i => (2, i)) ++
      (s.kernel.want q).map (fun i => (3, i))
    ensureNext max (ensureNext max (ensureNext max base 1 s.output) 2 s.rproof) 3 s.kernel

/-- `check_progress` returning `true` -/
def State.complete (s : State) : Bool :=
  s.kernel.leaves == s.kernel.total && s.output.leaves == s.output.total &&
  s.rproof.leaves == s.rproof.total && s.bitmapDone

/-! ### the bitmap MMR the receiving side expects, and the one the serving side builds

`Desegmenter::calc_bitmap_mmr_sizes`: `bitmap_mmr_leaf_count = (n_leaves(output_mmr_size) + 1023) / 1024`
chunks of 1024 bits, `bitmap_mmr_size = insertion_to_pmmr_index(leaf_count)`.
`BitmapAccumulator::init(idx, size)` = `apply_from(idx, 0, size)`: the peekable loop over the set
leaf indices `< size` that appends a chunk every time an index beyond the current chunk is peeked
and a last one **only if it has a bit set** (`if chunk.any()`). -/

/-- `BitmapAccumulator::NBITS` -/
def chunkBits : Nat := 1024

/-- `bitmap_mmr_leaf_count` for an archive header with `outLeaves` output leaves -/
def expectedChunks (outLeaves : Nat) : Nat := (outLeaves + 1023) / 1024

/-- `bitmap_mmr_size` (`expected_bitmap_mmr_size()`) -/
def expectedBitmapSize (outLeaves : Nat) : Nat := sizeOf (expectedChunks outLeaves)

/-- the desegmenter created for an archive header with `outs` output leaves and `kers` kernels -/
def State.ofHeader (hb ho hr hk outs kers : Nat) : State :=
  State.new hb ho hr hk (expectedChunks outs) outs kers

/-- the loop of `apply_from` from chunk 0: `ci` = `chunk_idx`, `any` = `chunk.any()`, `n` = chunks
appended so far; the list is what is left of the (already `< size`-filtered) peekable iterator -/
def accLoop : Nat → Nat → Bool → Nat → List Nat → Nat
  | 0, _, _, n, _ => n
  | _, _, any, n, [] => if any then n + 1 else n
  | f + 1, ci, any, n, x :: xs =>
    if x < ci * 1024 then accLoop f ci any n xs            -- skip (never with ascending input)
    else if x < (ci + 1) * 1024 then accLoop f ci true n xs -- `chunk.set(idx % NBITS, true)`
    else accLoop f (ci + 1) false (n + 1) (x :: xs)         -- `append_chunk`, next chunk

def lmax : List Nat → Nat
  | [] => 0
  | x :: xs => max x (lmax xs)

/-- number of chunks (leaves of the bitmap MMR) after `BitmapAccumulator::init(idxs, size)` -/
def accChunkCount (idxs : List Nat) (size : Nat) : Nat :=
  let l := idxs.filter (· < size)
  accLoop (l.length + lmax l / 1024 + 2) 0 false 0 l

end Dsg

end GV.Seg
