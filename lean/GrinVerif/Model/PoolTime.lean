import GrinVerif.Model.PoolNode
/-! The clock-dependent glue around the transaction pool (serves C14).

`Model/Pool.lean` and `Model/PoolNode.lean` take every decision that depends on a clock as an
input (`Op.truncate n`, the lists `oldAgg` / `oldEmbargo` of `monitorPass`, `Epoch.expired`).  This
file models the code that *computes* those inputs, with the clock readings explicit:

* `pool/src/types.rs` — `PoolEntry::tx_at` (set by `PoolEntry::new` from `Utc::now()`),
  `DandelionConfig` and its defaults;
* `pool/src/transaction_pool.rs` — `add_to_reorg_cache` (push, pop the front above
  `max_pool_size`), `truncate_reorg_cache(cutoff)` (the `while front.tx_at < cutoff` loop);
* `servers/src/common/adapters.rs` — `ChainToPoolAndNetAdapter::block_accepted`: the cutoff
  `Utc::now() - Duration::minutes(reorg_cache_period)`;
* `servers/src/grin/dandelion_monitor.rs` — `select_txs_cutoff` (whole seconds:
  `tx_at.timestamp() < Utc::now().timestamp() - cutoff_secs`), `process_fluff_phase`,
  `process_expired_entries` (`embargo_secs + thread_rng().gen_range(0, 31)`, a `u16` addition),
  and the body of the loop of `monitor_transactions` including the epoch change at its end;
* `servers/src/common/types.rs` — `DandelionEpoch::{new, is_expired, next_epoch, is_stem}`.

Time is an `Int`: milliseconds since the Unix epoch (`DateTime<Utc>`; the code compares full
`DateTime`s for the reorg cache and whole seconds - `timestamp()` - for everything Dandelion).
The random draws (`gen_range`) are inputs (`roll…`). -/

namespace GV.Pool

/-- `DandelionConfig` (pool/src/types.rs) with its defaults (`DANDELION_*` constants) -/
structure DCfg where
  /-- `epoch_secs : u16` -/
  epochSecs : Nat := 600
  /-- `embargo_secs : u16` -/
  embargoSecs : Nat := 180
  /-- `aggregation_secs : u16` -/
  aggSecs : Nat := 30
  /-- `stem_probability : u8` -/
  stemProb : Nat := 90
  alwaysStemOurs : Bool := true
deriving Repr, DecidableEq, Inhabited

/-- `DateTime::timestamp()`: whole seconds (floor) -/
def tsOf (t : Int) : Int := t / 1000

/-- the `tx_at` of the entries of ONE pool, looked up by transaction (the entries of a pool are
pairwise different transactions: `Pool::add_to_pool` refuses a duplicate) -/
abbrev Clock := List (Tx × Int)

def atOf (m : Clock) (t : Tx) : Int :=
  match m.find? (·.1 == t) with
  | some p => p.2
  | none => 0

/-- `select_txs_cutoff(pool, cutoff_secs)` at clock reading `now`: the entries (in pool order)
with `tx_at.timestamp() < now.timestamp() - cutoff_secs` -/
def selectCutoff (m : Clock) (now : Int) (secs : Nat) (p : Pool) : Pool :=
  p.filter fun e => decide (tsOf (atOf m e.tx) < tsOf now - (secs : Int))

/-! ## `DandelionEpoch` -/

/-- `DandelionEpoch` (servers/src/common/types.rs): `start_time` (whole seconds), `is_stem`,
the relay peer as in `Epoch.relay` -/
structure TEpoch where
  start : Option Int := none
  isStem : Bool := true
  relay : Option Bool := none
deriving Repr, DecidableEq, Inhabited

/-- `DandelionEpoch::new`: "stem", no start time, no relay -/
def TEpoch.new : TEpoch := {}

/-- `DandelionEpoch::is_expired`: no start time counts as expired; otherwise
`now.timestamp().saturating_sub(start_time) > epoch_secs` (the `i64` subtraction cannot saturate
for clock readings) -/
def TEpoch.isExpired (d : DCfg) (e : TEpoch) (now : Int) : Bool :=
  match e.start with
  | none => true
  | some st => decide (tsOf now - st > (d.epochSecs : Int))

/-- `DandelionEpoch::next_epoch`: `start_time = now`, a relay chosen among the connected outbound
peers (`relay`: the outcome), `is_stem = gen_range(0, 100) < stem_probability` (`roll`: the draw) -/
def TEpoch.nextEpoch (d : DCfg) (_e : TEpoch) (now : Int) (roll : Nat) (relay : Option Bool) : TEpoch :=
  { start := some (tsOf now), isStem := decide (roll < d.stemProb), relay := relay }

/-- what the pool paths read of the epoch at clock reading `now` (the record of
`Model/PoolNode.lean`) -/
def TEpoch.toEpoch (d : DCfg) (e : TEpoch) (now : Int) : Epoch :=
  { isStem := e.isStem, expired := e.isExpired d now, alwaysStemOurs := d.alwaysStemOurs, relay := e.relay }

/-! ## the Dandelion monitor with its clock -/

/-- `process_fluff_phase` at clock reading `now` (one reading: `select_txs_cutoff` and
`adapter.is_expired()` follow each other directly) -/
def TxPool.fluffPhaseT (c : Ctx) (s : TxPool) (d : DCfg) (ep : TEpoch) (m : Clock) (now : Int) : TxPool × Res :=
  s.fluffPhase c (ep.isExpired d now) (!(selectCutoff m now d.aggSecs s.stempool).isEmpty)

/-- `dandelion_config.embargo_secs + thread_rng().gen_range(0, 31)`: both `u16`; the release
build wraps (a debug build panics above 65535) -/
def embargoCutoff (d : DCfg) (roll : Nat) : Nat := (d.embargoSecs + roll) % 65536

/-- `process_expired_entries` at clock reading `now` with the draw `roll ∈ [0, 30]` -/
def TxPool.expireEntriesT (c : Ctx) (s : TxPool) (d : DCfg) (m : Clock) (now : Int) (roll : Nat) : TxPool :=
  expireLoop c s (selectCutoff m now (embargoCutoff d roll) s.stempool)

/-- the clock readings and random draws of one pass of the monitor loop -/
structure PassIn where
  /-- reading inside `process_fluff_phase` -/
  nowF : Int
  /-- reading inside `process_expired_entries` -/
  nowE : Int
  /-- reading of the final `adapter.is_expired()` / `next_epoch()` -/
  nowN : Int
  /-- `gen_range(0, 31)` of `process_expired_entries` -/
  rollEmbargo : Nat := 0
  /-- `gen_range(0, 100)` of `next_epoch` -/
  rollStem : Nat := 0
  /-- the relay `next_epoch` finds -/
  relay : Option Bool := none
deriving Repr, Inhabited

/-- one pass of the loop of `monitor_transactions` (after `last_run.elapsed() > run_interval`):
the fluff phase unless this is a stem epoch, the embargo, then - and only then - the epoch change
if the epoch has run out.  `m`: the `tx_at` of the stem entries (entries that survive the fluff
phase keep theirs: `Pool::reconcile` re-adds the same `PoolEntry`). -/
def TxPool.monitorPassT (c : Ctx) (s : TxPool) (d : DCfg) (ep : TEpoch) (m : Clock) (i : PassIn) : TxPool × TEpoch :=
  let s1 := if !ep.isStem then (s.fluffPhaseT c d ep m i.nowF).1 else s
  let s2 := s1.expireEntriesT c d m i.nowE i.rollEmbargo
  (s2, if ep.isExpired d i.nowN then ep.nextEpoch d i.nowN i.rollStem i.relay else ep)

/-! ## the reorg cache with its `tx_at` -/

/-- the reorg cache as the code holds it: entries with their `tx_at`, oldest insertion first -/
abbrev TCache := List (Entry × Int)

/-- `add_to_reorg_cache`: push to the back, pop the front above `max_pool_size` -/
def cachePush (maxPool : Nat) (l : TCache) (e : Entry) (at_ : Int) : TCache :=
  let l' := l ++ [(e, at_)]
  if l'.length > maxPool then l'.drop 1 else l'

/-- `truncate_reorg_cache(cutoff)`: `while cache.front().map(|x| x.tx_at < cutoff) { pop_front }` -/
def truncLoop (cutoff : Int) : TCache → TCache
  | [] => []
  | x :: xs => if x.2 < cutoff then truncLoop cutoff xs else x :: xs

/-- `block_accepted`: `Utc::now() - Duration::minutes(reorg_cache_period as i64)` -/
def reorgCutoff (now : Int) (periodMin : Nat) : Int := now - (periodMin : Int) * 60000

/-- the number of entries the loop pops, from the `tx_at` of the cache entries in order -/
def leadingOld (cutoff : Int) : List Int → Nat
  | [] => 0
  | a :: as => if a < cutoff then leadingOld cutoff as + 1 else 0

/-- `truncate_reorg_cache(cutoff)` on the untimed pool state, `ats` being the `tx_at` of the cache
entries in order -/
def TxPool.truncateAt (s : TxPool) (ats : List Int) (cutoff : Int) : TxPool :=
  s.truncateCache (leadingOld cutoff ats)

/-- the truncation `block_accepted` performs at clock reading `now` -/
def TxPool.blockTruncate (s : TxPool) (ats : List Int) (now : Int) (periodMin : Nat) : TxPool :=
  s.truncateAt ats (reorgCutoff now periodMin)

/-- histories of the timed cache: admissions at a clock reading, truncations with a cutoff -/
inductive COp
  | push (e : Entry) (at_ : Int)
  | trunc (cutoff : Int)

def cstep (maxPool : Nat) (l : TCache) : COp → TCache
  | .push e a => cachePush maxPool l e a
  | .trunc cutoff => truncLoop cutoff l

def crun (maxPool : Nat) (l : TCache) (ops : List COp) : TCache := ops.foldl (cstep maxPool) l

/-- the clock readings of the admissions of a history, in order -/
def pushTimes : List COp → List Int
  | [] => []
  | .push _ a :: ops => a :: pushTimes ops
  | .trunc _ :: ops => pushTimes ops

/-! ## the Dandelion relay peer

`DandelionEpoch::relay_peer` (servers/src/common/types.rs) and what `PoolToNetAdapter::
stem_tx_accepted` does with it.  What the code sees of a `p2p::Peer`: -/

/-- a peer object.  `banned`: `State::Banned` - the ONLY way `Peer::is_connected()` becomes false
(p2p/src/peer.rs: the state is `Connected` from construction and is never changed when the TCP
connection ends).  `alive`: the connection's writer still runs, i.e. `ConnHandle::send`'s `try_send`
does not answer `Disconnected` (a full channel answers `Ok`).  `member`: still in the `Peers` map. -/
structure RPeer where
  id : Nat
  banned : Bool := false
  alive : Bool := true
  outbound : Bool := true
  member : Bool := true
deriving Repr, DecidableEq, Inhabited

/-- `peers.iter().outbound().connected().choose_random()`; `pick`: the random choice -/
def chooseRelay (peers : List RPeer) (pick : Nat) : Option Nat :=
  let c := peers.filter fun p => p.member && p.outbound && !p.banned
  (c[pick % c.length]?).map (·.id)

def peerById (peers : List RPeer) (id : Nat) : Option RPeer := peers.find? (·.id == id)

/-- `DandelionEpoch::relay_peer(peers)`: the current relay is kept while it `is_connected()` - in
the `Peers` map or not, its connection alive or not -, otherwise a new one is chosen.  Returns the
relay after the call (`cur`: the relay before, by id; `peers`: every peer object). -/
def relayPeer (cur : Option Nat) (peers : List RPeer) (pick : Nat) : Option Nat :=
  match cur.bind (peerById peers) with
  | some p => if !p.banned then some p.id else chooseRelay peers pick
  | none => chooseRelay peers pick

/-- `stem_tx_accepted(entry).is_ok()` and the relay afterwards: in a stem epoch (or for our own
transactions with `always_stem_our_txs`) the relay is looked up and `send_stem_transaction` decides;
in a fluff epoch nothing is asked -/
def stemTxAcceptedR (isStem alwaysStemOurs : Bool) (src : Src) (cur : Option Nat) (peers : List RPeer)
    (pick : Nat) : Bool × Option Nat :=
  if isStem || (src.isPushed && alwaysStemOurs) then
    let r := relayPeer cur peers pick
    match r.bind (peerById peers) with
    | some p => (p.alive, r)
    | none => (false, r)
  else (true, cur)

/-- the `Epoch.relay` input of `Model/PoolNode.lean` computed from the peers -/
def relayOutcome (cur : Option Nat) (peers : List RPeer) (pick : Nat) : Option Bool :=
  ((relayPeer cur peers pick).bind (peerById peers)).map (·.alive)

/-! ## histories of a node with its clock -/

/-- the configuration the clocked paths read: `DandelionConfig` and `PoolConfig::reorg_cache_period`
(minutes) -/
structure TCfg where
  d : DCfg := {}
  periodMin : Nat := 30
deriving Repr, Inhabited

/-- pool state, context and the current Dandelion epoch -/
structure TSt where
  cs : Ctx × TxPool
  ep : TEpoch := {}

/-- an event at the pool of a running node, clock readings explicit: a pool operation that reads no
clock; a transaction from a peer / pushed with a source at reading `now` (the relay decision reads
the current epoch); one pass of the Dandelion monitor (`m`: the `tx_at` of the stem entries); the
truncation of the reorg cache inside `block_accepted` (`ats`: the `tx_at` of the cache entries) -/
inductive TOp
  | pool (op : Op)
  | recv (syncing : Bool) (tx : Tx) (stem : Bool) (now : Int)
  | push (src : Src) (tx : Tx) (stem : Bool) (now : Int)
  | monitor (m : Clock) (i : PassIn)
  | blockTruncate (ats : List Int) (now : Int)

def tstep (T : TCfg) (st : TSt) : TOp → TSt
  | .pool op => { st with cs := step st.cs op }
  | .recv syncing tx stem now =>
    { st with cs := (st.cs.1, (st.cs.2.transactionReceived st.cs.1 syncing (st.ep.toEpoch T.d now) tx stem).1) }
  | .push src tx stem now =>
    { st with cs := (st.cs.1, (st.cs.2.addToPool st.cs.1 src tx stem (stemTxAccepted (st.ep.toEpoch T.d now) src)).1) }
  | .monitor m i =>
    let r := st.cs.2.monitorPassT st.cs.1 T.d st.ep m i
    { cs := (st.cs.1, r.1), ep := r.2 }
  | .blockTruncate ats now => { st with cs := (st.cs.1, st.cs.2.blockTruncate ats now T.periodMin) }

def trun (T : TCfg) (st : TSt) (ops : List TOp) : TSt := ops.foldl (tstep T) st

/-- the untimed node event a timed event amounts to in state `st`: the clock-dependent inputs of
`Model/PoolNode.lean` computed from the readings -/
def eraseT (T : TCfg) (st : TSt) : TOp → NOp
  | .pool op => .pool op
  | .recv syncing tx stem now => .recv syncing (st.ep.toEpoch T.d now) tx stem
  | .push src tx stem now => .push src (st.ep.toEpoch T.d now) tx stem
  | .monitor m i =>
    let s1 := if !st.ep.isStem then (st.cs.2.fluffPhaseT st.cs.1 T.d st.ep m i.nowF).1 else st.cs.2
    .monitor (st.ep.toEpoch T.d i.nowF)
      ((selectCutoff m i.nowF T.d.aggSecs st.cs.2.stempool).map (·.tx))
      ((selectCutoff m i.nowE (embargoCutoff T.d i.rollEmbargo) s1.stempool).map (·.tx))
  | .blockTruncate ats now => .pool (.truncate (leadingOld (reorgCutoff now T.periodMin) ats))

def eraseAll (T : TCfg) (st : TSt) : List TOp → List NOp
  | [] => []
  | o :: os => eraseT T st o :: eraseAll T (tstep T st o) os

end GV.Pool
