import GrinVerif.Model.Store
/-! Further parts of `store/src/pmmr.rs` / `store/src/leaf_set.rs` / `core/src/core/pmmr/pmmr.rs`
on top of `Model/Store.lean` (C08):

* the **import path** a node takes during state sync (PIBD): `PMMRBackend::append_pruned_subtree`,
  `append_hash`, `remove_from_leaf_set`, `PMMR::push_pruned_subtree`, `reset_prune_list`;
* the leaf-set views `n_unpruned_leaves_to_index` and `leaf_idx_iter`;
* the leaf-set **snapshot** (`LeafSet::snapshot`, `LeafSet::copy_snapshot` through
  `PMMRBackend::new(.., Some(header))`);
* the **non-prunable** backend (`prunable == false`: the kernel MMR – variable-size elements – and
  the header MMR), i.e. the `else` side of every `if self.prunable` in `pmmr.rs`.

Everything is a transliteration; nothing here assumes a usage protocol. -/

namespace GV.Store
open GV GV.Pmmr

namespace Backend
variable {H : Type} (el : Bytes → Option Nat)

/-- `append_pruned_subtree(hash, pos0)` (prunable backend): the root hash goes to the hash file,
the position to the prune list (`PruneList::append`, with its roll-up).  Nothing is appended to the
data file and nothing to the leaf set. -/
def appendPrunedSubtree (b : Backend H) (hash : H) (pos0 : Nat) : Backend H :=
  { b with hashFile := b.hashFile.append hash, pruneList := b.pruneList.append pos0 }

/-- `append_hash(hash)` -/
def appendHash (b : Backend H) (hash : H) : Backend H :=
  { b with hashFile := b.hashFile.append hash }

/-- `remove_from_leaf_set(pos0)` -/
def removeFromLeafSet (b : Backend H) (pos0 : Nat) : Backend H := b.remove pos0

/-- `reset_prune_list`: `PruneList::new(path, empty bitmap)` followed by `flush` -/
def resetPruneList (b : Backend H) : Backend H := { b with pruneList := {}, pruneFile := [] }

/-- `n_unpruned_leaves_to_index(to_index)` = `bitmap.range_cardinality(0..to_index)` over the
1-based positions of the leaf set -/
def nUnprunedLeavesToIndex (b : Backend H) (toIndex : Nat) : Nat :=
  (b.leafSet.bitmap.filter (· < toIndex)).length

/-- `leaf_idx_iter(from_idx)`: `skip_while(x < from_pos)` then `n_leaves(x).saturating_sub(1)` -/
def leafIdxIter (b : Backend H) (fromIdx : Nat) : List Nat :=
  let fromPos := 1 + insertionToPmmrIndex fromIdx
  (b.leafSet.bitmap.dropWhile (· < fromPos)).map fun x => nLeaves x - 1

/-- `LeafSet::snapshot(header)`: the current (possibly unsynced) bitmap written to the side file -/
def snapshot (b : Backend H) : Bitmap := b.leafSet.bitmap

/-- `PMMRBackend::new(dir, true, version, Some(header))` with the snapshot file present:
`LeafSet::copy_snapshot` writes the snapshot over the leaf-set file before `LeafSet::open` -/
def reopenWithSnapshot (b : Backend H) (snap : Bitmap) : Backend H :=
  let b' := b.reopen el
  { b' with leafSet := { bitmap := snap, bak := snap } }

/-! ### the non-prunable backend (`prunable == false`)

The structure is the same (`LeafSet::open` / `PruneList::open` run for every backend) but the leaf
set is never written to and never asked; the prune list stays empty. -/

/-- `append` without the `if self.prunable` block -/
def npAppend (b : Backend H) (data : Bytes) (hashes : List H) : Option (Backend H) :=
  match b.dataFile.append data with
  | none => none
  | some (df, _) => some { b with dataFile := df, hashFile := b.hashFile.extend hashes }

/-- `get_hash` for `prunable == false`: straight to `get_from_file` -/
def npGetHash (b : Backend H) (pos0 : Nat) : Option H := b.getFromFile pos0

/-- `get_data` for `prunable == false` -/
def npGetData (b : Backend H) (pos0 : Nat) : Option Bytes :=
  if !isLeaf pos0 then none else b.getDataFromFile el pos0

/-- `rewind` without the leaf-set step -/
def npRewind (b : Backend H) (position : Nat) : Backend H :=
  let shift := if position = 0 then 0 else b.pruneList.getShift (position - 1)
  let hf := b.hashFile.rewind (position - shift)
  let leafShift := if position = 0 then 0 else b.pruneList.getLeafShift position
  let df := b.dataFile.rewind (nLeaves position - leafShift)
  { b with hashFile := hf, dataFile := df }

/-- `sync`: `sync_leaf_set` returns early -/
def npSync (b : Backend H) : Backend H :=
  { b with hashFile := b.hashFile.flush, dataFile := b.dataFile.flush, pruneFile := b.pruneList.bitmap }

/-- `n_unpruned_leaves` for `prunable == false`: `n_leaves(unpruned_size())` -/
def npNUnprunedLeaves (b : Backend H) : Nat := nLeaves b.unprunedSize

/-- `n_unpruned_leaves_to_index` for `prunable == false` -/
def npNUnprunedLeavesToIndex (toIndex : Nat) : Nat := nLeaves (insertionToPmmrIndex toIndex)

end Backend

/-! ### `clean_rewind_files` (`check_compact`'s last step) = `clean_files_by_prefix(data_dir,
"pmmr_leaf.bin.", 24 h)`: old leaf-set snapshot files are deleted -/

/-- a directory entry: name, is it a directory, seconds since the last access (`none`: the access
time lies in the future / cannot be read - `duration_since` fails, the entry is skipped) -/
structure DirEnt where
  name : String
  isDir : Bool
  age : Option Nat
deriving Repr, DecidableEq

def PMMR_LEAF_FILE : String := "pmmr_leaf.bin"
def REWIND_FILE_CLEANUP_DURATION_SECONDS : Nat := 60 * 60 * 24

/-- is this entry deleted by `clean_files_by_prefix(dir, pfx, dur)`? -/
def cleanDeletes (pfx : String) (dur : Nat) (e : DirEnt) : Bool :=
  !e.isDir && (match e.age with | some a => decide (a > dur) | none => false) &&
  e.name.startsWith pfx && decide (e.name.length > pfx.length)

/-- the names `clean_rewind_files` deletes -/
def cleanRewindFiles (ents : List DirEnt) : List String :=
  (ents.filter (cleanDeletes (PMMR_LEAF_FILE ++ ".") REWIND_FILE_CLEANUP_DURATION_SECONDS)).map (·.name)

namespace PM
variable {H : Type} (el : Bytes → Option Nat) (hf : HashFn Bytes H)

/-- the `while (peak_map & peak) != 0` loop of `PMMR::push_pruned_subtree`; `j` is the bit index
of `peak`; the backend is threaded through because `append_hash` runs inside the loop.
Result: backend, `pos`, `false` = the `?` on a missing left sibling fired. -/
def pushPrunedLoop (pm : Nat) : Nat → Nat → Backend H → Nat → H → Backend H × Nat × Bool
  | 0, _, b, pos, _ => (b, pos, true)
  | fuel+1, j, b, pos, cur =>
    if bitSet pm j then
      let fam := family pos
      if fam.2 > pos then pushPrunedLoop pm fuel (j+1) b pos cur
      else match b.getHash fam.2 with
        | none => (b, pos, false)
        | some l =>
          let cur' := hf.node fam.1 l cur
          pushPrunedLoop pm fuel (j+1) (b.appendHash cur') fam.1 cur'
    else (b, pos, true)

/-- `PMMR::push_pruned_subtree(hash, pos0)`; the flag is `false` for `Err` – the backend keeps what
had been appended up to there and `size` stays at `pos0 + 1`, exactly as the code leaves it -/
def pushPrunedSubtree (p : PM H) (hash : H) (pos0 : Nat) : PM H × Bool :=
  let b := p.b.appendPrunedSubtree hash pos0
  match pushPrunedLoop hf (peakMapHeight pos0).1 65 0 b pos0 hash with
  | (b', pos, true) => ({ b := b', size := roundUpToLeafPos pos }, true)
  | (b', _, false) => ({ b := b', size := pos0 + 1 }, false)

/-! ### the PMMR layer over a non-prunable backend -/

def npGetPeak (p : PM H) : Nat → Option H := guard p.size p.b.getPeakFromFile
def npGetHash (p : PM H) (pos0 : Nat) : Option H :=
  if pos0 ≥ p.size then none
  else if isLeaf pos0 then p.b.npGetHash pos0 else p.b.getFromFile pos0
def npGetData (p : PM H) (pos0 : Nat) : Option Bytes :=
  if pos0 ≥ p.size then none
  else if isLeaf pos0 then p.b.npGetData el pos0 else none

def npPush (p : PM H) (e : Bytes) : Option (PM H) :=
  match pushHashes hf p.b.getPeakFromFile p.size e with
  | none => none
  | some hashes =>
    match p.b.npAppend e hashes with
    | none => none
    | some b' => some { b := b', size := p.size + hashes.length }

def npRewind (p : PM H) (position : Nat) : PM H :=
  let leafPos := roundUpToLeafPos position
  { b := p.b.npRewind leafPos, size := leafPos }

def npMerkleProof (p : PM H) (pos0 : Nat) : Option (Nat × List H) :=
  merkleProofG hf p.size p.npGetHash p.getFromFile p.getPeak pos0

end PM

end GV.Store
