import GrinVerif.Model.PoolNode
/-! `mine_block::get_block` (servers/src/mining/mine_block.rs) — serves C14.

`get_block` calls `build_block` and, while that answers `Err`, calls it again: after 100 ms when a key
id is in use, AT ONCE when there is none (`new_key_id.is_some()` is false for a node without wallet
listener: the reward is burnt) - and for a wallet-communication error after 5 s.  There is no other
exit: "This call does not return until/unless a new block can be built".  Every call reads the chain
head and the pool anew, so the sequence of states the calls see is the input of the model. -/
namespace GV.Pool

/-- pause before the next call of `build_block` in milliseconds (`none`: no pause at all) -/
def retryPause (hasKeyId walletError : Bool) : Option Nat :=
  if walletError then some (5000 + (if hasKeyId then 100 else 0))
  else if hasKeyId then some 100 else none

/-- `get_block` over the states its successive calls of `build_block` see: the block of the first state
in which `build_block` succeeds; `none`: still looping after all of them -/
def getBlock : List (Ctx × TxPool) → Option (List Tx)
  | [] => none
  | cs :: rest =>
    match cs.2.buildBlock cs.1 with
    | some txs => some txs
    | none => getBlock rest

/-- the number of failed calls before it returns -/
def getBlockCalls : List (Ctx × TxPool) → Nat
  | [] => 0
  | cs :: rest => if (cs.2.buildBlock cs.1).isSome then 0 else getBlockCalls rest + 1

end GV.Pool
