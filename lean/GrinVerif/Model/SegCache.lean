/-! `Chain::segmenter` (chain/src/chain.rs) and its cache `pibd_segmenter`: a `Segmenter` is the
archive header it was initialised for plus the bitmap snapshot taken by rewinding a read-only
extension to that header (`init_segmenter`).  `segmenter()` reuses the cached one iff its header
EQUALS (whole `BlockHeader`, hence hash) the current archive header, otherwise initialises a new one
and replaces the cache.  `Hd` = headers, `Sn` = snapshots; `snap` = what `init_segmenter` computes
for a header (the state at a header is determined by the header: its ancestry is hash-linked). -/
namespace GV.SegCache

structure Segmenter (Hd Sn : Type) where
  header : Hd
  snapshot : Sn

/-- `Chain::segmenter()`, given the current `txhashset_archive_header()`: (returned, new cache) -/
def segmenter {Hd Sn : Type} [DecidableEq Hd] (snap : Hd → Sn) (cache : Option (Segmenter Hd Sn)) (archive : Hd) :
    Segmenter Hd Sn × Option (Segmenter Hd Sn) :=
  match cache with
  | some x => if x.header = archive then (x, cache) else (⟨archive, snap archive⟩, some ⟨archive, snap archive⟩)
  | none => (⟨archive, snap archive⟩, some ⟨archive, snap archive⟩)

/-- a history of calls: the archive header seen by each call (it moves with the archive period and
can be REPLACED at the same height by a reorganisation); the segmenters handed out, newest last -/
def serve {Hd Sn : Type} [DecidableEq Hd] (snap : Hd → Sn) : Option (Segmenter Hd Sn) → List Hd →
    List (Segmenter Hd Sn) × Option (Segmenter Hd Sn)
  | cache, [] => ([], cache)
  | cache, a :: as =>
    let r := segmenter snap cache a
    let rest := serve snap r.2 as
    (r.1 :: rest.1, rest.2)

end GV.SegCache
