import GrinVerif.Model.Pool
/-! The callers of the transaction pool inside a running node (serves C14).

Transliteration of the three places in `servers/` through which transactions reach, move inside
and leave the pool:

* `servers/src/common/adapters.rs` — `NetToChainAdapter::transaction_received` (a transaction from
  a peer), `PoolToNetAdapter::stem_tx_accepted` together with `DandelionEpoch`
  (`servers/src/common/types.rs`: does the Dandelion relay take a stem transaction?);
* `servers/src/grin/dandelion_monitor.rs` — `process_fluff_phase` (the whole stempool is
  re-validated on top of the txpool, aggregated and submitted as ONE fluff transaction),
  `process_expired_entries` (stem entries whose embargo timer ran out are submitted one by one on
  the fluff path), and the body of the loop of `monitor_transactions`;
* `servers/src/mining/mine_block.rs` — `build_block` (what the miner does with
  `prepare_mineable_transactions`, including the fallback to an empty block).

Clocks are outside the model: `select_txs_cutoff` (entries older than a cutoff) is represented by
the list `old` of transactions whose entry is older than the cutoff in question, the state of the
Dandelion epoch by the record `Epoch`. -/

namespace GV.Pool
open GV.Chain (UState)

/-- `TxSource::is_pushed` (pool/src/types.rs) -/
def Src.isPushed : Src → Bool
  | .pushApi => true
  | _ => false

/-- what the pool paths read of `DandelionEpoch` + `DandelionConfig` + the peers -/
structure Epoch where
  /-- `DandelionEpoch::is_stem` (a new epoch object starts as a stem epoch) -/
  isStem : Bool := true
  /-- `DandelionEpoch::is_expired` (`start_time = None` counts as expired) -/
  expired : Bool := true
  /-- `DandelionConfig::always_stem_our_txs` -/
  alwaysStemOurs : Bool := true
  /-- `relay_peer(..)`: `none` no outbound peer connected; `some ok`: a relay peer exists and
  `send_stem_transaction` succeeded (`ok`) or failed -/
  relay : Option Bool := none
deriving Repr, DecidableEq, Inhabited

/-- `PoolToNetAdapter::stem_tx_accepted(entry).is_ok()` -/
def stemTxAccepted (ep : Epoch) (src : Src) : Bool :=
  if ep.isStem || (src.isPushed && ep.alwaysStemOurs) then
    match ep.relay with
    | some true => true
    | _ => false
  else true

/-- `NetToChainAdapter::transaction_received(tx, stem)`: nothing while syncing; otherwise
`add_to_pool(TxSource::Broadcast, tx, stem, &chain.head_header())`.  The answer is `Ok(true)` when
syncing or admitted, `Ok(false)` when refused. -/
def TxPool.transactionReceived (c : Ctx) (s : TxPool) (syncing : Bool) (ep : Epoch) (tx : Tx)
    (stem : Bool) : TxPool × Bool :=
  if syncing then (s, true) else
  match s.addToPool c .broadcast tx stem (stemTxAccepted ep .broadcast) with
  | (s', none) => (s', true)
  | (s', some _) => (s', false)

/-- `process_fluff_phase`.  `anyOld`: some stem entry is older than `aggregation_secs`. -/
def TxPool.fluffPhase (c : Ctx) (s : TxPool) (epochExpired anyOld : Bool) : TxPool × Res :=
  if s.stempool.isEmpty then (s, none)
  else if !epochExpired && !anyOld then (s, none)
  else
    match Pool.allAggregate c s.txpool none with
    | .error e => (s, some e)
    | .ok txpoolTx =>
      match validateRawTxs c .noLimit txpoolTx s.stempool.txs [] with
      | .error e => (s, some e)
      | .ok fluffable =>
        match aggregate fluffable with
        | .error e => (s, some (viaPoolError e))
        | .ok agg =>
          match agg.validate c .asTransaction with
          | some e => (s, some (viaPoolError e))
          | none => s.addToPool c .fluff agg false false

/-- the loop of `process_expired_entries` over the entries selected before it starts -/
def expireLoop (c : Ctx) (s : TxPool) : List Entry → TxPool
  | [] => s
  | e :: rest => expireLoop c (s.addToPool c .embargoExpired e.tx false false).1 rest

/-- `process_expired_entries`.  `old`: transactions whose stem entry is older than the embargo
(`select_txs_cutoff`: a filter of the stempool in its order). -/
def TxPool.expireEntries (c : Ctx) (s : TxPool) (old : List Tx) : TxPool :=
  expireLoop c s (s.stempool.filter fun e => old.contains e.tx)

/-- one pass of the loop of `monitor_transactions`: the fluff phase unless this is a stem epoch,
then the embargo; errors of either are logged and dropped -/
def TxPool.monitorPass (c : Ctx) (s : TxPool) (ep : Epoch) (oldAgg oldEmbargo : List Tx) : TxPool :=
  let s1 :=
    if !ep.isStem then
      (s.fluffPhase c ep.expired (s.stempool.any fun e => oldAgg.contains e.tx)).1
    else s
  s1.expireEntries c oldEmbargo

/-- `build_block` (mine_block.rs): the transactions the block is built from — the mineable set,
or nothing when `prepare_mineable_transactions` fails (fallback to an empty block) -/
def TxPool.blockTxs (c : Ctx) (s : TxPool) : List Tx :=
  match s.prepareMineable c with
  | .ok txs => txs
  | .error _ => []

/-- `build_block`: `Block::from_reward(&head, &txs, coinbase(fees), ..)` = aggregate with
cut-through plus the coinbase paying reward + Σ `tx.fee()`, on the BODY head
(`chain.head_header()`); `b.validate(..)` and `chain.set_txhashset_roots(&mut b)` are the checks
`mineVerdict` stands for.  `none`: the builder fails and `get_block` retries for ever. -/
def TxPool.buildBlock (c : Ctx) (s : TxPool) : Option (List Tx) :=
  let txs := s.blockTxs c
  if mineVerdict c txs then some txs else none

/-! ## histories of a node (what the node-level theorems of C14 quantify over) -/

/-- an event at the pool of a running node: a pool operation as before (`Op`: block accepted,
reorg-cache replay, …), a transaction from a peer, a transaction pushed with a source (API), one
pass of the Dandelion monitor -/
inductive NOp
  | pool (op : Op)
  | recv (syncing : Bool) (ep : Epoch) (tx : Tx) (stem : Bool)
  | push (src : Src) (ep : Epoch) (tx : Tx) (stem : Bool)
  | monitor (ep : Epoch) (oldAgg oldEmbargo : List Tx)

def nstep (cs : Ctx × TxPool) : NOp → Ctx × TxPool
  | .pool op => step cs op
  | .recv syncing ep tx stem => (cs.1, (cs.2.transactionReceived cs.1 syncing ep tx stem).1)
  | .push src ep tx stem => (cs.1, (cs.2.addToPool cs.1 src tx stem (stemTxAccepted ep src)).1)
  | .monitor ep oa oe => (cs.1, cs.2.monitorPass cs.1 ep oa oe)

def nrun (cs : Ctx × TxPool) (ns : List NOp) : Ctx × TxPool := ns.foldl nstep cs

/-- the submission `process_fluff_phase` makes in this state, if any -/
def fluffOps (c : Ctx) (s : TxPool) (epochExpired anyOld : Bool) : List Op :=
  if s.stempool.isEmpty then []
  else if !epochExpired && !anyOld then []
  else
    match Pool.allAggregate c s.txpool none with
    | .error _ => []
    | .ok txpoolTx =>
      match validateRawTxs c .noLimit txpoolTx s.stempool.txs [] with
      | .error _ => []
      | .ok fluffable =>
        match aggregate fluffable with
        | .error _ => []
        | .ok agg =>
          match agg.validate c .asTransaction with
          | some _ => []
          | none => [.submit .fluff agg false false]

/-- the submissions `process_expired_entries` makes in this state -/
def expireOps (s : TxPool) (old : List Tx) : List Op :=
  (s.stempool.filter fun e => old.contains e.tx).map fun e => .submit .embargoExpired e.tx false false

/-- the pool operations a node event amounts to in state `cs` -/
def flat (cs : Ctx × TxPool) : NOp → List Op
  | .pool op => [op]
  | .recv syncing ep tx stem =>
    if syncing then [] else [.submit .broadcast tx stem (stemTxAccepted ep .broadcast)]
  | .push src ep tx stem => [.submit src tx stem (stemTxAccepted ep src)]
  | .monitor ep oa oe =>
    let f := if !ep.isStem then
        fluffOps cs.1 cs.2 ep.expired (cs.2.stempool.any fun e => oa.contains e.tx) else []
    f ++ expireOps (run cs f).2 oe

def flatAll (cs : Ctx × TxPool) : List NOp → List Op
  | [] => []
  | n :: ns => flat cs n ++ flatAll (nstep cs n) ns

end GV.Pool
