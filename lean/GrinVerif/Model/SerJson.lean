import GrinVerif.Model.Dec
/-! # The JSON (serde) forms of the transaction types: the field codecs

`core/src/core/transaction.rs` derives `Serialize` / `Deserialize` for `Transaction`, `TransactionBody`,
`TxKernel`, `Input`, `Output`, `OutputIdentifier`, `Inputs` (untagged), `KernelFeatures` (externally
tagged) and routes every byte-string field through `core/src/libtx/secp_ser.rs`: written with `as_hex`
(`util::to_hex`, lower case), read with `commitment_from_hex` / `blind_from_hex` / `rangeproof_from_hex`
/ `sig_serde` - each `String::deserialize` then `util::from_hex` (model: `GV.Dec.utilFromHex`, incl.
`trim()`, the `0x` prefixes and the `+` quirk of `from_str_radix`) then a conversion:

* `Commitment::from_vec` / `BlindingFactor::from_slice`: copy `min(len, N)` bytes into a zeroed array -
  ANY number of bytes is accepted (padded / truncated);
* `sig_serde`: fewer than 64 bytes refused, the first 64 taken, `Signature::from_compact` (parameter);
* `rangeproof_from_hex`: more than `MAX_PROOF_SIZE` bytes refused (since repair dd4fd942d; before it
  the serde visitor of `RangeProof` in secp256k1zkp `pedersen.rs` indexed its `[u8; 675]` with the
  running count and the 676th byte was an index panic - kept as `proofFromHexUnrepaired`);
* `FeeFields`: a JSON number (`visit_u64`) or a string parsed with `str::parse::<u64>`; written as a
  number inside `KernelFeatures` (`fee_fields_as_int`), as a string on its own (`collect_str`).

The JSON syntax itself is serde_json's (trusted); these are the functions applied to string / number
tokens.  Strings are their UTF-8 bytes. -/
namespace GV.SerJson
open GV GV.Dec

/-- `util::to_hex`: two lower-case digits per byte -/
def hexLow (n : Nat) : Nat := if n < 10 then 48 + n else 87 + n
def toHexB : Bytes → Bytes
  | [] => []
  | x :: r => hexLow (x / 16) :: hexLow (x % 16) :: toHexB r

inductive FieldRes
  | ok (v : Bytes)
  | err
  | panic
deriving DecidableEq, Repr

/-- `[0; n]` with the first `min(len, n)` bytes of `v` copied in -/
def padTo (n : Nat) (v : Bytes) : Bytes := v.take n ++ List.replicate (n - v.length) 0

def ofHex (s : Bytes) (k : Bytes → FieldRes) : FieldRes :=
  match utilFromHex s with
  | .ok b => k b
  | .err => .err
  | .panic _ => .panic

/-- `secp_ser::commitment_from_hex` -/
def commitFromHex (s : Bytes) : FieldRes := ofHex s fun b => .ok (padTo 33 b)
/-- `secp_ser::blind_from_hex` (`BlindingFactor::from_hex`) -/
def blindFromHex (s : Bytes) : FieldRes := ofHex s fun b => .ok (padTo 32 b)
/-- `secp_ser::sig_serde::deserialize`; `validCompact` = `Signature::from_compact(..).is_ok()` -/
def sigFromHex (validCompact : Bytes → Bool) (s : Bytes) : FieldRes :=
  ofHex s fun b => if b.length < 64 then .err else if validCompact (b.take 64) then .ok (b.take 64) else .err
/-- `MAX_PROOF_SIZE` -/
def MAX_PROOF : Nat := 675
/-- `secp_ser::rangeproof_from_hex`: `if val.len() > MAX_PROOF_SIZE { return Err(..) }`, then the
visitor copies the bytes into the proof buffer -/
def proofFromHex (s : Bytes) : FieldRes := ofHex s fun b => if b.length > MAX_PROOF then .err else .ok b

/-- the reader before repair dd4fd942d: no length check, the visitor writes `ret[i]` for every byte -/
def proofFromHexUnrepaired (s : Bytes) : FieldRes :=
  ofHex s fun b => if b.length > MAX_PROOF then .panic else .ok b

/-- `str::parse::<u64>()`: an optional `+`, at least one digit, only digits, no overflow -/
def parseDigits : Bytes → Nat → Option Nat
  | [], acc => some acc
  | c :: r, acc => if 48 ≤ c ∧ c ≤ 57 then parseDigits r (acc * 10 + (c - 48)) else none

def parseUnsigned (d : Bytes) : Option Nat :=
  if d.isEmpty then none
  else match parseDigits d 0 with
    | some n => if n < 2^64 then some n else none
    | none => none

def parseU64 (s : Bytes) : Option Nat :=
  match s with
  | 43 :: r => parseUnsigned r
  | _ => parseUnsigned s

/-! ## `api/src/types.rs`: the hand-written reader of `OutputPrintable` and its helper decoders -/

/-- which keys the JSON object had: `output_type, commit, spent, proof, proof_hash, block_height,
merkle_proof, mmr_index` (values already read without error, no key twice: `no_dup!`) -/
structure OpKeys where
  outputType : Bool
  commit : Bool
  spent : Bool
  proof : Bool
  proofHash : Bool
  blockHeight : Bool
  merkleProof : Bool
  mmrIndex : Bool
deriving DecidableEq, Repr

inductive Fin3 | ok | err | panic
deriving DecidableEq, Repr

/-- the end of `OutputPrintableVisitor::visit_map`: the `is_none()` test names output_type, commit,
spent, proof_hash and mmr_index; `block_height` is `block_height.unwrap_or(None)` since repair
f960854e0 (a missing key reads as `None`), `proof` and `merkle_proof` are optional -/
def outputPrintableFinish (k : OpKeys) : Fin3 :=
  if !k.outputType || !k.commit || !k.spent || !k.proofHash || !k.mmrIndex then .err
  else .ok

/-- before repair f960854e0: the test did not name block_height and then EVERY one of the six was
unwrapped (`block_height.unwrap()` on a key the test forgot) -/
def outputPrintableFinishUnrepaired (k : OpKeys) : Fin3 :=
  if !k.outputType || !k.commit || !k.spent || !k.proofHash || !k.mmrIndex then .err
  else if !k.blockHeight then .panic
  else .ok

/-- `OutputPrintable::range_proof()`: no proof string -> error; not hex -> error; fewer than 675 bytes
-> error (repair 5eec0a242); then `p_bytes.clone_from_slice(&p_vec[..MAX_PROOF_SIZE])`: more than 675
bytes are cut off -/
def rangeProofHelper (proof : Option Bytes) : FieldRes :=
  match proof with
  | none => .err
  | some s => ofHex s fun b => if b.length < MAX_PROOF then .err else .ok (b.take MAX_PROOF)

/-- before repair 5eec0a242: the slice `&p_vec[..675]` PANICKED when fewer than 675 bytes were decoded -/
def rangeProofHelperUnrepaired (proof : Option Bytes) : FieldRes :=
  match proof with
  | none => .err
  | some s => ofHex s fun b => if b.length < MAX_PROOF then .panic else .ok (b.take MAX_PROOF)

/-- the commitment / hash id parsers of the handlers (`get_output`, `get_header`, `get_block`, `get_kernel`):
`util::from_hex` then `Commitment::from_vec` / `Hash::from_vec` (copy `min(len, N)` bytes) -/
def hashIdFromHex (s : Bytes) : FieldRes := ofHex s fun b => .ok (padTo 32 b)
/-- `get_kernel`: exactly 33 bytes or `invalid excess length` -/
def excessIdFromHex (s : Bytes) : FieldRes := ofHex s fun b => if b.length ≠ 33 then .err else .ok (padTo 33 b)

/-- `Display for u64` -/
def printDec (n : Nat) : Bytes := (Nat.toDigits 10 n).map Char.toNat

end GV.SerJson
