import GrinVerif.Model.Keys
/-! # Signatures and the master-key mask (C20): what the property needs of them

* `keychain/src/keychain.rs`: `ExtKeychain::mask_master_key` (byte-wise XOR of the 32 bytes of the
  master secret with the mask), `ExtKeychain::sign`, `sign_with_blinding`
* `core/src/libtx/aggsig.rs`: `calculate_partial_sig`, `verify_partial_sig`, `add_signatures`,
  `verify_completed_sig`, `sign_single`, `verify_single`, `verify_single_from_commit`,
  `sign_from_key_id`, `sign_with_blinding`

The signature scheme itself (secp256k1-zkp aggsig: Schnorr signatures `s·G = R + e·P`,
`e = H(R_sum ‖ P_sum ‖ msg)`) is NOT modelled as cryptography.  What is modelled is the linear
algebra the multi-party protocol relies on, in the exponent: a public key `P = x·G` is its secret
`x`, a public nonce `R = k·G` its secret `k`, the challenge `e` a free scalar shared by all signers
(they hash the same sums and the same message).  secp256k1-zkp may negate every nonce when the
nonce sum has no square-root y coordinate; that is one common sign on all `k`, under which the
equations below are invariant.  Import-free (linked into the driver). -/
namespace GV.Keys

/-- `mask_master_key(mask)`: `for i in 0..32 { master.secret_key.0[i] ^= mask.0[i] }` -/
def maskMasterKey (master mask : List Nat) : List Nat := List.zipWith (· ^^^ ·) master mask

/-- `calculate_partial_sig` in the exponent: `s = k + e·x (mod n)` -/
def partialSig (e x k : Nat) : Nat := (k + e * x) % N

/-- the verification equation `s·G = R + e·P` in the exponent (`R = r·G`, `P = p·G`):
`verify_partial_sig` (own key, nonce sum as `R` source) and `verify_completed_sig` (summed key) -/
def sigVerifies (e s r p : Nat) : Bool := s % N == (r + e * p) % N

/-- `add_signatures`: the sum of the partial `s` values (the `R` of the result is the nonce sum) -/
def addSignatures (parts : List Nat) : Nat := parts.sum % N

/-- `subtract_signature(sig, partial)` (secp256k1-zkp `secp256k1_aggsig_subtract_partial_signature`),
the `s` half: `secp256k1_scalar_negate` of the partial's `s`, then `secp256k1_scalar_add`.  The
nonce half is the point difference `R_sig − R_partial` — in the exponent the difference of the
secret nonces; the library returns up to two candidates for it because a signature stores only the
x coordinate of its nonce. -/
def subtractSignature (s p : Nat) : Nat := (s % N + (N - p % N) % N) % N

/-- every signer's partial signature, signers given as (secret key, secret nonce) -/
def partialSigs (e : Nat) (signers : List (Nat × Nat)) : List Nat :=
  signers.map fun s => partialSig e s.1 s.2

/-- `ExtKeychain::sign_with_blinding(msg, blinding)` (keychain/src/keychain.rs):
`let skey = &blinding.secret_key(&self.secp)?; let sig = self.secp.sign(&msg, &skey)?;` —
`BlindingFactor::secret_key` hands out `ZERO_KEY` for the all-zero factor (its explicit special
case) and `Secp256k1::sign` asserts the key is not zero: a PANIC, not an `Err`; 32 bytes that are no
scalar (≥ n) fail in `secret_key` with `Err(Secp(InvalidSecretKey))`; everything else signs. -/
def ksignBlinding (b : Nat) : Res Unit :=
  match bfSecretKey b with
  | none => .err
  | some k => if k = 0 then .panic else .ok ()

/-- `aggsig::sign_with_blinding(secp, msg, blinding, _)` (core/src/libtx/aggsig.rs): the same key
conversion, then `aggsig::sign_single`, whose C side does not refuse the zero key — it signs -/
def aggsigSignBlinding (b : Nat) : Res Unit :=
  match bfSecretKey b with
  | none => .err
  | some _ => .ok ()

def showSignRes : Res Unit → String
  | .ok _ => "ok"
  | .err => "err"
  | .panic => "panic"

/-- what the harness' `keys sig <variant> <n>` lines must answer: variants named `ok-…` are honest
signatures checked under their own key / signer set (or a keychain masked twice), `bad-…` are the
negative controls -/
def sigExpected (variant : String) : String := if variant.startsWith "ok-" then "true" else "false"

end GV.Keys
