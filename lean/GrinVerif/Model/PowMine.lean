import GrinVerif.Model.PowEntry
/-! # `pow::pow_size` / `pow::mine_genesis_block` (core/src/pow.rs) — the internal miner's search loop

```
let start_nonce = bh.pow.nonce;
loop {
    let mut ctx = global::create_pow_context::<u32>(bh.height, sz, proof_size, MAX_SOLS)?;
    ctx.set_header_nonce(bh.pre_pow(), None, true)?;
    if let Ok(proofs) = ctx.find_cycles() {
        bh.pow.proof = proofs[0].clone();
        if bh.pow.to_difficulty(bh.height) >= diff { return Ok(()); }
    }
    bh.pow.nonce = bh.pow.nonce.overflowing_add(1).0;
    if bh.pow.nonce == start_nonce { bh.timestamp = epoch 0 }
}
```
`find_cycles` exists for Cuckatoo only (the four Cuckaroo contexts `unimplemented!()`);
`CuckatooContext::find_cycles_iter` runs the solver, then `self.verify_impl(&s)?` on EVERY solution
and returns `Ok(solutions)` only when all verify and there is at least one.  The solutions are
`Proof::zero(proof_size)` objects with the nonces filled in: their `edge_bits` is
`global::min_edge_bits()`, whatever `sz` was.  The solver itself is not modelled: `raw` is whatever
it produced.  The loop is unbounded in the code; the model carries fuel (`none` = still searching). -/
namespace GV.Pow
open GV.Gen

/-- `global::min_edge_bits()` -/
def minEdgeBitsOf : ChainType → Nat
  | .automated => AUTOMATED_TESTING_MIN_EDGE_BITS
  | .user => USER_TESTING_MIN_EDGE_BITS
  | .testnet | .mainnet => DEFAULT_MIN_EDGE_BITS

/-- the fields of the header `pow_size` changes -/
structure MineSt where
  nonce : Nat
  ts : Int
  edgeBits : Nat
  proof : List Nat

/-- the environment of one `pow_size` call: chain type, height, `sz`, `proof_size`, target, the
pre-PoW bytes as a function of (nonce, timestamp), the raw solver output per pre-PoW, and
`ProofOfWork::to_difficulty` as a function of (edge bits, nonces) -/
structure MineEnv where
  c : ChainType
  height : Nat
  sz : Nat
  proofSize : Nat
  diff : Nat
  prePow : Nat → Int → Bytes
  raw : Bytes → Option (List (List Nat))
  toDiff : Nat → List Nat → Nat

/-- `ctx.find_cycles()` on a Cuckatoo context seeded with `pre`: the solver's output, kept only if
non-empty and every solution passes `verify_impl` -/
def findCyclesOk (E : MineEnv) (pre : Bytes) : Option (List (List Nat)) :=
  match E.raw pre with
  | none => none
  | some sols =>
    if sols ≠ [] ∧ sols.all (fun s =>
        decide (verifyOf .cuckatoo (entryParams E.c E.sz E.proofSize)
          (epNode .cuckatoo (keysOfHeader pre none) E.sz) s = .ok ())) = true
    then some sols else none

/-- one iteration; `some st'` = returned -/
def mineStep (E : MineEnv) (start : Nat) (st : MineSt) : Option MineSt × MineSt :=
  let st1 := match findCyclesOk E (E.prePow st.nonce st.ts) with
    | some (p :: _) => some { st with proof := p, edgeBits := minEdgeBitsOf E.c }
    | _ => none
  match st1 with
  | some s => if E.toDiff s.edgeBits s.proof ≥ E.diff then (some s, s) else
      let n := (s.nonce + 1) % 2^64
      (none, { s with nonce := n, ts := if n = start then 0 else s.ts })
  | none =>
      let n := (st.nonce + 1) % 2^64
      (none, { st with nonce := n, ts := if n = start then 0 else st.ts })

/-- `pow_size`, `fuel` iterations (`none` = still searching; the code loops on) -/
def powSize (E : MineEnv) (start : Nat) : Nat → MineSt → Option MineSt
  | 0, _ => none
  | f + 1, st =>
    match mineStep E start st with
    | (some r, _) => some r
    | (none, st') => powSize E start f st'

end GV.Pow
