import GrinVerif.Model.Basic
import GrinVerif.Gen.Consts
/-! Specification-level chain model (serves C01, C02, C03, C06, C13).

A block tree of abstract blocks; the state of a block is defined by **replay from genesis**
(`stateAt`), validity of a block by the consensus rules evaluated on the replayed state of its
parent; the node state is (known headers, stored blocks, head, header head, orphan pool) and
`deliverBlock` / `deliverHeader` follow `Chain::process_block` / `pipe::process_block` /
`pipe::process_block_header` (chain/src/chain.rs, chain/src/pipe.rs) in the code's order.
Commitments are abstract output ids; values are the openings known to the harness
(DESIGN §2.3); signature / range-proof / blinding-level faults are carried as tags. -/

namespace GV.Chain

inductive Ker
  | cb
  | plain (fee : Nat)
  | hl (fee lock : Nat)
  | nrd (fee rel : Nat) (ex : String)
deriving Repr, DecidableEq, Inhabited

def Ker.fee : Ker → Nat
  | .cb => 0
  | .plain f => f
  | .hl f _ => f
  | .nrd f _ _ => f

structure OutDef where
  id : Nat
  cb : Bool
  v : Nat
deriving Repr, Inhabited

structure Blk where
  id : Nat
  parent : Option Nat
  h : Nat
  work : Nat
  ver : Nat
  ts : Nat
  ins : List Nat
  /-- (output id, flagged coinbase in the block) -/
  outs : List (Nat × Bool)
  kers : List Ker
  tags : List String
deriving Repr, Inhabited

/-- replayed chain state along one path -/
structure UState where
  /-- unspent outputs: (id, creation height, coinbase) -/
  utxo : List (Nat × Nat × Bool) := []
  /-- NRD kernels seen on this path: (excess, height), most recent first -/
  nrd : List (String × Nat) := []
  /-- total of coinbase-created value minus nothing: Σ unspent values is derived -/
  height : Nat := 0
deriving Repr, Inhabited

def UState.has (s : UState) (o : Nat) : Bool := s.utxo.any (·.1 == o)
def UState.find (s : UState) (o : Nat) : Option (Nat × Nat × Bool) := s.utxo.find? (·.1 == o)

structure Params where
  maturity : Nat := GV.Gen.AUTOMATED_TESTING_COINBASE_MATURITY
  reward : Nat := GV.Gen.REWARD
  hfInterval : Nat := GV.Gen.TESTING_HARD_FORK_INTERVAL
  maxOrphans : Nat := GV.Gen.MAX_ORPHAN_SIZE

/-- `consensus::header_version` for AutomatedTesting: a hard fork every `hfInterval` blocks up to v5 -/
def headerVersion (p : Params) (h : Nat) : Nat :=
  let v := h / p.hfInterval + 1
  if v > 5 then 5 else v

/-- error classes (names as produced by the harness from the Rust `Error`) -/
abbrev Err := String

def hasTag (b : Blk) (pfx : String) : Option String :=
  (b.tags.find? (·.startsWith pfx)).map (fun t => (t.drop pfx.length).toString)

/-- value of an output id -/
def valOf (outs : List OutDef) (o : Nat) : Nat :=
  match outs.find? (·.id == o) with
  | some d => d.v
  | none => 0

def sumVals (outs : List OutDef) (ids : List Nat) : Nat := (ids.map (valOf outs)).foldl (· + ·) 0

def Blk.fees (b : Blk) : Nat := (b.kers.map Ker.fee).foldl (· + ·) 0

/-- the block spends an output it creates itself (`verify_cut_through`) -/
def cutThroughViolation (b : Blk) : Bool := b.ins.any (fun i => b.outs.any (·.1 == i))

/-- an input or output commitment occurs twice inside the block (`verify_sorted_and_unique`) -/
def dupInBody (b : Blk) : Bool := !(decide b.ins.Nodup) || !(decide (b.outs.map (·.1)).Nodup)

/-- a height-locked kernel whose lock height is above the block height -/
def lockViolation (b : Blk) : Bool :=
  b.kers.any fun k => match k with
    | .hl _ l => decide (l > b.h)
    | _ => false

/-- NRD kernels before header version 4 -/
def nrdEraViolation (b : Blk) : Bool :=
  (b.kers.any fun k => match k with | .nrd .. => true | _ => false) && decide (b.ver < 4)

/-- `verify_coinbase`, value component: coinbase-flagged outputs must claim exactly reward + fees -/
def coinbaseMismatch (p : Params) (outs : List OutDef) (b : Blk) : Bool :=
  decide (sumVals outs ((b.outs.filter (·.2)).map (·.1)) ≠ p.reward + b.fees) ||
  (decide ((b.kers.filter (· == .cb)).length = 0) && b.outs.any (·.2))

/-- `verify_kernel_sums`, value component: Σ out = Σ in + reward -/
def valueMismatch (p : Params) (outs : List OutDef) (b : Blk) (insVals : Nat) : Bool :=
  decide (sumVals outs (b.outs.map (·.1)) ≠ insVals + p.reward)

/-- Body validation that needs no chain state (`Block::validate`): tags carry signature /
range-proof / sorting faults (`body:`) and blinding-level sum faults (`ksum:`); cut-through,
lock heights, NRD era, the coinbase claim and the value balance are computed. -/
def validateBody (p : Params) (outs : List OutDef) (b : Blk) (insVals : Nat) : Option Err :=
  match hasTag b "body:" with
  | some e => some e
  | none =>
  if dupInBody b then some "Block:Transaction:Serialization"
  else if cutThroughViolation b then some "Block:Transaction:CutThrough"
  else if lockViolation b then some "Block:KernelLockHeight"
  else if nrdEraViolation b then some "Block:NRDKernelPreHF3"
  else if coinbaseMismatch p outs b then
    -- no coinbase kernel at all: summing an empty list of excesses is a secp error
    some (if (b.kers.filter (· == .cb)).length = 0 then "Block:Secp" else "Block:CoinbaseSumMismatch")
  else if valueMismatch p outs b insVals then some "Block:KernelSumMismatch"
  else hasTag b "ksum:"

/-- some coinbase output being spent has not matured at the block's height -/
def immature (p : Params) (s : UState) (b : Blk) : Bool :=
  b.ins.any fun i => match s.find i with
    | some (_, c, true) => decide (b.h < c + p.maturity)
    | _ => false

/-- some created output duplicates a commitment that is currently unspent -/
def dupOutput (s : UState) (b : Blk) : Bool := b.outs.any (fun o => s.has o.1)

/-- some NRD kernel repeats an excess seen fewer than its relative height blocks ago on this path
(the code computes `pos.height.saturating_sub(prev.height) < relative_height`; on a path the
previous occurrence is never above the block, `hPrev ≤ b.h`, where that is `b.h < hPrev + rel`).
Two NRD kernels sharing an excess INSIDE one block are refused earlier, by
`verify_no_nrd_duplicates`: `Model/ChainNrdDup.lean`. -/
def nrdBad (s : UState) (b : Blk) : Bool :=
  b.kers.any fun k => match k with
    | .nrd _ rel ex => match s.nrd.find? (·.1 == ex) with
      | some (_, hPrev) => decide (b.h < hPrev + rel)
      | none => false
    | _ => false

/-- the state-dependent rules in the code's order: coinbase maturity (which first resolves every
input: `AlreadySpent`), duplicate outputs, inputs unspent, block sums (tag: blinding level), NRD
relative heights, then the late root/size check (tag). -/
def stateChecks (p : Params) (s : UState) (b : Blk) : Option Err :=
  if !(b.ins.all s.has) then some "AlreadySpent"
  else if immature p s b then some "ImmatureCoinbase"
  else if dupOutput s b then some "DuplicateCommitment"
  else match hasTag b "sums:" with
  | some e => some e
  | none =>
  if nrdBad s b then some "NRDRelativeHeight"
  else hasTag b "late:"

/-- the effect of a block on the replayed state: spent outputs leave, new outputs enter -/
def effects (s : UState) (b : Blk) : UState :=
  { utxo := s.utxo.filter (fun u => !b.ins.contains u.1) ++ b.outs.map (fun o => (o.1, b.h, o.2)),
    nrd := (b.kers.filterMap fun k => match k with
      | .nrd _ _ ex => some (ex, b.h)
      | _ => none) ++ s.nrd,
    height := b.h }

/-- Apply a block to the replayed state of its parent. -/
def applyBlock (p : Params) (s : UState) (b : Blk) : Except Err UState :=
  match stateChecks p s b with
  | some e => .error e
  | none => .ok (effects s b)

structure Node where
  outs : List OutDef := []
  blks : List Blk := []
  /-- header ids known (validated and saved) -/
  headers : List Nat := [0]
  /-- full blocks stored (validated in their context) -/
  stored : List Nat := [0]
  head : Nat := 0
  hhead : Nat := 0
  /-- orphan pool in insertion order -/
  orphans : List Nat := []
deriving Inhabited

def Node.blk (n : Node) (id : Nat) : Option Blk := n.blks.find? (·.id == id)

/-- path from genesis to `id` (inclusive), root first; fuel = number of blocks -/
def pathTo (n : Node) : Nat → Nat → List Blk → Option (List Blk)
  | 0, _, _ => none
  | fuel+1, id, acc =>
    match n.blk id with
    | none => none
    | some b => match b.parent with
      | none => some (b :: acc)
      | some p => pathTo n fuel p (b :: acc)

def Node.path (n : Node) (id : Nat) : Option (List Blk) := pathTo n (n.blks.length + 1) id []

/-- replay: the state a block's own ancestors lead to (genesis outputs included) -/
def replay (p : Params) : UState → List Blk → Except Err UState
  | s, [] => .ok s
  | s, b :: bs => match applyBlock p s b with
    | .error e => .error e
    | .ok s' => replay p s' bs

def genesisState (g : Blk) : UState :=
  { utxo := g.outs.map (fun o => (o.1, 0, o.2)), nrd := [], height := 0 }

def Node.stateAt (n : Node) (p : Params) (id : Nat) : Except Err UState :=
  match n.path id with
  | none => .error "NoPath"
  | some [] => .error "NoPath"
  | some (g :: rest) => replay p (genesisState g) rest

def Node.workOf (n : Node) (id : Nat) : Nat := match n.blk id with | some b => b.work | none => 0
def Node.heightOf (n : Node) (id : Nat) : Nat := match n.blk id with | some b => b.h | none => 0
def Node.parentOf (n : Node) (id : Nat) : Option Nat := match n.blk id with | some b => b.parent | none => none

/-- `validate_header` + `validate_root` of `process_block_header` (tags carry root / mmr-size faults) -/
def validateHeader (p : Params) (n : Node) (b : Blk) : Option Err :=
  match b.parent with
  | none => some "StoreErr"
  | some par =>
  if !n.headers.contains par then some "StoreErr" else
  if b.h ≠ n.heightOf par + 1 then some "InvalidBlockHeight" else
  if b.ver ≠ headerVersion p b.h then some "InvalidBlockVersion" else
  match n.blk par with
  | none => some "StoreErr"
  | some pb =>
  if b.ts ≤ pb.ts then some "InvalidBlockTime" else
  match hasTag b "hdr:" with
  | some e => some e
  | none => none

/-- `pipe::process_block_header`: returns the node (header possibly saved, header head possibly
advanced) or an error with the node unchanged. -/
def processHeader (p : Params) (n : Node) (b : Blk) : Except Err Node :=
  -- check_known against head / head.prev / stored blocks: success, nothing to do
  if b.id == n.head ∨ some b.id == n.parentOf n.head ∨ n.stored.contains b.id then .ok n else
  match b.parent with
  | none => .error "StoreErr"
  | some par =>
  if !n.headers.contains par then .error "StoreErr" else
  if n.headers.contains b.id ∧ ¬ (b.work > n.workOf n.hhead) then .ok n else
  match validateHeader p n b with
  | some e => .error e
  | none =>
    let hs := if n.headers.contains b.id then n.headers else n.headers ++ [b.id]
    let hh := if b.work > n.workOf n.hhead then b.id else n.hhead
    .ok { n with headers := hs, hhead := hh }

inductive DRes
  | okHead
  | okFork
  | err (e : Err)
deriving Repr, DecidableEq

def DRes.toString : DRes → String
  | .okHead => "ok:head"
  | .okFork => "ok:fork"
  | .err e => s!"err:{e}"

/-- outcome of the cheap pre-checks of `process_block_single` (`is_known`, `check_orphan`) and
of `check_known` in `pipe::process_block` -/
inductive Pre
  | reject (e : Err)
  | orphan
  | go (parent : Nat)
deriving Repr, DecidableEq

def precheck (n1 : Node) (b : Blk) : Pre :=
  -- is_known
  if b.id == n1.head then .reject "Unfit" else
  if b.work ≤ n1.workOf n1.head ∧ n1.stored.contains b.id then .reject "Unfit" else
  -- check_orphan
  match b.parent with
  | none => .reject "StoreErr"
  | some par =>
  if ¬ (par == n1.head ∨ n1.stored.contains par) then .orphan else
  -- pipe::process_block: check_known
  if b.id == n1.head ∨ some b.id == n1.parentOf n1.head then .reject "Unfit" else
  if n1.stored.contains b.id then
    .reject (if b.h + 50 < n1.heightOf n1.head then "OldBlock" else "Unfit")
  else .go par

/-- full validation of a block against the replayed state of its own parent: body rules
(`validate_block`), then the state-dependent rules inside the extension (`applyBlock`).
No node state is modified. Returns the state after the block. -/
def checkBlock (p : Params) (n1 : Node) (b : Blk) (par : Nat) : Except Err UState :=
  match n1.stateAt p par with
  | .error e => .error s!"ParentState:{e}"
  | .ok sPar =>
  match validateBody p n1.outs b (sumVals n1.outs b.ins) with
  | some e => .error e
  | none => applyBlock p sPar b

/-- `add_block` + `update_head` when the block has more work than the head -/
def storeBlock (n1 : Node) (b : Blk) : Node × DRes :=
  let n2 := { n1 with stored := n1.stored ++ [b.id] }
  if b.work > n1.workOf n1.head then ({ n2 with head := b.id }, .okHead)
  else (n2, .okFork)

def addOrphan (n1 : Node) (b : Blk) : Node :=
  { n1 with orphans := if n1.orphans.contains b.id then n1.orphans else n1.orphans ++ [b.id] }

/-- `Chain::process_block_single` (without the orphan re-check) -/
def processBlockSingle (p : Params) (n : Node) (b : Blk) : Node × DRes :=
  match processHeader p n b with
  | .error e => (n, .err e)
  | .ok n1 =>
  match precheck n1 b with
  | .reject e => (n1, .err e)
  | .orphan => (addOrphan n1 b, .err "Orphan")
  | .go par =>
  match checkBlock p n1 b par with
  | .error e => (n1, .err e)
  | .ok _ => storeBlock n1 b

/-- `check_orphans(height)`: take every orphan at `height`, process each; continue with the next
height while something was accepted. Fuel bounds the number of rounds. -/
def checkOrphans (p : Params) : Nat → Node → Nat → Node
  | 0, n, _ => n
  | fuel+1, n, height =>
    let (at_, rest) := n.orphans.partition (fun o => n.heightOf o == height)
    if at_.isEmpty then n else
    let n0 := { n with orphans := rest }
    let step := at_.foldl (fun (acc : Node × Option Nat) o =>
      match acc.1.blk o with
      | none => acc
      | some b =>
        let (n', r) := processBlockSingle p acc.1 b
        match r with
        | .err _ => (n', acc.2)
        | _ => (n', some b.h)) (n0, none)
    match step.2 with
    | some hAcc => checkOrphans p fuel step.1 (hAcc + 1)
    | none => step.1

/-- `Chain::process_block` -/
def deliverBlock (p : Params) (n : Node) (b : Blk) : Node × DRes :=
  let (n1, r) := processBlockSingle p n b
  match r with
  | .err _ => (n1, r)
  | _ => (checkOrphans p (n1.blks.length + 2) n1 (b.h + 1), r)

def deliverHeader (p : Params) (n : Node) (b : Blk) : Node × String :=
  match processHeader p n b with
  | .error e => (n, s!"err:{e}")
  | .ok n' => (n', "ok")

/-- the unspent set the node must report: replay of the path to its head -/
def Node.reportedUtxo (n : Node) (p : Params) : List Nat :=
  match n.stateAt p n.head with
  | .ok s => (s.utxo.map (·.1))
  | .error _ => []

/-! ### Pool-facing admission checks against the head (`Chain::verify_coinbase_maturity`,
`verify_tx_lock_height`, `validate_tx`): all are evaluated for the NEXT block height. -/

/-- a transaction as the chain sees it -/
structure TxA where
  ins : List Nat
  outs : List Nat
  kers : List Ker
deriving Repr, Inhabited

/-- `verify_coinbase_maturity(inputs)`: every input must be unspent; a coinbase among them must
be mature at the next block height -/
def txMaturity (p : Params) (s : UState) (t : TxA) : Option Err :=
  if !(t.ins.all s.has) then some "AlreadySpent"
  else if t.ins.any (fun i => match s.find i with
      | some (_, c, true) => decide (s.height + 1 < c + p.maturity)
      | _ => false) then some "ImmatureCoinbase"
  else none

/-- `verify_tx_lock_height`: the largest lock height must not exceed the next block height -/
def txLock (s : UState) (t : TxA) : Option Err :=
  if t.kers.any (fun k => match k with | .hl _ l => decide (l > s.height + 1) | _ => false)
  then some "TxLockHeight" else none

/-- `validate_tx`: outputs must not duplicate unspent commitments, inputs must be unspent, NRD
kernels must respect their relative height against this chain at the next block height -/
def txValidate (s : UState) (t : TxA) : Option Err :=
  if t.outs.any s.has then some "DuplicateCommitment"
  else if !(t.ins.all s.has) then some "AlreadySpent"
  else if t.kers.any (fun k => match k with
      | .nrd _ rel ex => match s.nrd.find? (·.1 == ex) with
        | some (_, hPrev) => decide (s.height + 1 < hPrev + rel)
        | none => false
      | _ => false) then some "NRDRelativeHeight"
  else none

end GV.Chain
