import GrinVerif.Model.CodecConn
import GrinVerif.Gen.CodecPeers
/-! # Above one connection: who is let in, who gets a broadcast, what the peer store remembers

Transliterations of `Server::check_undesirable` (`p2p/src/serv.rs`), `Peers::broadcast`, `ban_peer`,
`unban_peer`, `is_banned` (`peers.rs`), `PeerStore::update_state` (`store.rs`) and the unban rule of
`monitor_peers` (`servers/src/grin/seed.rs`).  Constants and decision tables: `Gen/CodecPeers.lean`. -/
namespace GV.Codec
open GV GV.Gen.CodecPeers

/-- `Server::check_undesirable`: refuse the freshly accepted socket?  `inbound` = connected inbound peers,
`maxIn` / `buffer` = `peer_max_inbound_count()` / `peer_listener_buffer_count()` (`u32`; their sum wraps in the
release build), `sockKnowsPeer` = `stream.peer_addr()` is `Ok`, `banned` = `peers.is_banned(addr)`,
`known` = `peers.is_known(addr)` (`none`: the lock attempt failed) -/
def checkUndesirable (inbound maxIn buffer : Nat) (sockKnowsPeer banned : Bool) (known : Option Bool) : Bool :=
  if inbound ≥ (maxIn + buffer) % 2^32 then true
  else if !sockKnowsPeer then false
  else if banned then true
  else match known with
    | some true => true
    | none => true
    | some false => false

/-- what `inner(&p)` (a `Peer::send_*`) gave for one connected peer -/
inductive SendRes
  | sent        -- `Ok(true)`
  | suppressed  -- `Ok(false)`: the peer is known to have it (it is the source, or showed it to us)
  | failed      -- `Err(_)`
deriving DecidableEq, Repr

/-- `Peers::broadcast` over the connected peers (peers lock available): the count it returns and the peers
it stops and removes from the map -/
def broadcast {α : Type} : List (α × SendRes) → Nat × List α
  | [] => (0, [])
  | (p, r) :: rest =>
    let (c, rm) := broadcast rest
    match r with
    | .sent => (c + 1, rm)
    | .suppressed => (c, rm)
    | .failed => (c, p :: rm)

/-- `enum State` of the peer store -/
inductive PState
  | healthy | banned | defunct | unknown
deriving DecidableEq, Repr

def PState.code : PState → Nat
  | .healthy => 0 | .banned => 1 | .defunct => 2 | .unknown => 3
def PState.name : PState → String
  | .healthy => "Healthy" | .banned => "Banned" | .defunct => "Defunct" | .unknown => "Unknown"

/-- the fields of `PeerData` the state machine touches (timestamps: seconds, `i64`) -/
structure PData where
  flags : PState
  lastBanned : Int
  lastAttempt : Int
deriving DecidableEq, Repr

/-- `PeerStore::update_state(addr, new_state)` on an existing record at time `now` -/
def updateState (now : Int) (p : PData) (s : PState) : PData :=
  if s = .banned then { p with flags := s, lastBanned := now } else { p with flags := s, lastAttempt := now }

/-- `Peers::is_banned`: a record that exists and is flagged `Banned` -/
def storeIsBanned (p : Option PData) : Bool :=
  match p with
  | some d => d.flags == .banned
  | none => false

inductive PeersErr
  | notFound | notBanned | peerNotFound
deriving DecidableEq, Repr

/-- `Peers::unban_peer` -/
def unbanPeer (now : Int) (p : Option PData) : Except PeersErr PData :=
  match p with
  | none => .error .notFound
  | some d => if d.flags = .banned then .ok (updateState now d .healthy) else .error .notBanned

/-- `Peers::ban_peer`: the store is updated FIRST; only then the connected peer is looked up (told the reason,
flagged, stopped, removed) - a peer we are not connected to ends up banned in the store AND the call returns
`PeerNotFound`.  Result: the record, the steps taken on the connection, the return value -/
def banPeer (now : Int) (p : Option PData) (connected : Bool) : Option PData × List String × Except PeersErr Unit :=
  match p with
  | none => (none, [], .error .notFound)
  | some d =>
    if connected then (some (updateState now d .banned), ["send_ban_reason", "set_banned", "stop", "remove"], .ok ())
    else (some (updateState now d .banned), [], .error .peerNotFound)

/-- one pass of `monitor_peers` over a record: a banned peer is unbanned once `now - last_banned` has reached
the ban window -/
def monitorStep (now window : Int) (d : PData) : PData :=
  if d.flags = .banned ∧ now - d.lastBanned ≥ window then updateState now d .healthy else d

/-- `Peer::is_connected()` as a function of what ever happened to the `Peer`: only `set_banned` changes it -/
def peerIsConnected (everBanned : Bool) (_readerEnded _writerEnded _stopped : Bool) : Bool := !everBanned

end GV.Codec
