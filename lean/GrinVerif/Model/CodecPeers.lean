import GrinVerif.Model.CodecConn
import GrinVerif.Gen.CodecPeers
/-! # Above one connection: who is let in, who gets a broadcast, what the peer store remembers

Transliterations of `Server::check_undesirable` (`p2p/src/serv.rs`), `Peers::broadcast`, `ban_peer`,
`unban_peer`, `is_banned` (`peers.rs`), `PeerStore::update_state` (`store.rs`) and the unban rule of
`monitor_peers` (`servers/src/grin/seed.rs`).  Constants and decision tables: `Gen/CodecPeers.lean`. -/
namespace GV.Codec
open GV GV.Gen.CodecPeers

/-- `Server::check_undesirable`: refuse the freshly accepted socket?  `inbound` = connected inbound peers,
`maxIn` / `buffer` = `peer_max_inbound_count()` / `peer_listener_buffer_count()` (`u32`; their sum wraps in the
release build), `sockKnowsPeer` = `stream.peer_addr()` is `Ok`, `banned` = `peers.is_banned(addr)`,
`known` = `peers.is_known(addr)` (`none`: the lock attempt failed) -/
def checkUndesirable (inbound maxIn buffer : Nat) (sockKnowsPeer banned : Bool) (known : Option Bool) : Bool :=
  if inbound ≥ (maxIn + buffer) % 2^32 then true
  else if !sockKnowsPeer then false
  else if banned then true
  else match known with
    | some true => true
    | none => true
    | some false => false

/-- what `inner(&p)` (a `Peer::send_*`) gave for one connected peer -/
inductive SendRes
  | sent        -- `Ok(true)`
  | suppressed  -- `Ok(false)`: the peer is known to have it (it is the source, or showed it to us)
  | failed      -- `Err(_)`
deriving DecidableEq, Repr

/-- `Peers::broadcast` over the connected peers (peers lock available): the count it returns and the peers
it stops and removes from the map -/
def broadcast {α : Type} : List (α × SendRes) → Nat × List α
  | [] => (0, [])
  | (p, r) :: rest =>
    let (c, rm) := broadcast rest
    match r with
    | .sent => (c + 1, rm)
    | .suppressed => (c, rm)
    | .failed => (c, p :: rm)

/-- `enum State` of the peer store -/
inductive PState
  | healthy | banned | defunct | unknown
deriving DecidableEq, Repr

def PState.code : PState → Nat
  | .healthy => 0 | .banned => 1 | .defunct => 2 | .unknown => 3
def PState.name : PState → String
  | .healthy => "Healthy" | .banned => "Banned" | .defunct => "Defunct" | .unknown => "Unknown"

/-- the fields of `PeerData` the state machine touches (timestamps: seconds, `i64`) -/
structure PData where
  flags : PState
  lastBanned : Int
  lastAttempt : Int
deriving DecidableEq, Repr

/-- `PeerStore::update_state(addr, new_state)` on an existing record at time `now` -/
def updateState (now : Int) (p : PData) (s : PState) : PData :=
  if s = .banned then { p with flags := s, lastBanned := now } else { p with flags := s, lastAttempt := now }

/-- `Peers::is_banned`: a record that exists and is flagged `Banned` -/
def storeIsBanned (p : Option PData) : Bool :=
  match p with
  | some d => d.flags == .banned
  | none => false

inductive PeersErr
  | notFound | notBanned | peerNotFound
deriving DecidableEq, Repr

/-- `Peers::unban_peer` -/
def unbanPeer (now : Int) (p : Option PData) : Except PeersErr PData :=
  match p with
  | none => .error .notFound
  | some d => if d.flags = .banned then .ok (updateState now d .healthy) else .error .notBanned

/-- `Peers::ban_peer`: the store is updated FIRST; only then the connected peer is looked up (told the reason,
flagged, stopped, removed) - a peer we are not connected to ends up banned in the store AND the call returns
`PeerNotFound`.  Result: the record, the steps taken on the connection, the return value -/
def banPeer (now : Int) (p : Option PData) (connected : Bool) : Option PData × List String × Except PeersErr Unit :=
  match p with
  | none => (none, [], .error .notFound)
  | some d =>
    if connected then (some (updateState now d .banned), ["send_ban_reason", "set_banned", "stop", "remove"], .ok ())
    else (some (updateState now d .banned), [], .error .peerNotFound)

/-- one pass of `monitor_peers` over a record: a banned peer is unbanned once `now - last_banned` has reached
the ban window -/
def monitorStep (now window : Int) (d : PData) : PData :=
  if d.flags = .banned ∧ now - d.lastBanned ≥ window then updateState now d .healthy else d

/-! ## `Peers::clean_peers` and `add_connected` -/

/-- what `clean_peers` looks at in one connected `Peer` -/
structure CP where
  id : Nat
  outbound : Bool
  /-- `Peer::is_banned()` (`set_banned` was called) -/
  banned : Bool
  /-- `Peer::is_abusive()` -/
  abusive : Bool
  /-- `Peer::is_stuck().0` -/
  stuck : Bool
  /-- the peer's last announced total difficulty -/
  diff : Nat
  /-- listed in `config.peers_preferred` -/
  preferred : Bool
deriving DecidableEq, Repr

/-- `Peer::is_connected()`: not banned (nothing else ever changes the state) -/
def CP.connected (p : CP) : Bool := !p.banned

/-- the per-peer chain: why the peer goes (`none`: it stays), and the state written to the store.  `ourTd` =
`adapter.total_difficulty()` (`none`: the call failed - the stuck rule is skipped) -/
def cleanReason (ourTd : Option Nat) (p : CP) : Option (String × Option PState) :=
  if p.banned then some ("banned", none)
  else if !p.connected then some ("not connected", none)
  else if p.abusive then some ("abusive", some .banned)
  else match ourTd with
    | some td => if p.stuck ∧ p.diff < td then some ("stuck", some .defunct) else none
    | none => none

/-- insertion sort by total difficulty (the code: `sort_unstable_by_key`; equal keys in no defined order) -/
def insertByDiff (p : CP) : List CP → List CP
  | [] => [p]
  | q :: r => if p.diff ≤ q.diff then p :: q :: r else q :: insertByDiff p r
def sortByDiff : List CP → List CP
  | [] => []
  | p :: r => insertByDiff p (sortByDiff r)

/-- the outbound peers `clean_peers` removes for being too many: counted over ALL connected outbound peers of
the map (those the per-peer chain already marked are still counted), the non-preferred ones with the lowest
total difficulty first -/
def excessOutbound (maxOut : Nat) (ps : List CP) : List CP :=
  let ob := ps.filter fun p => p.outbound && p.connected
  ((sortByDiff (ob.filter fun p => !p.preferred)).take (ob.length - maxOut))

/-- how many inbound peers go for being too many, and the candidates (WHICH of them: map order, unspecified) -/
def excessInbound (maxIn : Nat) (ps : List CP) : Nat × List CP :=
  let ib := ps.filter fun p => !p.outbound && p.connected
  let cand := ib.filter fun p => !p.preferred
  (min (ib.length - maxIn) cand.length, cand)

/-- the ids removed for a definite reason (per-peer chain, excess outbound) -/
def cleanDefinite (maxOut : Nat) (ourTd : Option Nat) (ps : List CP) : List Nat :=
  ((ps.filter fun p => (cleanReason ourTd p).isSome) ++ excessOutbound maxOut ps).map (·.id)

/-- `add_connected`: is the peer put into the map?  (`outboundConnected` = connected outbound peers before) -/
def addConnectedInserts (outboundConnected minPreferredOutbound : Nat) (isOutbound : Bool) : Bool :=
  !(decide (outboundConnected ≥ minPreferredOutbound)) || !isOutbound

/-- `Peer::is_connected()` as a function of what ever happened to the `Peer`: only `set_banned` changes it -/
def peerIsConnected (everBanned : Bool) (_readerEnded _writerEnded _stopped : Bool) : Bool := !everBanned

end GV.Codec
