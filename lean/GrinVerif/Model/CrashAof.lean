import GrinVerif.Model.Basic
/-! Byte-level model of `AppendOnlyFile<T>` / `DataFile<T>` (store/src/types.rs) with its crash
points (C09): the fixed-size path (hash files, output / range-proof data files, the size file
itself) and the VARIABLE-size path of the kernel data file (`SizeInfo::VariableSize(size_file)`,
`kernel/pmmr_size.bin` holding one `SizeEntry { offset: u64, size: u16 }` = 10 bytes per element).

Transliterated: `init`, `open` (with `sum_sizes` / `rebuild_size_file` / `replace`), `append`,
`rewind`, `flush`, `discard`, `read`, `offset_and_size`, `read_from_mmap`, `read_from_buffer`,
`size_in_elmts`, `size_unsync_in_elmts`, `DataFile::{append, read, size}`.

A file is its durable content (`disk`) plus the in-memory fields of the Rust struct (`buffer`,
`buffer_start_pos`, `buffer_start_pos_bak`, `mmap`). `flush` and `open` return, besides the new
state, their TRACE: the list of crash points they pass (the labels of the `verif_hooks` calls in the
code, `<point>@<file>`) each with the durable content of both files at that point; a process killed
at the k-th crash point leaves the k-th entry's content (`crashAt`).

`set_len` truncates a longer file and GROWS a shorter one with zero bytes (this is what
`Model/CrashKernel.lean` abstracts: `setLen`, `sizeFlush`, `dataFlush`, `kOpen`).
Element sizes are taken to be below 2^16 (`bytes.len() as u16`; kernels are about 100 bytes). -/
namespace GV.CrashAof

/-- `File::set_len` -/
def setLen (b : Bytes) (n : Nat) : Bytes :=
  if n ≤ b.length then b.take n else b ++ List.replicate (n - b.length) 0

/-- `AppendOnlyFile` with `SizeInfo::FixedSize(s)` -/
structure Raw where
  s : Nat
  disk : Bytes := []
  buf : Bytes := []
  bsp : Nat := 0
  bak : Nat := 0
  mmap : Option Bytes := none
deriving Repr, DecidableEq, Inhabited

def Raw.sizeInElmts (f : Raw) : Nat := f.disk.length / f.s
def Raw.sizeUnsync (f : Raw) : Nat := f.bsp + f.buf.length / f.s

/-- `init`: map a non-empty file, `buffer_start_pos` = number of elements on disk (an empty file
leaves the old map alone) -/
def Raw.init (f : Raw) : Raw :=
  if f.disk.length = 0 then { f with bsp := 0 }
  else { f with mmap := some f.disk, bsp := f.disk.length / f.s }

def Raw.append (f : Raw) (b : Bytes) : Raw := { f with buf := f.buf ++ b }

/-- `rewind`: only `buffer_start_pos` moves; the first rewind since the last flush remembers where it
was (`if self.buffer_start_pos_bak == 0`). The buffer is NOT touched. -/
def Raw.rewind (f : Raw) (pos : Nat) : Raw :=
  { f with bak := if f.bak = 0 then f.bsp else f.bak, bsp := pos }

def Raw.discard (f : Raw) : Raw :=
  if f.bak > 0 then { f with bsp := f.bak, bak := 0, buf := [] } else { f with buf := [] }

def Raw.readMmap (f : Raw) (off len : Nat) : Bytes :=
  match f.mmap with
  | none => []
  | some m => if m.length < off + len then [] else (m.drop off).take len

def Raw.readBuf (f : Raw) (off len : Nat) : Bytes :=
  if f.buf.length < off + len then [] else (f.buf.drop off).take len

/-- `read(pos)` of a fixed-size file (0-indexed) -/
def Raw.read (f : Raw) (pos : Nat) : Bytes :=
  if pos ≥ f.sizeUnsync then [] else
  if pos < f.bsp then f.readMmap (pos * f.s) f.s
  else f.readBuf (pos * f.s - f.bsp * f.s) f.s

/-- a crash point of one file: label, content of THIS file at the point -/
abbrev RTrace := List (String × Bytes)

/-- `flush` of a fixed-size file: truncation (`set_len(buffer_start_pos * s)`, which may grow the
file) iff rewound, then `write_all(buffer)` at the end of the file, `sync_all`, re-map -/
def Raw.flush (f : Raw) : RTrace × Raw :=
  let d1 := if f.bak > 0 then setLen f.disk (f.bsp * f.s) else f.disk
  let t1 : RTrace := if f.bak > 0 then [("before-truncate", f.disk), ("after-truncate", d1)] else []
  let d2 := d1 ++ f.buf
  (t1 ++ [("before-append", d1), ("after-append", d2), ("after-sync", d2)],
   { f with disk := d2, buf := [], bak := 0, bsp := d2.length / f.s,
            mmap := if d2.length = 0 then none else some d2 })

/-! ### size entries -/

/-- `SizeEntry::write`: u64 offset, u16 size, big endian -/
def encEntry (e : Nat × Nat) : Bytes := beBytes 8 e.1 ++ beBytes 2 e.2

/-- `read_as_elmt` on the size file: an empty read does not deserialize -/
def Raw.readEntry (f : Raw) (pos : Nat) : Option (Nat × Nat) :=
  let b := f.read pos
  if b.length < 10 then none else some (ofBE (b.take 8), ofBE ((b.drop 8).take 2))

/-- `sum_sizes`: over the entries below `buffer_start_pos`; `none` = an entry could not be read -/
def Raw.sumSizes (f : Raw) : Nat → Option Nat
  | 0 => some 0
  | n+1 => match Raw.sumSizes f n, f.readEntry n with
    | some a, some e => some (a + e.2)
    | _, _ => none

/-! ### the file with its optional size file -/

structure Aof where
  /-- `SizeInfo::VariableSize(size_file)`; `none` = `FixedSize(raw.s)` -/
  sf : Option Raw
  raw : Raw
deriving Repr, DecidableEq, Inhabited

/-- durable content of the pair -/
structure Disk where
  size : Bytes
  data : Bytes
deriving Repr, DecidableEq, Inhabited

def Aof.disk (a : Aof) : Disk := { size := (a.sf.map (·.disk)).getD [], data := a.raw.disk }

abbrev Trace := List (String × Disk)

/-- durable content after a process death at the `k`-th crash point of a trace (1-based);
`none`: the operation passed fewer than `k` points, it completed -/
def crashAt (t : Trace) (k : Nat) : Option Disk := (t[k - 1]?).map (·.2)

def Aof.sizeInElmts (a : Aof) : Nat :=
  match a.sf with
  | none => a.raw.sizeInElmts
  | some s => s.sizeInElmts

def Aof.sizeUnsync (a : Aof) : Nat :=
  match a.sf with
  | none => a.raw.sizeUnsync
  | some s => s.sizeUnsync

/-- `offset_and_size` -/
def Aof.offsetAndSize (a : Aof) (pos : Nat) : Option (Nat × Nat) :=
  match a.sf with
  | none => some (pos * a.raw.s, a.raw.s)
  | some s => s.readEntry pos

/-- `append(bytes)`: the size file gets the entry `{ end of the previous entry, len }`; `none` = the
previous entry cannot be read (`?`) -/
def Aof.append (a : Aof) (b : Bytes) : Option Aof :=
  match a.sf with
  | none => some { a with raw := a.raw.append b }
  | some s =>
    let next := s.sizeUnsync
    let off? : Option Nat := if next = 0 then some 0 else (s.readEntry (next - 1)).map fun e => e.1 + e.2
    match off? with
    | none => none
    | some off => some { sf := some (s.append (encEntry (off, b.length))), raw := a.raw.append b }

def Aof.rewind (a : Aof) (pos : Nat) : Aof :=
  { sf := a.sf.map (·.rewind pos), raw := a.raw.rewind pos }

def Aof.discard (a : Aof) : Aof :=
  { sf := a.sf.map (·.discard), raw := a.raw.discard }

/-- `read(pos)` (0-indexed); `none` = `Err` -/
def Aof.read (a : Aof) (pos : Nat) : Option Bytes :=
  if pos ≥ a.sizeUnsync then some [] else
  match a.offsetAndSize pos with
  | none => none
  | some (off, len) =>
    if pos < a.raw.bsp then some (a.raw.readMmap off len)
    else match a.offsetAndSize a.raw.bsp with
      | none => none
      | some (bo, _) => some (a.raw.readBuf (off - bo) len)

/-- `flush`: the size file first (its own crash points), then the data file's truncation to the END
OF THE ENTRY read back from the flushed size file, then the buffer. `false` = `Err` from
`offset_and_size(buffer_start_pos - 1)?` — the size file is flushed by then, the handles are gone -/
def Aof.flush (a : Aof) : Trace × Aof × Bool :=
  match a.sf with
  | none =>
    let (t, r) := a.raw.flush
    (t.map fun p => (p.1 ++ "@data", { size := [], data := p.2 }), { a with raw := r }, true)
  | some s =>
    let (ts, s') := s.flush
    let tS : Trace := ts.map fun p => (p.1 ++ "@size", { size := p.2, data := a.raw.disk })
    let r := a.raw
    let newLen? : Option Nat :=
      if r.bak > 0 then
        (if r.bsp = 0 then some 0 else (s'.readEntry (r.bsp - 1)).map fun e => e.1 + e.2)
      else some r.disk.length
    match newLen? with
    | none =>
      (tS ++ [("before-truncate@data", { size := s'.disk, data := r.disk })],
       { sf := some s', raw := { r with mmap := none } }, false)
    | some n =>
      let d1 := if r.bak > 0 then setLen r.disk n else r.disk
      let t1 : Trace := if r.bak > 0 then
          [("before-truncate@data", { size := s'.disk, data := r.disk }),
           ("after-truncate@data", { size := s'.disk, data := d1 })] else []
      let d2 := d1 ++ r.buf
      (tS ++ t1 ++ [("before-append@data", { size := s'.disk, data := d1 }),
                    ("after-append@data", { size := s'.disk, data := d2 }),
                    ("after-sync@data", { size := s'.disk, data := d2 })],
       { sf := some s',
         raw := { r with disk := d2, buf := [], bak := 0, bsp := s'.sizeInElmts,
                         mmap := if d2.length = 0 then none else some d2 } }, true)

/-! ### open -/

/-- the element stream of a data file as `rebuild_size_file` / `write_tmp_pruned` read it:
`while let Ok(_) = T::read(..)`; `parse` gives the length of the element at the head of the stream;
returns `(offset, size)` per element. Fuel = number of bytes. -/
def parseAll (parse : Bytes → Option Nat) : Nat → Bytes → Nat → List (Nat × Nat)
  | 0, _, _ => []
  | fuel+1, bs, off =>
    match parse bs with
    | none => []
    | some n => if n = 0 then [] else (off, n) :: parseAll parse fuel (bs.drop n) (off + n)

def rebuildSize (parse : Bytes → Option Nat) (data : Bytes) : Bytes :=
  (parseAll parse data.length data 0).flatMap encEntry

/-- `AppendOnlyFile::open` for a FIXED-size file -/
def openFixed (s : Nat) (disk : Bytes) : Aof :=
  { sf := none, raw := ({ s := s, disk := disk } : Raw).init }

/-- `PMMRBackend::new` for a variable-size element type: `AppendOnlyFile::open(pmmr_size.bin,
FixedSize(10))`, then `DataFile::open(pmmr_data.bin, VariableSize(size_file))` = `init`, then
`if size_file.sum_sizes()? != self.size() { rebuild_size_file(); init() }`; the rebuild replaces the
size file (remove, rename: three crash points; the file is absent in between — the next `open`
creates it empty). `none` = `Err`. -/
def openVar (parse : Bytes → Option Nat) (d : Disk) : Trace × Option Aof :=
  let s0 : Raw := ({ s := 10, disk := d.size } : Raw).init
  let r0 : Raw := { s := 0, disk := d.data }
  let r1 : Raw := if d.data.length = 0 then { r0 with bsp := 0 }
                  else { r0 with mmap := some d.data, bsp := s0.sizeInElmts }
  match s0.sumSizes s0.bsp with
  | none => ([], none)
  | some sum =>
    if sum = d.data.length then ([], some { sf := some s0, raw := r1 })
    else
      let nb := rebuildSize parse d.data
      let s1 : Raw := ({ s0 with disk := nb, mmap := none } : Raw).init
      let r2 : Raw := if d.data.length = 0 then { r1 with bsp := 0 }
                      else { r1 with mmap := some d.data, bsp := s1.sizeInElmts }
      ([("replace:before-remove@size", d),
        ("replace:between-remove-and-rename@size", { d with size := [] }),
        ("replace:after-rename@size", { d with size := nb })],
       some { sf := some s1, raw := r2 })

/-! ### `DataFile<T>` -/

/-- `DataFile::read(position)` (1-indexed): `read_as_elmt(position - 1).ok()`; the element is what
`T::read` takes from the head of the bytes read -/
def dfRead (parse : Bytes → Option Nat) (a : Aof) (position : Nat) : Option Bytes :=
  match a.read (position - 1) with
  | none => none
  | some b => match parse b with
    | none => none
    | some n => some (b.take n)

/-- the elements a file shows at positions `1..n` -/
def dfReadAll (parse : Bytes → Option Nat) (a : Aof) (n : Nat) : List (Option Bytes) :=
  (List.range n).map fun i => dfRead parse a (i + 1)

/-! ### the element codecs of the harness (`crash aof`) -/

/-- `Blob`: one length byte `L ≥ 1`, then `L` bytes (a zero length byte does not parse: zero-filled
regions are not elements, as for `TxKernel`) -/
def blobParse : Bytes → Option Nat
  | [] => none
  | l :: rest => if l = 0 then none else if rest.length < l then none else some (l + 1)

/-- fixed-size elements of `s` bytes: any `s` bytes parse -/
def fixParse (s : Nat) (b : Bytes) : Option Nat := if b.length < s then none else some s

end GV.CrashAof
