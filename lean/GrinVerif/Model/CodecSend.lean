import GrinVerif.Model.CodecConn
import GrinVerif.Gen.CodecDispatch
/-! # Concurrent senders through one `ConnHandle`; the handshake reads under their timeouts

## several threads, one send channel (`p2p/src/conn.rs`, `peer.rs`)

`ConnHandle` is `Clone` (the reader thread holds a clone for its responses, `Peer` keeps one behind a
`Mutex`, `Peers::broadcast_*` calls `Peer::send_*` from any thread).  `ConnHandle::send` is one
`try_send` on the `mpsc::sync_channel(SEND_CHANNEL_CAP)`: atomic, FIFO, `Full` ⇒ dropped.  The
`peer_write` thread takes one message at a time (`recv_timeout`) and hands it to `write_message`, which
writes the whole frame (and attachment) before the next message is taken.  An execution is therefore a
SCHEDULE: a list of events `send i` (sender `i` offers its next message) and `take` (the writer takes
the head of the channel).

## the handshake reads (`p2p/src/handshake.rs`, `msg.rs::read_message`)

`Handshake::accept` / `initiate` install `HAND_READ_TIMEOUT` / `SHAKE_READ_TIMEOUT` (regenerated into
`Gen/CodecDispatch.lean`) and then call `read_message`: `read_exact` of the 11 header bytes, then
`read_exact` of the announced body, straight on the socket; every `read` call waits at most the timeout
for its next byte (`rxT`, the clock of `Model/Codec.lean`). -/
namespace GV.Codec
open GV GV.Ser GV.Dec GV.Msg GV.Gen.Msg GV.Gen.CodecConn

/-- an event of a concurrent execution -/
inductive CEv
  /-- sender thread `i` calls `ConnHandle::send` with its next message -/
  | send (i : Nat)
  /-- the `peer_write` thread takes the head of the channel and writes it completely -/
  | take
deriving DecidableEq, Repr

/-- senders, channel, what the writer has written (in order), how many messages were dropped on `Full` -/
structure CSt (α : Type) where
  pending : Nat → List α
  queue : List (Nat × α)
  written : List (Nat × α)
  dropped : Nat

def CSt.init {α : Type} (lists : Nat → List α) : CSt α :=
  { pending := lists, queue := [], written := [], dropped := 0 }

/-- one event; `cap` = `SEND_CHANNEL_CAP` -/
def cstep {α : Type} (cap : Nat) (s : CSt α) : CEv → CSt α
  | .send i =>
    match s.pending i with
    | [] => s
    | m :: rest =>
      let p := fun j => if j = i then rest else s.pending j
      if s.queue.length ≥ cap then { s with pending := p, dropped := s.dropped + 1 }
      else { s with pending := p, queue := s.queue ++ [(i, m)] }
  | .take =>
    match s.queue with
    | [] => s
    | x :: q => { s with queue := q, written := s.written ++ [x] }

def crun {α : Type} (cap : Nat) (s : CSt α) (evs : List CEv) : CSt α := evs.foldl (cstep cap) s

/-- what sender `i` got into the stream, in stream order -/
def fromSender {α : Type} (i : Nat) (l : List (Nat × α)) : List α := (l.filter fun e => e.1 == i).map (·.2)

/-! ## `read_message` under a read timeout -/

inductive RmT (α : Type)
  /-- `read_message` returned (value or error) without a timeout -/
  | done (o : RmOut α)
  /-- a `read` waited `T` ms: `read_exact` fails (`WouldBlock` / `TimedOut`), `read_message` returns
  `Error::Connection`, the handshake fails and nothing is written back -/
  | timedOut

/-- `read_message::<T>(stream, version, msg_type)` on a socket with `set_read_timeout(T)` -/
def readMessageT {α : Type} (T : Nat) (net : NetCfg) (expected : Nat) (dec : Dec α) (ts : TStream) : RmT α :=
  match rxT T MSG_HEADER_LEN ts with
  | .timeout _ => .timedOut
  | .eof => .done { res := .error .conn, consumed := ts.length, alloc := MSG_HEADER_LEN }
  | .got head rest =>
    match decHeader net head with
    | .err e _ => .done { res := .error (.ser e), consumed := MSG_HEADER_LEN, alloc := MSG_HEADER_LEN }
    | .panic _ _ => .done { res := .error .conn, consumed := MSG_HEADER_LEN, alloc := MSG_HEADER_LEN }
    | .ok (.known t len) _ _ =>
      if t = expected then
        match rxT T len rest with
        | .timeout _ => .timedOut
        | .eof => .done { res := .error .conn, consumed := ts.length, alloc := MSG_HEADER_LEN + len }
        | .got body _ =>
          match dec body with
          | .ok v _ a => .done { res := .ok v, consumed := MSG_HEADER_LEN + len, alloc := MSG_HEADER_LEN + len + a }
          | .err e a => .done { res := .error (.ser e), consumed := MSG_HEADER_LEN + len, alloc := MSG_HEADER_LEN + len + a }
          | .panic _ a => .done { res := .error .conn, consumed := MSG_HEADER_LEN + len, alloc := MSG_HEADER_LEN + len + a }
      else .done { res := .error .badMessage, consumed := MSG_HEADER_LEN, alloc := MSG_HEADER_LEN }
    | .ok (.unknown len _) _ _ =>
      match rxT T len rest with
      | .timeout _ => .timedOut
      | .eof => .done { res := .error .conn, consumed := ts.length, alloc := MSG_HEADER_LEN + len }
      | .got _ _ => .done { res := .error .badMessage, consumed := MSG_HEADER_LEN + len, alloc := MSG_HEADER_LEN + len }

def RmT.isTimedOut {β : Type} : RmT β → Bool
  | .timedOut => true
  | .done _ => false

/-- bytes consumed when the message was read and decoded -/
def RmT.okConsumed {β : Type} : RmT β → Option Nat
  | .done o => (match o.res with | .ok _ => some o.consumed | .error _ => none)
  | .timedOut => none

/-! ## what the reader loop tells the `Tracker` (`conn.rs`: `inc_received` / `inc_quiet_received` per `codec.read()`) -/

/-- the `(bytes_read, quiet)` entries of the reader loop, one per `codec.read()`, in order; `quiet` decides
from the result of the read (attachment chunk, header batch with more to come) -/
def runCounts {B H σ : Type} (env : Env B H) (ops : SockOps σ) (attach : Message B H → Option Nat)
    (quiet : Res B H → Bool) : Nat → Codec H → σ → List (Nat × Bool)
  | 0, _, _ => []
  | fuel+1, c, s =>
    let o := read env ops c s
    match o.res with
    | .msg m =>
      match nextCodec attach o.codec m with
      | none => [(o.bytesRead, quiet o.res)]
      | some c' => (o.bytesRead, quiet o.res) :: runCounts env ops attach quiet fuel c' o.sock
    | _ => [(o.bytesRead, quiet o.res)]

/-! ## the handshake writes under `SHAKE_WRITE_TIMEOUT` / `HAND_WRITE_TIMEOUT` -/

def shakeWriteTimeout : Nat := GV.Gen.CodecDispatch.SHAKE_WRITE_TIMEOUT_MS
def handWriteTimeout : Nat := GV.Gen.CodecDispatch.HAND_WRITE_TIMEOUT_MS

/-- `write_all` of a (small) handshake frame under `set_write_timeout(T)` on a socket that accepts nothing
for `stall` ms (`none`: never - the remote does not read and every buffer on the way is full): does it
complete? -/
def writeCompletes (T : Nat) (stall : Option Nat) : Bool :=
  match stall with
  | none => false
  | some w => decide (w < T)

inductive HsOut
  | ok (version : Nat)
  | refused (e : HsErr)
  /-- `Error::Connection(WouldBlock / TimedOut)` out of `write_message` -/
  | writeTimeout
deriving DecidableEq, Repr

/-- `Handshake::accept` from the decision on: a refusal returns before anything is written; otherwise the
Shake is written under `SHAKE_WRITE_TIMEOUT` and only then the `PeerInfo` returned -/
def acceptWithWrite (stall : Option Nat) (decision : Except HsErr Nat) : HsOut :=
  match decision with
  | .error e => .refused e
  | .ok v => if writeCompletes shakeWriteTimeout stall then .ok v else .writeTimeout

/-- `Handshake::initiate`: the Hand is written FIRST (under `HAND_WRITE_TIMEOUT`), the Shake read and judged
afterwards -/
def initiateWithWrite (stall : Option Nat) (decision : Except HsErr Nat) : HsOut :=
  if writeCompletes handWriteTimeout stall then
    match decision with
    | .error e => .refused e
    | .ok v => .ok v
  else .writeTimeout

/-- the read timeout `Handshake::accept` installs before reading the Hand (regenerated) -/
def handReadTimeout : Nat := GV.Gen.CodecDispatch.HAND_READ_TIMEOUT_MS
/-- the read timeout `Handshake::initiate` installs before reading the Shake (regenerated) -/
def shakeReadTimeout : Nat := GV.Gen.CodecDispatch.SHAKE_READ_TIMEOUT_MS

/-- cut a byte stream into whole frames (`decHeader` on the 11 header bytes, then the announced body);
`none` when it does not end on a frame boundary or a header is refused -/
def splitFrames (net : NetCfg) : Nat → Bytes → Option (List Bytes)
  | 0, _ => none
  | f+1, bs =>
    if bs.isEmpty then some [] else
    match decHeader net (bs.take MSG_HEADER_LEN) with
    | .ok w _ _ =>
      let len := match w with | .known _ l => l | .unknown l _ => l
      if MSG_HEADER_LEN + len ≤ bs.length then
        (splitFrames net f (bs.drop (MSG_HEADER_LEN + len))).map fun r => bs.take (MSG_HEADER_LEN + len) :: r
      else none
    | _ => none

/-- tag every frame of the stream with the sender whose NEXT frame it is (`none`: nobody's) -/
def tagFrames : List (List Bytes) → List Bytes → Option (List (Nat × Bytes))
  | _, [] => some []
  | lists, f :: fs =>
    match lists.findIdx? (fun l => l.head? == some f) with
    | none => none
    | some i => (tagFrames (lists.modify i List.tail) fs).map fun r => (i, f) :: r

/-- tag every frame of the stream with a sender that still has it AHEAD in its list (everything of that sender
up to and including it is used up): `some` iff the stream restricted to each sender is a subsequence of its
list, in order, and no frame is foreign or duplicated -/
def tagFramesSub : List (List Bytes) → List Bytes → Option (List (Nat × Bytes))
  | _, [] => some []
  | lists, f :: fs =>
    match lists.findIdx? (fun l => l.contains f) with
    | none => none
    | some i => (tagFramesSub (lists.modify i fun l => (l.dropWhile (· != f)).tail) fs).map fun r => (i, f) :: r

/-- the stream is an interleaving of the senders' lists: every frame is the next frame of some sender and
the stream restricted to each sender is that sender's list -/
def isInterleaving (lists : List (List Bytes)) (frames : List Bytes) : Bool :=
  match tagFrames lists frames with
  | none => false
  | some tagged => (List.range lists.length).all fun i => fromSender i tagged == lists.getD i []

end GV.Codec
