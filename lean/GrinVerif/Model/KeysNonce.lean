import GrinVerif.Model.Keys
import GrinVerif.Model.Blake2b
/-! # The rewind / private nonces of the three proof builders, byte for byte (C20)

`core/src/libtx/proof.rs` and `keychain/src/view_key.rs`:

```text
ProofBuilder::new:        private_hash = blake2b(32, &[], derive_key(0, root_key_id, None).0)
                          rewind_hash  = blake2b(32, &[], public_root_key.serialize_vec(compressed))
ProofBuilder::nonce:      blake2b(32, key = commit.0 (33 bytes), data = private_hash | rewind_hash)
LegacyProofBuilder::new:  root_hash    = derive_key(0, root_key_id, Regular).0          (NOT hashed)
LegacyProofBuilder::nonce blake2b(32, key = commit.0, data = root_hash)   (one nonce for both purposes)
ViewKey::rewind_hash:     blake2b(32, &[], public_root_key.serialize_vec(compressed))
ViewKey::rewind_nonce:    blake2b(32, key = commit.0, data = rewind_hash)
Identifier::from_pubkey:  blake2b(17, &[], pubkey.serialize_vec(compressed))  (17-byte DIGEST, no truncation)
```

each followed by `SecretKey::from_slice` (refuses 0 and values ≥ n).  `Model/Keys.lean` treats the
nonce as an opaque function of (root key material, commitment) — enough for the rewind theorems.
Here the byte-level definition is transliterated so that the driver recomputes every nonce from the
key material the harness prints: a changed derivation (swapped hashes, another key / data order,
another digest length) would keep "create then rewind" self-consistent but no longer find the
outputs that are already on the chain; it shows up as a model disagreement on the `nonce` lines.
The keyed BLAKE2b is RFC 7693 on top of `Model/Blake2b.lean`'s compression function.  Import-free
apart from `Model/*`. -/
namespace GV.Keys
open GV

/-- BLAKE2b with an explicit first parameter word (`0x0101kknn`: fanout 1, depth 1, key length `kk`,
digest length `nn`) over a message that already starts with the padded key block, if any -/
def blake2bParam (param : Nat) (outlen : Nat) (msg : Bytes) : Bytes := Id.run do
  let d := msg.toArray
  let n := d.size
  let mut h := Blake2b.iv
  h := h.set! 0 (h[0]! ^^^ UInt64.ofNat param)
  let nblocks := if n = 0 then 1 else (n + 127) / 128
  for bi in [0:nblocks] do
    let blk := d.extract (bi*128) (min n ((bi+1)*128))
    let last := bi + 1 = nblocks
    let t := if last then n else (bi+1)*128
    h := Blake2b.compress h (Blake2b.wordsOfBlock blk) t last
  let mut out : List Nat := []
  for i in [0:8] do
    out := out ++ leBytes 8 (h[i]!.toNat)
  return out.take outlen

/-- `blake2_rfc::blake2b::blake2b(outlen, key, data)`: with a key (1..64 bytes) the key, padded with
zeros to one 128-byte block, is hashed in front of the data and its length goes into the parameter
word; without a key this is the plain hash -/
def blake2bKeyed (outlen : Nat) (key data : Bytes) : Bytes :=
  if key.isEmpty then blake2bParam (0x01010000 + outlen) outlen data
  else blake2bParam (0x01010000 + key.length * 256 + outlen) outlen
    (key ++ List.replicate (128 - key.length) 0 ++ data)

/-- `SecretKey::from_slice` on a 32-byte digest: `none` (= `Err`) for 0 and for values ≥ n -/
def nonceKey (digest : Bytes) : Option Bytes :=
  let v := ofBE digest
  if v = 0 ∨ N ≤ v then none else some digest

/-- `ProofBuilder::new`: `rewind_hash` from the compressed public root key (33 bytes) -/
def rewindHash (pubRoot : Bytes) : Bytes := blake2bKeyed 32 [] pubRoot
/-- `ProofBuilder::new`: `private_hash` from the private root key (`derive_key(0, root, None)`, 32 bytes) -/
def privateHash (privRoot : Bytes) : Bytes := blake2bKeyed 32 [] privRoot

/-- `ProofBuilder::nonce(commit, private)` -/
def builderNonce (pubRoot privRoot commit : Bytes) (priv : Bool) : Option Bytes :=
  nonceKey (blake2bKeyed 32 commit (if priv then privateHash privRoot else rewindHash pubRoot))

/-- `LegacyProofBuilder::nonce(commit)`: the root key itself (`derive_key(0, root, Regular)`) is the data -/
def legacyNonce (legacyRoot commit : Bytes) : Option Bytes :=
  nonceKey (blake2bKeyed 32 commit legacyRoot)

/-- `ViewKey::rewind_hash(secp, public_root_key)` -/
def viewRewindHash (pubRoot : Bytes) : Bytes := blake2bKeyed 32 [] pubRoot

/-- `impl ProofBuild for ViewKey :: rewind_nonce` -/
def viewNonce (pubRoot commit : Bytes) : Option Bytes :=
  nonceKey (blake2bKeyed 32 commit (viewRewindHash pubRoot))

/-- `Identifier::from_pubkey`: a 17-byte BLAKE2b digest of the compressed public key -/
def identFromPubkey (pub : Bytes) : Ident := Ident.fromBytes (blake2bKeyed 17 [] pub)

/-- `BlindingFactor::from_slice(data)` (also behind `from_hex`): the first `min(32, len)` bytes are
copied to the FRONT of a zeroed 32-byte array — a short slice is left-aligned (`[1]` is the
scalar `256^31`, not `1`), a long one is cut after 32 bytes -/
def bfFromSlice (data : Bytes) : Bytes := fit 32 data

/-- `ChildNumber::from_normal_idx(i)` / `from_hardened_idx(i)` (`keychain/src/extkey_bip32.rs`):
`assert_eq!(index & (1 << 31), 0)` — a PANIC for every index from 2^31 on, otherwise the child
number; its `u32` form (`From<ChildNumber> for u32`) sets bit 31 for the hardened one. -/
def childFromIdx (hardened : Bool) (i : Nat) : Option ChildNumber :=
  if i / 2^31 % 2 = 1 then none else some (if hardened then .hardened i else .normal i)

/-! ### what `ckd_priv` / `ckd_pub` feed the HMAC (`keychain/src/extkey_bip32.rs`)

```text
hasher.init_sha512(&self.chain_code[..]);                       // HMAC key = the parent's chain code
Normal   => hasher.append_sha512(pubkey(self.secret_key).serialize_vec(compressed))   // 33 bytes
Hardened => hasher.append_sha512(&[0u8]); hasher.append_sha512(&self.secret_key[..])  // 1 + 32 bytes
hasher.append_sha512(be32(u32::from(i)));                        // bit 31 set for a hardened child
```

`ExtendedPubKey::ckd_pub_tweak`: `Hardened => Err(CannotDeriveFromHardenedKey)`, `Normal` the same
key and message as above from the PUBLIC key alone.  The harness observes key and message with a
recording `BIP32Hasher`. -/

/-- the HMAC message of `ckd_priv(parent, child)`: parent secret (32 bytes), its compressed public key (33) -/
def ckdPrivMessage (secret pub : Bytes) (c : ChildNumber) : Bytes :=
  match c with
  | .normal _ => pub ++ u32be c.toU32
  | .hardened _ => [0] ++ secret ++ u32be c.toU32

/-- the HMAC message of `ckd_pub(parent public key, child)`; `none` = `CannotDeriveFromHardenedKey` -/
def ckdPubMessage (pub : Bytes) (c : ChildNumber) : Option Bytes :=
  match c with
  | .normal _ => some (pub ++ u32be c.toU32)
  | .hardened _ => none

def showNonce : Option Bytes → String
  | some b => toHex b
  | none => "err"

end GV.Keys
