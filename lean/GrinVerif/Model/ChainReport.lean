import GrinVerif.Model.ChainImpl
import GrinVerif.Model.Pmmr
/-! The other ways the node REPORTS its unspent outputs (C02: "the set of outputs the node reports
as unspent"), on top of the incremental txhashset model of `Model/ChainImpl.lean`.

`Model/ChainImpl.lean` numbers output leaves by insertion index; the code's positions count the
parent nodes of the MMR as well.  Leaf `i` sits at 0-based MMR position `mmr i`
(`pmmr::insertion_to_pmmr_index`, `Model/Pmmr.lean`), an MMR with `n` leaves has size `mmr n`.

Transliterated here:
* `ReadonlyPMMR::get_data` (core/src/core/pmmr/readonly_pmmr.rs) over `PMMRBackend::get_data`
  (store/src/pmmr.rs): `getDataAt`,
* `ReadonlyPMMR::elements_from_pmmr_index` (the loop behind `TxHashSet::outputs_by_pmmr_index` /
  `rangeproofs_by_pmmr_index`): `elemLoop` / `elementsFromPmmrIndex`,
* `Chain::unspent_outputs_by_pmmr_index` (chain/src/chain.rs): `unspentOutputsByPmmrIndex`,
* `Chain::get_unspent` as the API shows it (1-based MMR position, height): `getUnspentPos`,
* `UTXOView::get_unspent_output_at` (chain/src/txhashset/utxo_view.rs): `getUnspentOutputAt`,
* `Chain::get_header_for_output`: the header AT THE OUTPUT'S HEIGHT IN THE HEADER MMR
  (`header_pmmr.get_header_hash_by_height`), i.e. on the path to the HEADER head: `headerForOutput`,
* `Chain::block_height_range_to_pmmr_indices` (again through the header MMR): `heightRangeToPmmr`.
-/

namespace GV.Chain
open GV.Pmmr (mmr pmmrLeafToInsertionIndex)

namespace TxHS

/-- `output_mmr_size` of the txhashset -/
def mmrSize (S : TxHS) : Nat := mmr S.leaves.length

/-- `ReadonlyPMMR::at(backend, size).get_data(pos0)`: nothing beyond the size, nothing at a parent
position, and for a leaf only while it is in the leaf set -/
def getDataAt (S : TxHS) (pos0 : Nat) : Option Nat :=
  if S.mmrSize ≤ pos0 then none else
  match pmmrLeafToInsertionIndex pos0 with
  | some i => S.getData i
  | none => none

/-- the `while return_vec.len() < max_count && pmmr_index < size` loop of
`elements_from_pmmr_index`; `room` = `max_count - return_vec.len()`; the fuel bounds the number of
positions looked at (`size - pmmr_index` is enough). Returns (position after the last one looked
at, the data found). -/
def elemLoop (S : TxHS) (size : Nat) : Nat → Nat → Nat → Nat × List Nat
  | 0, idx, _ => (idx, [])
  | fuel+1, idx, room =>
    if room = 0 ∨ size ≤ idx then (idx, []) else
    match S.getDataAt idx with
    | some c =>
      let r := elemLoop S size fuel (idx+1) (room-1)
      (r.1, c :: r.2)
    | none => elemLoop S size fuel (idx+1) room

/-- the upper bound of the loop: nothing exists beyond the size of the MMR, whatever bound the
caller asks for (`min(max_pmmr_pos1, self.size)`; before repair 565fae636 the requested bound itself) -/
def enumBound (S : TxHS) (maxIdx : Option Nat) : Nat :=
  match maxIdx with
  | some p => min p S.mmrSize
  | none => S.mmrSize

/-- `ReadonlyPMMR::elements_from_pmmr_index(pmmr_index1, max_count, max_pmmr_pos1)` -/
def elementsFromPmmrIndex (S : TxHS) (start maxCount : Nat) (maxIdx : Option Nat) : Nat × List Nat :=
  let size := S.enumBound maxIdx
  let idx := start - 1
  elemLoop S size (size - idx) idx maxCount

/-- `Chain::unspent_outputs_by_pmmr_index`: (last position looked at, the bound that was used,
the unspent outputs). Output and range-proof MMR share positions and leaf set, so the
"sets don't match" error cannot arise in the model. -/
def unspentOutputsByPmmrIndex (S : TxHS) (start maxCount : Nat) (maxIdx : Option Nat) :
    Nat × Nat × List Nat :=
  let r := S.elementsFromPmmrIndex start maxCount maxIdx
  (r.1, maxIdx.getD S.mmrSize, r.2)

/-- `Chain::get_unspent` as reported: (1-based MMR position, creation height) -/
def getUnspentPos (S : TxHS) (c : Nat) : Option (Nat × Nat) :=
  (S.getUnspent c).map fun cp => (mmr cp.pos + 1, cp.height)

/-- `UTXOView::get_unspent_output_at(pos0)` -/
def getUnspentOutputAt (S : TxHS) (pos0 : Nat) : Except Err Nat :=
  match S.getDataAt pos0 with
  | some c => .ok c
  | none => .error "OutputNotFound"

/-- the unspent leaves in position order: (0-based MMR position, commitment) -/
def unspentByPos (S : TxHS) : List (Nat × Nat) :=
  (List.range S.leaves.length).filterMap fun i => (S.getData i).map fun c => (mmr i, c)

end TxHS

/-- the header MMR as `Chain::get_header_hash_by_height` reads it: the block at `height` on the
path to the HEADER head -/
def Node.headerAtHeight (n : Node) (height : Nat) : Option Blk :=
  match n.path n.hhead with
  | some p => p[height]?
  | none => none

/-- `Chain::get_header_for_output` -/
def headerForOutput (n : Node) (S : TxHS) (c : Nat) : Except Err Nat :=
  match S.getUnspent c with
  | none => .error "OutputNotFound"
  | some cp =>
    match n.headerAtHeight cp.height with
    | some b => .ok b.id
    | none => .error "StoreErr"

/-- number of output leaves up to and including a block, along its own path -/
def leavesUpTo (n : Node) (id : Nat) : Nat :=
  match n.path id with
  | some p => (p.map (fun b => b.outs.length)).foldl (· + ·) 0
  | none => 0

/-- `Chain::get_header_by_height` with its errors: `PMMRHandle::get_header_hash_by_height` refuses
`height >= self.size` - the SIZE of the header MMR in positions, not its number of headers - with
`InvalidHeaderHeight`; between the number of headers and that size the position asked for lies
beyond the MMR and `get_data` finds nothing (`Other`) -/
def headerAtHeightE (n : Node) (height : Nat) : Except Err Blk :=
  match n.path n.hhead with
  | some p =>
    if height ≥ mmr p.length then .error "InvalidHeaderHeight" else
    match p[height]? with
    | some b => .ok b
    | none => .error "Other"
  | none => .error "StoreErr"

/-- `Chain::block_height_range_to_pmmr_indices(start, end)`: the headers come from the header MMR
(also when the header head is on another fork than the body head, or ahead of it);
`output_mmr_size` of an accepted header is the size of the MMR after its block; `end = None` is the
height of the BODY head (`head_header()`), looked up in the HEADER MMR like the others -/
def heightRangeToPmmr (n : Node) (startH : Nat) (endH : Option Nat)
    (claimed : Nat → Option Nat := fun _ => none) : Except Err (Nat × Nat) :=
  let endH := endH.getD (n.heightOf n.head)
  -- `output_mmr_size` is read from the HEADER: what it claims (`claimed`, leaf count per block id,
  -- when the driver knows it) - a header in the header MMR need not belong to a valid block
  let sizeAt (h : Nat) : Except Err Nat :=
    match headerAtHeightE n h with
    | .ok b => .ok (mmr ((claimed b.id).getD (leavesUpTo n b.id)))
    | .error e => .error e
  let start : Except Err Nat :=
    if startH = 0 then .ok 0 else
    match sizeAt (startH - 1) with
    | .ok s => .ok (s + 1)
    | .error e => .error e
  match start with
  | .error e => .error e
  | .ok s =>
    match sizeAt endH with
    | .ok e => .ok (s, e)
    | .error e => .error e

/-- `txhashset::input_pos_to_rewind(horizon_header, head_header)` (chain/src/txhashset/txhashset.rs),
the bitmap `TxHashSet::compact` hands to the backends as "spent above the horizon, keep for a
rewind": the walk goes from the head down to - and excluding - the horizon header along
`get_previous_header`, OR-ing `get_block_input_bitmap` (= the positions of the block's spent index,
chain/src/store.rs) of every block that HAS a spent-index record (`if let Ok`); 1-based MMR
positions. Blocks that are not on the head's own path are never visited. -/
def inputPosToRewind (n : Node) (S : TxHS) (horizonHeight : Nat) : List Nat :=
  match n.path n.head with
  | none => []
  | some p =>
    ((p.filter fun b => decide (b.h > horizonHeight)).reverse).flatMap fun b =>
      match S.getSpentIndex b.id with
      | some l => l.map fun cp => mmr cp.pos + 1
      | none => []

end GV.Chain
