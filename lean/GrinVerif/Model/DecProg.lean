import GrinVerif.Model.SerDb
/-! # Decoders as programs over the `Reader` trait, run by the three readers

A decoder is a program over the methods of `trait Reader` (continuation style: `read_u8`, `read_u16`,
`read_u32`, `read_u64`, `read_fixed_bytes(len)`, `read_bytes_len_prefix`, fail, return), interpreted by
each of the three `Reader` implementations of `core/src/ser.rs`. The implementations differ in ONE
place at this level - `StreamingReader::read_fixed_bytes` has no 100 000 cap - so agreement of the three
readers is one theorem about the interpreter (`Props/C11Prog.lean`: `buf_eq_bin`, `stream_eq_bin_of_capped`),
instantiated by writing a decoder as a `Prog`. A start: `CommitPos`, `SizeEntry`, `BlockSums`, the
list-wrapper variants and a length-prefixed string are written this way and tied to the plain models
(`run .bin p = dec…`). `read_empty_bytes` is not a constructor: it is the trait's default, a program over
`u8` (`emptyBytes`), the same for every reader by construction. -/
namespace GV.DecProg
open GV GV.Ser GV.SerDb

inductive Rdr3 | bin | buf | stream
deriving DecidableEq, Repr

inductive Prog (α : Type) : Type
  | pure (a : α)
  | fail (e : SerErr)
  | u8 (k : Nat → Prog α)
  | u16 (k : Nat → Prog α)
  | u32 (k : Nat → Prog α)
  | u64 (k : Nat → Prog α)
  | fixed (len : Nat) (k : Bytes → Prog α)
  | lenPrefix (k : Bytes → Prog α)

/-- `read_fixed_bytes(len)` of each reader (value / rest / error kind) -/
def readFixedR : Rdr3 → Nat → Parser Bytes
  | .stream, len => fun bs =>
    match splitExact len bs with
    | some (x, r) => .ok (x, r)
    | none => .error .ioEof
  | _, len => readFixed len

def run {α : Type} (rd : Rdr3) : Prog α → Parser α
  | .pure a, bs => .ok (a, bs)
  | .fail e, _ => .error e
  | .u8 k, bs => match readU8 bs with
    | .ok (x, r) => run rd (k x) r
    | .error e => .error e
  | .u16 k, bs => match readU16 bs with
    | .ok (x, r) => run rd (k x) r
    | .error e => .error e
  | .u32 k, bs => match readU32 bs with
    | .ok (x, r) => run rd (k x) r
    | .error e => .error e
  | .u64 k, bs => match readU64 bs with
    | .ok (x, r) => run rd (k x) r
    | .error e => .error e
  | .fixed len k, bs => match readFixedR rd len bs with
    | .ok (x, r) => run rd (k x) r
    | .error e => .error e
  | .lenPrefix k, bs => match readU64 bs with
    | .ok (len, r) =>
      (match readFixedR rd len r with
       | .ok (x, r') => run rd (k x) r'
       | .error e => .error e)
    | .error e => .error e

/-- "within the caps": along the run of the capped readers no `read_fixed_bytes` asks for more than 100 000 -/
def capped {α : Type} : Prog α → Bytes → Bool
  | .pure _, _ => true
  | .fail _, _ => true
  | .u8 k, bs => match readU8 bs with
    | .ok (x, r) => capped (k x) r
    | .error _ => true
  | .u16 k, bs => match readU16 bs with
    | .ok (x, r) => capped (k x) r
    | .error _ => true
  | .u32 k, bs => match readU32 bs with
    | .ok (x, r) => capped (k x) r
    | .error _ => true
  | .u64 k, bs => match readU64 bs with
    | .ok (x, r) => capped (k x) r
    | .error _ => true
  | .fixed len k, bs => decide (len ≤ MAX_FIXED_READ) && (match readFixed len bs with
    | .ok (x, r) => capped (k x) r
    | .error _ => true)
  | .lenPrefix k, bs => match readU64 bs with
    | .ok (len, r) => decide (len ≤ MAX_FIXED_READ) && (match readFixed len r with
      | .ok (x, r') => capped (k x) r'
      | .error _ => true)
    | .error _ => true

/-- every `fixed` length in the program is a constant within the cap and there is no length prefix:
then the program is within the caps on EVERY input -/
def constLens {α : Type} : Prog α → Prop
  | .pure _ => True
  | .fail _ => True
  | .u8 k => ∀ x, constLens (k x)
  | .u16 k => ∀ x, constLens (k x)
  | .u32 k => ∀ x, constLens (k x)
  | .u64 k => ∀ x, constLens (k x)
  | .fixed len k => len ≤ MAX_FIXED_READ ∧ ∀ x, constLens (k x)
  | .lenPrefix _ => False

/-! ## decoders as programs -/

/-- the trait's default `read_empty_bytes(n)`, then `k` -/
def emptyBytes {α : Type} : Nat → Prog α → Prog α
  | 0, k => k
  | n+1, k => .u8 fun b => if b ≠ 0 then .fail .corrupted else emptyBytes n k

def commitPosP : Prog CommitPos := .u64 fun p => .u64 fun h => .pure { pos := p, height := h }
def sizeEntryP : Prog SizeEntry := .u64 fun o => .u16 fun s => .pure { offset := o, size := s }
def blockSumsP : Prog BlockSums :=
  .fixed COMMIT_SIZE fun u => .fixed COMMIT_SIZE fun k => .pure { utxoSum := u, kernelSum := k }
def nrdListP : Prog (ListWrapper CommitPos) :=
  .u8 fun t =>
    if t = 0 then .u64 fun p => .u64 fun h => .pure (.single { pos := p, height := h })
    else if t = 1 then .u64 fun a => .u64 fun b => .pure (.multi a b)
    else .fail .corrupted
/-- a length-prefixed byte string (`read_bytes_len_prefix`): the one shape where the readers can differ -/
def bytesP : Prog Bytes := .lenPrefix fun b => .pure b

/-! ### network payloads (`p2p/src/msg.rs`) -/

/-- `Ping` / `Pong` -/
def pingPongP : Prog GV.SerMsg.PingPong :=
  .u64 fun td => .u64 fun h => .pure { totalDifficulty := td, height := h }

/-- `TxHashSetRequest` -/
def txHashSetRequestP : Prog GV.SerMsg.TxHashSetRequest :=
  .fixed HASH_SIZE fun h => .u64 fun height => .pure { hash := h, height := height }

/-- `TxHashSetArchive` -/
def txHashSetArchiveP : Prog GV.SerMsg.TxHashSetArchive :=
  .fixed HASH_SIZE fun h => .u64 fun height => .u64 fun bytes => .pure { hash := h, height := height, bytes := bytes }

end GV.DecProg
